// C02: the binary protocol round-trips every wire value byte-exactly per the
// Thrift specification (reference: verif/internal/refcodec).
package c02

import (
	"bytes"
	"encoding/json"
	"fmt"
	"testing"

	"go.uber.org/thriftrw/protocol/binary"
	"go.uber.org/thriftrw/wire"
	"pgregory.net/rapid"
	"verif/internal/bridge"
	"verif/internal/chunkio"
	"verif/internal/ev"
	"verif/internal/refcodec"
	wm "verif/internal/wiremodel"
)

func TestMain(m *testing.M) { ev.Main(m, "C02") }

// Case is one C02 case.
type Case struct {
	W    wm.W         `json:"w"`
	Plan chunkio.Plan `json:"plan"`
}

func firstDiff(a, b []byte) int {
	n := len(a)
	if len(b) < n {
		n = len(b)
	}
	for i := 0; i < n; i++ {
		if a[i] != b[i] {
			return i
		}
	}
	return n
}

// interleaved is an unrelated message with a list, a set and a map, decoded between two uses of a value.
var interleaved = refcodec.Encode(interleavedW)

var interleavedW = wm.Struct(
	wm.Field{ID: 1, V: wm.List(wm.KI32, wm.I32(7), wm.I32(8), wm.I32(9))},
	wm.Field{ID: 2, V: wm.Set(wm.KBinary, wm.Binary([]byte("other")))},
	wm.Field{ID: 3, V: wm.Map(wm.KI64, wm.KBool, wm.Pair{K: wm.I64(1), V: wm.Bool(true)})},
)

// checkCase is the oracle. It returns nil or a keyed verdict.
func checkCase(c Case) error {
	w := c.W
	ref := refcodec.Encode(w)

	// reference self-check: the independent decoder inverts the independent encoder
	if back, n, err := refcodec.Decode(w.K, ref); err != nil || n != len(ref) || !wm.Equal(back, w) {
		return ev.Errf("harness/refcodec-self", "refcodec does not invert itself: err=%v n=%d/%d", err, n, len(ref))
	}

	// (1) value-based encoder == spec bytes
	var buf bytes.Buffer
	if err := binary.Default.Encode(bridge.ToWire(w), &buf); err != nil {
		return ev.Errf("encode/error", "Encode failed on a well-typed value: %v", err)
	}
	if !bytes.Equal(buf.Bytes(), ref) {
		return ev.Errf("encode/bytes/"+w.K.String(), "Encode differs from spec bytes at offset %d (got %d bytes, want %d)", firstDiff(buf.Bytes(), ref), buf.Len(), len(ref))
	}

	// (2) streaming writer == spec bytes
	var sbuf bytes.Buffer
	sw := binary.Default.Writer(&sbuf)
	if err := bridge.StreamWrite(sw, w); err != nil {
		return ev.Errf("stream-write/error", "stream writer failed: %v", err)
	}
	if err := sw.Close(); err != nil {
		return ev.Errf("stream-write/close", "stream writer Close: %v", err)
	}
	if !bytes.Equal(sbuf.Bytes(), ref) {
		return ev.Errf("stream-write/bytes/"+w.K.String(), "stream writer differs from spec bytes at offset %d (got %d bytes, want %d)", firstDiff(sbuf.Bytes(), ref), sbuf.Len(), len(ref))
	}

	// (2b) writers are independent of each other: a stream writer left open while a value is
	// encoded, and while a second stream writer is opened and used, still delivers exactly its own
	// bytes to its own destination
	var b1, b2, b3 bytes.Buffer
	sw1 := binary.Default.Writer(&b1)
	if err := binary.Default.Encode(bridge.ToWire(w), &b3); err != nil {
		return ev.Errf("encode/error", "Encode failed on a well-typed value: %v", err)
	}
	sw2 := binary.Default.Writer(&b2)
	err1 := ev.Guard(func() error { return bridge.StreamWrite(sw1, w) })
	err2 := ev.Guard(func() error { return bridge.StreamWrite(sw2, interleavedW) })
	if err1 == nil {
		err1 = sw1.Close()
	}
	if err2 == nil {
		err2 = sw2.Close()
	}
	if err1 != nil || err2 != nil {
		return ev.Errf("stream-write/interleaved/error", "two stream writers open at the same time: %v / %v", err1, err2)
	}
	if !bytes.Equal(b1.Bytes(), ref) || !bytes.Equal(b2.Bytes(), interleaved) || !bytes.Equal(b3.Bytes(), ref) {
		return ev.Errf("stream-write/interleaved/bytes", "two stream writers open at the same time (and a value encoded in between): destinations received %d / %d / %d bytes, want %d / %d / %d", b1.Len(), b2.Len(), b3.Len(), len(ref), len(interleaved), len(ref))
	}

	// (3) random-access decoder inverts, consuming everything
	rd := binary.NewReader(bytes.NewReader(ref))
	v, off, err := rd.ReadValue(wire.Type(w.K), 0)
	if err != nil {
		return ev.Errf("decode/error", "ReadValue failed on a valid encoding: %v", err)
	}
	if off != int64(len(ref)) {
		return ev.Errf("decode/offset", "ReadValue returned offset %d, encoding has %d bytes", off, len(ref))
	}
	got, err := bridge.FromWire(v)
	if err != nil {
		return ev.Errf("decode/force-error", "forcing the decoded value failed: %v", err)
	}
	if !wm.Equal(got, w) {
		return ev.Errf("decode/value/"+w.K.String(), "decoded value differs: got %s want %s", wm.Render(got), wm.Render(w))
	}
	// Protocol.Decode entry point as well
	v2, err := binary.Default.Decode(bytes.NewReader(ref), wire.Type(w.K))
	if err != nil {
		return ev.Errf("decode/error", "Decode failed on a valid encoding: %v", err)
	}
	got2, err := bridge.FromWire(v2)
	if err != nil || !wm.Equal(got2, w) {
		return ev.Errf("decode/value/"+w.K.String(), "Protocol.Decode value differs (err=%v): got %s want %s", err, wm.Render(got2), wm.Render(w))
	}

	// (3b) a decoded value is a well-typed wire value like any other: encoding it gives the spec
	// bytes, as often as asked and whatever is decoded in between (the encoder does not own the
	// value: the caller may go on using it), and it can still be read afterwards
	v3, err := binary.Default.Decode(bytes.NewReader(ref), wire.Type(w.K))
	if err != nil {
		return ev.Errf("decode/error", "Decode failed on a valid encoding: %v", err)
	}
	for round := 0; round < 2; round++ {
		var rb bytes.Buffer
		if err := ev.Guard(func() error { return binary.Default.Encode(v3, &rb) }); err != nil {
			return ev.Errf("reencode/error", "encoding a decoded value (time %d) failed: %v", round+1, err)
		}
		if !bytes.Equal(rb.Bytes(), ref) {
			return ev.Errf("reencode/bytes/"+w.K.String(), "encoding a decoded value (time %d) differs from spec bytes at offset %d (got %d bytes, want %d)", round+1, firstDiff(rb.Bytes(), ref), rb.Len(), len(ref))
		}
		if ov, err := binary.Default.Decode(bytes.NewReader(interleaved), wire.TStruct); err == nil {
			bridge.FromWire(ov)
		}
	}
	if got3, err := bridge.FromWire(v3); err != nil || !wm.Equal(got3, w) {
		return ev.Errf("reencode/value-after/"+w.K.String(), "a decoded value read after it was encoded twice differs (err=%v): got %s want %s", err, wm.Render(got3), wm.Render(w))
	}

	// (4) streaming reader under the drawn segmentation inverts, consuming everything
	r := chunkio.New(ref, c.Plan)
	sr := binary.Default.Reader(r)
	sgot, err := bridge.StreamRead(sr, w.K)
	sr.Close()
	if err != nil {
		return ev.Errf("stream-read/error", "stream reader failed on a valid encoding (%s): %v", c.Plan.Class(), err)
	}
	if !wm.Equal(sgot, w) {
		return ev.Errf("stream-read/value/"+w.K.String(), "stream reader value differs (%s): got %s want %s", c.Plan.Class(), wm.Render(sgot), wm.Render(w))
	}
	if p := chunkio.PosOf(r); p != len(ref) {
		return ev.Errf("stream-read/consumed", "stream reader consumed %d of %d bytes", p, len(ref))
	}
	return nil
}

func record(unit string, c Case) {
	ref := refcodec.Encode(c.W)
	d := ev.Digest(ref, []byte{byte(c.W.K)})
	nontriv := wm.HasNonEmptyContainer(c.W)
	depth := wm.Depth(c.W)
	cls := []string{"kind:" + c.W.K.String(), c.Plan.Class(), fmt.Sprintf("depth:%d", depth)}
	if len(ref) > 1<<20 {
		cls = append(cls, "big-binary(>1MiB)")
	}
	if len(ref) > 2<<20 {
		cls = append(cls, "several-big-binaries")
	}
	ev.Case(d, nontriv, cls...)
	if nontriv {
		ev.KeepSample(unit, d, func() interface{} {
			return map[string]interface{}{"value": wm.Render(c.W), "encoded_len": len(ref), "plan": c.Plan.Class()}
		})
	}
}

func run(t ev.TB, unit string, c Case) {
	record(unit, c)
	ev.Report(t, unit, c, ev.Guard(func() error { return checkCase(c) }))
}

// TestSmallExhaustive walks a finite space of small shapes completely.
func TestSmallExhaustive(t *testing.T) {
	ids := []int16{1, -32768}
	plans := []chunkio.Plan{{}, {Rest: 1}, {Rest: 3, Seekable: true}}
	type space struct {
		depth, maxLen int
		kinds         []wm.Kind
	}
	spaces := []space{
		{1, 2, wm.AllKinds},
		{2, 1, []wm.Kind{wm.KI8, wm.KBinary, wm.KStruct, wm.KMap, wm.KList}},
		{2, 2, []wm.Kind{wm.KBool, wm.KBinary, wm.KStruct, wm.KSet}},
		{3, 1, []wm.Kind{wm.KI16, wm.KStruct, wm.KList, wm.KMap}},
	}
	total := 0
	for _, sp := range spaces {
		n := 0
		for _, k := range wm.AllKinds {
			wm.Small(k, sp.depth, sp.maxLen, sp.kinds, ids, func(w wm.W) {
				run(t, "small", Case{W: w, Plan: plans[n%len(plans)]})
				n++
			})
		}
		name := fmt.Sprintf("small-shapes(root: 11 kinds; depth<=%d; len<=%d; child kinds %v)", sp.depth, sp.maxLen, sp.kinds)
		ev.Exhaustive(name, true)
		ev.Note(name, fmt.Sprintf("%d trees", n))
		total += n
	}
	ev.Note("small-shapes-total", fmt.Sprintf("%d trees enumerated", total))
}

// TestRandom draws large random shapes.
func TestRandom(t *testing.T) {
	rapid.Check(t, func(t *rapid.T) {
		k := wm.GenRootKind().Draw(t, "kind")
		w := wm.Gen(t, k, wm.GenOpts{BigBinary: true, MaxDepth: rapid.IntRange(1, 6).Draw(t, "maxdepth")}, "w")
		if rapid.IntRange(0, 149).Draw(t, "several_big") == 0 {
			// several large binaries with different contents in one value (list and struct fields)
			n := rapid.IntRange(2, 3).Draw(t, "nbig")
			var bigs []wm.W
			for i := 0; i < n; i++ {
				b := make([]byte, (1<<20)+rapid.IntRange(1, 4096).Draw(t, "biglen"))
				x := uint32(rapid.IntRange(1, 1<<20).Draw(t, "bigseed"))
				for j := range b {
					x = x*1664525 + 1013904223
					b[j] = byte(x >> 24)
				}
				bigs = append(bigs, wm.Binary(b))
			}
			if rapid.Bool().Draw(t, "big_as_list") {
				w = wm.List(wm.KBinary, bigs...)
			} else {
				w = wm.Struct()
				for i, b := range bigs {
					w.Fields = append(w.Fields, wm.Field{ID: int16(i + 1), V: b})
				}
			}
		}
		run(t, "random", Case{W: w, Plan: chunkio.GenPlan(t, "plan")})
	})
}

func replayOne(t *testing.T, f *ev.Failure) bool {
	var c Case
	if err := json.Unmarshal(f.Case, &c); err != nil {
		t.Fatalf("bad replay case: %v", err)
	}
	ev.Report(t, f.Unit, c, ev.Guard(func() error { return checkCase(c) }))
	return true
}

func TestReplay(t *testing.T)  { ev.RunReplay(t, replayOne) }
func TestRegress(t *testing.T) { ev.RunRegress(t, replayOne) }
