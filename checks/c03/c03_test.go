// C03: decoders are total and canonical on arbitrary bytes.
package c03

import (
	"bytes"
	"encoding/json"
	"fmt"
	"testing"
	"time"

	"go.uber.org/thriftrw/protocol/binary"
	"go.uber.org/thriftrw/wire"
	"pgregory.net/rapid"
	"verif/internal/bridge"
	"verif/internal/chunkio"
	"verif/internal/ev"
	"verif/internal/mutate"
	"verif/internal/refcodec"
	wm "verif/internal/wiremodel"
)

func TestMain(m *testing.M) { ev.Main(m, "C03") }

// Case is one C03 case: bytes, the requested wire type, and a segmentation for
// the streaming reader.
type Case struct {
	Input []byte       `json:"input"`
	Type  byte         `json:"type"`
	Plan  chunkio.Plan `json:"plan"`
	Ops   []mutate.Op  `json:"ops,omitempty"`
	Src   string       `json:"src"`
	// Big, when set, stands for the input (kept out of the JSON): a struct whose fields 1..n are
	// binaries of the given lengths filled with 'a', 'b', ... followed by Tail raw bytes
	Big  []int  `json:"big,omitempty"`
	Tail []byte `json:"tail,omitempty"`
	// At is the io.ReaderAt the random-access decoder is given (zero value: *bytes.Reader):
	// its concrete type, and whether it reports io.EOF together with the last bytes of the
	// input or only on the next call (the io.ReaderAt contract allows both; short reads it forbids)
	At chunkio.AtPlan `json:"at"`
}

// materialize builds the input of a symbolic (Big) case.
func (c *Case) materialize() {
	if len(c.Big) == 0 || len(c.Input) > 0 {
		return
	}
	var fs []wm.Field
	for i, n := range c.Big {
		fs = append(fs, wm.Field{ID: int16(i + 1), V: wm.Binary(bytes.Repeat([]byte{byte('a' + i)}, n))})
	}
	c.Input = append(refcodec.Encode(wm.Struct(fs...)), c.Tail...)
}

// slim returns the case as it is stored in replay files.
func (c Case) slim() Case {
	if len(c.Big) > 0 {
		c.Input = nil
	}
	return c
}

// outcome of one checkCase, for classification
type outcome struct {
	raAccepted, stAccepted bool
	refAccepted            bool
	consumed               int
	tree                   wm.W
}

const hangLimit = 60 * time.Second

// withWatchdog runs f; if it does not return within hangLimit the case is
// re-tried alone twice more (the machine may be loaded) before it counts.
func withWatchdog(f func() error) error {
	for attempt := 0; ; attempt++ {
		done := make(chan error, 1)
		go func() { done <- ev.Guard(f) }()
		select {
		case err := <-done:
			return err
		case <-time.After(hangLimit * time.Duration(attempt+1)):
			if attempt >= 2 {
				return ev.Errf("hang", "decode/skip did not terminate within %v on a %s input", hangLimit*3, "small")
			}
		}
	}
}

func checkCase(c Case, out *outcome) error {
	in := c.Input
	t := wire.Type(c.Type)
	k := wm.Kind(c.Type)

	// ---- random-access decoder -------------------------------------------------
	rd := binary.NewReader(chunkio.NewAt(in, c.At))
	v, off, err := rd.ReadValue(t, 0)
	var raTree wm.W
	raOK := false
	if err == nil {
		raTree, err = bridge.FromWire(v) // forces (and closes) every lazy container
		if err == nil {
			raOK = true
		}
	}
	// wire.EvaluateValue is the library's own way of forcing a decoded value: it accepts exactly
	// the inputs whose containers can all be read (the harness's element-by-element forcing above)
	if v3, _, err3 := rd.ReadValue(t, 0); err3 == nil {
		everr := wire.EvaluateValue(v3)
		if (everr == nil) != raOK {
			return ev.Errf("ra/evaluate-disagrees/"+k.String(), "wire.EvaluateValue err=%v, but reading every lazily decoded container element by element succeeds=%v", everr, raOK)
		}
	}
	if raOK {
		out.raAccepted, out.consumed, out.tree = true, int(off), raTree
		if off < 0 || off > int64(len(in)) {
			return ev.Errf("ra/offset-out-of-input", "ReadValue+force succeeded but reports offset %d on a %d-byte input", off, len(in))
		}
		// canonical: re-encoding reproduces the consumed prefix. The value is
		// decoded afresh because forcing released the lazy containers.
		v2, _, err2 := rd.ReadValue(t, 0)
		if err2 != nil {
			return ev.Errf("ra/nondeterministic", "second ReadValue of the same input failed: %v", err2)
		}
		var buf bytes.Buffer
		if err := binary.Default.Encode(v2, &buf); err != nil {
			return ev.Errf("ra/reencode-error", "re-encoding a successfully decoded value failed: %v", err)
		}
		if !bytes.Equal(buf.Bytes(), in[:off]) {
			return ev.Errf("ra/not-canonical/"+k.String(), "re-encoding differs from the consumed prefix (%d bytes consumed, %d produced)", off, buf.Len())
		}
		// and the reference encoder agrees on the forced tree
		if !bytes.Equal(refcodec.Encode(raTree), in[:off]) {
			return ev.Errf("ra/tree-not-canonical/"+k.String(), "reference encoding of the forced tree differs from the consumed prefix")
		}
	}

	// ---- streaming reader under the drawn segmentation -----------------------
	r, rpos := chunkio.Open(in, c.Plan)
	sr := binary.Default.Reader(r)
	sTree, sErr := bridge.StreamRead(sr, k)
	sr.Close()
	sConsumed := rpos() // as the owner of the reader observes it
	if sErr == nil {
		out.stAccepted = true
		if !out.raAccepted {
			out.consumed, out.tree = sConsumed, sTree
		}
		if sConsumed > len(in) {
			return ev.Errf("stream/consumed-out-of-input", "stream reader reports success after consuming %d of %d bytes", sConsumed, len(in))
		}
		var sb bytes.Buffer
		sw := binary.Default.Writer(&sb)
		if err := bridge.StreamWrite(sw, sTree); err != nil {
			return ev.Errf("stream/reencode-error", "stream re-encode failed: %v", err)
		}
		sw.Close()
		if !bytes.Equal(sb.Bytes(), in[:sConsumed]) {
			return ev.Errf("stream/not-canonical/"+k.String(), "stream re-encoding differs from the consumed prefix (%d consumed, %d produced; %s)", sConsumed, sb.Len(), c.Plan.Class())
		}
	}
	// Both decoders, when both succeed, must agree (same bytes => same value).
	if raOK && sErr == nil {
		if int(off) != sConsumed || !wm.Equal(raTree, sTree) {
			return ev.Errf("ra-vs-stream/"+k.String(), "random-access consumed %d and got %s; stream consumed %d and got %s", off, wm.Render(raTree), sConsumed, wm.Render(sTree))
		}
	}

	// ---- skip agrees with decode ------------------------------------------------
	if raOK || sErr == nil {
		want := sConsumed
		if raOK {
			want = int(off)
		}
		for _, p := range skipPlans(c.Plan) {
			rr, rrpos := chunkio.Open(in, p)
			ssr := binary.Default.Reader(rr)
			err := ssr.Skip(t)
			pos := rrpos() // position as the reader's owner observes it
			ssr.Close()
			kind := "stream"
			if p.IsSeeker() {
				kind = "seek"
			}
			if err != nil {
				return ev.Errf("skip/"+kind+"/error/"+k.String(), "decode succeeded (consumed %d) but Skip failed (%s): %v", want, p.Class(), err)
			}
			if pos != want {
				return ev.Errf("skip/"+kind+"/length/"+k.String(), "decode consumed %d bytes (random-access over %s: %v) but Skip consumed %d (%s)", want, c.At.Class(), raOK, pos, p.Class())
			}
		}
	} else {
		// totality of Skip on rejected inputs: must return, value irrelevant
		for _, p := range skipPlans(c.Plan) {
			ssr := binary.Default.Reader(chunkio.New(in, p))
			_ = ssr.Skip(t)
			ssr.Close()
		}
	}

	// differential statistic only: does the strict reference decoder accept?
	if k.Valid() {
		if _, _, err := refcodec.Decode(k, in); err == nil {
			out.refAccepted = true
		}
	}
	return nil
}

// skipPlans: Skip is tried over the drawn segmentation without and with Seek,
// and over the drawn concrete source type if there is one.
func skipPlans(plan chunkio.Plan) []chunkio.Plan {
	p := plan
	p.Src, p.Seekable = "", false
	q := p
	q.Seekable = true
	ps := []chunkio.Plan{p, q}
	if plan.Src != "" {
		ps = append(ps, plan)
	}
	return ps
}

func run(t ev.TB, unit string, c Case) {
	c.materialize()
	var out outcome
	err := withWatchdog(func() error { return checkCase(c, &out) })
	// classification
	acc := "rejected-by-both"
	switch {
	case out.raAccepted && out.stAccepted:
		acc = "accepted-by-both"
	case out.raAccepted:
		acc = "accepted-ra-only"
	case out.stAccepted:
		acc = "accepted-stream-only"
	}
	cls := []string{"src:" + c.Src, "outcome:" + acc, "type:" + wm.Kind(c.Type).String(), c.Plan.Class(), c.At.Class()}
	edited := false
	for _, op := range c.Ops {
		cls = append(cls, "mut:"+op.Kind+"/"+acc)
		if op.Kind == "len" || op.Kind == "type" {
			edited = true
		}
	}
	if out.refAccepted != (out.raAccepted || out.stAccepted) {
		cls = append(cls, fmt.Sprintf("diff:refcodec-accepts=%v,thriftrw-accepts=%v", out.refAccepted, out.raAccepted || out.stAccepted))
	}
	nontriv := edited || ((out.raAccepted || out.stAccepted) && wm.HasNonEmptyContainer(out.tree))
	d := ev.Digest(c.Input, []byte{c.Type})
	ev.Case(d, nontriv, cls...)
	if nontriv {
		ev.KeepSample(unit, d, func() interface{} {
			m := map[string]interface{}{"input_hex": fmt.Sprintf("%x", clip(c.Input, 64)), "input_len": len(c.Input), "type": wm.Kind(c.Type).String(), "outcome": acc, "plan": c.Plan.Class(), "readerat": c.At.Class()}
			if len(c.Ops) > 0 {
				m["mutations"] = fmt.Sprint(c.Ops)
			}
			if out.raAccepted || out.stAccepted {
				m["decoded"] = wm.Render(out.tree)
				m["consumed"] = out.consumed
			}
			return m
		})
	}
	ev.Report(t, unit, c.slim(), err)
}

// TestBigBinaries: valid messages with several binaries on both sides of the 1 MiB threshold of
// the streaming reader (above it the reader grows its buffer instead of trusting the declared
// length), decoded by both readers under the drawn segmentation, re-encoded and skipped like
// every other input. A few fixed shapes per run plus drawn lengths.
func TestBigBinaries(t *testing.T) {
	const mib = 1 << 20
	rapid.Check(t, func(t *rapid.T) {
		n := rapid.IntRange(1, 3).Draw(t, "nbig")
		var sizes []int
		for i := 0; i < n; i++ {
			sizes = append(sizes, rapid.SampledFrom([]int{mib - 1, mib, mib + 1, mib + 4096, mib + mib/2}).Draw(t, "size"))
		}
		c := Case{Type: byte(wm.KStruct), Plan: chunkio.GenSrcPlan(t, "plan"), At: chunkio.GenAtPlan(t, "at"), Src: "big-binaries", Big: sizes}
		if rapid.Bool().Draw(t, "trailing") {
			c.Tail = rapid.SliceOfN(rapid.Byte(), 1, 8).Draw(t, "trail")
		}
		run(t, "big-binaries", c)
	})
}

func clip(b []byte, n int) []byte {
	if len(b) > n {
		return b[:n]
	}
	return b
}

var requestTypes = []byte{2, 3, 4, 6, 8, 10, 11, 12, 13, 14, 15, 0, 1, 16, 0xff}

func genType(t *rapid.T, actual wm.Kind) byte {
	if actual != 0 && rapid.IntRange(0, 3).Draw(t, "same_type") != 0 {
		return byte(actual)
	}
	return rapid.SampledFrom(requestTypes).Draw(t, "req_type")
}

// TestRandomBytes: uniform random bytes (short ones dominate so that headers are hit).
func TestRandomBytes(t *testing.T) {
	rapid.Check(t, func(t *rapid.T) {
		var in []byte
		if rapid.IntRange(0, 9).Draw(t, "long") == 0 {
			in = rapid.SliceOfN(rapid.Byte(), 0, 4096).Draw(t, "bytes")
		} else {
			in = rapid.SliceOfN(rapid.Byte(), 0, 48).Draw(t, "bytes")
		}
		run(t, "random-bytes", Case{Input: in, Type: genType(t, 0), Plan: chunkio.GenSrcPlan(t, "plan"), At: chunkio.GenAtPlan(t, "at"), Src: "random"})
	})
}

// TestMutated: grammar-aware mutations of valid encodings.
func TestMutated(t *testing.T) {
	rapid.Check(t, func(t *rapid.T) {
		k := wm.GenRootKind().Draw(t, "kind")
		w := wm.Gen(t, k, wm.GenOpts{MaxDepth: rapid.IntRange(1, 5).Draw(t, "maxdepth")}, "w")
		c := Case{Type: genType(t, k), Plan: chunkio.GenSrcPlan(t, "plan"), At: chunkio.GenAtPlan(t, "at")}
		if rapid.IntRange(0, 5).Draw(t, "unmutated") == 0 {
			c.Input, c.Src = refcodec.Encode(w), "valid"
			if rapid.Bool().Draw(t, "trailing") {
				c.Input = append(c.Input, rapid.SliceOfN(rapid.Byte(), 1, 8).Draw(t, "trail")...)
				c.Src = "valid+trailing"
			}
		} else {
			c.Input, c.Ops = mutate.Mutate(t, w, "mut")
			c.Src = "mutated"
		}
		run(t, "mutated", c)
	})
}

// TestTruncateEverywhere: every prefix of a valid encoding (complete per value).
func TestTruncateEverywhere(t *testing.T) {
	rapid.Check(t, func(t *rapid.T) {
		k := wm.GenRootKind().Draw(t, "kind")
		w := wm.Gen(t, k, wm.GenOpts{MaxDepth: 3, MaxLen: 3}, "w")
		enc := refcodec.Encode(w)
		if len(enc) > 300 {
			enc = enc[:300]
		}
		plan, at := chunkio.GenSrcPlan(t, "plan"), chunkio.GenAtPlan(t, "at")
		for i := 0; i <= len(enc); i++ {
			run(t, "truncate-all", Case{Input: enc[:i], Type: byte(k), Plan: plan, At: at, Src: "truncated", Ops: []mutate.Op{{Kind: "truncate", Off: i}}})
		}
	})
}

func FuzzReadValue(f *testing.F) {
	seeds := []string{"", "00", "0b00010000000568656c6c6f00", "0f00000000", "0c00000001080001000000010000", "0d0b0000000100000001610000", "7fffffff", "80000000", "ffffffff"}
	for _, s := range seeds {
		var b []byte
		fmt.Sscanf(s, "%x", &b)
		for _, ty := range []byte{12, 13, 14, 15, 11} {
			f.Add(b, ty, byte(1))
		}
	}
	f.Fuzz(func(t *testing.T, in []byte, ty byte, chunk byte) {
		if len(in) > 1<<16 {
			return
		}
		c := Case{Input: in, Type: ty, Plan: chunkio.Plan{Rest: int(chunk % 8)}, Src: "fuzz"}
		if chunk&8 != 0 {
			c.At = chunkio.AtPlan{Src: chunkio.SrcPlainAt, EagerEOF: chunk&16 != 0}
		}
		if chunk&32 != 0 {
			c.Plan.Src = chunkio.StreamSrcs[int(chunk>>6)%len(chunkio.StreamSrcs)]
		}
		var out outcome
		if err := withWatchdog(func() error { return checkCase(c, &out) }); err != nil {
			ev.Report(t, "fuzz", c, err)
		}
	})
}

func replayOne(t *testing.T, f *ev.Failure) bool {
	if f.Unit == "deep-nesting" {
		var dc DeepCase
		if err := json.Unmarshal(f.Case, &dc); err != nil {
			t.Fatalf("bad replay case: %v", err)
		}
		ev.Report(t, f.Unit, dc, runDeep(dc))
		return true
	}
	var c Case
	if err := json.Unmarshal(f.Case, &c); err != nil {
		t.Fatalf("bad replay case: %v", err)
	}
	c.materialize()
	var out outcome
	ev.Report(t, f.Unit, c, withWatchdog(func() error { return checkCase(c, &out) }))
	return true
}

func TestReplay(t *testing.T)  { ev.RunReplay(t, replayOne) }
func TestRegress(t *testing.T) { ev.RunRegress(t, replayOne) }
