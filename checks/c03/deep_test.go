package c03

import (
	"bytes"
	"fmt"
	"os"
	"os/exec"
	"strconv"
	"strings"
	"testing"
	"time"

	"go.uber.org/thriftrw/protocol/binary"
	"go.uber.org/thriftrw/wire"
	"verif/internal/ev"
)

// deepMessage builds a chain of depth nested values.
func deepMessage(shape string, depth int) ([]byte, wire.Type) {
	var b []byte
	switch shape {
	case "struct":
		for i := 0; i < depth; i++ {
			b = append(b, 0x0c, 0, 1)
		}
		for i := 0; i <= depth; i++ {
			b = append(b, 0)
		}
		return b, wire.TStruct
	case "list":
		for i := 0; i < depth; i++ {
			b = append(b, 0x0f, 0, 0, 0, 1)
		}
		b = append(b, 0x02, 0, 0, 0, 0)
		return b, wire.TList
	case "map":
		for i := 0; i < depth; i++ {
			b = append(b, 0x03, 0x0d, 0, 0, 0, 1, 7)
		}
		b = append(b, 0x03, 0x03, 0, 0, 0, 0)
		return b, wire.TMap
	}
	panic("shape")
}

// DeepCase is the replayable form of a deep-nesting probe.
type DeepCase struct {
	Shape string `json:"shape"`
	API   string `json:"api"`
	Depth int    `json:"depth"`
}

// TestChildDeep is the child side: it only runs when VERIF_CHILD_DEEP is set.
func TestChildDeep(t *testing.T) {
	spec := os.Getenv("VERIF_CHILD_DEEP")
	if spec == "" {
		t.Skip("child only")
	}
	parts := strings.Split(spec, ":")
	depth, _ := strconv.Atoi(parts[2])
	msg, typ := deepMessage(parts[0], depth)
	switch parts[1] {
	case "decode":
		v, err := binary.Default.Decode(bytes.NewReader(msg), typ)
		if err == nil {
			// force: EvaluateValue is what generated code effectively does
			err = wire.EvaluateValue(v)
		}
		fmt.Println("CHILD-RESULT err=", err)
	case "skip":
		sr := binary.Default.Reader(bytes.NewReader(msg))
		err := sr.Skip(typ)
		sr.Close()
		fmt.Println("CHILD-RESULT err=", err)
	}
	fmt.Println("CHILD-OK")
}

func runDeep(c DeepCase) error {
	cmd := exec.Command(os.Args[0], "-test.run", "^TestChildDeep$", "-test.v", "-test.timeout", "40m")
	cmd.Env = append(os.Environ(), "VERIF_CHILD_DEEP="+fmt.Sprintf("%s:%s:%d", c.Shape, c.API, c.Depth), "VERIF_STATS=", "VERIF_REPLAY=")
	var out bytes.Buffer
	cmd.Stdout, cmd.Stderr = &out, &out
	if err := cmd.Start(); err != nil {
		return fmt.Errorf("cannot start child: %v", err)
	}
	done := make(chan error, 1)
	go func() { done <- cmd.Wait() }()
	// the ceiling is CPU time of the child (a busy machine must not look like a hang): 4 minutes;
	// 30 minutes of wall time without reaching it end the wait without a verdict
	tick := time.NewTicker(time.Second)
	defer tick.Stop()
	started := time.Now()
wait:
	for {
		select {
		case <-done:
			break wait
		case <-tick.C:
			if childCPU(cmd.Process.Pid) > 4*time.Minute {
				cmd.Process.Kill()
				<-done
				return ev.Errf("deep-nesting/"+c.Shape+"/"+c.API+"/timeout", "child did not finish within 4 minutes of CPU time at depth %d", c.Depth)
			}
			if time.Since(started) > 30*time.Minute {
				cmd.Process.Kill()
				<-done
				ev.Note("deep-nesting", fmt.Sprintf("inconclusive: %s/%s at depth %d made no verdict within 30 minutes of wall time (machine busy)", c.Shape, c.API, c.Depth))
				return nil
			}
		}
	}
	s := out.String()
	if strings.Contains(s, "CHILD-OK") {
		return nil
	}
	if strings.Contains(s, "stack overflow") || strings.Contains(s, "goroutine stack exceeds") {
		return ev.Errf("deep-nesting/"+c.Shape+"/"+c.API+"/stack-overflow", "a %d-deep %s chain (%d-byte message) kills the process with a Go stack overflow in %s (unrecoverable fatal error)", c.Depth, c.Shape, messageLen(c), c.API)
	}
	if strings.Contains(s, "cannot allocate memory") || strings.Contains(s, "out of memory") {
		return fmt.Errorf("child ran out of memory (environment): %s", clipS(s, 500))
	}
	return ev.Errf("deep-nesting/"+c.Shape+"/"+c.API+"/crash", "child died at depth %d: %s", c.Depth, clipS(s, 1500))
}

func messageLen(c DeepCase) int {
	b, _ := deepMessage(c.Shape, c.Depth)
	return len(b)
}

func clipS(s string, n int) string {
	if len(s) > n {
		return s[:n] + "…"
	}
	return s
}

// TestDeepNesting probes recursion depth in a child process: deep but
// well-formed (and truncated) nesting must give a value or an error.
func TestDeepNesting(t *testing.T) {
	depths := []int{1 << 12, 1 << 16, 1 << 20, 1 << 22}
	shapes := []string{"struct"}
	apis := []string{"decode"}
	if ev.Thorough() {
		shapes = []string{"struct", "list", "map"}
		apis = []string{"decode", "skip"}
	}
	for _, shape := range shapes {
		for _, api := range apis {
			for _, d := range depths {
				if shape != "struct" && api == "decode" && d > 1<<12 {
					// Forcing a lazily decoded list or map reads the whole rest of the message at
					// every level: quadratic in the nesting depth (measured: 2^14 levels 12 s,
					// 2^16 levels 3 min of CPU, so 2^20 would take half a day). That terminates, which
					// is all this property asks; it is recorded in DESIGN.md 5 ("not reported") and
					// kept out of the probe, whose ceiling is meant for hangs.
					ev.Class(fmt.Sprintf("deep-skipped:%s/%s/2^%d-quadratic-forcing", shape, api, log2(d)))
					continue
				}
				c := DeepCase{Shape: shape, API: api, Depth: d}
				dg := ev.DigestJSON(c)
				ev.Case(dg, true, "deep:"+shape+"/"+api, fmt.Sprintf("deep-depth:2^%d", log2(d)))
				ev.KeepSample("deep-nesting", dg, func() interface{} { return c })
				err := runDeep(c)
				if _, ok := err.(*ev.CheckErr); err != nil && !ok {
					t.Fatalf("environment: %v", err)
				}
				ev.Report(t, "deep-nesting", c, err)
			}
		}
	}
}

func log2(n int) int {
	k := 0
	for n > 1 {
		n >>= 1
		k++
	}
	return k
}

// childCPU returns the CPU time (user + system) process pid has used so far.
func childCPU(pid int) time.Duration {
	b, err := os.ReadFile(fmt.Sprintf("/proc/%d/stat", pid))
	if err != nil {
		return 0
	}
	st := string(b)
	if i := strings.LastIndexByte(st, ')'); i >= 0 {
		st = st[i+1:]
	}
	f := strings.Fields(st)
	if len(f) < 13 {
		return 0
	}
	ut, _ := strconv.ParseInt(f[11], 10, 64)
	stt, _ := strconv.ParseInt(f[12], 10, 64)
	return time.Duration(ut+stt) * (time.Second / 100)
}
