//go:build verif

// C06: valid programs are accepted; every accepted program yields Go that compiles.
package c06

import (
	"encoding/json"
	"fmt"
	"os"
	"path/filepath"
	"regexp"
	"strconv"
	"strings"
	"testing"

	"pgregory.net/rapid"
	"verif/internal/ev"
	"verif/internal/genlab"
	im "verif/internal/idlmodel"
)

func TestMain(m *testing.M) { ev.Main(m, "C06") }

// Case is one program with its generator options and what the model says about it.
type Case struct {
	ProgID  string          `json:"prog_id"`
	Program *im.Program     `json:"program"`
	Opts    genlab.ProgOpts `json:"opts"`
	Pool    string          `json:"pool"` // safe | hostile
}

func scratch(t testing.TB) string {
	if s := os.Getenv("VERIF_SCRATCH"); s != "" {
		return s
	}
	return t.TempDir()
}

var (
	reIdent  = regexp.MustCompile(`\b[A-Za-z_][A-Za-z0-9_]*\d+[A-Za-z0-9_]*\b`)
	reQual   = regexp.MustCompile(`\b[a-z_][a-z0-9_]*\.[A-Za-z_][A-Za-z0-9_]*\b`)
	reCap    = regexp.MustCompile(`\b_?[A-Z][A-Za-z0-9_]*\b`)
	reNum    = regexp.MustCompile(`\b\d+\b`)
	reQuoted = regexp.MustCompile(`"[^"]*"`)
	rePath   = regexp.MustCompile(`[^\s:]*\.(go|thrift)(:\d+)*:?`)
	reParen  = regexp.MustCompile(`\([^()]*\)`)
)

// classify reduces a diagnostic to a stable key segment: identifiers carrying
// generated numbers, paths, literals are replaced by placeholders.
func classify(msg string) string {
	if strings.Contains(msg, "import cycle not allowed") {
		return "import-cycle-not-allowed"
	}
	line := msg
	for _, l := range strings.Split(msg, "\n") {
		if strings.TrimSpace(l) != "" && !strings.HasPrefix(l, "#") {
			line = l
			break
		}
	}
	line = rePath.ReplaceAllString(line, "")
	line = reQuoted.ReplaceAllString(line, "Q")
	for i := 0; i < 3; i++ {
		line = reParen.ReplaceAllString(line, "")
	}
	line = reQual.ReplaceAllString(line, "X")
	line = reIdent.ReplaceAllString(line, "X")
	line = reCap.ReplaceAllString(line, "X")
	line = reNum.ReplaceAllString(line, "N")
	line = strings.Join(strings.Fields(line), "-")
	line = strings.Map(func(r rune) rune {
		if (r >= 'a' && r <= 'z') || (r >= 'A' && r <= 'Z') || r == '-' || r == '*' {
			return r
		}
		return -1
	}, line)
	if len(line) > 90 {
		line = line[:90]
	}
	if line == "" {
		line = "unclassified"
	}
	return line
}

// genErrStage splits "compile: ..." / "generate: ..." produced by genlab.Generate.
func genErrStage(e string) (string, string) {
	if i := strings.Index(e, ": "); i > 0 && (e[:i] == "compile" || e[:i] == "generate") {
		return e[:i], e[i+2:]
	}
	return "generate", e
}

// rootCause keeps the innermost reason of thriftrw's nested error messages.
func rootCause(e string) string {
	if i := strings.LastIndex(e, ": "); i >= 0 && i+2 < len(e) {
		return e[i+2:]
	}
	return e
}

// judge applies the oracle to the outcome of one program.
func judge(c Case, r genlab.ProgResult, wroteOnError bool) error {
	switch {
	case r.GenErr != "" && strings.HasPrefix(r.GenErr, "harness:"):
		return fmt.Errorf("environment: %s", r.GenErr)
	case r.GenErr != "" && strings.HasPrefix(r.GenErr, "panic:"):
		return ev.Errf("panic/"+c.Pool, "compile/generate panicked: %s", r.GenErr)
	case r.GenErr != "":
		if wroteOnError {
			return ev.Errf("rejected-but-wrote-output/"+c.Pool, "generation failed (%s) yet files were written", r.GenErr)
		}
		if c.Pool == "safe" {
			stage, msg := genErrStage(r.GenErr)
			return ev.Errf("valid-rejected/"+stage+"/"+classify(rootCause(msg)), "a well-formed program whose names cannot clash was rejected at %s (options %s): %s", stage, c.Opts, msg)
		}
		return nil // hostile pool: rejected cleanly
	case r.BuildErr != "":
		if strings.Contains(r.BuildErr, "import cycle not allowed") && c.Opts.NoEmbedIDL && c.Pool == "hostile" {
			// known finding K5 (the key names the configuration: the same build error with the IDL
			// embedded would be a regression of F14 and is not covered by it)
			return ev.Errf("uncompilable/hostile/import-cycle-not-allowed/no-embed-idl", "generation succeeded (options %s) but the emitted Go does not build:\n%s", c.Opts, r.BuildErr)
		}
		return ev.Errf("uncompilable/"+c.Pool+"/"+classify(r.BuildErr), "generation succeeded (options %s) but the emitted Go does not build:\n%s", c.Opts, r.BuildErr)
	}
	return nil
}

func drawOpts(t *rapid.T) genlab.ProgOpts {
	o := genlab.ProgOpts{
		NoZap:                 rapid.IntRange(0, 3).Draw(t, "nozap") == 0,
		EnumTextMarshalStrict: rapid.IntRange(0, 3).Draw(t, "strictenum") == 0,
		NoRecurse:             rapid.IntRange(0, 4).Draw(t, "norecurse") == 0,
		NoEmbedIDL:            rapid.IntRange(0, 4).Draw(t, "noembed") == 0,
	}
	if rapid.IntRange(0, 5).Draw(t, "outputfile") == 0 {
		o.OutputFile = "all.go"
	}
	return o
}

func avoidSet() map[string]bool {
	m := map[string]bool{}
	for _, a := range strings.Split(os.Getenv("VERIF_AVOID"), ":") {
		if a != "" {
			m[a] = true
		}
	}
	return m
}

func drawCase(pool string, i int, seed int) Case {
	g := rapid.Custom(func(t *rapid.T) Case {
		o := &im.GenOpts{Services: true, Defaults: true, Consts: true, Annotations: true, Recursive: true, MaxFiles: 4, Small: i%2 == 0, Avoid: avoidSet(), Hostile: pool == "hostile", BackEdges: pool == "hostile" && i%5 == 0}
		p := im.GenProgram(t, o)
		return Case{ProgID: fmt.Sprintf("p%d", i), Program: p, Opts: drawOpts(t), Pool: pool}
	})
	return g.Example(seed)
}

// shapeClasses lists shape classes the repository's fixtures do not have.
func shapeClasses(p *im.Program) []string {
	p.Index()
	set := map[string]bool{}
	for _, f := range p.Files {
		for _, d := range f.Defs {
			for _, fl := range d.Fields {
				r := p.Root(fl.Type)
				if fl.Default != nil && fl.Type.K == im.TRef {
					if td := p.Lookup(*fl.Type.Ref); td != nil && td.Kind == im.DTypedef {
						set["default-on-typedef-of-"+r.K] = true
					}
					if fl.Type.Ref.File != f.Path {
						set["cross-file-default"] = true
					}
				}
				if d.Kind == im.DUnion && (r.K == im.TList || r.K == im.TSet || r.K == im.TMap) {
					set["union-of-containers"] = true
				}
				if r.K == im.TMap {
					kr := p.Root(r.Key)
					if kr.K == im.TList || kr.K == im.TSet || kr.K == im.TMap || kr.K == im.TBinary || (kr.K == im.TRef && p.Lookup(*kr.Ref).IsStructLike()) {
						set["unhashable-map-key"] = true
						if r.Key.K == im.TRef {
							set["unhashable-map-key-via-typedef"] = true
						}
					}
				}
			}
			if d.Kind == im.DService && d.Parent != nil && d.Parent.File != f.Path {
				set["service-extends-across-files"] = true
			}
			if d.Kind == im.DConst {
				set["const-of-"+p.Root(d.Type).K] = true
			}
		}
	}
	var out []string
	for k := range set {
		out = append(out, "shape:"+k)
	}
	return out
}

func runBatch(t *testing.T, unit, pool string, n int) {
	shard, _ := strconv.Atoi(os.Getenv("VERIF_SHARD"))
	seedBase, _ := strconv.Atoi(os.Getenv("VERIF_RSEED"))
	dir, err := os.MkdirTemp(scratch(t), "c06-lab-")
	if err != nil {
		t.Fatal(err)
	}
	defer os.RemoveAll(dir)
	var cases []Case
	var specs []*genlab.ProgSpec
	for i := 0; i < n; i++ {
		c := drawCase(pool, i, seedBase*1000+shard*100000+i)
		cases = append(cases, c)
		specs = append(specs, &genlab.ProgSpec{ID: c.ProgID, Program: c.Program, Opts: c.Opts})
	}
	results := make([]genlab.ProgResult, n)
	wrote := make([]bool, n)
	for i, s := range specs {
		results[i] = genlab.Generate(dir, s)
		if results[i].GenErr != "" {
			if ents, err := os.ReadDir(filepath.Join(dir, "gen", s.ID)); err == nil && len(ents) > 0 {
				wrote[i] = true
			}
		}
	}
	if err := genlab.WriteModule(dir); err != nil {
		t.Fatalf("environment: %v", err)
	}
	if err := genlab.BuildGenerated(dir, results, ev.Thorough()); err != nil {
		t.Fatalf("environment: %v", err)
	}
	for i, c := range cases {
		b, _ := json.Marshal(c.Program)
		ob, _ := json.Marshal(c.Opts)
		d := ev.Digest(b, ob)
		cls := append(shapeClasses(c.Program), "pool:"+pool, "opts:"+c.Opts.String())
		outcome := "built"
		if results[i].GenErr != "" {
			outcome = "rejected"
		} else if results[i].BuildErr != "" {
			outcome = "does-not-build"
		}
		cls = append(cls, "outcome:"+pool+"/"+outcome)
		if pool == "hostile" && results[i].GenErr != "" {
			stage, msg := genErrStage(results[i].GenErr)
			cls = append(cls, "hostile-rejected:"+stage+"/"+classify(rootCause(msg)))
		}
		if results[i].VetNotes != "" {
			cls = append(cls, "vet-diagnostics-recorded")
		}
		nontriv := len(shapeClasses(c.Program)) > 0 || pool == "hostile"
		ev.Case(d, nontriv, cls...)
		ev.ClassN("generated-go-lines", int64(results[i].Lines))
		if nontriv {
			ev.KeepSample(unit, d, func() interface{} {
				return map[string]interface{}{"program": c.Program.Summary(), "opts": c.Opts.String(), "outcome": outcome, "entry_file": clip(c.Program.RenderFile(c.Program.Files[0]), 1200)}
			})
		}
		v := judge(c, results[i], wrote[i])
		if v != nil {
			if _, ok := v.(*ev.CheckErr); !ok {
				t.Fatalf("%v", v)
			}
		}
		ev.ReportSoft(t, unit, c, v)
	}
}

func clip(s string, n int) string {
	if len(s) > n {
		return s[:n] + "…"
	}
	return s
}

func batchSize() int {
	if n, err := strconv.Atoi(os.Getenv("C06_BATCH")); err == nil && n > 0 {
		return n
	}
	if ev.Thorough() {
		return 50
	}
	return 20
}

// TestSafe: programs whose names cannot clash must be accepted and must build.
func TestSafe(t *testing.T) { runBatch(t, "safe", "safe", batchSize()) }

// TestHostile: hostile names: either rejected cleanly or the output builds.
func TestHostile(t *testing.T) { runBatch(t, "hostile", "hostile", batchSize()) }

// checkOne rebuilds a one-program lab (replay path).
func checkOne(t testing.TB, c Case) error {
	dir, err := os.MkdirTemp(scratch(t), "c06-replay-")
	if err != nil {
		return err
	}
	defer os.RemoveAll(dir)
	c.Program.Index()
	spec := &genlab.ProgSpec{ID: c.ProgID, Program: c.Program, Opts: c.Opts}
	if spec.ID == "" {
		spec.ID = "p0"
	}
	res := []genlab.ProgResult{genlab.Generate(dir, spec)}
	wrote := false
	if res[0].GenErr != "" {
		if ents, err := os.ReadDir(filepath.Join(dir, "gen", spec.ID)); err == nil && len(ents) > 0 {
			wrote = true
		}
	}
	if err := genlab.WriteModule(dir); err != nil {
		return err
	}
	if err := genlab.BuildGenerated(dir, res, false); err != nil {
		return err
	}
	return judge(c, res[0], wrote)
}

func replayOne(t *testing.T, f *ev.Failure) bool {
	var c Case
	if err := json.Unmarshal(f.Case, &c); err != nil {
		t.Fatal(err)
	}
	ev.Report(t, f.Unit, c, checkOne(t, c))
	return true
}

func TestReplay(t *testing.T)  { ev.RunReplay(t, replayOne) }
func TestRegress(t *testing.T) { ev.RunRegress(t, replayOne) }
