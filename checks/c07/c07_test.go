//go:build verif

// C07: references resolve to the right definitions, independent of ordering.
package c07

import (
	"encoding/json"
	"fmt"
	"sort"
	"strings"
	"testing"

	"go.uber.org/thriftrw/compile"
	"pgregory.net/rapid"
	"verif/internal/cdump"
	"verif/internal/ev"
	im "verif/internal/idlmodel"
)

func TestMain(m *testing.M) { ev.Main(m, "C07") }

// Case is a program plus the resolution orders to use. Orders maps
// "<module path>|<where>" to the order of keys; absent entries mean sorted.
type Case struct {
	Program *im.Program         `json:"program"`
	Orders  map[string][]string `json:"orders,omitempty"`
	// Mutation describes a deliberate invalidation of the program ("" = valid).
	Mutation string `json:"mutation,omitempty"`
	// Natural is the number of plain Compile repetitions (map-order randomness).
	Natural int `json:"natural,omitempty"`
}

func linkOrder(orders map[string][]string) compile.LinkOrder {
	return compile.LinkOrder{Pick: func(module, where string, sorted []string) []string {
		want, ok := orders[strings.TrimPrefix(module, cdump.Root)+"|"+where]
		if !ok {
			return sorted
		}
		// keep exactly the given keys: requested order first, anything missing appended sorted
		have := map[string]bool{}
		for _, k := range sorted {
			have[k] = true
		}
		var out []string
		used := map[string]bool{}
		for _, k := range want {
			if have[k] && !used[k] {
				out = append(out, k)
				used[k] = true
			}
		}
		for _, k := range sorted {
			if !used[k] {
				out = append(out, k)
			}
		}
		return out
	}}
}

type outcome struct {
	ok   bool
	dump string
	err  string
}

func compileWith(p *im.Program, orders map[string][]string) outcome {
	opts := []compile.Option{compile.Filesystem(cdump.FSOf(p))}
	if p.NonStrict {
		opts = append(opts, compile.NonStrict())
	}
	m, err := compile.CompileWithLinkOrder(cdump.Entry(p), linkOrder(orders), opts...)
	if err != nil {
		return outcome{err: err.Error()}
	}
	return outcome{ok: true, dump: cdump.Module(m)}
}

// entrySpellings: how a caller may name the entry file (the in-memory file system resolves
// relative paths against its root, as a working directory would).
var entrySpellings = []func(rel string) string{
	func(rel string) string { return cdump.Root + rel },
	func(rel string) string { return rel },
	func(rel string) string { return "./" + rel },
	func(rel string) string { return "zz/../" + rel },
	func(rel string) string { return cdump.Root + "./" + rel },
	func(rel string) string { return "/r/../r//" + rel },
}

func compilePlain(p *im.Program, i int) outcome {
	opts := []compile.Option{compile.Filesystem(cdump.FSOf(p))}
	if p.NonStrict {
		opts = append(opts, compile.NonStrict())
	}
	// the plain compilations also vary the spelling of the entry path
	// (a function of the case: the i-th repetition of a program always uses the same spelling)
	entry := entrySpellings[(i+len(p.Files)+len(p.Files[0].Path))%len(entrySpellings)](p.Files[0].Path)
	m, err := compile.Compile(entry, opts...)
	if err != nil {
		return outcome{err: err.Error()}
	}
	if ierr := cdump.OneModulePerFile(m); ierr != nil {
		return outcome{ok: true, dump: "MODULE GRAPH: " + ierr.Error() + " (entry spelled " + entry + ")\n" + cdump.Module(m)}
	}
	return outcome{ok: true, dump: cdump.Module(m)}
}


// shapeKey classifies where a dump difference sits (for the classifier key).
func shapeKey(diff string) string {
	switch {
	case strings.Contains(diff, " typedef ") && strings.Contains(diff, "root="):
		return "typedef-root"
	case strings.Contains(diff, " typedef "):
		return "typedef-target"
	case strings.Contains(diff, " const "):
		return "constant"
	case strings.Contains(diff, "default="):
		return "default"
	case strings.Contains(diff, " service ") || strings.Contains(diff, " func "):
		return "service"
	case strings.Contains(diff, " enum "):
		return "enum"
	case strings.Contains(diff, "includes"):
		return "includes"
	}
	return "field"
}

// checkCase: (a) the compiled graph equals the reference semantics for valid
// programs; (b) outcome and graph are the same for the base order (sorted),
// the drawn order and the natural repetitions.
func checkCase(c Case) error {
	p := c.Program
	p.Index()
	base := compileWith(p, nil)
	drawn := compileWith(p, c.Orders)
	if c.Mutation == "" {
		want := cdump.Model(p)
		for name, o := range map[string]outcome{"sorted-order": base, "drawn-order": drawn} {
			if !o.ok {
				return ev.Errf("valid-program-rejected/"+name, "a well-formed program failed to compile under the %s: %s", name, o.err)
			}
			if o.dump != want {
				d := cdump.FirstDiff(o.dump, want)
				return ev.Errf("binding/"+shapeKey(d)+"/"+name, "compiled graph (A) differs from the reference resolution (B) under the %s: %s", name, d)
			}
		}
	}
	if base.ok != drawn.ok {
		return ev.Errf("order-dependent/outcome", "compilation succeeds=%v with sorted order but succeeds=%v with the drawn order (errors: %q / %q)", base.ok, drawn.ok, base.err, drawn.err)
	}
	if base.ok && base.dump != drawn.dump {
		d := cdump.FirstDiff(base.dump, drawn.dump)
		return ev.Errf("order-dependent/"+shapeKey(d), "compiled graph differs between sorted order (A) and drawn order (B): %s", d)
	}
	for i := 0; i < c.Natural; i++ {
		n := compilePlain(p, i)
		if n.ok != base.ok {
			return ev.Errf("order-dependent/outcome/natural", "plain Compile run %d succeeds=%v, hook-ordered compile succeeds=%v (errors: %q / %q)", i, n.ok, base.ok, n.err, base.err)
		}
		if n.ok && n.dump != base.dump {
			d := cdump.FirstDiff(n.dump, base.dump)
			return ev.Errf("order-dependent/"+shapeKey(d)+"/natural", "plain Compile run %d (A) differs from the hook-ordered compile (B): %s", i, d)
		}
	}
	return nil
}

// ---------------------------------------------------------------- generation

func genOpts(t *rapid.T) *im.GenOpts {
	return &im.GenOpts{Services: true, Defaults: true, Consts: true, Annotations: rapid.Bool().Draw(t, "annots"), Recursive: true,
		MaxFiles: 4, Small: rapid.Bool().Draw(t, "small"), BackEdges: rapid.Bool().Draw(t, "backedges")}
}

// modules lists, per file of p, the sorted keys of each map the compiler ranges over.
func keysOf(p *im.Program) map[string][]string {
	out := map[string][]string{}
	for _, f := range p.Files {
		var types, consts, svcs, incs []string
		for _, d := range f.Defs {
			switch d.Kind {
			case im.DConst:
				consts = append(consts, d.Name)
			case im.DService:
				svcs = append(svcs, d.Name)
			default:
				types = append(types, d.Name)
			}
		}
		for _, i := range f.Includes {
			incs = append(incs, im.IncludeName(i))
		}
		sort.Strings(types)
		sort.Strings(consts)
		sort.Strings(svcs)
		sort.Strings(incs)
		out[f.Path+"|types"] = types
		out[f.Path+"|constants"] = consts
		out[f.Path+"|services"] = svcs
		out[f.Path+"|includes"] = incs
	}
	return out
}

func genOrders(t *rapid.T, p *im.Program) map[string][]string {
	orders := map[string][]string{}
	ks := keysOf(p)
	var names []string
	for k := range ks {
		names = append(names, k)
	}
	sort.Strings(names)
	for _, k := range names {
		if len(ks[k]) > 1 {
			orders[k] = rapid.Permutation(ks[k]).Draw(t, "order_"+k)
		}
	}
	return orders
}

func features(p *im.Program) (cls []string, nontrivial bool) {
	p.Index()
	chain, cross, diamond, rec := false, false, false, false
	included := map[string]int{}
	for _, f := range p.Files {
		for _, i := range f.Includes {
			included[i]++
		}
		for _, d := range f.Defs {
			if d.Kind == im.DTypedef && d.Target.K == im.TRef {
				if d.Target.Ref.File != f.Path {
					cross = true
				}
				if t := p.Lookup(*d.Target.Ref); t != nil {
					if t.Kind == im.DTypedef {
						chain = true
					}
					if t.IsStructLike() {
						// chain through a struct that refers back
						for _, fl := range t.Fields {
							if strings.Contains(cdumpType(fl.Type), d.Name) {
								rec = true
							}
						}
					}
				}
			}
		}
	}
	for _, n := range included {
		if n > 1 {
			diamond = true
		}
	}
	if chain {
		cls = append(cls, "feature:typedef-chain")
	}
	if cross {
		cls = append(cls, "feature:cross-file-typedef")
	}
	if diamond {
		cls = append(cls, "feature:diamond-include")
	}
	if rec {
		cls = append(cls, "feature:typedef-struct-cycle")
	}
	cls = append(cls, fmt.Sprintf("files:%d", len(p.Files)))
	return cls, chain || cross || diamond || rec
}

func cdumpType(t *im.Type) string {
	switch t.K {
	case im.TList, im.TSet:
		return cdumpType(t.Elem)
	case im.TMap:
		return cdumpType(t.Key) + "," + cdumpType(t.Val)
	case im.TRef:
		return t.Ref.Name
	}
	return t.K
}

func record(unit string, c Case) {
	b, _ := json.Marshal(c.Program)
	ob, _ := json.Marshal(c.Orders)
	cls, nontriv := features(c.Program)
	if c.Mutation != "" {
		cls = append(cls, "mutation:"+c.Mutation)
		nontriv = true
	}
	d := ev.Digest(b, ob, []byte(c.Mutation))
	ev.Case(d, nontriv, cls...)
	if nontriv {
		ev.KeepSample(unit, d, func() interface{} {
			return map[string]interface{}{"program": c.Program.Summary(), "entry": c.Program.RenderFile(c.Program.Files[0]), "orders": c.Orders, "mutation": c.Mutation}
		})
	}
}

// TestOrders: random valid programs x random resolution orders x natural repetitions.
func TestOrders(t *testing.T) {
	rapid.Check(t, func(t *rapid.T) {
		p := im.GenProgram(t, genOpts(t))
		c := Case{Program: p, Orders: genOrders(t, p), Natural: 3}
		record("orders", c)
		ev.Report(t, "orders", c, ev.Guard(func() error { return checkCase(c) }))
	})
}

func permutations(xs []string, emit func([]string)) {
	var rec func(k int)
	a := append([]string{}, xs...)
	rec = func(k int) {
		if k == len(a) {
			emit(append([]string{}, a...))
			return
		}
		for i := k; i < len(a); i++ {
			a[k], a[i] = a[i], a[k]
			rec(k + 1)
			a[k], a[i] = a[i], a[k]
		}
	}
	rec(0)
}

// TestAllOrders: for small modules, every permutation of each module's types
// (<=6), constants (<=4), services (<=4) and includes is tried, one map at a time.
func TestAllOrders(t *testing.T) {
	rapid.Check(t, func(t *rapid.T) {
		o := genOpts(t)
		o.Small = true
		p := im.GenProgram(t, o)
		ks := keysOf(p)
		var names []string
		for k := range ks {
			names = append(names, k)
		}
		sort.Strings(names)
		pb, _ := json.Marshal(p)
		cls, nontriv := features(p)
		total := 0
		base := compileWith(p, nil)
		want := cdump.Model(p)
		for _, k := range names {
			limit := 4
			if strings.HasSuffix(k, "|types") {
				limit = 6
			}
			if len(ks[k]) < 2 || len(ks[k]) > limit {
				continue
			}
			permutations(ks[k], func(perm []string) {
				c := Case{Program: p, Orders: map[string][]string{k: perm}}
				total++
				ob, _ := json.Marshal(c.Orders)
				ev.Case(ev.Digest(pb, ob), nontriv, cls...)
				// same oracle as checkCase, with the order-independent parts computed once
				err := ev.Guard(func() error {
					drawn := compileWith(p, c.Orders)
					switch {
					case !base.ok:
						return ev.Errf("valid-program-rejected/sorted-order", "a well-formed program failed to compile: %s", base.err)
					case base.dump != want:
						d := cdump.FirstDiff(base.dump, want)
						return ev.Errf("binding/"+shapeKey(d)+"/sorted-order", "compiled graph (A) differs from the reference resolution (B): %s", d)
					case !drawn.ok:
						return ev.Errf("order-dependent/outcome", "compilation fails under order %v: %s", perm, drawn.err)
					case drawn.dump != base.dump:
						d := cdump.FirstDiff(base.dump, drawn.dump)
						return ev.Errf("order-dependent/"+shapeKey(d), "compiled graph differs between sorted order (A) and order %v of %s (B): %s", perm, k, d)
					}
					return nil
				})
				ev.Report(t, "all-orders", c, err)
			})
		}
		ev.ClassN("all-orders:permutations-tried", int64(total))
		if nontriv {
			ev.KeepSample("all-orders", ev.Digest(pb), func() interface{} {
				return map[string]interface{}{"program": p.Summary(), "permutations_tried": total, "entry": p.RenderFile(p.Files[0])}
			})
		}
	})
}

// TestInvalid: deliberately invalidated programs: the outcome (and, when it
// compiles anyway, the graph) must not depend on the order.
func TestInvalid(t *testing.T) {
	rapid.Check(t, func(t *rapid.T) {
		p := im.GenProgram(t, genOpts(t))
		mut := im.Invalidate(t, p)
		c := Case{Program: p, Orders: genOrders(t, p), Mutation: mut, Natural: 2}
		record("invalid", c)
		ev.Report(t, "invalid", c, ev.Guard(func() error { return checkCase(c) }))
	})
}

// knownShapes are hand-kept valid programs whose outcome depends on the link order on the
// current tree (known finding K4, see DESIGN.md §5): a default value is cast to a struct that
// is still being linked, so a later field of that struct still has an unresolved type. The
// random generators cannot produce them (they only build reference cycles through one struct
// and its own typedef chain, with empty defaults on the back reference); this grid re-observes
// them on every run, under every permutation of the type link order.
var knownShapes = []struct {
	Name  string
	Src   string
	Types []string
}{
	{"typedef-of-container-of-self/non-empty-default", "typedef map<string, S> M\nstruct S { 1: optional M m = {\"a\": {\"m\": {}}} }\n", []string{"M", "S"}},
	{"struct-literal-naming-typedef-field-of-struct-in-cycle", "typedef i32 Num\nstruct B { 1: optional A a\n 2: optional Num x }\nstruct A { 1: optional B b = {\"x\": 1} }\n", []string{"A", "B", "Num"}},
	{"struct-literal-on-struct-in-cycle/later-typedef-field-default", "typedef S T\ntypedef string Name\nstruct S { 1: optional U u\n 2: optional Name n = \"x\" }\nstruct U { 1: optional T t = {} }\n", []string{"Name", "S", "T", "U"}},
}

// KnownCase is the replayable form of one knownShapes entry.
type KnownCase struct {
	Known string   `json:"known"`
	Src   string   `json:"src"`
	Types []string `json:"types"`
}

func checkKnown(k KnownCase) error {
	p := &im.Program{Files: []*im.File{{Path: "main.thrift", Raw: k.Src}}}
	outcomes := map[string][]string{}
	permutations(k.Types, func(perm []string) {
		o := compileWith(p, map[string][]string{"main.thrift|types": perm})
		key := "compiles"
		if !o.ok {
			key = "rejected: " + o.err
		}
		outcomes[key] = append(outcomes[key], strings.Join(perm, ","))
	})
	if len(outcomes) == 1 {
		for k := range outcomes {
			if k == "compiles" {
				return nil
			}
		}
	}
	var lines []string
	for o, perms := range outcomes {
		lines = append(lines, fmt.Sprintf("%s  <= type link orders %v", o, perms))
	}
	sort.Strings(lines)
	return ev.Errf("order-dependent/half-linked-default/"+k.Known, "a valid program compiles or fails depending on the order in which its types are linked:\n%s\n%s", k.Src, strings.Join(lines, "\n"))
}

// TestKnownShapes re-observes the hand-kept shapes of known finding K4.
func TestKnownShapes(t *testing.T) {
	for _, k := range knownShapes {
		c := KnownCase{Known: k.Name, Src: k.Src, Types: k.Types}
		ev.Case(ev.Digest([]byte(k.Src)), true, "known-shape:"+k.Name)
		ev.ReportSoft(t, "known-shapes", c, ev.Guard(func() error { return checkKnown(c) }))
	}
}

func replayOne(t *testing.T, f *ev.Failure) bool {
	if f.Unit == "known-shapes" {
		var k KnownCase
		if err := json.Unmarshal(f.Case, &k); err != nil {
			t.Fatal(err)
		}
		ev.Report(t, f.Unit, k, ev.Guard(func() error { return checkKnown(k) }))
		return true
	}
	var c Case
	if err := json.Unmarshal(f.Case, &c); err != nil {
		t.Fatal(err)
	}
	ev.Report(t, f.Unit, c, ev.Guard(func() error { return checkCase(c) }))
	return true
}

func TestReplay(t *testing.T)  { ev.RunReplay(t, replayOne) }
func TestRegress(t *testing.T) { ev.RunRegress(t, replayOne) }
