//go:build verif

// C08: compiler and generator terminate with a result or an error on every input.
package c08

import (
	"bufio"
	"bytes"
	"encoding/json"
	"fmt"
	"os"
	"os/exec"
	"path/filepath"
	"runtime/debug"
	"sort"
	"strconv"
	"strings"
	"sync"
	"sync/atomic"
	"testing"
	"time"

	"go.uber.org/thriftrw/compile"
	"go.uber.org/thriftrw/gen"
	"pgregory.net/rapid"
	"verif/internal/cdump"
	"verif/internal/ev"
	im "verif/internal/idlmodel"
)

func TestMain(m *testing.M) { ev.Main(m, "C08") }

// Case is a set of files handed to compile.Compile (+ gen.Generate).
type Case struct {
	Files     map[string]string `json:"files"` // path relative to the root -> text
	Entry     string            `json:"entry"`
	NonStrict bool              `json:"non_strict,omitempty"`
	Src       string            `json:"src"`             // generator class
	Shape     string            `json:"shape,omitempty"` // cycle / dangling kind
}

// ---------------------------------------------------------------- child

func runOne(c Case, out *bufio.Writer, tmp string) (status string) {
	fs := cdump.MemFS{}
	for p, t := range c.Files {
		fs[cdump.Root+p] = []byte(t)
	}
	opts := []compile.Option{compile.Filesystem(fs)}
	if c.NonStrict {
		opts = append(opts, compile.NonStrict())
	}
	fmt.Fprintln(out, "STAGE compile")
	out.Flush()
	var m *compile.Module
	err := ev.Guard(func() error {
		var err error
		m, err = compile.Compile(cdump.Root+c.Entry, opts...)
		if err == nil && m == nil {
			return fmt.Errorf("INTERNAL: Compile returned neither module nor error")
		}
		return err
	})
	if pe, ok := err.(*ev.PanicError); ok {
		return "panic-compile " + firstLine(pe.Value)
	}
	if err != nil {
		if strings.HasPrefix(err.Error(), "INTERNAL:") {
			return "neither-compile"
		}
		if strings.TrimSpace(err.Error()) == "" {
			return "empty-error-compile"
		}
		return "error-compile"
	}
	fmt.Fprintln(out, "STAGE generate")
	out.Flush()
	outDir, _ := os.MkdirTemp(tmp, "c08-gen-")
	defer os.RemoveAll(outDir)
	err = ev.Guard(func() error {
		return gen.Generate(m, &gen.Options{OutputDir: outDir, PackagePrefix: "example.com/c08", ThriftRoot: strings.TrimSuffix(cdump.Root, "/"), NoVersionCheck: true})
	})
	if pe, ok := err.(*ev.PanicError); ok {
		return "panic-generate " + firstLine(pe.Value)
	}
	if err != nil {
		return "error-generate " + firstLine(err.Error())
	}
	return "ok"
}

func firstLine(s string) string {
	if i := strings.IndexByte(s, '\n'); i >= 0 {
		s = s[:i]
	}
	if len(s) > 160 {
		s = s[:160]
	}
	return strings.ReplaceAll(s, " ", "_")
}

// TestChild is the child side.
func TestChild(t *testing.T) {
	path := os.Getenv("VERIF_CHILD_C08")
	if path == "" {
		t.Skip("child only")
	}
	// Inputs are a few KiB: legitimate recursion is shallow. A small stack limit
	// turns unbounded recursion into a quick fatal error instead of a 1 GB one.
	debug.SetMaxStack(64 << 20)
	b, err := os.ReadFile(path)
	if err != nil {
		t.Fatal(err)
	}
	var cases []Case
	if err := json.Unmarshal(b, &cases); err != nil {
		t.Fatal(err)
	}
	start, _ := strconv.Atoi(os.Getenv("VERIF_CHILD_START"))
	out := bufio.NewWriter(os.Stdout)
	tmp := os.Getenv("VERIF_CHILD_TMP")
	for i := start; i < len(cases); i++ {
		fmt.Fprintf(out, "BEGIN %d\n", i)
		out.Flush()
		st := runOne(cases[i], out, tmp)
		fmt.Fprintf(out, "RES %d %s\n", i, st)
		out.Flush()
	}
	fmt.Fprintln(out, "DONE")
	out.Flush()
}

// ---------------------------------------------------------------- parent

// A case (a program of a few lines) normally takes milliseconds of CPU; the costliest shape of the quick
// tier (a typedef chain of 600) a few seconds, of the thorough tier (2000) about a minute. A child that
// burns caseCeiling of CPU time without reporting progress is killed and the case in flight is retried
// alone, twice, with soloCeiling. A child that makes no progress for wallCeiling of wall time without
// having used that much CPU is killed too, but that is not a verdict: the case counts as inconclusive.
const (
	caseCeiling      = 150 * time.Second
	soloCeiling      = 300 * time.Second
	afterHangCeiling = 20 * time.Second
	wallCeiling      = 20 * time.Minute
)

// set after the first confirmed hang of this process
var hangConfirmed atomic.Bool

// timeouts observed by this process so far
var hangsSeen atomic.Int32

// childCPU returns the CPU time (user + system) process pid has used so far.
func childCPU(pid int) time.Duration {
	b, err := os.ReadFile(fmt.Sprintf("/proc/%d/stat", pid))
	if err != nil {
		return 0
	}
	s := string(b)
	if i := strings.LastIndexByte(s, ')'); i >= 0 {
		s = s[i+1:]
	}
	f := strings.Fields(s) // f[0] is the state: utime and stime are fields 14 and 15 of the line
	if len(f) < 13 {
		return 0
	}
	ut, _ := strconv.ParseInt(f[11], 10, 64)
	st, _ := strconv.ParseInt(f[12], 10, 64)
	return time.Duration(ut+st) * (time.Second / 100)
}

type lockedBuffer struct {
	mu sync.Mutex
	b  bytes.Buffer
}

func (l *lockedBuffer) Write(p []byte) (int, error) {
	l.mu.Lock()
	defer l.mu.Unlock()
	return l.b.Write(p)
}
func (l *lockedBuffer) String() string { l.mu.Lock(); defer l.mu.Unlock(); return l.b.String() }

// observe runs the cases in child processes; result i is one of
// ok | error-compile | error-generate | panic-<stage> ... | fatal-<stage>:<reason> | timeout-<stage>.
func observe(cases []Case, scratch string) ([]string, error) {
	f, err := os.CreateTemp(scratch, "c08-batch-*.json")
	if err != nil {
		return nil, err
	}
	defer os.Remove(f.Name())
	json.NewEncoder(f).Encode(cases)
	f.Close()
	res := make([]string, len(cases))
	start := 0
	for start < len(cases) {
		if hangConfirmed.Load() && hangsSeen.Load() >= 3 {
			// the run has failed already: the rest of the batch is not explored
			for i := start; i < len(cases); i++ {
				res[i] = "skipped-after-hangs"
			}
			break
		}
		cmd := exec.Command(os.Args[0], "-test.run", "^TestChild$", "-test.timeout", "30m")
		cmd.Env = append(os.Environ(), "VERIF_CHILD_C08="+f.Name(), "VERIF_CHILD_START="+strconv.Itoa(start), "VERIF_CHILD_TMP="+scratch, "VERIF_STATS=", "VERIF_REPLAY=")
		// the child's output is followed as it arrives: the ceiling applies to one case (the time
		// since the child last reported progress), not to the batch
		var out lockedBuffer
		pr, pw, err := os.Pipe()
		if err != nil {
			return nil, err
		}
		cmd.Stdout, cmd.Stderr = pw, pw
		if err := cmd.Start(); err != nil {
			return nil, err
		}
		pw.Close()
		progress := make(chan struct{}, 1)
		copied := make(chan struct{})
		go func() {
			defer close(copied)
			buf := make([]byte, 64<<10)
			for {
				n, err := pr.Read(buf)
				if n > 0 {
					out.Write(buf[:n])
					select {
					case progress <- struct{}{}:
					default:
					}
				}
				if err != nil {
					return
				}
			}
		}()
		done := make(chan error, 1)
		go func() { done <- cmd.Wait() }()
		// The ceilings are CPU time of the child since it last reported progress, not wall time: a
		// child that is merely slow because the machine is busy uses little CPU and is left alone.
		// Wall time only ends the wait after wallCeiling, and then the case counts as inconclusive.
		timedOut, inconclusive := false, false
		ceiling := caseCeiling
		if len(cases) == 1 {
			ceiling = soloCeiling
		}
		if hangConfirmed.Load() {
			ceiling = afterHangCeiling
		}
		tick := time.NewTicker(500 * time.Millisecond)
		cpuAtProgress, wallAtProgress := childCPU(cmd.Process.Pid), time.Now()
	wait:
		for {
			select {
			case <-done:
				break wait
			case <-progress:
				cpuAtProgress, wallAtProgress = childCPU(cmd.Process.Pid), time.Now()
			case <-tick.C:
				if childCPU(cmd.Process.Pid)-cpuAtProgress > ceiling {
					cmd.Process.Kill()
					<-done
					timedOut = true
					break wait
				}
				if time.Since(wallAtProgress) > wallCeiling {
					cmd.Process.Kill()
					<-done
					inconclusive = true
					break wait
				}
			}
		}
		tick.Stop()
		<-copied
		pr.Close()
		cur, stage, finished := -1, "compile", false
		for _, line := range strings.Split(out.String(), "\n") {
			fs := strings.Fields(line)
			switch {
			case len(fs) == 2 && fs[0] == "BEGIN":
				cur, _ = strconv.Atoi(fs[1])
				stage = "compile"
			case len(fs) == 2 && fs[0] == "STAGE":
				stage = fs[1]
			case len(fs) >= 3 && fs[0] == "RES":
				i, _ := strconv.Atoi(fs[1])
				if i >= 0 && i < len(res) {
					res[i] = strings.Join(fs[2:], " ")
				}
				if i == cur {
					cur = -1
				}
			case line == "DONE":
				finished = true
			}
		}
		if finished {
			break
		}
		if cur < 0 {
			return nil, fmt.Errorf("child ended without finishing and without a case in flight: %s", tail(out.String(), 800))
		}
		s := out.String()
		switch {
		case inconclusive:
			res[cur] = "inconclusive-" + stage
		case timedOut:
			res[cur] = "timeout-" + stage
			hangsSeen.Add(1)
			if len(cases) > 1 && !hangConfirmed.Load() {
				// confirm straight away: the case alone, twice
				for k := 0; k < 2; k++ {
					rr, err := observe(cases[cur:cur+1], scratch)
					if err == nil && !strings.HasPrefix(rr[0], "timeout-") {
						res[cur] = rr[0]
						hangsSeen.Add(-1)
						break
					}
				}
				if strings.HasPrefix(res[cur], "timeout-") {
					res[cur] += " confirmed"
					hangConfirmed.Store(true)
				}
			}
		case strings.Contains(s, "stack overflow") || strings.Contains(s, "goroutine stack exceeds"):
			res[cur] = "fatal-" + stage + ":stack-overflow"
		case strings.Contains(s, "out of memory") || strings.Contains(s, "cannot allocate memory"):
			res[cur] = "fatal-" + stage + ":out-of-memory"
		default:
			res[cur] = "fatal-" + stage + ":crash " + firstLine(tail(s, 300))
		}
		start = cur + 1
	}
	return res, nil
}

func tail(s string, n int) string {
	if len(s) > n {
		return s[len(s)-n:]
	}
	return s
}

func verdict(c Case, r string, scratch string) error {
	shape := c.Shape
	if shape == "" {
		shape = c.Src
	}
	switch {
	case strings.HasPrefix(r, "panic-"):
		stage := strings.Fields(strings.TrimPrefix(r, "panic-"))[0]
		return ev.Errf("panic/"+stage+"/"+shape, "%s panicked: %s", stage, r)
	case strings.HasPrefix(r, "fatal-"):
		f := strings.Fields(strings.TrimPrefix(r, "fatal-"))[0]
		stage, reason, _ := strings.Cut(f, ":")
		return ev.Errf("fatal/"+stage+"/"+reason+"/"+shape, "the process died in %s (%s): %s", stage, reason, r)
	case strings.HasPrefix(r, "timeout-"):
		// a timeout only counts after the case failed to finish alone, twice. Once one hang is
		// confirmed the run has failed already: later ones are reported without the retries
		for k := 0; k < 2 && !hangConfirmed.Load() && !strings.HasSuffix(r, " confirmed"); k++ {
			rr, err := observe([]Case{c}, scratch)
			if err == nil && !strings.HasPrefix(rr[0], "timeout-") {
				return verdict(c, rr[0], scratch)
			}
		}
		hangConfirmed.Store(true)
		return ev.Errf("timeout/"+strings.Fields(strings.TrimPrefix(r, "timeout-"))[0]+"/"+shape, "did not terminate: killed after %v of CPU time without progress (three attempts, the last two alone with %v)", caseCeiling, soloCeiling)
	case r == "neither-compile":
		return ev.Errf("neither/compile/"+shape, "Compile returned neither a module nor an error")
	case r == "empty-error-compile":
		return ev.Errf("empty-error/compile/"+shape, "Compile returned an error with an empty description")
	case r == "":
		return fmt.Errorf("no result recorded")
	}
	return nil
}

func scratchDir(t testing.TB) string {
	if s := os.Getenv("VERIF_SCRATCH"); s != "" {
		return s
	}
	return t.TempDir()
}

func evaluate(t *testing.T, unit string, cases []Case) {
	scratch := scratchDir(t)
	res, err := observe(cases, scratch)
	if err != nil {
		t.Fatalf("environment: %v", err)
	}
	for i, c := range cases {
		b, _ := json.Marshal(c.Files)
		d := ev.Digest(b, []byte(c.Entry))
		outcome := strings.Fields(res[i] + " ?")[0]
		if strings.HasPrefix(outcome, "inconclusive-") {
			// no verdict: the machine was too busy for the child to get anywhere
			ev.Case(d, false, "outcome:inconclusive-wall-time")
			continue
		}
		if outcome == "skipped-after-hangs" {
			ev.Case(d, false, "outcome:"+outcome)
			continue
		}
		parsed := outcome != "error-compile" || c.Src == "structural"
		nontriv := c.Src == "structural" || (outcome != "error-compile")
		_ = parsed
		cls := []string{"src:" + c.Src, "outcome:" + outcome}
		if c.Shape != "" {
			cls = append(cls, "shape:"+c.Shape+"/"+outcome)
		}
		ev.Case(d, nontriv, cls...)
		if nontriv {
			ev.KeepSample(unit, d, func() interface{} {
				return map[string]interface{}{"src": c.Src, "shape": c.Shape, "entry": c.Entry, "files": clipFiles(c.Files), "outcome": res[i]}
			})
		}
		v := verdict(c, res[i], scratch)
		if v != nil {
			if _, ok := v.(*ev.CheckErr); !ok {
				t.Fatalf("environment: %v", v)
			}
		}
		ev.ReportSoft(t, unit, c, v)
	}
}

func clipFiles(fs map[string]string) map[string]string {
	out := map[string]string{}
	for k, v := range fs {
		if len(v) > 600 {
			v = v[:600] + "…"
		}
		out[k] = v
	}
	return out
}

// ---------------------------------------------------------------- generators

func renderedProgram(t *rapid.T) (map[string]string, string) {
	p := im.GenProgram(t, &im.GenOpts{Services: true, Defaults: true, Consts: true, Annotations: true, Recursive: true, Small: true, MaxFiles: 2, BackEdges: rapid.Bool().Draw(t, "backedges")})
	return p.Render(), p.Files[0].Path
}

var keywords = []string{"include", "namespace", "typedef", "enum", "struct", "union", "exception", "const", "service", "extends", "required", "optional", "oneway", "void", "throws", "list", "set", "map", "bool", "i32", "string", "binary", "true", "false", "cpp_include", "byte", "i8", "double"}

func tokenize(s string) []string {
	var toks []string
	cur := strings.Builder{}
	flush := func() {
		if cur.Len() > 0 {
			toks = append(toks, cur.String())
			cur.Reset()
		}
	}
	inStr := false
	for i := 0; i < len(s); i++ {
		ch := s[i]
		if inStr {
			cur.WriteByte(ch)
			if ch == '\\' && i+1 < len(s) {
				i++
				cur.WriteByte(s[i])
				continue
			}
			if ch == '"' {
				inStr = false
				flush()
			}
			continue
		}
		switch {
		case ch == '"':
			flush()
			inStr = true
			cur.WriteByte(ch)
		case ch == ' ' || ch == '\n' || ch == '\t':
			flush()
			toks = append(toks, string(ch))
		case strings.ContainsRune("{}()<>[],:;=", rune(ch)):
			flush()
			toks = append(toks, string(ch))
		default:
			cur.WriteByte(ch)
		}
	}
	flush()
	return toks
}

func mutateTokens(t *rapid.T, text string) string {
	toks := tokenize(text)
	if len(toks) == 0 {
		return text
	}
	n := rapid.IntRange(1, 4).Draw(t, "nmut")
	for k := 0; k < n && len(toks) > 0; k++ {
		i := rapid.IntRange(0, len(toks)-1).Draw(t, "tok")
		switch rapid.IntRange(0, 6).Draw(t, "tmut") {
		case 0: // delete
			toks = append(toks[:i], toks[i+1:]...)
		case 1: // duplicate
			toks = append(toks[:i+1], toks[i:]...)
		case 2: // swap with neighbour
			if i+1 < len(toks) {
				toks[i], toks[i+1] = toks[i+1], toks[i]
			}
		case 3: // keyword <-> identifier
			toks[i] = rapid.SampledFrom(keywords).Draw(t, "kw")
		case 4: // literal edits
			toks[i] = rapid.SampledFrom([]string{"0", "-1", "99999999999999999999", "0x", "1e999", "\"", "'x", "\"\\", "1.2.3", "-", "0x7fffffffffffffff", "{}", "[", "(", "*", "#", "/*", "//"}).Draw(t, "lit")
		case 5: // replace by another token of the file (makes dangling / self references)
			toks[i] = toks[rapid.IntRange(0, len(toks)-1).Draw(t, "other")]
		case 6: // raw bytes
			toks[i] = string(rapid.SliceOfN(rapid.Byte(), 1, 4).Draw(t, "raw"))
		}
	}
	return strings.Join(toks, "")
}

// structural builds programs around one kind of reference cycle or dangling reference.
func structural(t *rapid.T) Case {
	n := rapid.IntRange(1, 4).Draw(t, "len")
	var sb strings.Builder
	c := Case{Entry: "shape.thrift", Files: map[string]string{}, Src: "structural"}
	name := func(prefix string, i int) string { return fmt.Sprintf("%s%d", prefix, i%n) }
	kind := rapid.SampledFrom([]string{"typedef-lasso", "self-default-literal", "docstring-shapes", "typedef-cycle", "const-cycle", "const-struct-default-cycle", "struct-default-self", "struct-default-chain", "service-cycle", "include-loop", "self-include", "dangling-type", "dangling-const", "dangling-service", "typedef-through-container-cycle", "required-struct-cycle", "union-self", "exception-throws-cycle", "const-enum-ref-missing", "deep-typedef-chain", "const-of-recursive-struct", "multi-file-program", "typedef-dag", "annotation-values"}).Draw(t, "kind")
	c.Shape = fmt.Sprintf("%s-%d", kind, n)
	switch kind {
	case "typedef-lasso":
		// a tail of typedefs leading into a cycle (rho shape), and values typed through the tail
		tail := rapid.IntRange(1, 3).Draw(t, "tail")
		for i := 0; i < n; i++ {
			fmt.Fprintf(&sb, "typedef %s %s\n", name("C", i+1), name("C", i))
		}
		prev := "C0"
		for i := 0; i < tail; i++ {
			fmt.Fprintf(&sb, "typedef %s Tail%d\n", prev, i)
			prev = fmt.Sprintf("Tail%d", i)
		}
		switch rapid.IntRange(0, 3).Draw(t, "lasso_use") {
		case 0:
			fmt.Fprintf(&sb, "const %s x = 1\n", prev)
		case 1:
			fmt.Fprintf(&sb, "struct U { 1: optional %s f = 1 }\n", prev)
		case 2:
			fmt.Fprintf(&sb, "struct U { 1: optional list<%s> f = [1, 2] }\nconst map<string, %s> m = {\"a\": 1}\n", prev, prev)
		default:
			fmt.Fprintf(&sb, "service Sv { %s get(1: %s a) }\n", prev, prev)
		}
		c.Shape = fmt.Sprintf("%s-%d+%d", kind, n, tail)
	case "self-default-literal":
		// defaults that are random literals of the struct's own type: some give the
		// recursive field explicitly, some omit it (so that its default is filled in)
		var lit func(depth int) string
		lit = func(depth int) string {
			if depth <= 0 || rapid.IntRange(0, 2).Draw(t, "lit_leaf") == 0 {
				return "{}"
			}
			var parts []string
			if rapid.Bool().Draw(t, "lit_a") {
				var items []string
				for i, k := 0, rapid.IntRange(0, 2).Draw(t, "lit_n"); i < k; i++ {
					items = append(items, lit(depth-1))
				}
				parts = append(parts, "\"a\": ["+strings.Join(items, ", ")+"]")
			}
			if rapid.Bool().Draw(t, "lit_m") {
				parts = append(parts, "\"m\": {\"k\": "+lit(depth-1)+"}")
			}
			if rapid.Bool().Draw(t, "lit_s") {
				parts = append(parts, "\"s\": "+lit(depth-1))
			}
			if rapid.Bool().Draw(t, "lit_v") {
				parts = append(parts, "\"v\": 7")
			}
			return "{" + strings.Join(parts, ", ") + "}"
		}
		var items []string
		for i, k := 0, rapid.IntRange(1, 3).Draw(t, "top_n"); i < k; i++ {
			items = append(items, lit(3))
		}
		fmt.Fprintf(&sb, "struct S {\n  1: optional list<S> a = [%s]\n  2: optional map<string, S> m\n  3: optional S s\n  4: optional i32 v = 3\n}\n", strings.Join(items, ", "))
		if rapid.Bool().Draw(t, "also_const") {
			fmt.Fprintf(&sb, "const S K = %s\n", lit(3))
		}
	case "docstring-shapes":
		docs := []string{"/** */", "/**\n */", "/**\n *\n */", "/***/", "/** x\n * y */", "/**\n\n*/", "/** *//** */", "/**\n * a\n *\n */", "/**\t*/", "/**\n*\n*/", "/**\n  \n */"}
		for i := 0; i < n+1; i++ {
			fmt.Fprintf(&sb, "%s\nstruct D%d {\n  %s\n  1: optional i32 f%d\n}\n", rapid.SampledFrom(docs).Draw(t, "doc"), i, rapid.SampledFrom(docs).Draw(t, "fdoc"), i)
		}
		fmt.Fprintf(&sb, "%s\nenum E {\n  %s\n  A,\n}\n%s\nservice Sv {\n  %s\n  void f()\n}\n", rapid.SampledFrom(docs).Draw(t, "edoc"), rapid.SampledFrom(docs).Draw(t, "idoc"), rapid.SampledFrom(docs).Draw(t, "sdoc"), rapid.SampledFrom(docs).Draw(t, "fndoc"))
	case "typedef-cycle":
		for i := 0; i < n; i++ {
			fmt.Fprintf(&sb, "typedef %s %s\n", name("T", i+1), name("T", i))
		}
		sb.WriteString("struct User { 1: optional T0 t }\n")
	case "typedef-through-container-cycle":
		// every link of the cycle runs through a container position of its own: element, set
		// member, map value, map key, or nested
		for i := 0; i < n; i++ {
			forms := []string{"list<%s>", "set<%s>", "map<string, %s>", "map<%s, string>", "list<map<%s, i32>>", "map<i32, list<%s>>"}
			form := rapid.SampledFrom(forms).Draw(t, fmt.Sprintf("cform%d", i))
			fmt.Fprintf(&sb, "typedef "+form+" %s\n", name("T", i+1), name("T", i))
		}
	case "multi-file-program":
		// a well-formed program of several files in which every file defines one shared type name
		// and names all visible ones inside containers (the generator has to tell them apart)
		p := im.GenProgram(t, &im.GenOpts{Services: true, Defaults: true, Consts: true, Recursive: true, Small: true, MaxFiles: 4, ForceCluster: true})
		for _, f := range p.Files {
			c.Files[f.Path] = p.RenderFile(f)
		}
		c.Entry = p.Files[0].Path
		c.Shape = fmt.Sprintf("%s-%d", kind, len(p.Files))
	case "const-cycle":
		for i := 0; i < n; i++ {
			fmt.Fprintf(&sb, "const i32 %s = %s\n", name("K", i), name("K", i+1))
		}
	case "const-struct-default-cycle":
		sb.WriteString("struct A { 1: optional i32 x = K0 }\n")
		for i := 0; i < n; i++ {
			if i == n-1 {
				fmt.Fprintf(&sb, "const A KA = {\"x\": K0}\nconst i32 %s = K0\n", name("K", i))
			} else {
				fmt.Fprintf(&sb, "const i32 %s = %s\n", name("K", i), name("K", i+1))
			}
		}
	case "struct-default-self":
		sb.WriteString("struct S { 1: optional S s = {\"s\": {}} \n 2: optional list<S> l = [{}] }\n")
	case "struct-default-chain":
		for i := 0; i < n; i++ {
			fmt.Fprintf(&sb, "struct %s { 1: optional %s nxt = {} }\n", name("N", i), name("N", i+1))
		}
	case "service-cycle":
		for i := 0; i < n; i++ {
			fmt.Fprintf(&sb, "service %s extends %s { void f%d() }\n", name("V", i), name("V", i+1), i)
		}
	case "include-loop":
		for i := 0; i < n; i++ {
			c.Files[fmt.Sprintf("f%d.thrift", i)] = fmt.Sprintf("include \"./f%d.thrift\"\nstruct S%d { 1: optional f%d.S%d other }\n", (i+1)%n, i, (i+1)%n, (i+1)%n)
		}
		c.Entry = "f0.thrift"
	case "self-include":
		sb.WriteString("include \"./shape.thrift\"\nstruct S { 1: optional shape.S s }\nconst i32 K = shape.K2\nconst i32 K2 = 5\n")
	case "dangling-type":
		sb.WriteString("struct S { 1: optional Missing m \n 2: optional list<map<string, other.Gone>> x }\n")
	case "dangling-const":
		sb.WriteString("const i32 K = MISSING\nstruct S { 1: optional i32 x = nowhere.K }\nenum E { A }\nconst E e = E.B\n")
	case "dangling-service":
		sb.WriteString("service Child extends ghost.Parent {}\nservice C2 extends Nope {}\n")
	case "required-struct-cycle":
		for i := 0; i < n; i++ {
			fmt.Fprintf(&sb, "struct %s { 1: required %s nxt }\n", name("R", i), name("R", i+1))
		}
		sb.WriteString("const R0 ROOT = {}\n")
	case "union-self":
		sb.WriteString("union U { 1: U u \n 2: list<U> us \n 3: map<U, U> m }\nconst U cu = {\"u\": {\"us\": []}}\n")
	case "exception-throws-cycle":
		for i := 0; i < n; i++ {
			fmt.Fprintf(&sb, "exception %s { 1: optional %s cause }\n", name("X", i), name("X", i+1))
		}
		sb.WriteString("service T { void f() throws (1: X0 a) }\n")
	case "const-enum-ref-missing":
		sb.WriteString("enum E { A = 1 }\nconst E a = 2\nconst E b = E.A\nstruct S { 1: optional E e = 7 }\n")
	case "deep-typedef-chain":
		// (a chain of 2000 costs about a minute of CPU: thorough tier only)
		depths := []int{10, 200, 600}
		if ev.Thorough() {
			depths = append(depths, 2000)
		}
		depth := rapid.SampledFrom(depths).Draw(t, "depth")
		sb.WriteString("typedef i32 D0\n")
		for i := 1; i <= depth; i++ {
			fmt.Fprintf(&sb, "typedef D%d D%d\n", i-1, i)
		}
		fmt.Fprintf(&sb, "struct S { 1: optional D%d d = 5 }\n", depth)
		c.Shape = fmt.Sprintf("%s-%d", kind, depth)
	case "typedef-dag":
		// no cycle at all, but every level uses the next one twice (or three times): anything
		// that walks the type graph path by path takes 2^depth steps
		depth := rapid.SampledFrom([]int{4, 12, 26}).Draw(t, "dagdepth")
		forms := []string{"map<%[1]s, %[1]s>", "map<string, map<%[1]s, list<%[1]s>>>", "list<map<%[1]s, set<%[1]s>>>"}
		form := rapid.SampledFrom(forms).Draw(t, "dagform")
		for i := 0; i < depth; i++ {
			fmt.Fprintf(&sb, "typedef "+form+" D%d\n", fmt.Sprintf("D%d", i+1), i)
		}
		fmt.Fprintf(&sb, "typedef i32 D%d\nstruct S { 1: optional D0 d }\n", depth)
		c.Shape = fmt.Sprintf("%s-%d", kind, depth)
	case "annotation-values":
		// annotations the generator interprets, with values of every kind, on every kind of entity
		vals := []string{`""`, `"x"`, `"1a"`, `"Ok"`, `"has space"`, `"Foo_Bar"`, `"slice"`, `"\"quoted\""`, `"type"`, `"json:\"a\" bad"`}
		keys := []string{"go.name", "go.label", "go.tag", "go.type", "go.redact", "go.nolog"}
		// one annotation per program (a second one would usually hide behind the first error)
		site := rapid.IntRange(0, 15).Draw(t, "asite")
		one := fmt.Sprintf("(%s = %s)", rapid.SampledFrom(keys).Draw(t, "akey"), rapid.SampledFrom(vals).Draw(t, "aval"))
		ann := func(i int) string {
			if i == site {
				return one
			}
			return ""
		}
		c.Shape = fmt.Sprintf("%s-site%d", kind, site)
		fmt.Fprintf(&sb, "enum E { A %s, B } %s\n", ann(0), ann(1))
		fmt.Fprintf(&sb, "typedef set<string> %s T %s\n", ann(2), ann(3))
		fmt.Fprintf(&sb, "struct S { 1: optional string a %s\n 2: optional T t %s } %s\n", ann(4), ann(5), ann(6))
		fmt.Fprintf(&sb, "exception X { 1: optional string m %s } %s\nunion U { 1: string s %s } %s\n", ann(7), ann(8), ann(9), ann(10))
		fmt.Fprintf(&sb, "service V { void f(1: string p %s) throws (1: X x %s) %s } %s\nconst i32 K = 1 %s\n", ann(11), ann(12), ann(13), ann(14), ann(15))
	case "const-of-recursive-struct":
		sb.WriteString("struct Node { 1: optional Node nxt \n 2: optional i32 v = 3 }\nconst Node LIST = {\"nxt\": {\"nxt\": {\"v\": 1}}}\n")
	}
	if len(c.Files) == 0 {
		c.Files["shape.thrift"] = sb.String()
	}
	// embed the shape into a generated program (its names never clash with the shape's)
	if rapid.IntRange(0, 3).Draw(t, "embed") == 0 {
		p := im.GenProgram(t, &im.GenOpts{Services: true, Defaults: true, Consts: true, Recursive: true, Small: true, MaxFiles: 1})
		c.Files[c.Entry] = p.RenderFile(p.Files[0]) + "\n" + c.Files[c.Entry]
		c.Shape += "+embedded"
	}
	// surround with ordinary definitions so that the cycle sits in a realistic file
	if rapid.Bool().Draw(t, "surround") {
		c.Files[c.Entry] += "\nstruct Plain { 1: required string name \n 2: optional list<i64> xs = [1, 2] }\nservice PlainSvc { Plain get(1: string k) }\n"
	}
	return c
}

func sortedKeys(m map[string]string) []string {
	var ks []string
	for k := range m {
		ks = append(ks, k)
	}
	sort.Strings(ks)
	return ks
}

// TestInputs draws the inputs with rapid, then observes them in child processes.
func TestInputs(t *testing.T) {
	var batch []Case
	rapid.Check(t, func(t *rapid.T) {
		switch rapid.IntRange(0, 9).Draw(t, "class") {
		case 0: // arbitrary bytes
			batch = append(batch, Case{Files: map[string]string{"main.thrift": string(rapid.SliceOfN(rapid.Byte(), 0, 200).Draw(t, "bytes"))}, Entry: "main.thrift", Src: "bytes"})
		case 1, 2, 3: // token-mutated valid IDL
			files, entry := renderedProgram(t)
			ks := sortedKeys(files)
			k := ks[rapid.IntRange(0, len(ks)-1).Draw(t, "which")]
			files[k] = mutateTokens(t, files[k])
			batch = append(batch, Case{Files: files, Entry: entry, Src: "token-mutated", NonStrict: rapid.Bool().Draw(t, "nonstrict")})
		case 4: // valid programs (generator must terminate on them too)
			files, entry := renderedProgram(t)
			batch = append(batch, Case{Files: files, Entry: entry, Src: "valid"})
		default:
			batch = append(batch, structural(t))
		}
	})
	// several children in sequence keep each batch short
	const per = 250
	for i := 0; i < len(batch); i += per {
		j := i + per
		if j > len(batch) {
			j = len(batch)
		}
		evaluate(t, "inputs", batch[i:j])
	}
}

// TestStructuralGrid: every cycle / dangling shape at every length, completely.
func TestStructuralGrid(t *testing.T) {
	var batch []Case
	seen := map[string]bool{}
	variants := map[string]int{}
	// enumerate by re-using the rapid generator over a fixed set of seeds until every shape has been produced
	for seed := 0; seed < 6000; seed++ {
		c := rapid.Custom(func(t *rapid.T) Case { return structural(t) }).Example(seed)
		if strings.HasSuffix(c.Shape, "+embedded") || seen[c.Shape] {
			continue
		}
		seen[c.Shape] = true
		batch = append(batch, c)
		// shapes with random content: keep several variants of each
		for prefix, want := range map[string]int{"self-default-literal": 40, "docstring-shapes": 40, "typedef-lasso": 40, "typedef-through-container-cycle": 40, "multi-file-program": 12, "annotation-values": 40, "typedef-dag": 6} {
			if strings.HasPrefix(c.Shape, prefix) {
				variants[c.Shape]++
				if variants[c.Shape] < want {
					delete(seen, c.Shape)
				}
			}
		}
	}
	sort.Slice(batch, func(i, j int) bool { return batch[i].Shape < batch[j].Shape })
	evaluate(t, "structural-grid", batch)
	ev.Note("structural-grid", fmt.Sprintf("%d distinct (kind, length) shapes", len(batch)))
}

func replayOne(t *testing.T, f *ev.Failure) bool {
	var c Case
	if err := json.Unmarshal(f.Case, &c); err != nil {
		t.Fatal(err)
	}
	scratch := scratchDir(t)
	res, err := observe([]Case{c}, scratch)
	if err != nil {
		t.Fatalf("environment: %v", err)
	}
	t.Logf("observed outcome: %s", res[0])
	ev.Report(t, f.Unit, c, verdict(c, res[0], scratch))
	return true
}

func TestReplay(t *testing.T)  { ev.RunReplay(t, replayOne) }
func TestRegress(t *testing.T) { ev.RunRegress(t, replayOne) }

var _ = filepath.Join
