//go:build verif

// C09: accepted programs are well-formed: no silent numeric wrap-around,
// uniqueness of ids / names / items, no self-definition.
package c09

import (
	"encoding/json"
	"fmt"
	"math"
	"sort"
	"strings"
	"testing"

	"go.uber.org/thriftrw/compile"
	"pgregory.net/rapid"
	"verif/internal/cdump"
	"verif/internal/ev"
	im "verif/internal/idlmodel"
)

func TestMain(m *testing.M) { ev.Main(m, "C09") }

// Expect is what the model says about one numeric position.
type Expect struct {
	Where string `json:"where"` // e.g. enum:E.A, field:S.f, const:C1, default:D.a
	Want  int64  `json:"want"`  // the number written in the source (or implied by it)
}

// Case is a rendered single-file program with the model's verdict.
type Case struct {
	// Other, when set, is the text of other.thrift, which Text includes
	Other      string   `json:"other,omitempty"`
	Text       string   `json:"text"`
	NonStrict  bool     `json:"non_strict"`
	Violations []string `json:"violations"` // kinds of well-formedness violations present ("" = none)
	Expects    []Expect `json:"expects"`    // numeric positions to compare when compilation succeeds
	// ClearlyValid: no violations and every construct is within what thriftrw documents it accepts
	ClearlyValid bool `json:"clearly_valid"`
	Boundary     bool `json:"boundary"` // some literal within 1 of a type boundary
}

var boundaries = []int64{0, 1, -1, 127, 128, -128, -129, 255, 256, 32767, 32768, -32768, -32769, 65535, 65536,
	math.MaxInt32, math.MaxInt32 + 1, math.MinInt32, math.MinInt32 - 1, 4294967295, 4294967296, math.MaxInt64, math.MinInt64, math.MaxInt64 - 1, math.MinInt64 + 1}

func nearBoundary(v int64, bits int) bool {
	if bits == 64 {
		return v >= math.MaxInt64-1 || v <= math.MinInt64+1
	}
	hi := int64(1)<<(bits-1) - 1
	lo := -hi - 1
	d := func(a, b int64) bool { return a-b <= 1 && b-a <= 1 }
	return d(v, hi) || d(v, lo) || d(v, hi+1) || d(v, lo-1)
}

func genInt(t *rapid.T, label string) (int64, string) {
	var v int64
	switch rapid.IntRange(0, 3).Draw(t, label+"_mode") {
	case 0, 1:
		v = rapid.SampledFrom(boundaries).Draw(t, label+"_b")
		// neighbours
		switch rapid.IntRange(0, 2).Draw(t, label+"_nb") {
		case 1:
			if v < math.MaxInt64 {
				v++
			}
		case 2:
			if v > math.MinInt64 {
				v--
			}
		}
	case 2:
		v = int64(rapid.IntRange(-300, 300).Draw(t, label+"_small"))
	default:
		v = rapid.Int64().Draw(t, label+"_any")
	}
	spell := fmt.Sprint(v)
	if v >= 0 && rapid.IntRange(0, 3).Draw(t, label+"_hex") == 0 {
		spell = fmt.Sprintf("0x%x", v)
	} else if v > 0 && rapid.IntRange(0, 5).Draw(t, label+"_plus") == 0 {
		spell = fmt.Sprintf("+%d", v)
	}
	return v, spell
}

type builder struct {
	sb   strings.Builder
	c    *Case
	viol map[string]bool
	// clearly valid unless something pushes outside thriftrw's documented acceptance
	unclear bool
}

func (b *builder) violate(kind string) { b.viol[kind] = true }

func intBits(k string) int {
	switch k {
	case "i8", "byte":
		return 8
	case "i16":
		return 16
	case "i32":
		return 32
	}
	return 64
}

func inRange(v int64, bits int) bool {
	if bits == 64 {
		return true
	}
	hi := int64(1)<<(bits-1) - 1
	return v >= -hi-1 && v <= hi
}

func genCase(t *rapid.T) Case {
	c := Case{NonStrict: rapid.Bool().Draw(t, "nonstrict")}
	b := &builder{c: &c, viol: map[string]bool{}}

	// ---- enum E
	type item struct {
		name string
		val  int64
	}
	var items []item
	b.sb.WriteString("enum E {\n")
	next := int64(0)
	nItems := rapid.IntRange(1, 5).Draw(t, "nitems")
	itemNames := map[string]bool{}
	for i := 0; i < nItems; i++ {
		name := fmt.Sprintf("I%d", i)
		if i > 0 && rapid.IntRange(0, 14).Draw(t, "dupitem") == 0 {
			name = items[rapid.IntRange(0, len(items)-1).Draw(t, "dupitem_of")].name
		}
		if itemNames[name] {
			b.violate("duplicate-enum-item-name")
		}
		itemNames[name] = true
		if rapid.Bool().Draw(t, "explicit") {
			v, spell := genInt(t, fmt.Sprintf("ev%d", i))
			fmt.Fprintf(&b.sb, "  %s = %s,\n", name, spell)
			if !inRange(v, 32) {
				b.violate("enum-value-out-of-int32")
			}
			c.Boundary = c.Boundary || nearBoundary(v, 32)
			items = append(items, item{name, v})
			c.Expects = append(c.Expects, Expect{"enum:E." + name, v})
			if v == math.MaxInt64 {
				next = v // overflow of the implicit continuation handled below
				if i+1 < nItems {
					// an implicit item after MaxInt64 would overflow int64 as well; treated as violation by enum-implicit-overflow
				}
			} else {
				next = v + 1
			}
			if v == math.MaxInt64 {
				next = math.MaxInt64
			}
		} else {
			v := next
			fmt.Fprintf(&b.sb, "  %s,\n", name)
			if !inRange(v, 32) {
				b.violate("enum-implicit-value-out-of-int32")
			}
			items = append(items, item{name, v})
			c.Expects = append(c.Expects, Expect{"enum:E." + name, v})
			if v < math.MaxInt64 {
				next = v + 1
			}
		}
	}
	b.sb.WriteString("}\n\n")
	if b.viol["duplicate-enum-item-name"] {
		// expectations by name are ambiguous; value checks on E are dropped
		var keep []Expect
		for _, e := range c.Expects {
			if !strings.HasPrefix(e.Where, "enum:") {
				keep = append(keep, e)
			}
		}
		c.Expects = keep
	}

	// ---- struct S with boundary ids
	b.sb.WriteString("struct S {\n")
	nf := rapid.IntRange(1, 5).Draw(t, "nfields")
	usedIDs := map[int64]bool{}
	usedNames := map[string]bool{}
	nextNeg := int64(-1)
	for i := 0; i < nf; i++ {
		name := fmt.Sprintf("f%d", i)
		if i > 0 && rapid.IntRange(0, 14).Draw(t, "dupname") == 0 {
			name = fmt.Sprintf("f%d", rapid.IntRange(0, i-1).Draw(t, "dupname_of"))
		}
		if usedNames[name] {
			b.violate("duplicate-field-name")
		}
		usedNames[name] = true
		req := rapid.SampledFrom([]string{"required", "optional", "optional"}).Draw(t, "req")
		if c.NonStrict && rapid.IntRange(0, 3).Draw(t, "noreq") == 0 {
			req = ""
		}
		implicit := c.NonStrict && rapid.IntRange(0, 3).Draw(t, "implicitid") == 0
		b.sb.WriteString("  ")
		var id int64
		if implicit {
			id = nextNeg
			nextNeg--
			b.unclear = true
			if !inRange(id, 16) {
				b.violate("implicit-field-id-out-of-int16")
			}
		} else {
			var spell string
			switch rapid.IntRange(0, 4).Draw(t, "idmode") {
			case 0:
				id = int64(rapid.IntRange(1, 40).Draw(t, "idsmall"))
				spell = fmt.Sprint(id)
			case 4:
				// small negative ids next to implicitly numbered fields (non-strict auto-assignment goes -1, -2, ...)
				id = -int64(rapid.IntRange(1, 6).Draw(t, "idneg"))
				spell = fmt.Sprint(id)
			default:
				id, spell = genInt(t, fmt.Sprintf("id%d", i))
			}
			if i > 0 && rapid.IntRange(0, 14).Draw(t, "dupid") == 0 {
				for k := range usedIDs {
					id, spell = k, fmt.Sprint(k)
					break
				}
				// map iteration order must not influence the case: pick the smallest instead
				var ks []int64
				for k := range usedIDs {
					ks = append(ks, k)
				}
				sort.Slice(ks, func(a, b int) bool { return ks[a] < ks[b] })
				id, spell = ks[0], fmt.Sprint(ks[0])
			}
			fmt.Fprintf(&b.sb, "%s: ", spell)
			if !inRange(id, 16) {
				b.violate("field-id-out-of-int16")
			}
			c.Boundary = c.Boundary || nearBoundary(id, 16)
			if id < 1 {
				b.unclear = true // thriftrw documents ids >= 1 in strict mode; negative only in non-strict
			}
			if id < 0 {
				nextNeg = id - 1
			}
			c.Expects = append(c.Expects, Expect{"field:S." + name, id})
		}
		if usedIDs[id] {
			b.violate("duplicate-field-id")
		}
		usedIDs[id] = true
		if req != "" {
			b.sb.WriteString(req + " ")
		}
		fmt.Fprintf(&b.sb, "i32 %s\n", name)
	}
	b.sb.WriteString("}\n\n")
	if b.viol["duplicate-field-name"] {
		var keep []Expect
		for _, e := range c.Expects {
			if !strings.HasPrefix(e.Where, "field:") {
				keep = append(keep, e)
			}
		}
		c.Expects = keep
	}

	// ---- integer constants and defaults at type boundaries
	b.sb.WriteString("struct D {\n")
	nd := rapid.IntRange(0, 4).Draw(t, "ndefaults")
	for i := 0; i < nd; i++ {
		k := rapid.SampledFrom([]string{"i8", "byte", "i16", "i32", "i64"}).Draw(t, "dtype")
		v, spell := genInt(t, fmt.Sprintf("dv%d", i))
		fmt.Fprintf(&b.sb, "  %d: optional %s d%d = %s\n", i+1, k, i, spell)
		if !inRange(v, intBits(k)) {
			b.violate("default-out-of-range-" + strings.Replace(k, "byte", "i8", 1))
		}
		c.Boundary = c.Boundary || nearBoundary(v, intBits(k))
		c.Expects = append(c.Expects, Expect{fmt.Sprintf("default:D.d%d", i), v})
	}
	// enum default by value
	if rapid.Bool().Draw(t, "enumdefault") && !b.viol["duplicate-enum-item-name"] {
		var v int64
		if rapid.IntRange(0, 2).Draw(t, "edvalid") != 0 {
			v = items[rapid.IntRange(0, len(items)-1).Draw(t, "eitem")].val
		} else {
			v, _ = genInt(t, "edv")
		}
		fmt.Fprintf(&b.sb, "  20: optional E e = %d\n", v)
		found := false
		for _, it := range items {
			if it.val == v {
				found = true
			}
		}
		if !found {
			b.violate("enum-default-not-a-member")
		} else if !inRange(v, 32) {
			// member only because both wrapped: already a violation of the enum itself
		}
		c.Expects = append(c.Expects, Expect{"default:D.e", v})
	}
	b.sb.WriteString("}\n\n")
	nc := rapid.IntRange(0, 4).Draw(t, "nconsts")
	for i := 0; i < nc; i++ {
		k := rapid.SampledFrom([]string{"i8", "i16", "i32", "i64"}).Draw(t, "ctype")
		v, spell := genInt(t, fmt.Sprintf("cv%d", i))
		fmt.Fprintf(&b.sb, "const %s C%d = %s\n", k, i, spell)
		if !inRange(v, intBits(k)) {
			b.violate("constant-out-of-range-" + k)
		}
		c.Boundary = c.Boundary || nearBoundary(v, intBits(k))
		c.Expects = append(c.Expects, Expect{fmt.Sprintf("const:C%d", i), v})
	}

	// ---- self-definition
	switch rapid.IntRange(0, 9).Draw(t, "cycle") {
	case 0:
		n := rapid.IntRange(1, 3).Draw(t, "constcycle")
		for i := 0; i < n; i++ {
			fmt.Fprintf(&b.sb, "const i32 K%d = K%d\n", i, (i+1)%n)
		}
		b.violate(fmt.Sprintf("constant-cycle-%d", n))
	case 1:
		n := rapid.IntRange(1, 3).Draw(t, "svccycle")
		for i := 0; i < n; i++ {
			fmt.Fprintf(&b.sb, "service V%d extends V%d {}\n", i, (i+1)%n)
		}
		b.violate(fmt.Sprintf("service-cycle-%d", n))
	case 2:
		// constant defined through a struct default that refers back to it
		b.sb.WriteString("struct SelfDef { 1: optional i32 x = SELF }\nconst i32 SELF = SELF2\nconst i32 SELF2 = SELF\n")
		b.violate("constant-cycle-via-default")
	case 3:
		// a legal chain, for contrast
		b.sb.WriteString("const i32 L0 = 7\nconst i32 L1 = L0\nconst i32 L2 = L1\nservice P0 {}\nservice P1 extends P0 {}\n")
		c.Expects = append(c.Expects, Expect{"const:L2", 7})
	}

	// ---- a number that arrives through a reference: constants of a second file, typed by a
	// typedef that has the same NAME as a typedef of this file but another width; also through
	// a typedef of this file, a list, and a default
	if rapid.IntRange(0, 2).Draw(t, "crossfile") == 0 {
		wide := rapid.SampledFrom([]string{"i16", "i32", "i64"}).Draw(t, "xwide")
		narrow := rapid.SampledFrom([]string{"i8", "i16", "i32", "i64"}).Draw(t, "xnarrow")
		v, spell := genInt(t, "xv")
		if !inRange(v, intBits(wide)) {
			v, spell = 100, "100"
		}
		c.Other = fmt.Sprintf("typedef %s Num\nconst Num BIG = %s\nconst list<Num> BIGS = [1, %s]\n", wide, spell, spell)
		head := "include \"./other.thrift\"\n"
		b.sb.WriteString("typedef " + narrow + " Num\n")
		form := rapid.IntRange(0, 3).Draw(t, "xform")
		switch form {
		case 0:
			b.sb.WriteString("const Num XPORT = other.BIG\n")
			c.Expects = append(c.Expects, Expect{"const:XPORT", v})
		case 1:
			b.sb.WriteString("const " + narrow + " XPORT = other.BIG\n")
			c.Expects = append(c.Expects, Expect{"const:XPORT", v})
		case 2:
			b.sb.WriteString("const list<Num> XPORTS = other.BIGS\n")
		case 3:
			b.sb.WriteString("struct XD { 1: optional Num p = other.BIG }\n")
		}
		if !inRange(v, intBits(narrow)) {
			b.violate("constant-out-of-range-via-reference-" + narrow)
		}
		c.Boundary = c.Boundary || nearBoundary(v, intBits(narrow))
		c.Text = head
	}

	// ---- a container constant used again at a container type with narrower elements: the elements
	// (literals, or references to constants of a base type or of a typedef) must be checked against
	// the type they end up in, not only against the one they were first written for
	if rapid.IntRange(0, 2).Draw(t, "recontainer") == 0 {
		wide := rapid.SampledFrom([]string{"i16", "i32", "i64"}).Draw(t, "rwide")
		narrow := rapid.SampledFrom([]string{"i8", "i16", "i32"}).Draw(t, "rnarrow")
		v, spell := genInt(t, "rv")
		if !inRange(v, intBits(wide)) {
			v, spell = 1000, "1000"
		}
		wname := wide
		if rapid.Bool().Draw(t, "rtypedef") {
			wname = "RW"
			fmt.Fprintf(&b.sb, "typedef %s RW\n", wide)
		}
		elem := spell
		if rapid.IntRange(0, 2).Draw(t, "rref") > 0 {
			fmt.Fprintf(&b.sb, "const %s RB = %s\n", wname, spell)
			elem = "RB"
		}
		var wideT, narrowT, lit string
		switch rapid.IntRange(0, 3).Draw(t, "rcont") {
		case 0:
			wideT, narrowT, lit = "set<"+wname+">", "set<"+narrow+">", "[1, "+elem+"]"
		case 1:
			wideT, narrowT, lit = "list<"+wname+">", "list<"+narrow+">", "[1, "+elem+"]"
		case 2:
			wideT, narrowT, lit = "map<"+wname+", i32>", "map<"+narrow+", i32>", "{1: 1, "+elem+": 2}"
		case 3:
			wideT, narrowT, lit = "map<i32, "+wname+">", "map<i32, "+narrow+">", "{1: 1, 2: "+elem+"}"
		}
		fmt.Fprintf(&b.sb, "const %s RWIDE = %s\n", wideT, lit)
		switch rapid.IntRange(0, 3).Draw(t, "ruse") {
		case 0:
			fmt.Fprintf(&b.sb, "const %s RNARROW = RWIDE\n", narrowT)
		case 1:
			fmt.Fprintf(&b.sb, "struct RD { 1: optional %s p = RWIDE }\n", narrowT)
		case 2:
			fmt.Fprintf(&b.sb, "const list<%s> RNARROWS = [RWIDE]\n", narrowT)
		case 3:
			fmt.Fprintf(&b.sb, "const map<string, %s> RNARROWM = {\"k\": RWIDE}\n", narrowT)
		}
		if !inRange(v, intBits(narrow)) {
			b.violate("constant-out-of-range-via-container-reuse-" + narrow)
		}
		c.Boundary = c.Boundary || nearBoundary(v, intBits(narrow))
	}

	c.Text += b.sb.String()
	for k := range b.viol {
		c.Violations = append(c.Violations, k)
	}
	sort.Strings(c.Violations)
	c.ClearlyValid = len(c.Violations) == 0 && !b.unclear
	return c
}

func constInt(m *compile.Module, v compile.ConstantValue, t compile.TypeSpec) (int64, error) {
	w, err := cdump.ConstW(v, t)
	if err != nil {
		return 0, err
	}
	return w.I, nil
}

func checkCase(c Case) error {
	fs := cdump.MemFS{cdump.Root + "c09.thrift": []byte(c.Text)}
	if c.Other != "" {
		fs[cdump.Root+"other.thrift"] = []byte(c.Other)
	}
	opts := []compile.Option{compile.Filesystem(fs)}
	if c.NonStrict {
		opts = append(opts, compile.NonStrict())
	}
	m, err := compile.Compile(cdump.Root+"c09.thrift", opts...)
	if err != nil {
		if c.ClearlyValid {
			return ev.Errf("valid-rejected", "a well-formed program within the documented limits was rejected: %v", err)
		}
		return nil
	}
	if len(c.Violations) > 0 {
		return ev.Errf("accepted-invalid/"+c.Violations[0], "compilation succeeded although the source violates: %s", strings.Join(c.Violations, ", "))
	}
	// accepted: every numeric position must carry the number written
	for _, e := range c.Expects {
		kind, rest, _ := strings.Cut(e.Where, ":")
		var got int64
		switch kind {
		case "enum":
			en := m.Types["E"].(*compile.EnumSpec)
			name := strings.TrimPrefix(rest, "E.")
			found := false
			for _, it := range en.Items {
				if it.Name == name {
					got, found = int64(it.Value), true
				}
			}
			if !found {
				return ev.Errf("missing/enum-item", "item %s missing from compiled enum", name)
			}
		case "field":
			st := m.Types["S"].(*compile.StructSpec)
			f, ferr := st.Fields.FindByName(strings.TrimPrefix(rest, "S."))
			if ferr != nil {
				return ev.Errf("missing/field", "%v", ferr)
			}
			got = int64(f.ID)
		case "default":
			st := m.Types["D"].(*compile.StructSpec)
			f, ferr := st.Fields.FindByName(strings.TrimPrefix(rest, "D."))
			if ferr != nil {
				return ev.Errf("missing/field", "%v", ferr)
			}
			v, cerr := constInt(m, f.Default, f.Type)
			if cerr != nil {
				return ev.Errf("wrong-value/default-unreadable", "%s: %v", e.Where, cerr)
			}
			got = v
		case "const":
			k := m.Constants[rest]
			if k == nil {
				return ev.Errf("missing/constant", "constant %s missing", rest)
			}
			v, cerr := constInt(m, k.Value, k.Type)
			if cerr != nil {
				return ev.Errf("wrong-value/constant-unreadable", "%s: %v", e.Where, cerr)
			}
			got = v
		}
		if got != e.Want {
			return ev.Errf("wrong-value/"+kind, "%s: source says %d, compiled program says %d", e.Where, e.Want, got)
		}
	}
	// uniqueness in the compiled structs (belt and braces: the model already knows)
	for _, tn := range []string{"S", "D"} {
		st := m.Types[tn].(*compile.StructSpec)
		ids, names := map[int16]bool{}, map[string]bool{}
		for _, f := range st.Fields {
			if ids[f.ID] || names[f.Name] {
				return ev.Errf("accepted-invalid/duplicate-in-compiled-struct", "struct %s has duplicate id or name (%d, %s)", tn, f.ID, f.Name)
			}
			ids[f.ID], names[f.Name] = true, true
		}
	}
	return nil
}

func run(t ev.TB, unit string, c Case) {
	d := ev.Digest([]byte(c.Text), []byte(c.Other), []byte(fmt.Sprint(c.NonStrict)))
	nontriv := c.Boundary || len(c.Violations) > 0
	cls := []string{fmt.Sprintf("nonstrict:%v", c.NonStrict), fmt.Sprintf("clearly-valid:%v", c.ClearlyValid)}
	for _, v := range c.Violations {
		cls = append(cls, "violation:"+v)
	}
	if len(c.Violations) == 0 {
		cls = append(cls, "violation:none")
	}
	ev.Case(d, nontriv, cls...)
	if nontriv {
		ev.KeepSample(unit, d, func() interface{} {
			return map[string]interface{}{"text": c.Text, "non_strict": c.NonStrict, "violations": c.Violations}
		})
	}
	ev.Report(t, unit, c, ev.Guard(func() error { return checkCase(c) }))
}

// TestNumeric: literals around every type boundary in every numeric position,
// duplicates and self-definitions.
func TestNumeric(t *testing.T) {
	rapid.Check(t, func(t *rapid.T) { run(t, "numeric", genCase(t)) })
}

// TestSafePrograms: for generated well-formed programs, the compiled numbers
// equal the model's (whole-graph comparison; shares the oracle of C07).
func TestSafePrograms(t *testing.T) {
	rapid.Check(t, func(t *rapid.T) {
		p := im.GenProgram(t, &im.GenOpts{Services: true, Defaults: true, Consts: true, Recursive: true, NonStrict: rapid.Bool().Draw(t, "nonstrict")})
		pc := ProgCase{Program: p}
		b, _ := json.Marshal(p)
		ev.Case(ev.Digest(b), true, "unit:safe-programs")
		ev.KeepSample("safe-programs", ev.Digest(b), func() interface{} { return p.Summary() })
		ev.Report(t, "safe-programs", pc, ev.Guard(func() error { return checkProgram(pc) }))
	})
}

// ProgCase wraps a generated program.
type ProgCase struct {
	Program *im.Program `json:"program"`
}

func checkProgram(c ProgCase) error {
	p := c.Program
	p.Index()
	opts := []compile.Option{compile.Filesystem(cdump.FSOf(p))}
	if p.NonStrict {
		opts = append(opts, compile.NonStrict())
	}
	m, err := compile.Compile(cdump.Entry(p), opts...)
	if err != nil {
		return ev.Errf("valid-rejected/safe-program", "a well-formed generated program was rejected: %v", err)
	}
	a, b := cdump.Module(m), cdump.Model(p)
	if a != b {
		return ev.Errf("wrong-value/safe-program", "compiled graph (A) differs from the model (B): %s", cdump.FirstDiff(a, b))
	}
	return nil
}

func replayOne(t *testing.T, f *ev.Failure) bool {
	if f.Unit == "safe-programs" {
		var c ProgCase
		if err := json.Unmarshal(f.Case, &c); err != nil {
			t.Fatal(err)
		}
		ev.Report(t, f.Unit, c, ev.Guard(func() error { return checkProgram(c) }))
		return true
	}
	var c Case
	if err := json.Unmarshal(f.Case, &c); err != nil {
		t.Fatal(err)
	}
	ev.Report(t, f.Unit, c, ev.Guard(func() error { return checkCase(c) }))
	return true
}

func TestReplay(t *testing.T)  { ev.RunReplay(t, replayOne) }
func TestRegress(t *testing.T) { ev.RunRegress(t, replayOne) }
