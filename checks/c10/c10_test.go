//go:build verif

// C10: code generation is deterministic.
//
// A case is (Thrift sources, option set, schedule). The same sources and
// options are run several times: as fresh processes of the real thriftrw
// binary (each process has its own map hash seed), as repetitions of
// compile.Compile + gen.Generate in this process, and under distinct
// resolution orders forced through compile.CompileWithLinkOrder. The oracle is
// metamorphic: same outcome, same set of generated paths, same bytes in every
// file, same GenerateServiceRequest (ids renumbered by thrift path / name).
package c10

import (
	"encoding/json"
	"fmt"
	"os"
	"path/filepath"
	"testing"

	"pgregory.net/rapid"
	"verif/internal/ev"
)

func TestMain(m *testing.M) { ev.Main(m, "C10") }

// FileText is one Thrift source file.
type FileText struct {
	Path string `json:"path"` // slash separated, relative to the source root
	Text string `json:"text"`
}

// Opts is an option set: the CLI flags, and the same gen.Options in-process.
type Opts struct {
	Name             string `json:"name"`
	NoRecurse        bool   `json:"no_recurse,omitempty"`
	NoZap            bool   `json:"no_zap,omitempty"`
	NoEmbedIDL       bool   `json:"no_embed_idl,omitempty"`
	NoTypes          bool   `json:"no_types,omitempty"`
	NoConstants      bool   `json:"no_constants,omitempty"`
	NoServiceHelpers bool   `json:"no_service_helpers,omitempty"`
	EnumStrict       bool   `json:"enum_text_marshal_strict,omitempty"`
	OutputFile       string `json:"output_file,omitempty"`
	AutoRoot         bool   `json:"auto_root,omitempty"` // no --thrift-root: the deepest common directory is used
}

// Feat is what the non-triviality rule looks at (computed by the generator).
type Feat struct {
	Files            int `json:"files"`
	MaxIncludes      int `json:"max_includes"`      // largest number of includes in one file
	AliasCollisions  int `json:"alias_collisions"`  // includes whose Go import alias is contested
	HelperCollisions int `json:"helper_collisions"` // user types named like generated helpers
}

// Case embeds every input of one check.
type Case struct {
	Src   string     `json:"src"` // model | collision | fixed:<name>
	Files []FileText `json:"files"`
	Entry string     `json:"entry"`
	Opts  Opts       `json:"opts"`
	Feat  Feat       `json:"feat"`
	// schedule
	Procs  int                   `json:"procs,omitempty"`  // fresh CLI processes
	Par    int                   `json:"par,omitempty"`    // how many of them at a time (<= 4)
	Reps   int                   `json:"reps,omitempty"`   // in-process repetitions
	Orders []map[string][]string `json:"orders,omitempty"` // "<file>|<types|constants|services|includes>" -> visiting order
	// PluginFiles: what the in-process plugin answers (a function of the request only):
	// "" nothing, "distinct" three files, "respelled" one file twice under two spellings of its
	// path with different contents (a conflict: refused on every run)
	PluginFiles string `json:"plugin_files,omitempty"`
}

var optionSets = []Opts{
	{Name: "default"},
	{Name: "no-recurse", NoRecurse: true},
	{Name: "no-zap", NoZap: true},
	{Name: "no-embed-idl", NoEmbedIDL: true},
	{Name: "output-file", OutputFile: "x.go"},
	{Name: "no-types", NoTypes: true},
	{Name: "no-constants", NoConstants: true},
	{Name: "no-types+no-constants", NoTypes: true, NoConstants: true},
	{Name: "no-service-helpers", NoServiceHelpers: true},
	{Name: "auto-root", AutoRoot: true},
	{Name: "no-recurse+no-zap+auto-root", NoRecurse: true, NoZap: true, AutoRoot: true},
	{Name: "output-file+no-embed-idl+no-zap", OutputFile: "single.go", NoEmbedIDL: true, NoZap: true},
	{Name: "enum-text-marshal-strict", EnumStrict: true},
}

func genOptions(t *rapid.T) Opts {
	// the default set half of the time: it is what everybody runs
	if rapid.Bool().Draw(t, "default_options") {
		return optionSets[0]
	}
	return optionSets[rapid.IntRange(1, len(optionSets)-1).Draw(t, "options")]
}

func scratchRoot(t *testing.T) string {
	if s := os.Getenv("VERIF_SCRATCH"); s != "" {
		if abs, err := filepath.Abs(s); err == nil {
			if err := os.MkdirAll(abs, 0o755); err == nil {
				d, err := os.MkdirTemp(abs, "c10-")
				if err == nil {
					t.Cleanup(func() { os.RemoveAll(d) })
					return d
				}
			}
		}
	}
	return t.TempDir()
}

func nontrivial(c Case) bool {
	return c.Feat.MaxIncludes >= 3 || c.Feat.AliasCollisions+c.Feat.HelperCollisions >= 1
}

func bucket(n int) string {
	switch {
	case n <= 3:
		return fmt.Sprint(n)
	case n <= 5:
		return "4-5"
	case n <= 8:
		return "6-8"
	}
	return "9+"
}

func classes(c Case) []string {
	src := c.Src
	if len(src) > 6 && src[:6] == "fixed:" {
		src = "fixed"
	}
	cls := []string{"source:" + src, "options:" + c.Opts.Name, "files:" + bucket(c.Feat.Files), "includes-in-one-file:" + bucket(c.Feat.MaxIncludes)}
	if c.Procs > 0 {
		cls = append(cls, "schedule:cli-processes")
	}
	if c.Reps > 0 {
		cls = append(cls, "schedule:in-process-repetitions")
	}
	if len(c.Orders) > 0 {
		cls = append(cls, "schedule:link-orders")
	}
	if c.Feat.AliasCollisions > 0 {
		cls = append(cls, "feature:import-alias-collision")
	}
	if c.Feat.HelperCollisions > 0 {
		cls = append(cls, "feature:helper-name-collision")
	}
	return cls
}

func record(unit string, c Case) {
	fb, _ := json.Marshal(c.Files)
	ob, _ := json.Marshal(c.Opts)
	d := ev.Digest(fb, []byte(c.Entry), ob)
	nt := nontrivial(c)
	ev.Case(d, nt, classes(c)...)
	ev.ClassN("runs:cli-processes", int64(c.Procs))
	ev.ClassN("runs:in-process", int64(c.Reps))
	ev.ClassN("runs:link-orders", int64(len(c.Orders)))
	if nt {
		ev.KeepSample(unit, d, func() interface{} {
			var paths []string
			for _, f := range c.Files {
				paths = append(paths, f.Path)
			}
			return map[string]interface{}{"src": c.Src, "entry": c.Entry, "files": paths, "entry_text": clip(c.Files[0].Text, 1500), "options": c.Opts.Name, "feat": c.Feat,
				"schedule": fmt.Sprintf("%d CLI processes, %d in-process repetitions, %d link orders", c.Procs, c.Reps, len(c.Orders))}
		})
	}
}

func genSources(t *rapid.T) (src string, files []FileText, entry string, feat Feat) {
	if rapid.Bool().Draw(t, "collision_source") {
		files, entry, feat = genCollision(t)
		return "collision", files, entry, feat
	}
	files, entry, feat = genModel(t)
	return "model", files, entry, feat
}

func procs() int {
	if ev.Thorough() {
		return 16
	}
	return 6
}

// TestCLI: R fresh processes of the real binary per case.
func TestCLI(t *testing.T) {
	root := scratchRoot(t)
	rapid.Check(t, func(t *rapid.T) {
		src, files, entry, feat := genSources(t)
		c := Case{Src: src, Files: files, Entry: entry, Feat: feat, Opts: genOptions(t), Procs: procs(), Par: 4}
		record("cli", c)
		ev.Report(t, "cli", c, ev.Guard(func() error { return checkCase(root, c) }))
	})
}

// TestInProcess: repetitions of Compile+Generate in this process, then the
// same under drawn link orders; the plugin request is recorded every time.
func TestInProcess(t *testing.T) {
	root := scratchRoot(t)
	reps, norders := 4, 3
	if ev.Thorough() {
		reps, norders = 8, 6
	}
	rapid.Check(t, func(t *rapid.T) {
		src, files, entry, feat := genSources(t)
		c := Case{Src: src, Files: files, Entry: entry, Feat: feat, Opts: genOptions(t), Reps: reps}
		c.PluginFiles = rapid.SampledFrom([]string{"", "", "distinct", "respelled"}).Draw(t, "plugin_files")
		c.Orders = genOrders(t, mapKeys(files, entry), norders)
		record("inproc", c)
		ev.Report(t, "inproc", c, ev.Guard(func() error { return checkCase(root, c) }))
	})
}

// TestFixed: hand-written programs x every option set x all three schedules.
func TestFixed(t *testing.T) {
	root := scratchRoot(t)
	n := 0
	sh, nsh := shard()
	for _, fp := range fixedPrograms {
		for _, o := range optionSets {
			n++
			if (n-1)%nsh != sh {
				continue
			}
			c := Case{Src: "fixed:" + fp.Name, Files: fp.Files, Entry: fp.Files[0].Path, Feat: fp.Feat, Opts: o, Procs: procs() * 2, Par: 4, Reps: 4}
			c.Orders = fixedOrders(mapKeys(c.Files, c.Entry))
			record("fixed", c)
			ev.ReportSoft(t, "fixed", c, ev.Guard(func() error { return checkCase(root, c) }))
		}
	}
	ev.Exhaustive("fixed programs x option sets", true)
	ev.Note("fixed-grid", fmt.Sprintf("%d programs x %d option sets = %d cases, each: %d CLI processes, 4 in-process repetitions, reversed/rotated link orders", len(fixedPrograms), len(optionSets), n, procs()*2))
}

func replayOne(t *testing.T, f *ev.Failure) bool {
	switch f.Unit {
	case "cli", "inproc", "fixed":
	default:
		return false
	}
	var c Case
	if err := json.Unmarshal(f.Case, &c); err != nil {
		t.Fatal(err)
	}
	// a difference shows in some runs only: replay with the thorough schedule
	if c.Procs > 0 && c.Procs < 16 {
		c.Procs = 16
	}
	if c.Reps > 0 && c.Reps < 8 {
		c.Reps = 8
	}
	root := scratchRoot(t)
	ev.Report(t, f.Unit, c, ev.Guard(func() error { return checkCase(root, c) }))
	return true
}

func TestReplay(t *testing.T)  { ev.RunReplay(t, replayOne) }
func TestRegress(t *testing.T) { ev.RunRegress(t, replayOne) }
