//go:build verif

package c10

import (
	"os"
	"sort"
	"strconv"
)

type fixedProgram struct {
	Name  string
	Files []FileText // Files[0] is the entry
	Feat  Feat
}

func tiny(name string) string {
	return "struct S_" + name + " {\n  1: optional string a\n}\n"
}

// fixedPrograms are small programs aimed at one ordering hazard each. The
// last two fail (in the generator / in the compiler) every time, to exercise
// the outcome half of the oracle.
func svcFile(name string, includes ...string) string {
	s := ""
	for _, i := range includes {
		s += "include \"./" + i + ".thrift\"\n"
	}
	return s + "\nstruct S_" + name + " {\n  1: optional string a\n}\n\nservice Svc_" + name + " {\n  void call_" + name + "()\n}\n"
}

var fixedPrograms = []fixedProgram{
	{
		// names that are reserved in exceptions, or in the argument / result structs of functions,
		// are ordinary field names in a plain struct; the struct is generated before the exception
		// and the service, so whatever those leave behind in the process only shows the second time
		Name: "plain-struct-with-names-reserved-elsewhere",
		Files: []FileText{
			{"root.thrift", "struct Aplain {\n  1: optional string error\n  2: optional string error_name\n  3: optional string method_name\n  4: optional string envelope_type\n}\n\nexception Boom {\n  1: optional string why\n}\n\nservice Zsvc {\n  Aplain get(1: string key) throws (1: Boom boom)\n}\n"},
		},
		Feat: Feat{Files: 1},
	},
	{
		// includes fan out on two levels: the entry includes two files, and the first of them
		// (while its sibling is still queued by a walk over the modules) includes three more;
		// every file has a service, so the order of the walk shows in the plugin request
		Name: "nested-include-fan-out-with-services",
		Files: []FileText{
			{"root.thrift", svcFile("root", "a", "z")},
			{"a.thrift", svcFile("a", "m", "k", "q")}, {"z.thrift", svcFile("z", "y", "x")},
			{"m.thrift", svcFile("m")}, {"k.thrift", svcFile("k")}, {"q.thrift", svcFile("q")}, {"y.thrift", svcFile("y")}, {"x.thrift", svcFile("x")},
		},
		Feat: Feat{Files: 8, MaxIncludes: 3},
	},
	{
		// F4: the entry file has a type of its own (so the library's fmt is
		// imported first) and includes files nothing refers to.
		Name: "unused-includes-fmt-fmt2-fmt3",
		Files: []FileText{
			{"root.thrift", "include \"./fmt.thrift\"\ninclude \"./fmt2.thrift\"\ninclude \"./fmt3.thrift\"\n\nstruct L {\n  1: optional string a\n}\n"},
			{"fmt.thrift", tiny("fmt")}, {"fmt2.thrift", tiny("fmt2")}, {"fmt3.thrift", tiny("fmt3")},
		},
		Feat: Feat{Files: 4, MaxIncludes: 3, AliasCollisions: 3},
	},
	{
		Name: "service-only-includes-strings-strings2",
		Files: []FileText{
			{"svc/api.thrift", "include \"../lib/strings.thrift\"\ninclude \"../lib/strings2.thrift\"\n\nenum E {\n  A,\n  B\n}\n\nservice Api {\n  strings.S_strings f(1: strings2.S_strings2 a)\n}\n"},
			{"lib/strings.thrift", tiny("strings")}, {"lib/strings2.thrift", tiny("strings2")},
		},
		Feat: Feat{Files: 3, MaxIncludes: 2, AliasCollisions: 2},
	},
	{
		Name: "library-names-used-in-fields",
		Files: []FileText{
			{"root.thrift", "include \"./strings.thrift\"\ninclude \"./errors.thrift\"\ninclude \"./bytes.thrift\"\ninclude \"./wire.thrift\"\ninclude \"./range.thrift\"\n\nstruct R {\n  1: optional strings.S_strings a\n  2: optional list<errors.S_errors> b\n  3: optional map<string, bytes.S_bytes> c\n  4: required wire.S_wire d\n  5: optional set<binary> e\n  6: optional range.S_range f\n}\n\nconst R DEFAULT_R = {\"d\": {\"a\": \"x\"}}\n"},
			{"strings.thrift", tiny("strings")}, {"errors.thrift", tiny("errors")}, {"bytes.thrift", tiny("bytes")}, {"wire.thrift", tiny("wire")}, {"range.thrift", tiny("range")},
		},
		Feat: Feat{Files: 6, MaxIncludes: 5, AliasCollisions: 5},
	},
	{
		// the same base name (and the same definition names) in two directories
		Name: "same-base-name-in-two-directories",
		Files: []FileText{
			{"root.thrift", "include \"./a/common.thrift\"\ninclude \"./mid.thrift\"\ninclude \"./common2.thrift\"\n\nstruct Item {\n  1: optional string local\n}\n\nstruct Uses {\n  1: optional list<common.Item> a\n  2: optional list<mid.Thing> b\n  3: optional list<Item> c\n  4: optional map<string, common2.Item> d\n  5: optional mid.Alias e\n}\n\ntypedef list<common.Item> CommonItems\ntypedef list<Item> Items\n\nservice Top extends mid.Middle {\n  common.Item pick(1: list<common.Item> candidates)\n}\n"},
			{"a/common.thrift", "include \"../b/common.thrift\"\n\nstruct Item {\n  1: optional string a\n  2: optional common.Item inner\n}\n\nservice Low {\n  void low()\n}\n"},
			{"b/common.thrift", "struct Item {\n  1: optional string b\n}\n\nservice Low {\n  void lower()\n}\n"},
			{"mid.thrift", "include \"./b/common.thrift\"\n\ntypedef common.Item Alias\n\nstruct Thing {\n  1: optional common.Item item\n  2: optional list<Alias> more\n}\n\nservice Middle extends common.Low {\n  Alias mid()\n}\n"},
			{"common2.thrift", "struct Item {\n  1: optional string c\n}\n"},
		},
		Feat: Feat{Files: 5, MaxIncludes: 3, AliasCollisions: 1},
	},
	{
		// services in several files: module and service ids, rootServices order
		Name: "services-in-five-files",
		Files: []FileText{
			{"root.thrift", "include \"./s1.thrift\"\ninclude \"./s2.thrift\"\ninclude \"./s3.thrift\"\ninclude \"./s4.thrift\"\n\nservice Zeta extends s1.One {\n  void z()\n}\n\nservice Alpha extends s4.Four {\n  void a(1: s2.P p)\n}\n\nservice Mid extends s3.Three {\n}\n"},
			{"s1.thrift", "include \"./s2.thrift\"\n\nservice One extends s2.Two {\n  void one()\n}\n\nservice OneB {\n  void oneb()\n}\n"},
			{"s2.thrift", "struct P {\n  1: optional string p\n}\n\nservice Two {\n  P two(1: P p) (k = \"v\", a = \"b\")\n} (owner = \"x\", z = \"y\")\n"},
			{"s3.thrift", "include \"./s4.thrift\"\ninclude \"./s2.thrift\"\n\nservice Three extends s4.Four {\n  s2.P three()\n}\n"},
			{"s4.thrift", "exception Bad {\n  1: optional string why\n}\n\nservice Four {\n  void four() throws (1: Bad bad)\n  oneway void fire()\n}\n\nservice FourB extends Four {\n}\n"},
		},
		Feat: Feat{Files: 5, MaxIncludes: 4},
	},
	{
		// minimal input for the rootServices order finding
		Name: "services-in-three-files",
		Files: []FileText{
			{"root.thrift", "include \"./s1.thrift\"\ninclude \"./s2.thrift\"\n\nservice R {\n}\n"},
			{"s1.thrift", "service A {\n}\n"},
			{"s2.thrift", "service B {\n}\n"},
		},
		Feat: Feat{Files: 3, MaxIncludes: 2},
	},
	{
		Name: "constants-of-map-set-struct-type",
		Files: []FileText{
			{"consts.thrift", "include \"./kinds.thrift\"\ninclude \"./kinds2.thrift\"\ninclude \"./math.thrift\"\n\nstruct Point {\n  1: required double x\n  2: required double y\n  3: optional map<string, string> labels\n  4: optional set<i32> ids\n}\n\nconst map<string, i32> M1 = {\"zeta\": 26, \"alpha\": 1, \"mu\": 12, \"beta\": 2, \"omega\": 24, \"eta\": 7, \"pi\": 16, \"rho\": 17, \"tau\": 19}\nconst map<kinds.Kind, list<string>> M2 = {kinds.Kind.C: [\"c\"], kinds.Kind.A: [\"a\", \"aa\"], kinds.Kind.B: []}\nconst set<string> S1 = [\"q\", \"w\", \"e\", \"r\", \"t\", \"y\", \"u\", \"i\", \"o\", \"p\"]\nconst set<kinds2.Kind> S2 = [kinds2.Kind.B, kinds2.Kind.A]\nconst Point ORIGIN = {\"x\": 0, \"y\": 0, \"labels\": {\"name\": \"origin\", \"kind\": \"point\", \"z\": \"none\"}, \"ids\": [3, 1, 2]}\nconst list<Point> PATH = [{\"x\": 1, \"y\": 2}, ORIGIN, {\"x\": 3.5, \"y\": -1, \"ids\": []}]\nconst map<string, Point> NAMED = {\"o\": ORIGIN, \"unit\": {\"x\": 1, \"y\": 1}}\nconst map<string, map<string, set<i64>>> DEEP = {\"b\": {\"y\": [2, 1], \"x\": [9]}, \"a\": {}}\nconst math.Vec V = {\"c\": [1.0, 2.0]}\nconst i32 LIMIT = math.MAX\n"},
			{"kinds.thrift", "enum Kind {\n  A,\n  B,\n  C\n}\n"},
			{"kinds2.thrift", "enum Kind {\n  A = 5,\n  B = 7\n}\n"},
			{"math.thrift", "struct Vec {\n  1: optional list<double> c\n}\n\nconst i32 MAX = 100\n"},
		},
		Feat: Feat{Files: 4, MaxIncludes: 3, AliasCollisions: 2},
	},
	{
		Name: "helper-name-collisions",
		Files: []FileText{
			{"helpers.thrift", "struct Item {\n  1: optional string v\n}\n\ntypedef list<Item> ItemList\n\nstruct ListItem {\n  1: optional list<Item> items\n  2: optional ItemList more\n  3: optional list<list<Item>> nested\n}\n\nstruct List_Item_ValueList {\n  1: optional list<Item> items\n  2: optional map<string, Item> byName\n}\n\ntypedef map<string, string> MapStringString\n\nstruct Map_String_String_MapItemList {\n  1: optional map<string, string> m\n  2: optional MapStringString n\n}\n\ntypedef set<binary> SetBinary\ntypedef set<binary> Set_Binary_sliceType\n\nstruct Blobs {\n  1: optional set<binary> a\n  2: optional SetBinary b\n  3: optional Set_Binary_sliceType c\n  4: optional map<list<string>, i32> d\n  5: optional map<set<i32>, list<double>> e\n}\n\nservice Helper {\n  list<Item> all(1: set<binary> keys, 2: map<string, string> opts)\n}\n"},
		},
		Feat: Feat{Files: 1, HelperCollisions: 4},
	},
	{
		Name: "always-fails-in-generator",
		Files: []FileText{
			{"clash.thrift", "include \"./fmt.thrift\"\ninclude \"./fmt2.thrift\"\n\nstruct Foo_Bar {\n  1: optional string a\n}\n\nstruct FooBar {\n  1: optional string b\n}\n"},
			{"fmt.thrift", tiny("fmt")}, {"fmt2.thrift", tiny("fmt2")},
		},
		Feat: Feat{Files: 3, MaxIncludes: 2},
	},
	{
		Name: "always-fails-in-compiler",
		Files: []FileText{
			{"broken.thrift", "include \"./fmt.thrift\"\n\nstruct A {\n  1: optional Missing m\n  2: optional AlsoMissing n\n}\n\nstruct B {\n  1: optional fmt.Nope x\n}\n"},
			{"fmt.thrift", tiny("fmt")},
		},
		Feat: Feat{Files: 2, MaxIncludes: 1},
	},
}

// fixedOrders: every map reversed, and every map rotated by one.
func fixedOrders(keys map[string][]string) []map[string][]string {
	if keys == nil {
		return nil
	}
	var names []string
	for k := range keys {
		names = append(names, k)
	}
	sort.Strings(names)
	rev, rot := map[string][]string{}, map[string][]string{}
	for _, k := range names {
		v := keys[k]
		if len(v) < 2 {
			continue
		}
		r := make([]string, len(v))
		for i := range v {
			r[len(v)-1-i] = v[i]
		}
		rev[k] = r
		rot[k] = append(append([]string{}, v[1:]...), v[0])
	}
	return []map[string][]string{rev, rot}
}

func shard() (int, int) {
	s, _ := strconv.Atoi(os.Getenv("VERIF_SHARD"))
	n, _ := strconv.Atoi(os.Getenv("VERIF_NSHARDS"))
	if n < 1 {
		n = 1
	}
	if s < 0 || s >= n {
		s = 0
	}
	return s, n
}
