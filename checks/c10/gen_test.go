//go:build verif

package c10

import (
	"fmt"
	"path"
	"sort"
	"strings"
	"unicode"

	"go.uber.org/thriftrw/compile"
	"pgregory.net/rapid"
	im "verif/internal/idlmodel"
)

// ---------------------------------------------------------------- awkward names

// goImports are names of packages the generated code imports itself; a Thrift
// file with such a base name yields a Go package whose preferred import alias
// clashes with the library's.
var goImports = []string{"fmt", "bytes", "wire", "stream", "zapcore", "ptr", "strconv", "errors", "strings", "math", "base64", "multierr", "thriftreflect", "json"}

// goKeywords are reserved by the generator's namespace (alias gets a suffix).
var goKeywords = []string{"range", "func", "select", "error", "chan", "defer"}

// plainNames never clash with anything.
var plainNames = []string{"common", "shared", "types", "constants", "idl", "model"}

func isGoImport(n string) bool {
	for _, g := range goImports {
		if g == n {
			return true
		}
	}
	return false
}

func isGoKeyword(n string) bool {
	for _, g := range goKeywords {
		if g == n {
			return true
		}
	}
	return false
}

func stripDigits(n string) string { return strings.TrimRightFunc(n, unicode.IsDigit) }

// aliasCollisions counts, among the include names of one file, those whose
// preferred Go import alias is contested: equal to a library package or a Go
// keyword, or equal to another include's name plus a number (the scheme the
// generator uses to resolve clashes: fmt, fmt2, fmt3, ...).
func aliasCollisions(names []string) int {
	have := map[string]bool{}
	for _, n := range names {
		have[n] = true
	}
	k := 0
	for _, n := range names {
		base := stripDigits(n)
		switch {
		case isGoImport(n), isGoKeyword(n):
			k++
		case base != n && (have[base] || isGoImport(base) || isGoKeyword(base)):
			k++
		}
	}
	return k
}

// ---------------------------------------------------------------- source kind 1: the program model, with awkward file names

// renameFiles moves files of p (old path -> new path) and fixes every reference.
// Types and constants may be shared between definitions, so each node is
// visited through a seen-set.
func renameFiles(p *im.Program, mv map[string]string) {
	seenT := map[*im.Ref]bool{}
	seenC := map[*im.ConstRef]bool{}
	var rt func(t *im.Type)
	rt = func(t *im.Type) {
		if t == nil {
			return
		}
		rt(t.Elem)
		rt(t.Key)
		rt(t.Val)
		if t.Ref != nil && !seenT[t.Ref] {
			seenT[t.Ref] = true
			if n, ok := mv[t.Ref.File]; ok {
				t.Ref.File = n
			}
		}
	}
	var rc func(c *im.Const)
	rc = func(c *im.Const) {
		if c == nil {
			return
		}
		for _, i := range c.Items {
			rc(i)
		}
		for _, pr := range c.Pairs {
			rc(pr[0])
			rc(pr[1])
		}
		if c.Ref != nil && !seenC[c.Ref] {
			seenC[c.Ref] = true
			if n, ok := mv[c.Ref.Target.File]; ok {
				c.Ref.Target.File = n
			}
		}
	}
	rf := func(fs []*im.Field) {
		for _, f := range fs {
			rt(f.Type)
			rc(f.Default)
		}
	}
	seenP := map[*im.Ref]bool{}
	for _, f := range p.Files {
		if n, ok := mv[f.Path]; ok {
			f.Path = n
		}
		for i, inc := range f.Includes {
			if n, ok := mv[inc]; ok {
				f.Includes[i] = n
			}
		}
		for _, d := range f.Defs {
			rt(d.Target)
			rt(d.Type)
			rc(d.Value)
			rf(d.Fields)
			if d.Parent != nil && !seenP[d.Parent] {
				seenP[d.Parent] = true
				if n, ok := mv[d.Parent.File]; ok {
					d.Parent.File = n
				}
			}
			for _, fn := range d.Funcs {
				rt(fn.Ret)
				rf(fn.Args)
				rf(fn.Throws)
			}
		}
	}
	p.Index()
}

// familyNames draws n distinct file base names; with families on, runs like
// fmt, fmt2, fmt3 are likely.
func familyNames(t *rapid.T, n int, label string) []string {
	var out []string
	used := map[string]bool{}
	add := func(s string) {
		if !used[s] && len(out) < n {
			used[s] = true
			out = append(out, s)
		}
	}
	pool := append(append(append([]string{}, goImports...), goKeywords...), plainNames...)
	if rapid.IntRange(0, 3).Draw(t, label+"_family") > 0 {
		base := rapid.SampledFrom(append(append([]string{}, goImports...), "common", "range")).Draw(t, label+"_base")
		if rapid.IntRange(0, 4).Draw(t, label+"_withbase") > 0 {
			add(base)
		}
		for k, m := 2, rapid.IntRange(2, 4).Draw(t, label+"_famsize"); k <= m; k++ {
			add(fmt.Sprintf("%s%d", base, k))
		}
	}
	for i := 0; len(out) < n; i++ {
		s := rapid.SampledFrom(pool).Draw(t, fmt.Sprintf("%s_name%d", label, i))
		if used[s] {
			s = fmt.Sprintf("%s%d", s, rapid.IntRange(2, 3).Draw(t, fmt.Sprintf("%s_sfx%d", label, i)))
		}
		if used[s] {
			continue
		}
		add(s)
	}
	return rapid.Permutation(out).Draw(t, label+"_order")
}

func genModel(t *rapid.T) (files []FileText, entry string, feat Feat) {
	o := &im.GenOpts{Services: true, Defaults: true, Consts: true, Recursive: true,
		Annotations: rapid.Bool().Draw(t, "annots"),
		MaxFiles:    6,
		Small:       rapid.IntRange(0, 3).Draw(t, "small") > 0,
		BackEdges:   rapid.IntRange(0, 5).Draw(t, "backedges") == 0,
	}
	p := im.GenProgram(t, o)
	if len(p.Files) > 1 && rapid.IntRange(0, 2).Draw(t, "awkward") > 0 {
		// keep the entry file's name, give every other file a contested one
		names := familyNames(t, len(p.Files)-1, "mf")
		mv := map[string]string{}
		for i, f := range p.Files[1:] {
			mv[f.Path] = path.Join(path.Dir(f.Path), names[i]+".thrift")
		}
		renameFiles(p, mv)
	}
	texts := p.Render()
	for _, f := range p.Files {
		files = append(files, FileText{Path: f.Path, Text: texts[f.Path]})
		var incs []string
		for _, i := range f.Includes {
			incs = append(incs, im.IncludeName(i))
		}
		if len(incs) > feat.MaxIncludes {
			feat.MaxIncludes = len(incs)
		}
		feat.AliasCollisions += aliasCollisions(incs)
	}
	feat.Files = len(p.Files)
	return files, p.Files[0].Path, feat
}

// ---------------------------------------------------------------- source kind 2: collision programs as raw text

type leaf struct {
	Path string // relative to the source root
	Name string // include name
	Sfx  string // suffix of every definition name ("" = the same names in every file)
	Idx  int
	// what the file defines besides Item<s> and Kind<s>
	Typedefs, Consts, Union, Exc, Svc bool
	Incs                              []*leaf
}

func relInclude(from, target string) string {
	fd, td := path.Dir(from), path.Dir(target)
	var fs, ts []string
	if fd != "." {
		fs = strings.Split(fd, "/")
	}
	if td != "." {
		ts = strings.Split(td, "/")
	}
	i := 0
	for i < len(fs) && i < len(ts) && fs[i] == ts[i] {
		i++
	}
	var parts []string
	for j := i; j < len(fs); j++ {
		parts = append(parts, "..")
	}
	parts = append(parts, ts[i:]...)
	parts = append(parts, path.Base(target))
	rel := strings.Join(parts, "/")
	if !strings.HasPrefix(rel, "..") {
		rel = "./" + rel
	}
	return rel
}

func (l *leaf) text() string {
	var sb strings.Builder
	s := l.Sfx
	for _, o := range l.Incs {
		fmt.Fprintf(&sb, "include %q\n", relInclude(l.Path, o.Path))
	}
	fmt.Fprintf(&sb, "\nenum Kind%s {\n  ALPHA,\n  BETA = 5,\n  GAMMA\n}\n\n", s)
	fmt.Fprintf(&sb, "typedef binary Blob%s\ntypedef string ID%s\n\n", s, s)
	fmt.Fprintf(&sb, "struct Item%s {\n  1: required ID%s id\n  2: optional i64 n\n  3: optional Kind%s kind = Kind%s.BETA\n  4: optional Blob%s data\n  5: optional list<string> tags\n  6: optional double ratio\n}\n\n", s, s, s, s, s)
	if l.Typedefs {
		fmt.Fprintf(&sb, "typedef list<Item%s> Items%s\ntypedef map<string, Item%s> ByName%s\ntypedef set<Blob%s> Blobs%s\n\n", s, s, s, s, s, s)
	}
	if l.Union {
		fmt.Fprintf(&sb, "union Choice%s {\n  1: Item%s item\n  2: string text\n  3: list<Kind%s> kinds\n}\n\n", s, s, s)
	}
	if l.Exc {
		fmt.Fprintf(&sb, "exception Oops%s {\n  1: optional string msg\n  2: optional Kind%s kind\n}\n\n", s, s)
	}
	if l.Consts {
		fmt.Fprintf(&sb, "const i32 LIMIT%s = %d\n", s, 10+l.Idx)
		fmt.Fprintf(&sb, "const Item%s DEFAULT%s = {\"id\": \"d%d\", \"n\": %d, \"tags\": [\"x\", \"y\"]}\n", s, s, l.Idx, l.Idx)
		fmt.Fprintf(&sb, "const set<string> NAMES%s = [\"a\", \"b\", \"c%d\"]\n", s, l.Idx)
		fmt.Fprintf(&sb, "const map<Kind%s, string> LABELS%s = {Kind%s.ALPHA: \"alpha\", Kind%s.GAMMA: \"gamma\"}\n\n", s, s, s, s)
	}
	for _, o := range l.Incs {
		fmt.Fprintf(&sb, "struct LinkTo%s%s {\n  1: optional %s.Item%s other\n  2: optional list<%s.Kind%s> kinds\n}\n\n", upper(o.Name), s, o.Name, o.Sfx, o.Name, o.Sfx)
	}
	if l.Svc {
		fmt.Fprintf(&sb, "service Base%s {\n  Item%s get(1: ID%s id)", s, s, s)
		if l.Exc {
			fmt.Fprintf(&sb, " throws (1: Oops%s e)", s)
		}
		sb.WriteString("\n  oneway void poke()\n}\n\n")
		for _, o := range l.Incs {
			if o.Svc {
				fmt.Fprintf(&sb, "service Ext%s%s extends %s.Base%s {\n  void more(1: %s.Item%s a)\n}\n\n", upper(o.Name), s, o.Name, o.Sfx, o.Name, o.Sfx)
			}
		}
	}
	return sb.String()
}

func upper(s string) string {
	if s == "" {
		return s
	}
	return strings.ToUpper(s[:1]) + s[1:]
}

// how the root file uses one include
const (
	useNone = iota
	useField
	useTypedef
	useConst
	useService
	useAll
)

func genCollision(t *rapid.T) (files []FileText, entry string, feat Feat) {
	n := rapid.IntRange(3, 8).Draw(t, "nleaves")
	names := familyNames(t, n, "cf")
	dirs := []string{"", "", "lib/", "a/", "b/", "deep/er/"}
	same := rapid.IntRange(0, 2).Draw(t, "same_def_names") == 0
	var leaves []*leaf
	for i, nm := range names {
		l := &leaf{Name: nm, Idx: i,
			Path:     rapid.SampledFrom(dirs).Draw(t, fmt.Sprintf("dir%d", i)) + nm + ".thrift",
			Typedefs: rapid.Bool().Draw(t, fmt.Sprintf("td%d", i)),
			Consts:   rapid.Bool().Draw(t, fmt.Sprintf("cs%d", i)),
			Union:    rapid.IntRange(0, 2).Draw(t, fmt.Sprintf("un%d", i)) == 0,
			Exc:      rapid.Bool().Draw(t, fmt.Sprintf("ex%d", i)),
			Svc:      rapid.IntRange(0, 2).Draw(t, fmt.Sprintf("sv%d", i)) == 0,
		}
		if !same {
			l.Sfx = fmt.Sprint(i)
		}
		leaves = append(leaves, l)
	}
	// files that are not included by the root but by a leaf: the same base name
	// in another directory (two files of one name cannot be included side by side)
	var hidden []*leaf
	if rapid.IntRange(0, 2).Draw(t, "shadow") == 0 {
		vi := rapid.IntRange(0, n-1).Draw(t, "shadow_of")
		victim := leaves[vi]
		h := &leaf{Name: victim.Name, Idx: n, Path: "other/" + victim.Name + ".thrift", Sfx: victim.Sfx, Consts: true, Svc: rapid.Bool().Draw(t, "shadow_svc")}
		hidden = append(hidden, h)
		must := (vi + 1 + rapid.IntRange(0, n-2).Draw(t, "shadow_by")) % n // some leaf other than the victim
		for i, l := range leaves {
			if i == must || (i != vi && rapid.IntRange(0, 2).Draw(t, fmt.Sprintf("shadow_by%d", i)) == 0) {
				l.Incs = append(l.Incs, h)
			}
		}
	}
	// leaf i may include leaves j > i (acyclic)
	for i, l := range leaves {
		for j := i + 1; j < n; j++ {
			if rapid.IntRange(0, 3).Draw(t, fmt.Sprintf("inc%d_%d", i, j)) == 0 {
				clash := false
				for _, o := range l.Incs {
					if o.Name == leaves[j].Name {
						clash = true
					}
				}
				if !clash {
					l.Incs = append(l.Incs, leaves[j])
				}
			}
		}
	}

	rootName := rapid.SampledFrom([]string{"root", "api", "types", "service"}).Draw(t, "rootname")
	for _, l := range leaves {
		if l.Name == rootName {
			rootName = "entry"
		}
	}
	rootPath := rapid.SampledFrom([]string{"", "", "svc/", "a/"}).Draw(t, "rootdir") + rootName + ".thrift"

	var sb strings.Builder
	incOrder := rapid.Permutation(leaves).Draw(t, "include_order")
	for _, l := range incOrder {
		fmt.Fprintf(&sb, "include %q\n", relInclude(rootPath, l.Path))
	}
	sb.WriteString("\n")

	uses := make([]int, n)
	quiet := rapid.IntRange(0, 2).Draw(t, "quiet_includes") == 0 // most includes referenced by no type or constant
	for i := range leaves {
		if quiet {
			uses[i] = rapid.SampledFrom([]int{useNone, useNone, useService, useService, useField}).Draw(t, fmt.Sprintf("use%d", i))
		} else {
			uses[i] = rapid.IntRange(useNone, useAll).Draw(t, fmt.Sprintf("use%d", i))
		}
	}
	is := func(i int, u int) bool { return uses[i] == u || uses[i] == useAll }

	// local enums
	for k, ne := 0, rapid.IntRange(0, 5).Draw(t, "nenums"); k < ne; k++ {
		fmt.Fprintf(&sb, "enum Color%d {\n  RED = %d,\n  GREEN,\n  DARK_BLUE\n}\n\n", k, k)
	}
	// helper-name collisions
	helper := rapid.IntRange(0, 31).Draw(t, "helpers")
	localItem := helper&1 != 0 || helper&2 != 0
	if localItem {
		sb.WriteString("struct Item {\n  1: optional string v\n}\n\n")
	}
	if helper&1 != 0 {
		sb.WriteString("typedef list<Item> ItemList\nstruct ListItem {\n  1: optional list<Item> items\n  2: optional ItemList more\n}\n\n")
		feat.HelperCollisions++
	}
	if helper&2 != 0 {
		sb.WriteString("struct List_Item_ValueList {\n  1: optional list<Item> items\n  2: optional map<string, Item> byName\n}\n\n")
		feat.HelperCollisions++
	}
	if helper&4 != 0 {
		sb.WriteString("typedef map<string, string> MapStringString\nstruct Map_String_String_MapItemList {\n  1: optional map<string, string> m\n  2: optional MapStringString n\n}\n\n")
		feat.HelperCollisions++
	}
	if helper&8 != 0 {
		sb.WriteString("typedef set<binary> SetBinary\ntypedef set<binary> Set_Binary_sliceType\nstruct Blobs {\n  1: optional set<binary> a\n  2: optional SetBinary b\n  3: optional Set_Binary_sliceType c\n}\n\n")
		feat.HelperCollisions++
	}
	if helper&16 != 0 {
		sb.WriteString("typedef map<list<string>, i32> MapListStringI32\nstruct Weird {\n  1: optional map<list<string>, i32> a\n  2: optional MapListStringI32 b\n  3: optional map<set<i32>, list<double>> c\n}\n\n")
		feat.HelperCollisions++
	}
	// the struct holding fields of included types
	if rapid.IntRange(0, 5).Draw(t, "holder") > 0 {
		sb.WriteString("struct Holder {\n")
		id := 1
		for i, l := range leaves {
			if !is(i, useField) {
				continue
			}
			q, s := l.Name, l.Sfx
			shapes := []string{
				fmt.Sprintf("optional %s.Item%s", q, s),
				fmt.Sprintf("optional list<%s.Item%s>", q, s),
				fmt.Sprintf("optional map<string, %s.Item%s>", q, s),
				fmt.Sprintf("optional set<%s.Kind%s>", q, s),
				fmt.Sprintf("optional map<list<%s.Item%s>, %s.Kind%s>", q, s, q, s),
				fmt.Sprintf("optional set<%s.Blob%s>", q, s),
				fmt.Sprintf("required %s.Kind%s", q, s),
			}
			if l.Typedefs {
				shapes = append(shapes, fmt.Sprintf("optional %s.Items%s", q, s), fmt.Sprintf("optional %s.ByName%s", q, s), fmt.Sprintf("optional list<%s.Blobs%s>", q, s))
			}
			if l.Union {
				shapes = append(shapes, fmt.Sprintf("optional %s.Choice%s", q, s))
			}
			for k, nf := 0, rapid.IntRange(1, 3).Draw(t, fmt.Sprintf("nfields%d", i)); k < nf; k++ {
				fmt.Fprintf(&sb, "  %d: %s f%d\n", id, rapid.SampledFrom(shapes).Draw(t, fmt.Sprintf("shape%d_%d", i, k)), id)
				id++
			}
		}
		sb.WriteString("}\n\n")
	}
	for i, l := range leaves {
		if !is(i, useTypedef) {
			continue
		}
		q, s, Q := l.Name, l.Sfx, upper(l.Name)
		fmt.Fprintf(&sb, "typedef %s.Item%s %sItem\ntypedef list<%s.Item%s> %sItemList\ntypedef map<%s.Kind%s, list<%s.Item%s>> %sByKind\n\n", q, s, Q, q, s, Q, q, s, q, s, Q)
	}
	for i, l := range leaves {
		if !is(i, useConst) {
			continue
		}
		q, s, Q := l.Name, l.Sfx, strings.ToUpper(l.Name)
		fmt.Fprintf(&sb, "const %s.Item%s %s_DEFAULT = {\"id\": \"r%d\", \"kind\": %s.Kind%s.GAMMA}\n", q, s, Q, i, q, s)
		fmt.Fprintf(&sb, "const map<string, %s.Kind%s> %s_KINDS = {\"x\": %s.Kind%s.ALPHA, \"y\": %s.Kind%s.BETA}\n", q, s, Q, q, s, q, s)
		fmt.Fprintf(&sb, "const list<%s.Item%s> %s_ITEMS = [{\"id\": \"one\"}, {\"id\": \"two\", \"n\": 2}]\n", q, s, Q)
		if l.Consts {
			fmt.Fprintf(&sb, "const i32 %s_LIMIT = %s.LIMIT%s\nconst set<string> %s_NAMES = %s.NAMES%s\n", Q, q, s, Q, q, s)
		}
		sb.WriteString("\n")
	}
	for k, nc := 0, rapid.IntRange(0, 10).Draw(t, "nconsts"); k < nc; k++ {
		switch rapid.IntRange(0, 5).Draw(t, fmt.Sprintf("ckind%d", k)) {
		case 0:
			fmt.Fprintf(&sb, "const i32 N%d = %d\n", k, k*7)
		case 1:
			fmt.Fprintf(&sb, "const string S%d = \"value %d\"\n", k, k)
		case 2:
			fmt.Fprintf(&sb, "const list<i32> L%d = [%d, 2, 3]\n", k, k)
		case 3:
			fmt.Fprintf(&sb, "const map<string, i32> M%d = {\"zeta\": 1, \"alpha\": 2, \"mid%d\": 3, \"beta\": 4}\n", k, k)
		case 4:
			fmt.Fprintf(&sb, "const set<string> T%d = [\"q\", \"b\", \"k%d\"]\n", k, k)
		case 5:
			fmt.Fprintf(&sb, "const map<string, map<string, list<double>>> D%d = {\"o\": {\"i\": [1.5, %d.0]}, \"a\": {}}\n", k, k)
		}
	}
	sb.WriteString("\n")
	// services
	var svcArgs []string
	for i, l := range leaves {
		if is(i, useService) {
			svcArgs = append(svcArgs, fmt.Sprintf("%s.Item%s", l.Name, l.Sfx), fmt.Sprintf("list<%s.Kind%s>", l.Name, l.Sfx))
		}
	}
	if len(svcArgs) > 0 || rapid.IntRange(0, 2).Draw(t, "plain_service") == 0 {
		for k, ns := 0, rapid.IntRange(1, 3).Draw(t, "nservices"); k < ns; k++ {
			fmt.Fprintf(&sb, "service Root%d {\n", k)
			for f, nf := 0, rapid.IntRange(1, 3).Draw(t, fmt.Sprintf("nfuncs%d", k)); f < nf; f++ {
				ret := "void"
				if len(svcArgs) > 0 && rapid.Bool().Draw(t, fmt.Sprintf("ret%d_%d", k, f)) {
					ret = rapid.SampledFrom(svcArgs).Draw(t, fmt.Sprintf("rett%d_%d", k, f))
				}
				fmt.Fprintf(&sb, "  %s call%d(", ret, f)
				for a := 0; a < len(svcArgs) && a < 4; a++ {
					if a > 0 {
						sb.WriteString(", ")
					}
					fmt.Fprintf(&sb, "%d: %s a%d", a+1, svcArgs[(a+f+k)%len(svcArgs)], a)
				}
				sb.WriteString(")\n")
			}
			sb.WriteString("}\n\n")
		}
		for i, l := range leaves {
			if is(i, useService) && l.Svc {
				fmt.Fprintf(&sb, "service Ext%s extends %s.Base%s {\n  void extra(1: %s.Item%s a)\n}\n\n", upper(l.Name), l.Name, l.Sfx, l.Name, l.Sfx)
			}
		}
	}

	files = append(files, FileText{Path: rootPath, Text: sb.String()})
	for _, l := range append(append([]*leaf{}, leaves...), hidden...) {
		files = append(files, FileText{Path: l.Path, Text: l.text()})
	}
	feat.Files = len(files)
	feat.MaxIncludes = n
	feat.AliasCollisions = aliasCollisions(names)
	for _, l := range leaves {
		var incs []string
		for _, o := range l.Incs {
			incs = append(incs, o.Name)
		}
		feat.AliasCollisions += aliasCollisions(incs)
	}
	return files, rootPath, feat
}

// ---------------------------------------------------------------- link orders

type memFS map[string]string

const virtRoot = "/c10virt"

func (m memFS) Read(p string) ([]byte, error) {
	s, ok := m[p]
	if !ok {
		return nil, fmt.Errorf("no such file %q", p)
	}
	return []byte(s), nil
}

func (m memFS) Abs(p string) (string, error) {
	if path.IsAbs(p) {
		return path.Clean(p), nil
	}
	return path.Join(virtRoot, p), nil
}

// mapKeys compiles the program in memory and lists, per module and per map the
// compiler ranges over, the keys in sorted order. nil if it does not compile.
func mapKeys(files []FileText, entry string) map[string][]string {
	fs := memFS{}
	for _, f := range files {
		fs[path.Join(virtRoot, f.Path)] = f.Text
	}
	var m *compile.Module
	var err error
	func() {
		defer func() {
			if recover() != nil {
				err = fmt.Errorf("panic")
			}
		}()
		m, err = compile.Compile(path.Join(virtRoot, entry), compile.Filesystem(fs))
	}()
	if err != nil || m == nil {
		return nil
	}
	out := map[string][]string{}
	m.Walk(func(m *compile.Module) error {
		rel := strings.TrimPrefix(m.ThriftPath, virtRoot+"/")
		var a, b, c, d []string
		for k := range m.Types {
			a = append(a, k)
		}
		for k := range m.Constants {
			b = append(b, k)
		}
		for k := range m.Services {
			c = append(c, k)
		}
		for k := range m.Includes {
			d = append(d, k)
		}
		for _, x := range [][]string{a, b, c, d} {
			sort.Strings(x)
		}
		out[rel+"|types"], out[rel+"|constants"], out[rel+"|services"], out[rel+"|includes"] = a, b, c, d
		return nil
	})
	return out
}

func genOrders(t *rapid.T, keys map[string][]string, n int) []map[string][]string {
	var names []string
	for k, v := range keys {
		if len(v) > 1 {
			names = append(names, k)
		}
	}
	sort.Strings(names)
	var out []map[string][]string
	for i := 0; i < n; i++ {
		o := map[string][]string{}
		for _, k := range names {
			o[k] = rapid.Permutation(keys[k]).Draw(t, fmt.Sprintf("order%d_%s", i, k))
		}
		out = append(out, o)
	}
	return out
}
