//go:build verif

package c10

import (
	"bytes"
	"context"
	"crypto/sha256"
	"encoding/hex"
	"encoding/json"
	"errors"
	"fmt"
	"os"
	"os/exec"
	"path/filepath"
	"regexp"
	"sort"
	"strings"
	"sync"
	"time"

	"go.uber.org/thriftrw/compile"
	"go.uber.org/thriftrw/gen"
	"go.uber.org/thriftrw/plugin/api"
	"verif/internal/bins"
	"verif/internal/ev"
)

// envError is a failure of the harness or its environment: never a verdict
// about thriftrw.
type envError struct{ msg string }

func (e *envError) Error() string { return "environment: " + e.msg }

func envErrf(format string, args ...interface{}) error {
	return &envError{msg: fmt.Sprintf(format, args...)}
}

const pkgPrefix = "example.com/c10"

// ---------------------------------------------------------------- one run = one snapshot

// snapshot is everything observed from one generation run.
type snapshot struct {
	sched string // cli | inproc | link-order
	label string // e.g. "process 3", "repetition 2", "link order 1"
	ok    bool
	note  string            // error text / stderr of a failed run (shown, never compared)
	files map[string][]byte // output path relative to the output dir -> contents
	req   *reqDump          // plugin request (in-process schedules only)
}

func readTree(dir string) (map[string][]byte, error) {
	out := map[string][]byte{}
	err := filepath.Walk(dir, func(p string, info os.FileInfo, err error) error {
		if err != nil {
			if os.IsNotExist(err) && p == dir {
				return filepath.SkipDir
			}
			return err
		}
		if info.IsDir() {
			return nil
		}
		rel, err := filepath.Rel(dir, p)
		if err != nil {
			return err
		}
		b, err := os.ReadFile(p)
		if err != nil {
			return err
		}
		out[filepath.ToSlash(rel)] = b
		return nil
	})
	if err != nil && !os.IsNotExist(err) {
		return nil, err
	}
	return out, nil
}

// ---------------------------------------------------------------- schedule 1: fresh processes of the real CLI

func cliArgs(o Opts, srcRoot, outDir, entry string) []string {
	args := []string{"--out", outDir, "--pkg-prefix", pkgPrefix}
	if !o.AutoRoot {
		args = append(args, "--thrift-root", srcRoot)
	}
	if o.NoRecurse {
		args = append(args, "--no-recurse")
	}
	if o.NoZap {
		args = append(args, "--no-zap")
	}
	if o.NoEmbedIDL {
		args = append(args, "--no-embed-idl")
	}
	if o.NoTypes {
		args = append(args, "--no-types")
	}
	if o.NoConstants {
		args = append(args, "--no-constants")
	}
	if o.NoServiceHelpers {
		args = append(args, "--no-service-helpers")
	}
	if o.EnumStrict {
		args = append(args, "--enum-text-marshal-strict")
	}
	if o.OutputFile != "" {
		args = append(args, "--output-file="+o.OutputFile)
	}
	return append(args, entry)
}

func runCLI(bin, cwd string, args []string) (ok bool, note string, err error) {
	for attempt := 0; ; attempt++ {
		ctx, cancel := context.WithTimeout(context.Background(), 3*time.Minute)
		cmd := exec.CommandContext(ctx, bin, args...)
		cmd.Dir = cwd
		var so, se bytes.Buffer
		cmd.Stdout, cmd.Stderr = &so, &se
		rerr := cmd.Run()
		timedOut := ctx.Err() != nil
		cancel()
		if timedOut {
			if attempt < 2 {
				continue
			}
			return false, "", envErrf("thriftrw %v did not finish within 3 minutes (3 attempts)", args)
		}
		var ee *exec.ExitError
		switch {
		case rerr == nil:
			return true, "", nil
		case errors.As(rerr, &ee):
			return false, fmt.Sprintf("exit status %d: %s", ee.ExitCode(), clip(se.String(), 4000)), nil
		default:
			return false, "", envErrf("cannot run thriftrw: %v", rerr)
		}
	}
}

func cliRuns(c Case, caseDir, srcRoot, entry string) ([]*snapshot, error) {
	bin, err := bins.Path("thriftrw", "go.uber.org/thriftrw")
	if err != nil {
		return nil, envErrf("%v", err)
	}
	par := c.Par
	if par < 1 {
		par = 1
	}
	if par > 4 {
		par = 4
	}
	snaps := make([]*snapshot, c.Procs)
	errs := make([]error, c.Procs)
	sem := make(chan struct{}, par)
	var wg sync.WaitGroup
	for i := 0; i < c.Procs; i++ {
		wg.Add(1)
		go func(i int) {
			defer wg.Done()
			sem <- struct{}{}
			defer func() { <-sem }()
			out := filepath.Join(caseDir, fmt.Sprintf("out-cli-%d", i))
			s := &snapshot{sched: "cli", label: fmt.Sprintf("process %d of %d", i+1, c.Procs)}
			s.ok, s.note, errs[i] = runCLI(bin, caseDir, cliArgs(c.Opts, srcRoot, out, entry))
			if errs[i] == nil {
				s.files, errs[i] = readTree(out)
			}
			os.RemoveAll(out)
			snaps[i] = s
		}(i)
	}
	wg.Wait()
	for _, e := range errs {
		if e != nil {
			if _, ok := e.(*envError); ok {
				return nil, e
			}
			return nil, envErrf("%v", e)
		}
	}
	return snaps, nil
}

// ---------------------------------------------------------------- schedules 2 and 3: in-process, natural map order / chosen link order

// commonAncestor mirrors what the CLI does when --thrift-root is not given:
// the deepest directory containing every Thrift file of the program.
func commonAncestor(m *compile.Module) string {
	var res []string
	first := true
	m.Walk(func(m *compile.Module) error {
		parts := strings.Split(filepath.Dir(m.ThriftPath), string(filepath.Separator))
		if first {
			res, first = parts, false
			return nil
		}
		i := 0
		for i < len(res) && i < len(parts) && res[i] == parts[i] {
			i++
		}
		res = res[:i]
		return nil
	})
	return strings.Join(res, string(filepath.Separator))
}

type recorder struct {
	srcRoot string
	got     *reqDump
	files   string // Case.PluginFiles
}

func (r *recorder) Generate(req *api.GenerateServiceRequest) (*api.GenerateServiceResponse, error) {
	r.got = canonRequest(req, r.srcRoot)
	files := map[string][]byte{}
	body := func(tag string) []byte {
		return []byte(fmt.Sprintf("// %s: %d services, %d modules\npackage zzplugin\n", tag, len(req.Services), len(req.Modules)))
	}
	switch r.files {
	case "distinct":
		files["zzplugin/a.go"] = body("a")
		files["zzplugin/b.go"] = body("b")
		files["zzplugin/deep/c.go"] = body("c")
	case "respelled":
		files["zzplugin/helper.go"] = body("first spelling")
		files["./zzplugin/helper.go"] = body("second spelling")
		files["zzplugin/other.go"] = body("other")
	}
	return &api.GenerateServiceResponse{Files: files}, nil
}

func linkOrder(srcRoot string, orders map[string][]string) compile.LinkOrder {
	return compile.LinkOrder{Pick: func(module, where string, sorted []string) []string {
		rel, err := filepath.Rel(srcRoot, module)
		if err != nil {
			return sorted
		}
		want, ok := orders[filepath.ToSlash(rel)+"|"+where]
		if !ok {
			return sorted
		}
		have := map[string]bool{}
		for _, k := range sorted {
			have[k] = true
		}
		used := map[string]bool{}
		var out []string
		for _, k := range want {
			if have[k] && !used[k] {
				out = append(out, k)
				used[k] = true
			}
		}
		for _, k := range sorted {
			if !used[k] {
				out = append(out, k)
			}
		}
		return out
	}}
}

// libRun compiles (plain, or in the given link order) and generates in this
// process; a panic counts as a failed run (totality is another property).
func libRun(c Case, s *snapshot, srcRoot, entry, out string, orders map[string][]string, ordered bool) error {
	defer os.RemoveAll(out)
	func() {
		defer func() {
			if r := recover(); r != nil {
				s.ok, s.note = false, fmt.Sprintf("panic: %v", r)
			}
		}()
		var m *compile.Module
		var err error
		if ordered {
			m, err = compile.CompileWithLinkOrder(entry, linkOrder(srcRoot, orders))
		} else {
			m, err = compile.Compile(entry)
		}
		if err != nil {
			s.note = "compile: " + clip(err.Error(), 400)
			return
		}
		root := srcRoot
		if c.Opts.AutoRoot {
			root = commonAncestor(m)
		}
		rec := &recorder{srcRoot: srcRoot, files: c.PluginFiles}
		o := c.Opts
		err = gen.Generate(m, &gen.Options{
			OutputDir:             out,
			PackagePrefix:         pkgPrefix,
			ThriftRoot:            root,
			NoRecurse:             o.NoRecurse,
			Plugin:                gen.CodeGenerator{ServiceGenerator: rec},
			NoTypes:               o.NoTypes,
			NoConstants:           o.NoConstants,
			NoServiceHelpers:      o.NoServiceHelpers || o.NoTypes, // as main.go does
			NoEmbedIDL:            o.NoEmbedIDL,
			NoZap:                 o.NoZap,
			OutputFile:            o.OutputFile,
			EnumTextMarshalStrict: o.EnumStrict,
		})
		if err != nil {
			s.note = "generate: " + clip(err.Error(), 400)
			return
		}
		s.ok, s.req = true, rec.got
	}()
	var err error
	s.files, err = readTree(out)
	if err != nil {
		return envErrf("%v", err)
	}
	return nil
}

// ---------------------------------------------------------------- plugin request, canonical form

// reqDump is a GenerateServiceRequest with module ids replaced by the Thrift
// file path (relative to the source root) and service ids by
// "<thrift file>#<service name>".
type reqDump struct {
	body         string   // everything except the order of the two root lists
	rootModules  []string // in request order
	rootServices []string // in request order
}

func canonRequest(req *api.GenerateServiceRequest, srcRoot string) *reqDump {
	rel := func(p string) string {
		if r, err := filepath.Rel(srcRoot, p); err == nil {
			return filepath.ToSlash(r)
		}
		return p
	}
	modKey := map[api.ModuleID]string{}
	for id, m := range req.Modules {
		if m == nil {
			modKey[id] = fmt.Sprintf("<nil module %d>", id)
			continue
		}
		modKey[id] = rel(m.ThriftFilePath)
	}
	mk := func(id api.ModuleID) string {
		if k, ok := modKey[id]; ok {
			return k
		}
		return "<unknown module id>"
	}
	svcKey := map[api.ServiceID]string{}
	for id, s := range req.Services {
		if s == nil {
			svcKey[id] = fmt.Sprintf("<nil service %d>", id)
			continue
		}
		svcKey[id] = mk(s.ModuleID) + "#" + s.ThriftName
	}
	sk := func(id api.ServiceID) string {
		if k, ok := svcKey[id]; ok {
			return k
		}
		return "<unknown service id>"
	}
	var lines []string
	lines = append(lines, fmt.Sprintf("packagePrefix=%q thriftRoot=%q", req.PackagePrefix, rel(req.ThriftRoot)))
	lines = append(lines, fmt.Sprintf("modules=%d services=%d", len(req.Modules), len(req.Services)))
	var mods []string
	for id, m := range req.Modules {
		if m == nil {
			mods = append(mods, "module "+modKey[id])
			continue
		}
		mods = append(mods, fmt.Sprintf("module %s importPath=%q directory=%q", modKey[id], m.ImportPath, m.Directory))
	}
	sort.Strings(mods)
	lines = append(lines, mods...)
	var svcs []string
	for id, s := range req.Services {
		if s == nil {
			svcs = append(svcs, "service "+svcKey[id])
			continue
		}
		par := "-"
		if s.ParentID != nil {
			par = sk(*s.ParentID)
		}
		an, _ := json.Marshal(s.Annotations)
		var sb strings.Builder
		fmt.Fprintf(&sb, "service %s goName=%q parent=%s annotations=%s", svcKey[id], s.Name, par, an)
		for _, f := range s.Functions {
			fb, err := json.Marshal(f)
			if err != nil {
				fb = []byte(fmt.Sprintf("<unmarshalable function: %v>", err))
			}
			fmt.Fprintf(&sb, "\n  function %s", fb)
		}
		svcs = append(svcs, sb.String())
	}
	sort.Strings(svcs)
	lines = append(lines, svcs...)
	d := &reqDump{}
	for _, id := range req.RootModules {
		d.rootModules = append(d.rootModules, mk(id))
	}
	for _, id := range req.RootServices {
		d.rootServices = append(d.rootServices, sk(id))
	}
	sm := append([]string{}, d.rootModules...)
	ss := append([]string{}, d.rootServices...)
	sort.Strings(sm)
	sort.Strings(ss)
	lines = append(lines, "rootModules(sorted)="+strings.Join(sm, " "), "rootServices(sorted)="+strings.Join(ss, " "))
	d.body = strings.Join(lines, "\n")
	return d
}

// ---------------------------------------------------------------- comparing two runs

func clip(s string, n int) string {
	if len(s) > n {
		return s[:n] + "…"
	}
	return s
}

func sha(b []byte) string {
	h := sha256.Sum256(b)
	return hex.EncodeToString(h[:8])
}

func sortedPaths(m map[string][]byte) []string {
	var ps []string
	for p := range m {
		ps = append(ps, p)
	}
	sort.Strings(ps)
	return ps
}

// firstDiffLine returns the index of the first differing line.
func firstDiffLine(a, b []string) int {
	for i := 0; i < len(a) || i < len(b); i++ {
		if i >= len(a) || i >= len(b) || a[i] != b[i] {
			return i
		}
	}
	return -1
}

// excerpt renders a short unified-style view of the first difference.
func excerpt(a, b []string, at int) string {
	var sb strings.Builder
	lo := at - 2
	if lo < 0 {
		lo = 0
	}
	fmt.Fprintf(&sb, "@@ line %d @@\n", at+1)
	for i := lo; i < at; i++ {
		sb.WriteString("  " + clip(a[i], 160) + "\n")
	}
	// the differing hunk: up to 6 lines of each side, stopping where they re-align
	n := 0
	for i := at; i < len(a) && n < 6; i, n = i+1, n+1 {
		if i > at && i < len(b) && a[i] == b[i] {
			break
		}
		sb.WriteString("- " + clip(a[i], 160) + "\n")
	}
	n = 0
	for i := at; i < len(b) && n < 6; i, n = i+1, n+1 {
		if i > at && i < len(a) && a[i] == b[i] {
			break
		}
		sb.WriteString("+ " + clip(b[i], 160) + "\n")
	}
	return sb.String()
}

var (
	declRe   = regexp.MustCompile(`^(?:type|var|const) ([A-Za-z_][A-Za-z0-9_]*)`)
	funcRe   = regexp.MustCompile(`^func (?:\([a-z_]+ \*?([A-Za-z_][A-Za-z0-9_]*)\) )?([A-Za-z_][A-Za-z0-9_]*)`)
	importRe = regexp.MustCompile(`^\s*([A-Za-z_][A-Za-z0-9_]*)?\s*"([^"]+)"`)
)

// region says in which part of a generated Go file line `at` lies: the kind of
// generated code (what older releases wrote to types.go, constants.go, idl.go,
// and the service packages), or the import block.
func region(a, b []string, at int) string {
	src := a
	if at >= len(a) {
		src = b
	}
	inImport := false
	kind := "header"
	for i := 0; i <= at && i < len(src); i++ {
		l := src[i]
		switch {
		case strings.HasPrefix(l, "import ("):
			inImport = true
			kind = "imports"
			continue
		case inImport && strings.HasPrefix(l, ")"):
			inImport = false
			continue
		case inImport:
			continue
		}
		name, isVar := "", false
		if m := declRe.FindStringSubmatch(l); m != nil {
			name, isVar = m[1], !strings.HasPrefix(l, "type")
		} else if m := funcRe.FindStringSubmatch(l); m != nil {
			name = m[1]
			if name == "" {
				name = m[2]
			}
		} else {
			continue
		}
		switch {
		case name == "ThriftModule" || name == "rawIDL":
			kind = "idl"
		case strings.HasPrefix(name, "_"):
			kind = "helpers"
		case strings.HasSuffix(name, "_Args") || strings.HasSuffix(name, "_Result") || strings.Contains(name, "_Helper"):
			kind = "service"
		case isVar:
			kind = "constants"
		default:
			kind = "types"
		}
	}
	if inImport {
		// which import moved: one of the program's own packages or a library
		for _, l := range []string{lineAt(a, at), lineAt(b, at)} {
			if m := importRe.FindStringSubmatch(l); m != nil && strings.HasPrefix(m[2], pkgPrefix+"/") {
				return "imports/include-alias"
			}
		}
		return "imports/other"
	}
	return kind
}

func lineAt(x []string, i int) string {
	if i < len(x) {
		return x[i]
	}
	return ""
}

func diffStrings(a, b string) string {
	al, bl := strings.Split(a, "\n"), strings.Split(b, "\n")
	at := firstDiffLine(al, bl)
	if at < 0 {
		return ""
	}
	return excerpt(al, bl, at)
}

// compare checks run x against the baseline run b of the same (sources, options).
func compare(b, x *snapshot) error {
	who := fmt.Sprintf("(A: %s, %s) vs (B: %s, %s)", b.sched, b.label, x.sched, x.label)
	pre := "nondeterministic/" + x.sched
	if b.sched != x.sched {
		pre = "nondeterministic/" + b.sched + "-vs-" + x.sched
	}
	if b.ok != x.ok {
		return ev.Errf(pre+"/outcome", "%s: A succeeded=%v, B succeeded=%v on the same sources and options\nA: %s\nB: %s", who, b.ok, x.ok, clip(b.note, 600), clip(x.note, 600))
	}
	if !b.ok {
		return nil // both failed: the statement asks for nothing more
	}
	pa, pb := sortedPaths(b.files), sortedPaths(x.files)
	for i := 0; i < len(pa) || i < len(pb); i++ {
		if i >= len(pa) || i >= len(pb) || pa[i] != pb[i] {
			return ev.Errf(pre+"/paths", "%s: sets of generated paths differ, first difference at position %d: A has %q, B has %q\nA: %v\nB: %v", who, i, lineAt(pa, i), lineAt(pb, i), pa, pb)
		}
	}
	for _, p := range pa {
		fa, fb := b.files[p], x.files[p]
		if bytes.Equal(fa, fb) {
			continue
		}
		al, bl := strings.Split(string(fa), "\n"), strings.Split(string(fb), "\n")
		at := firstDiffLine(al, bl)
		return ev.Errf(pre+"/file-content/"+region(al, bl, at), "%s: generated file %s differs (sha256 %s… vs %s…, %d vs %d bytes)\n%s", who, p, sha(fa), sha(fb), len(fa), len(fb), excerpt(al, bl, at))
	}
	if b.req != nil && x.req != nil {
		if b.req.body != x.req.body {
			return ev.Errf("nondeterministic/plugin-request", "%s: the GenerateServiceRequest handed to the plugin differs after renumbering ids by thrift path / service name\n%s", who, diffStrings(b.req.body, x.req.body))
		}
		if strings.Join(b.req.rootModules, " ") != strings.Join(x.req.rootModules, " ") {
			return ev.Errf("nondeterministic/plugin-request/root-modules-order", "%s: rootModules lists the same modules in a different order: A %v, B %v", who, b.req.rootModules, x.req.rootModules)
		}
		if strings.Join(b.req.rootServices, " ") != strings.Join(x.req.rootServices, " ") {
			return ev.Errf("nondeterministic/plugin-request/root-services-order", "%s: rootServices lists the same services in a different order: A %v, B %v", who, b.req.rootServices, x.req.rootServices)
		}
	}
	return nil
}

// ---------------------------------------------------------------- the oracle

// checkCase writes the sources under a private directory of root, runs every
// schedule the case asks for, and compares each run with the first run of its
// schedule; the first runs of the schedules are compared with each other too
// (same sources, same options, another process).
func checkCase(root string, c Case) error {
	caseDir, err := os.MkdirTemp(root, "c10-case-")
	if err != nil {
		return envErrf("%v", err)
	}
	defer os.RemoveAll(caseDir)
	// the CLI resolves symlinks nowhere, but keep one spelling of the path everywhere
	if r, err := filepath.EvalSymlinks(caseDir); err == nil {
		caseDir = r
	}
	srcRoot := filepath.Join(caseDir, "src")
	for _, f := range c.Files {
		p := filepath.Join(srcRoot, filepath.FromSlash(f.Path))
		if err := os.MkdirAll(filepath.Dir(p), 0o755); err != nil {
			return envErrf("%v", err)
		}
		if err := os.WriteFile(p, []byte(f.Text), 0o644); err != nil {
			return envErrf("%v", err)
		}
	}
	entry := filepath.Join(srcRoot, filepath.FromSlash(c.Entry))

	var firsts []*snapshot
	within := func(snaps []*snapshot) error {
		if len(snaps) == 0 {
			return nil
		}
		firsts = append(firsts, snaps[0])
		if snaps[0].ok {
			ev.Class("outcome:" + snaps[0].sched + ":success")
		} else {
			ev.Class("outcome:" + snaps[0].sched + ":failure")
			if os.Getenv("C10_DEBUG") != "" {
				fmt.Fprintf(os.Stderr, "C10_DEBUG failing run (%s, %s, %s): %s\n", c.Src, c.Opts.Name, snaps[0].sched, snaps[0].note)
			}
		}
		for _, s := range snaps[1:] {
			if err := compare(snaps[0], s); err != nil {
				return err
			}
		}
		return nil
	}

	if c.Procs > 0 {
		snaps, err := cliRuns(c, caseDir, srcRoot, entry)
		if err != nil {
			return err
		}
		if err := within(snaps); err != nil {
			return err
		}
	}
	var lib []*snapshot
	for i := 0; i < c.Reps; i++ {
		s := &snapshot{sched: "inproc", label: fmt.Sprintf("repetition %d of %d", i+1, c.Reps)}
		if err := libRun(c, s, srcRoot, entry, filepath.Join(caseDir, fmt.Sprintf("out-inproc-%d", i)), nil, false); err != nil {
			return err
		}
		lib = append(lib, s)
	}
	if err := within(lib); err != nil {
		return err
	}
	var ord []*snapshot
	if len(c.Orders) > 0 {
		// reference: every map visited in sorted order
		s := &snapshot{sched: "link-order", label: "sorted order"}
		if err := libRun(c, s, srcRoot, entry, filepath.Join(caseDir, "out-order-sorted"), nil, true); err != nil {
			return err
		}
		ord = append(ord, s)
	}
	for i, o := range c.Orders {
		s := &snapshot{sched: "link-order", label: fmt.Sprintf("drawn order %d of %d", i+1, len(c.Orders))}
		if err := libRun(c, s, srcRoot, entry, filepath.Join(caseDir, fmt.Sprintf("out-order-%d", i)), o, true); err != nil {
			return err
		}
		ord = append(ord, s)
	}
	if err := within(ord); err != nil {
		return err
	}
	for _, s := range firsts[min(1, len(firsts)):] {
		if err := compare(firsts[0], s); err != nil {
			return err
		}
	}
	return nil
}
