//go:build verif

package c10

import (
	"fmt"
	"os"
	"path/filepath"
	"testing"

	"pgregory.net/rapid"
)

// TestSelfCheck is a harness self-test, not a unit of the property: every
// program of the collision generator (valid by construction) must be accepted
// by the compiler and the generator, under every option set. Run by hand:
//
//	go test -tags verif ./checks/c10 -run TestSelfCheck -rapid.checks=300
func TestSelfCheck(t *testing.T) {
	if os.Getenv("C10_SELFCHECK") == "" {
		t.Skip("set C10_SELFCHECK=1")
	}
	root := scratchRoot(t)
	fails := map[string]int{}
	total := map[string]int{}
	rapid.Check(t, func(t *rapid.T) {
		src, files, entry, feat := genSources(t)
		c := Case{Src: src, Files: files, Entry: entry, Feat: feat, Opts: genOptions(t)}
		dir, err := os.MkdirTemp(root, "self-")
		if err != nil {
			t.Fatal(err)
		}
		defer os.RemoveAll(dir)
		srcRoot := filepath.Join(dir, "src")
		for _, f := range c.Files {
			p := filepath.Join(srcRoot, filepath.FromSlash(f.Path))
			os.MkdirAll(filepath.Dir(p), 0o755)
			os.WriteFile(p, []byte(f.Text), 0o644)
		}
		s := &snapshot{}
		if err := libRun(c, s, srcRoot, filepath.Join(srcRoot, filepath.FromSlash(entry)), filepath.Join(dir, "out"), nil, false); err != nil {
			t.Fatal(err)
		}
		total[src]++
		if !s.ok {
			fails[src]++
			if src == "collision" {
				var sb string
				for _, f := range c.Files {
					sb += fmt.Sprintf("--- %s\n%s\n", f.Path, f.Text)
				}
				t.Fatalf("collision program rejected (%s): %s\n%s", c.Opts.Name, s.note, sb)
			}
			t.Logf("model program rejected: %s", s.note)
		}
	})
	t.Logf("programs: %v rejected: %v", total, fails)
}
