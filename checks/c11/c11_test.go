// C11: the IDL parser is total and returns a faithful AST with true positions;
// ast.Walk visits every node once with its true parent.
package c11

import (
	"encoding/json"
	"fmt"
	"sort"
	"strings"
	"testing"

	"pgregory.net/rapid"
	"verif/internal/ev"
)

func TestMain(m *testing.M) { ev.Main(m, "C11") }

// softTB collects fatal messages so that every finding of one case is
// recorded (each under its own key) before the case fails.
type softTB struct{ msgs []string }

func (s *softTB) Fatalf(format string, args ...interface{}) {
	s.msgs = append(s.msgs, fmt.Sprintf(format, args...))
}
func (s *softTB) Errorf(format string, args ...interface{}) { s.Fatalf(format, args...) }

// reportAll hands every finding to ev.Report. Known findings are counted by
// ev and execution continues; anything else fails the case once all findings
// have been recorded.
func reportAll(t ev.TB, unit string, c interface{}, fs []finding, panicErr error) {
	soft := &softTB{}
	if panicErr != nil {
		ev.Report(soft, unit, c, panicErr)
	}
	sort.SliceStable(fs, func(i, j int) bool { return fs[i].key < fs[j].key })
	for _, f := range fs {
		if f.tolerated {
			ev.Class("tolerated:" + f.key)
			continue
		}
		ev.Report(soft, unit, c, ev.Errf(f.key, "%s", f.msg))
	}
	if len(soft.msgs) > 0 {
		t.Fatalf("%s", strings.Join(soft.msgs, "\n"))
	}
}

// reportAllSoft is reportAll for the enumerated grid: every finding is recorded
// and the grid carries on.
func reportAllSoft(t *testing.T, unit string, c interface{}, fs []finding, panicErr error, id string) {
	soft := &softTB{}
	if panicErr != nil {
		ev.Report(soft, unit, c, panicErr)
	}
	for _, f := range fs {
		if f.tolerated {
			ev.Class("tolerated:" + f.key)
			continue
		}
		// not ReportSoft: the hand-written minimal case should replace a larger
		// one recorded by the random units under the same key
		ev.Report(soft, unit, c, ev.Errf(f.key, "%s: %s", id, f.msg))
	}
	for _, m := range soft.msgs {
		t.Errorf("%s", m)
	}
}

// ---------------------------------------------------------------- unit: round trip

type rtGen struct {
	c       RTCase
	feat    []string
	excl    map[string]int
	nodes   []string
	ndefs   int
	nontriv bool
}

func genRT(t *rapid.T) rtGen {
	avoid := avoidSet()
	m := genProgram(t)
	p := newPrinter(t, avoid)
	text := p.program(&m)
	g := rtGen{c: RTCase{Text: text, Model: m, EmptyBlocks: p.emptyBlocks}, excl: p.excl, ndefs: len(m.Defs)}
	if avoid["K2"] {
		g.c.Tolerate = append(g.c.Tolerate, "K2")
	}
	g.feat = sortedKeys(p.feat)
	g.nodes = nodeKinds(&m)
	g.nontriv = g.ndefs >= 3 && (p.feat["layout:escape"] || p.feat["layout:comment"] || p.feat["layout:keyword-newline"] || p.feat["layout:docstring"])
	return g
}

func nodeKinds(m *MProg) []string {
	set := map[string]bool{}
	var typ func(*MType)
	var cv func(*MConst)
	anns := func(as []MAnn) {
		if len(as) > 0 {
			set["node:Annotation"] = true
		}
	}
	typ = func(t *MType) {
		if t == nil {
			return
		}
		set["node:type-"+t.K] = true
		anns(t.Anns)
		typ(t.Key)
		typ(t.Val)
	}
	cv = func(c *MConst) {
		if c == nil {
			return
		}
		set["node:const-"+c.K] = true
		for i := range c.Items {
			cv(&c.Items[i])
		}
		for i := range c.Pairs {
			cv(&c.Pairs[i].Key)
			cv(&c.Pairs[i].Val)
		}
	}
	fields := func(fs []MField) {
		for i := range fs {
			set["node:Field"] = true
			if fs[i].IDUnset {
				set["field:id-unset"] = true
			}
			set[fmt.Sprintf("field:req-%d", fs[i].Req)] = true
			typ(&fs[i].Type)
			cv(fs[i].Default)
			anns(fs[i].Anns)
		}
	}
	for _, h := range m.Headers {
		set["node:"+h.K] = true
		if h.K == "include" && h.Name != "" {
			set["node:include-as"] = true
		}
		if h.Scope == "*" {
			set["node:namespace-star"] = true
		}
	}
	for i := range m.Defs {
		d := &m.Defs[i]
		set["node:"+d.K] = true
		typ(d.Type)
		cv(d.Value)
		anns(d.Anns)
		for j := range d.Items {
			set["node:EnumItem"] = true
			if d.Items[j].Value != nil {
				set["enum:explicit-value"] = true
			}
			anns(d.Items[j].Anns)
		}
		fields(d.Fields)
		if d.Parent != nil {
			set["node:ServiceReference"] = true
		}
		for j := range d.Funcs {
			f := &d.Funcs[j]
			set["node:Function"] = true
			if f.OneWay {
				set["function:oneway"] = true
			}
			if f.Ret == nil {
				set["function:void"] = true
			}
			if f.HasThrows {
				set["function:throws"] = true
			}
			typ(f.Ret)
			fields(f.Params)
			fields(f.Throws)
			anns(f.Anns)
		}
	}
	return sortedKeys(set)
}

func clipStr(s string, n int) string {
	if len(s) > n {
		return s[:n] + "…"
	}
	return s
}

func runRT(t ev.TB, c RTCase) {
	var fs []finding
	perr := ev.Guard(func() error { fs = checkRoundTrip(c); return nil })
	reportAll(t, "roundtrip", c, fs, perr)
}

func TestRoundTrip(t *testing.T) {
	rapid.Check(t, func(t *rapid.T) {
		g := genRT(t)
		d := ev.Digest([]byte(g.c.Text))
		cls := append([]string{"unit:roundtrip"}, g.feat...)
		cls = append(cls, g.nodes...)
		cls = append(cls, fmt.Sprintf("defs:%d", bucket(g.ndefs)))
		ev.Case(d, g.nontriv, cls...)
		for k, n := range g.excl {
			ev.ClassN("excluded-by-construction:"+k, int64(n))
		}
		if g.nontriv {
			ev.KeepSample("roundtrip", d, func() interface{} {
				return map[string]interface{}{"text": clipStr(g.c.Text, 1500), "definitions": g.ndefs, "features": g.feat}
			})
		}
		runRT(t, g.c)
	})
}

func bucket(n int) int {
	switch {
	case n <= 3:
		return n
	case n <= 5:
		return 5
	}
	return 8
}

// ---------------------------------------------------------------- unit: walk

// WalkCase is a document whose parsed tree is traversed.
type WalkCase struct {
	Text string `json:"text"`
}

func runWalk(t ev.TB, c WalkCase) {
	var fs []finding
	perr := ev.Guard(func() error { fs = checkWalk(c); return nil })
	reportAll(t, "walk", c, fs, perr)
}

func TestWalk(t *testing.T) {
	rapid.Check(t, func(t *rapid.T) {
		g := genRT(t)
		c := WalkCase{Text: g.c.Text}
		d := ev.Digest([]byte(c.Text))
		cls := append([]string{"unit:walk"}, g.nodes...)
		ev.Case(d, g.nontriv, cls...)
		if g.nontriv {
			ev.KeepSample("walk", d, func() interface{} {
				return map[string]interface{}{"text": clipStr(c.Text, 800), "node_kinds": g.nodes}
			})
		}
		runWalk(t, c)
	})
}

// ---------------------------------------------------------------- unit: totality

func runTotality(t ev.TB, c TotCase) {
	var fs []finding
	var st totStat
	perr := ev.Guard(func() error { fs = checkTotality(c, &st); return nil })
	d := ev.Digest(c.Input)
	out := "outcome:error"
	if st.accepted {
		out = "outcome:program"
	}
	nontriv := len(c.Input) > 0
	ev.Case(d, nontriv, "unit:totality", "src:"+c.Src, out, fmt.Sprintf("errors:%d", bucket(st.nerr)))
	if nontriv {
		ev.KeepSample("totality", d, func() interface{} {
			return map[string]interface{}{"input": fmt.Sprintf("%q", clipStr(string(c.Input), 300)), "src": c.Src, "accepted": st.accepted, "errors": st.nerr}
		})
	}
	reportAll(t, "totality", c, fs, perr)
}

func TestTotality(t *testing.T) {
	rapid.Check(t, func(t *rapid.T) { runTotality(t, genTotality(t)) })
}

// ---------------------------------------------------------------- replay

func replayOne(t *testing.T, f *ev.Failure) bool {
	switch f.Unit {
	case "roundtrip":
		var c RTCase
		if err := json.Unmarshal(f.Case, &c); err != nil {
			t.Fatal(err)
		}
		runRT(t, c)
	case "walk":
		var c WalkCase
		if err := json.Unmarshal(f.Case, &c); err != nil {
			t.Fatal(err)
		}
		runWalk(t, c)
	case "totality":
		var c TotCase
		if err := json.Unmarshal(f.Case, &c); err != nil {
			t.Fatal(err)
		}
		var fs []finding
		var st totStat
		perr := ev.Guard(func() error { fs = checkTotality(c, &st); return nil })
		reportAll(t, "totality", c, fs, perr)
	case "docgrid":
		var c DocGridCase
		if err := json.Unmarshal(f.Case, &c); err != nil {
			t.Fatal(err)
		}
		ev.Report(t, f.Unit, c, ev.Guard(func() error { return checkDocGrid(c) }))
	default:
		return false
	}
	return true
}

func TestReplay(t *testing.T)  { ev.RunReplay(t, replayOne) }
func TestRegress(t *testing.T) { ev.RunRegress(t, replayOne) }
