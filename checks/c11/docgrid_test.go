package c11

import (
	"fmt"
	"strings"
	"testing"

	"go.uber.org/thriftrw/ast"
	"go.uber.org/thriftrw/idl"
	"verif/internal/ev"
)

// TestDocGrid walks a small finite grid completely: every degenerate docstring
// (no body at all: nothing, blanks, blank lines, gutter-only lines; and the
// shortest bodies) x every kind of node that can carry a docstring x three
// placements (directly above, on the same line, orphaned three lines above).
// Oracle: the document parses (no error, no panic) and the node's Doc is the
// documented content: the text between the markers without gutters and
// indentation, i.e. "" for a docstring without body; "" for an orphan.

// DocGridCase is one document of the grid.
type DocGridCase struct {
	Text string `json:"text"`
	Host string `json:"host"`
	Want string `json:"want"`
}

var docGridDocs = []struct{ text, want string }{
	{"/***/", ""}, {"/** */", ""}, {"/**\t*/", ""}, {"/**   */", ""},
	{"/**\n*/", ""}, {"/**\n */", ""}, {"/**\n\n*/", ""}, {"/** \n\n\n */", ""}, {"/**\r\n */", ""}, {"/**\n\t*/", ""},
	{"/**\n *\n */", ""}, {"/**\n * \n * \n */", ""}, {"/**\n*\n*/", ""}, {"/**\n  *\n  *\n  */", ""},
	{"/**\n   \n */", ""}, {"/**\n\t\n*/", ""}, {"/**\n\n *\n  \n */", ""}, {"/**\n *\n\n *\n */", ""},
	{"/**x*/", "x"}, {"/** x */", "x"}, {"/**\nx\n*/", "x"}, {"/**\n * x\n */", "x"}, {"/**\n *\n * x\n *\n */", "x"},
}

// docGridHosts: a document with one %s where the docstring (and the gap after it) goes, and
// how to find the documented node.
var docGridHosts = []struct {
	name, tmpl string
	doc        func(p *ast.Program) (string, bool)
}{
	{"Struct", "%sstruct A {}", func(p *ast.Program) (string, bool) {
		d, ok := p.Definitions[0].(*ast.Struct)
		return docOf(ok, func() string { return d.Doc })
	}},
	{"Union", "%sunion A {}", func(p *ast.Program) (string, bool) {
		d, ok := p.Definitions[0].(*ast.Struct)
		return docOf(ok, func() string { return d.Doc })
	}},
	{"Exception", "%sexception A {}", func(p *ast.Program) (string, bool) {
		d, ok := p.Definitions[0].(*ast.Struct)
		return docOf(ok, func() string { return d.Doc })
	}},
	{"Constant", "%sconst i32 a = 1", func(p *ast.Program) (string, bool) {
		d, ok := p.Definitions[0].(*ast.Constant)
		return docOf(ok, func() string { return d.Doc })
	}},
	{"Typedef", "%stypedef i32 a", func(p *ast.Program) (string, bool) {
		d, ok := p.Definitions[0].(*ast.Typedef)
		return docOf(ok, func() string { return d.Doc })
	}},
	{"Enum", "%senum E { A }", func(p *ast.Program) (string, bool) {
		d, ok := p.Definitions[0].(*ast.Enum)
		return docOf(ok, func() string { return d.Doc })
	}},
	{"Service", "%sservice S {}", func(p *ast.Program) (string, bool) {
		d, ok := p.Definitions[0].(*ast.Service)
		return docOf(ok, func() string { return d.Doc })
	}},
	{"EnumItem", "enum E {\n%sA = 1,\nB }", func(p *ast.Program) (string, bool) {
		d, ok := p.Definitions[0].(*ast.Enum)
		return docOf(ok && len(d.Items) == 2, func() string { return d.Items[0].Doc })
	}},
	{"Field", "struct S {\n%s1: optional i32 a\n}", func(p *ast.Program) (string, bool) {
		d, ok := p.Definitions[0].(*ast.Struct)
		return docOf(ok && len(d.Fields) == 1, func() string { return d.Fields[0].Doc })
	}},
	{"Function", "service S {\n%svoid f()\n}", func(p *ast.Program) (string, bool) {
		d, ok := p.Definitions[0].(*ast.Service)
		return docOf(ok && len(d.Functions) == 1, func() string { return d.Functions[0].Doc })
	}},
	{"Parameter", "service S { void f(\n%s1: i32 a) }", func(p *ast.Program) (string, bool) {
		d, ok := p.Definitions[0].(*ast.Service)
		return docOf(ok && len(d.Functions) == 1 && len(d.Functions[0].Parameters) == 1, func() string { return d.Functions[0].Parameters[0].Doc })
	}},
	{"SecondDefinition", "struct A {}\n%sstruct B {}", func(p *ast.Program) (string, bool) {
		if len(p.Definitions) != 2 {
			return "", false
		}
		d, ok := p.Definitions[1].(*ast.Struct)
		return docOf(ok, func() string { return d.Doc })
	}},
}

func docOf(ok bool, f func() string) (string, bool) {
	if !ok {
		return "", false
	}
	return f(), true
}

func checkDocGrid(c DocGridCase) error {
	var host *struct {
		name, tmpl string
		doc        func(p *ast.Program) (string, bool)
	}
	for i := range docGridHosts {
		if docGridHosts[i].name == c.Host {
			host = &docGridHosts[i]
		}
	}
	if host == nil {
		return fmt.Errorf("unknown host %q", c.Host)
	}
	prog, err := idl.Parse([]byte(c.Text))
	if err != nil {
		return ev.Errf("docgrid/rejected/"+c.Host, "valid document rejected: %v\n%q", err, c.Text)
	}
	got, ok := host.doc(prog)
	if !ok {
		return ev.Errf("docgrid/structure/"+c.Host, "the document does not parse to the expected definitions:\n%q", c.Text)
	}
	if got != c.Want {
		return ev.Errf("docgrid/doc/"+c.Host, "%s: Doc=%q, want %q\n%q", c.Host, got, c.Want, c.Text)
	}
	return nil
}

func TestDocGrid(t *testing.T) {
	n := 0
	for _, h := range docGridHosts {
		for _, d := range docGridDocs {
			for _, place := range []string{"above", "same-line", "orphan", "orphan-at-end"} {
				c := DocGridCase{Host: h.name}
				switch place {
				case "above":
					c.Text, c.Want = fmt.Sprintf(h.tmpl, d.text+"\n"), d.want
				case "same-line":
					c.Text, c.Want = fmt.Sprintf(h.tmpl, d.text+" "), d.want
				case "orphan":
					c.Text, c.Want = fmt.Sprintf(h.tmpl, d.text+"\n\n\n"), ""
				default:
					c.Text, c.Want = fmt.Sprintf(h.tmpl, "")+"\n"+d.text, ""
				}
				shape := "no-body"
				if d.want != "" {
					shape = "one-letter-body"
				}
				if strings.Contains(d.text, "\n") {
					shape += "/multi-line"
				} else {
					shape += "/single-line"
				}
				ev.Case(ev.Digest([]byte(c.Text)), false, "unit:docgrid", "docgrid-host:"+h.name, "docgrid-place:"+place, "docgrid-shape:"+shape)
				if n%97 == 0 {
					ev.KeepSample("docgrid", ev.Digest([]byte(c.Text)), func() interface{} { return map[string]interface{}{"text": c.Text, "host": c.Host, "want": c.Want} })
				}
				ev.ReportSoft(t, "docgrid", c, ev.Guard(func() error { return checkDocGrid(c) }))
				n++
			}
		}
	}
	ev.Exhaustive("docgrid (degenerate docstrings x documentable node kinds x placements)", true)
	ev.Note("docgrid", fmt.Sprintf("%d documents", n))
}
