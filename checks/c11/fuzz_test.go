package c11

import (
	"bytes"
	"testing"

	"verif/internal/ev"
)

// FuzzParse is the native fuzz target of the totality oracle (thorough tier:
// go test -tags verif -run '^$' -fuzz FuzzParse -fuzztime 120s ./checks/c11).
// Without -fuzz only the seed corpus below runs.
func FuzzParse(f *testing.F) {
	for _, s := range []string{
		"",
		"namespace * a include \"x\" cpp_include '<v>'",
		"const map<string, list<i32>> m = {'a': [1, 0x2, -3], \"b\": []}",
		"/** doc */ struct S { 1: required i32 a = 1 (x = 'y'); optional string b, S c }",
		"enum E { A = 1, B (x), C; } typedef i32 (a) T (b)",
		"service X extends Y { oneway void f(1: i32 a) throws (1: E e) (z), T g() }",
		"# c\n// c\n/* c */ union U {}",
	} {
		f.Add([]byte(s))
	}
	avoid := avoidSet()
	f.Fuzz(func(t *testing.T, in []byte) {
		c := TotCase{Input: append([]byte{}, in...), Src: "fuzz"}
		if avoid["F13"] {
			c.Input, _ = sanitizeF13(c.Input)
		}
		if avoid["N1"] {
			c.Input = bytes.ReplaceAll(c.Input, []byte("/**/"), []byte("/* */"))
		}
		if avoid["N3"] {
			c.Tolerate = []string{"N3"}
		}
		var fs []finding
		var st totStat
		perr := ev.Guard(func() error { fs = checkTotality(c, &st); return nil })
		ev.Case(ev.Digest(c.Input), len(c.Input) > 0, "unit:fuzz", "src:fuzz")
		reportAll(t, "totality", c, fs, perr)
	})
}
