package c11

import (
	"os"
	"strings"

	"pgregory.net/rapid"
	"verif/internal/ev"
)

// avoidSet parses C11_AVOID (comma separated). Recognised entries:
//
//	F12  never spell an escaped backslash directly before the raw other quote
//	F13  never put a newline into the blank run directly after a keyword token
//	N1   never emit the empty block comment /**/
//	N2   never spell a quote character as a numeric escape inside a single-quoted literal
//	K2   (oracle tolerance) accept the position of the preceding '=' / ':' / `extends` token, and of an
//	     equal scalar literal elsewhere, for constant values / service references
//	N3   (oracle tolerance, totality) accept an error column <= 0 that corresponds to token offset 0
//	     (lexer's token start reset at end of input)
func avoidSet() map[string]bool {
	m := map[string]bool{}
	for _, s := range strings.Split(os.Getenv("C11_AVOID"), ",") {
		s = strings.TrimSpace(s)
		if s != "" {
			m[strings.ToUpper(s)] = true
		}
	}
	return m
}

func sortedKeys(m map[string]bool) []string {
	var out []string
	for k, v := range m {
		if v {
			out = append(out, k)
		}
	}
	// insertion sort; tiny
	for i := 1; i < len(out); i++ {
		for j := i; j > 0 && out[j] < out[j-1]; j-- {
			out[j], out[j-1] = out[j-1], out[j]
		}
	}
	return out
}

// weighted picks an index with the given weights. rapid's integer generators
// favour small values, so the draw is scrambled multiplicatively first; a draw
// of 0 (where shrinking ends) still selects index 0.
func weighted(t *rapid.T, label string, w ...int) int {
	total := 0
	for _, x := range w {
		total += x
	}
	h := rapid.Uint32().Draw(t, label) * 2654435761
	r := int((uint64(h) * uint64(total)) >> 32)
	for i, x := range w {
		if r < x {
			return i
		}
		r -= x
	}
	return len(w) - 1
}

func chance(t *rapid.T, label string, percent int) bool {
	return weighted(t, label, 100-percent, percent) == 1
}

type gen struct {
	t       *rapid.T
	docs    int // percent chance of a docstring on a capable node
	annPct  int
	maxKids int
}

var identPool = []string{
	"a", "b", "x", "y", "Foo", "Bar", "Baz", "foo_bar", "_x", "A1", "KEY", "value", "name", "id",
	// longest-match traps: keywords / reserved words as proper prefixes
	"includes", "i32x", "structs", "true_", "falsey", "format", "as_", "list2", "voided", "oneways", "mapper",
	"setup", "End", "begin_", "consts", "enumerate", "typedefs", "services", "thrower", "requiredness",
	"optionals", "binary_", "string_", "double_", "bytes", "i8x", "i64_", "namespace_", "cpp_includes",
	"BEGINNING", "__x__", "extends_", "unions", "exceptional", "inn", "iff", "dot", "Self", "TRUE", "Void",
	// dotted identifiers
	"a.b", "shared.Foo", "x.y.z", "self.x", "py.thing", "i32.max", "a.1", "_._",
}

func (g *gen) ident(label string) string {
	if chance(g.t, label+"_rnd", 25) {
		for i := 0; i < 4; i++ {
			s := rapid.StringMatching(`[a-zA-Z_][a-zA-Z0-9_]{0,6}(\.[a-zA-Z0-9_]{1,3})?`).Draw(g.t, label+"_s")
			if !notIdent[s] {
				return s
			}
		}
	}
	return rapid.SampledFrom(identPool).Draw(g.t, label)
}

// value units for string literals: each is a byte string appended to the value.
var strUnits = [][]byte{
	[]byte("a"), []byte("b"), []byte("Z"), []byte("0"), []byte("7"), []byte(" "), []byte("_"), []byte("x"), []byte("u"), []byte("n"),
	[]byte("'"), []byte("'"), []byte(`"`), []byte(`"`), []byte(`\`), []byte(`\`), []byte(`\`),
	[]byte("\n"), []byte("\t"), []byte("\r"), []byte{0}, []byte{7}, []byte{8}, []byte{11}, []byte{12}, []byte{0x1b}, []byte{0x7f},
	[]byte("é"), []byte("中"), []byte("😀"), []byte(" "),
	{0x80}, {0xff}, {0xc3}, {0xfe}, // not UTF-8 on their own: only expressible through \x / octal escapes
	[]byte("/*"), []byte("*/"), []byte("//"), []byte("#"), []byte("/**/"), []byte("{"), []byte(")"), []byte(","), []byte(";"),
	[]byte("foo.thrift"), []byte("<vector>"), []byte("../x/y.thrift"),
}

func (g *gen) lit(label string) MLit {
	n := weighted(g.t, label+"_n", 10, 25, 25, 15, 10, 8, 5, 2)
	var v []byte
	for i := 0; i < n; i++ {
		v = append(v, rapid.SampledFrom(strUnits).Draw(g.t, label+"_u")...)
	}
	if v == nil {
		v = []byte{}
	}
	return MLit{V: v}
}

func (g *gen) anns(label string) []MAnn {
	if !chance(g.t, label+"_has", g.annPct) {
		return nil
	}
	n := weighted(g.t, label+"_n", 50, 30, 20) + 1
	var out []MAnn
	for i := 0; i < n; i++ {
		a := MAnn{Name: g.ident(label + "_name")}
		if chance(g.t, label+"_val", 65) {
			a.HasValue = true
			a.Value = g.lit(label + "_v")
		}
		out = append(out, a)
	}
	return out
}

var baseNames = []string{"bool", "byte", "i8", "i16", "i32", "i64", "double", "string", "binary"}

func (g *gen) typ(depth int, label string) MType {
	k := weighted(g.t, label+"_k", 45, 25, 10, 10, 10)
	if depth <= 0 && k >= 2 {
		k = k % 2
	}
	switch k {
	case 0:
		return MType{K: "base", Base: rapid.SampledFrom(baseNames).Draw(g.t, label+"_b"), Anns: g.anns(label + "_a")}
	case 1:
		return MType{K: "ref", Name: g.ident(label + "_ref")}
	case 2:
		v := g.typ(depth-1, label+"_lv")
		return MType{K: "list", Val: &v, Anns: g.anns(label + "_a")}
	case 3:
		v := g.typ(depth-1, label+"_sv")
		return MType{K: "set", Val: &v, Anns: g.anns(label + "_a")}
	default:
		kk := g.typ(depth-1, label+"_mk")
		v := g.typ(depth-1, label+"_mv")
		return MType{K: "map", Key: &kk, Val: &v, Anns: g.anns(label + "_a")}
	}
}

var intEdges = []int64{0, 1, -1, 2, 7, 10, 42, 127, -128, 255, 256, 65535, 2147483647, -2147483648, 4294967296,
	9223372036854775807, -9223372036854775808, 1, 1, 2, 2, 0, 0}

func (g *gen) int64(label string) int64 {
	if chance(g.t, label+"_edge", 70) {
		return rapid.SampledFrom(intEdges).Draw(g.t, label+"_e")
	}
	return rapid.Int64().Draw(g.t, label)
}

func (g *gen) cval(depth int, label string) MConst {
	k := weighted(g.t, label+"_k", 22, 12, 10, 22, 14, 10, 10)
	if depth <= 0 && k >= 5 {
		k = k - 5
	}
	switch k {
	case 0:
		return MConst{K: "int", I: g.int64(label + "_i")}
	case 1:
		return MConst{K: "double"} // spelled (and valued) by the printer
	case 2:
		return MConst{K: "bool", B: rapid.Bool().Draw(g.t, label+"_b")}
	case 3:
		return MConst{K: "string", S: g.lit(label + "_s")}
	case 4:
		return MConst{K: "ref", Name: g.ident(label + "_ref")}
	case 5:
		n := weighted(g.t, label+"_ln", 15, 30, 30, 15, 10)
		c := MConst{K: "list"}
		for i := 0; i < n; i++ {
			c.Items = append(c.Items, g.cval(depth-1, label+"_li"))
		}
		return c
	default:
		n := weighted(g.t, label+"_mn", 15, 35, 30, 20)
		c := MConst{K: "map"}
		for i := 0; i < n; i++ {
			c.Pairs = append(c.Pairs, MPair{Key: g.cval(depth-1, label+"_mk"), Val: g.cval(depth-1, label+"_mv")})
		}
		return c
	}
}

func (g *gen) doc(label string) MDoc {
	if !chance(g.t, label+"_doc", g.docs) {
		return MDoc{}
	}
	return MDoc{Present: true}
}

func (g *gen) field(label string) MField {
	f := MField{Name: g.ident(label + "_name"), Type: g.typ(2, label+"_t"), Doc: g.doc(label)}
	if chance(g.t, label+"_hasid", 70) {
		if chance(g.t, label+"_idedge", 30) {
			f.ID = int(rapid.SampledFrom([]int64{0, -1, 32767, -32768, 65536, 2147483647, -5}).Draw(g.t, label+"_ide"))
		} else {
			f.ID = rapid.IntRange(1, 40).Draw(g.t, label+"_id")
		}
	} else {
		f.IDUnset = true
	}
	f.Req = weighted(g.t, label+"_req", 40, 30, 30)
	if chance(g.t, label+"_hasdef", 35) {
		d := g.cval(2, label+"_def")
		f.Default = &d
	}
	f.Anns = g.anns(label + "_a")
	return f
}

func (g *gen) fields(label string) []MField {
	n := weighted(g.t, label+"_n", 15, 30, 25, 20, 10)
	if n > g.maxKids {
		n = g.maxKids
	}
	var out []MField
	for i := 0; i < n; i++ {
		out = append(out, g.field(label+"_f"))
	}
	return out
}

func (g *gen) fn(label string) MFunc {
	f := MFunc{Name: g.ident(label + "_name"), Doc: g.doc(label)}
	f.OneWay = chance(g.t, label+"_oneway", 25)
	if !chance(g.t, label+"_void", 40) {
		r := g.typ(2, label+"_ret")
		f.Ret = &r
	}
	f.Params = g.fields(label + "_p")
	if chance(g.t, label+"_throws", 40) {
		f.HasThrows = true
		f.Throws = g.fields(label + "_x")
	}
	f.Anns = g.anns(label + "_a")
	return f
}

func (g *gen) def(label string) MDef {
	d := MDef{Name: g.ident(label + "_name"), Doc: g.doc(label)}
	switch weighted(g.t, label+"_k", 22, 12, 14, 20, 7, 7, 18) {
	case 0:
		d.K = "const"
		ty := g.typ(2, label+"_ct")
		v := g.cval(3, label+"_cv")
		d.Type, d.Value = &ty, &v
	case 1:
		d.K = "typedef"
		ty := g.typ(3, label+"_tt")
		d.Type = &ty
		d.Anns = g.anns(label + "_a")
	case 2:
		d.K = "enum"
		n := weighted(g.t, label+"_en", 15, 25, 25, 20, 15)
		for i := 0; i < n; i++ {
			it := MEnumItem{Name: g.ident(label + "_ei"), Doc: g.doc(label + "_eid")}
			if chance(g.t, label+"_ev", 50) {
				v := int64(rapid.IntRange(-3, 300).Draw(g.t, label+"_evv"))
				if chance(g.t, label+"_evedge", 15) {
					v = rapid.SampledFrom([]int64{2147483647, -2147483648, 4294967296, 0}).Draw(g.t, label+"_eve")
				}
				it.Value = &v
			}
			it.Anns = g.anns(label + "_eia")
			d.Items = append(d.Items, it)
		}
		d.Anns = g.anns(label + "_a")
	case 3, 4, 5:
		d.K = []string{"struct", "union", "exception"}[weighted(g.t, label+"_sk", 60, 20, 20)]
		d.Fields = g.fields(label + "_sf")
		d.Anns = g.anns(label + "_a")
	default:
		d.K = "service"
		if chance(g.t, label+"_ext", 40) {
			d.Parent = &MSvcRef{Name: g.ident(label + "_parent")}
		}
		n := weighted(g.t, label+"_fn", 15, 35, 30, 20)
		for i := 0; i < n; i++ {
			d.Funcs = append(d.Funcs, g.fn(label+"_fn"))
		}
		d.Anns = g.anns(label + "_a")
	}
	return d
}

var nsScopes = []string{"*", "*", "go", "py", "java", "cpp", "rb", "js", "php.x", "perl", "py.twisted"}

func (g *gen) header(label string) MHeader {
	switch weighted(g.t, label+"_k", 30, 15, 15, 40) {
	case 0:
		return MHeader{K: "include", Path: g.lit(label + "_p")}
	case 1:
		return MHeader{K: "include", Name: g.ident(label + "_as"), Path: g.lit(label + "_p")}
	case 2:
		return MHeader{K: "cpp_include", Path: g.lit(label + "_p")}
	default:
		h := MHeader{K: "namespace", Name: g.ident(label + "_n")}
		if chance(g.t, label+"_scrnd", 30) {
			h.Scope = g.ident(label + "_sc")
		} else {
			h.Scope = rapid.SampledFrom(nsScopes).Draw(g.t, label+"_scp")
		}
		return h
	}
}

// genProgram draws a document model from the whole grammar.
func genProgram(t *rapid.T) MProg {
	g := &gen{t: t}
	g.docs = rapid.SampledFrom([]int{0, 15, 40, 80}).Draw(t, "doc_pct")
	g.annPct = rapid.SampledFrom([]int{0, 15, 30, 60}).Draw(t, "ann_pct")
	g.maxKids = rapid.SampledFrom([]int{2, 4, 4}).Draw(t, "max_kids")
	var p MProg
	nh := weighted(t, "n_headers", 30, 25, 20, 15, 10)
	for i := 0; i < nh; i++ {
		p.Headers = append(p.Headers, g.header("hdr"))
	}
	nd := weighted(t, "n_defs", 3, 7, 10, 25, 20, 15, 10, 5, 5)
	if ev.Thorough() && chance(t, "big_doc", 10) {
		nd += rapid.IntRange(4, 16).Draw(t, "n_defs_extra")
	}
	for i := 0; i < nd; i++ {
		p.Defs = append(p.Defs, g.def("def"))
	}
	return p
}
