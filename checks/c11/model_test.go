package c11

// The model of a Thrift document used by the round-trip unit. It is produced
// by the generator (gen_test.go), annotated with source facts by the printer
// (printer_test.go) and compared against the parser's tree by the oracle
// (oracle_test.go). Everything is JSON-serialisable so a failing case can be
// replayed without the generator.

// Pos is a 1-based (line, column) pair; columns count bytes.
type Pos struct {
	L int `json:"l"`
	C int `json:"c"`
}

// Tok describes the first token of a node as printed.
type Tok struct {
	P Pos `json:"p"` // true position
	// If the token is a keyword whose directly following blank run contains
	// newlines: the position that (line after the run, token offset minus start
	// of that line + 1) arithmetic yields (defect F13), and the number of
	// newlines in that run.
	KwNL *Pos `json:"kwnl,omitempty"`
	NL   int  `json:"nl,omitempty"`
}

// MLit is a string literal: value bytes plus facts about how it was spelled.
type MLit struct {
	V   []byte `json:"v"`
	F12 bool   `json:"f12,omitempty"` // spelled with an escaped backslash directly followed by the raw other quote
	N2  bool   `json:"n2,omitempty"`  // single-quoted and a quote character spelled as a numeric escape
	At  *Tok   `json:"at,omitempty"`  // the literal token
}

// MDoc is a docstring placed in front of a node.
type MDoc struct {
	Present bool   `json:"present,omitempty"`
	Want    string `json:"want,omitempty"` // documented content
	// printer facts
	Shape    string `json:"shape,omitempty"`
	GapNL    int    `json:"gap_nl,omitempty"`   // newlines between the end of the docstring and the node's first token
	Attached bool   `json:"attached,omitempty"` // GapNL <= 1
	KwLost   bool   `json:"kw_lost,omitempty"`  // attached, but first token is a keyword that swallows enough newlines to push the count over 1
}

// MAnn is one annotation.
type MAnn struct {
	Name     string `json:"name"`
	HasValue bool   `json:"has_value,omitempty"`
	Value    MLit   `json:"value"`
	At       *Tok   `json:"at,omitempty"`
}

// MType is a type expression. K: base | map | list | set | ref.
type MType struct {
	K    string `json:"k"`
	Base string `json:"base,omitempty"` // keyword as written: bool byte i8 i16 i32 i64 double string binary
	Name string `json:"name,omitempty"`
	Key  *MType `json:"key,omitempty"`
	Val  *MType `json:"val,omitempty"`
	Anns []MAnn `json:"anns,omitempty"`
	At   *Tok   `json:"at,omitempty"`
}

// MConst is a constant value. K: int | double | bool | string | ref | list | map.
type MConst struct {
	K     string   `json:"k"`
	I     int64    `json:"i,omitempty"`
	D     float64  `json:"d,omitempty"`
	DText string   `json:"dtext,omitempty"` // how the double was spelled
	B     bool     `json:"b,omitempty"`
	S     MLit     `json:"s"`
	Name  string   `json:"name,omitempty"`
	Items []MConst `json:"items,omitempty"`
	Pairs []MPair  `json:"pairs,omitempty"`
	At    *Tok     `json:"at,omitempty"`
	// position of the '=' or ':' token when the value follows it directly (K2 site)
	After *Pos `json:"after,omitempty"`
}

// MPair is one entry of a map literal.
type MPair struct {
	Key MConst `json:"key"`
	Val MConst `json:"val"`
	At  *Tok   `json:"at,omitempty"`
}

// MField is a struct field, function parameter or declared exception.
type MField struct {
	ID      int     `json:"id"`
	IDUnset bool    `json:"id_unset,omitempty"`
	Name    string  `json:"name"`
	Type    MType   `json:"type"`
	Req     int     `json:"req"` // 0 unspecified, 1 required, 2 optional (ast.Requiredness)
	Default *MConst `json:"default,omitempty"`
	Anns    []MAnn  `json:"anns,omitempty"`
	Doc     MDoc    `json:"doc"`
	At      *Tok    `json:"at,omitempty"`
}

// MFunc is a service function.
type MFunc struct {
	Name      string   `json:"name"`
	OneWay    bool     `json:"oneway,omitempty"`
	Ret       *MType   `json:"ret,omitempty"` // nil: void
	Params    []MField `json:"params,omitempty"`
	HasThrows bool     `json:"has_throws,omitempty"`
	Throws    []MField `json:"throws,omitempty"`
	Anns      []MAnn   `json:"anns,omitempty"`
	Doc       MDoc     `json:"doc"`
	At        *Tok     `json:"at,omitempty"`
}

// MEnumItem is one enum item.
type MEnumItem struct {
	Name  string `json:"name"`
	Value *int64 `json:"value,omitempty"`
	Anns  []MAnn `json:"anns,omitempty"`
	Doc   MDoc   `json:"doc"`
	At    *Tok   `json:"at,omitempty"`
}

// MSvcRef is the `extends X` part of a service.
type MSvcRef struct {
	Name    string `json:"name"`
	At      *Tok   `json:"at,omitempty"`      // the identifier
	Extends *Tok   `json:"extends,omitempty"` // the `extends` keyword
}

// MDef is a definition. K: const | typedef | enum | struct | union | exception | service.
type MDef struct {
	K      string      `json:"k"`
	Name   string      `json:"name"`
	Type   *MType      `json:"type,omitempty"`
	Value  *MConst     `json:"value,omitempty"`
	Items  []MEnumItem `json:"items,omitempty"`
	Fields []MField    `json:"fields,omitempty"`
	Funcs  []MFunc     `json:"funcs,omitempty"`
	Parent *MSvcRef    `json:"parent,omitempty"`
	Anns   []MAnn      `json:"anns,omitempty"`
	Doc    MDoc        `json:"doc"`
	At     *Tok        `json:"at,omitempty"`
}

// MHeader is a header. K: include | cpp_include | namespace.
type MHeader struct {
	K     string `json:"k"`
	Name  string `json:"name,omitempty"`  // include-as name, namespace name
	Scope string `json:"scope,omitempty"` // namespace scope, "*" allowed
	Path  MLit   `json:"path"`
	At    *Tok   `json:"at,omitempty"`
}

// MProg is a whole document.
type MProg struct {
	Headers []MHeader `json:"headers,omitempty"`
	Defs    []MDef    `json:"defs,omitempty"`
}

// keywords are the tokens of lex.rl that swallow trailing blanks.
var keywords = []string{
	"include", "cpp_include", "namespace", "void", "bool", "byte", "i8", "i16", "i32", "i64", "double", "string",
	"binary", "map", "list", "set", "oneway", "typedef", "struct", "union", "exception", "extends", "throws",
	"service", "enum", "const", "required", "optional", "true", "false",
}

// reserved words of lex.rl: never identifiers.
var reserved = []string{
	"BEGIN", "END", "__CLASS__", "__DIR__", "__FILE__", "__FUNCTION__", "__LINE__", "__METHOD__", "__NAMESPACE__",
	"abstract", "alias", "and", "args", "as", "assert", "begin", "break", "case", "catch", "class", "clone",
	"continue", "declare", "def", "default", "del", "delete", "do", "dynamic", "elif", "else", "elseif", "elsif",
	"end", "enddeclare", "endfor", "endforeach", "endif", "endswitch", "endwhile", "ensure", "except", "exec",
	"finally", "float", "for", "foreach", "from", "function", "global", "goto", "if", "implements", "import", "in",
	"inline", "instanceof", "interface", "is", "lambda", "module", "native", "new", "next", "nil", "not", "or",
	"package", "pass", "public", "print", "private", "protected", "raise", "redo", "rescue", "retry", "register",
	"return", "self", "sizeof", "static", "super", "switch", "synchronized", "then", "this", "throw", "transient",
	"try", "undef", "unless", "unsigned", "until", "use", "var", "virtual", "volatile", "when", "while", "with",
	"xor", "yield",
}

var notIdent = func() map[string]bool {
	m := map[string]bool{}
	for _, k := range keywords {
		m[k] = true
	}
	for _, k := range reserved {
		m[k] = true
	}
	return m
}()
