package c11

import (
	"errors"
	"fmt"
	"math"
	"reflect"
	"strings"

	"go.uber.org/thriftrw/ast"
	"go.uber.org/thriftrw/idl"
)

// RTCase is one round-trip case: the printed text plus the model it was
// printed from (with true positions).
type RTCase struct {
	Text        string   `json:"text"`
	Model       MProg    `json:"model"`
	EmptyBlocks []int    `json:"empty_blocks,omitempty"` // offsets of /**/ comments between tokens
	Tolerate    []string `json:"tolerate,omitempty"`     // K2
}

// finding is one oracle verdict.
type finding struct {
	key, msg  string
	tolerated bool
}

type cmp struct {
	info   *idl.Info
	out    []finding
	seen   map[string]bool
	shared map[string][]Pos
	tolK2  bool
}

func (c *cmp) add(key, format string, args ...interface{}) {
	if c.seen[key] {
		return
	}
	c.seen[key] = true
	c.out = append(c.out, finding{key: key, msg: fmt.Sprintf(format, args...)})
}

func (c *cmp) addTolerated(key string) {
	k := "tolerated " + key
	if c.seen[k] {
		return
	}
	c.seen[k] = true
	c.out = append(c.out, finding{key: key, tolerated: true})
}

func toPos(p ast.Position) Pos { return Pos{L: p.Line, C: p.Column} }

func scalarKey(m *MConst) string {
	switch m.K {
	case "int":
		return fmt.Sprintf("i:%d", m.I)
	case "double":
		d := m.D
		if d == 0 {
			d = 0 // -0 and +0 are the same map key
		}
		return fmt.Sprintf("d:%x", math.Float64bits(d))
	case "bool":
		return fmt.Sprintf("b:%v", m.B)
	case "string":
		return "s:" + string(m.S.V)
	}
	return ""
}

func (c *cmp) collectShared(m *MConst) {
	if k := scalarKey(m); k != "" && m.At != nil {
		c.shared[k] = append(c.shared[k], m.At.P)
		if m.After != nil {
			c.shared[k] = append(c.shared[k], *m.After)
		}
		if m.At.KwNL != nil {
			c.shared[k] = append(c.shared[k], *m.At.KwNL)
		}
	}
	for i := range m.Items {
		c.collectShared(&m.Items[i])
	}
	for i := range m.Pairs {
		c.collectShared(&m.Pairs[i].Key)
		c.collectShared(&m.Pairs[i].Val)
	}
}

func (c *cmp) collectSharedFields(fs []MField) {
	for i := range fs {
		if fs[i].Default != nil {
			c.collectShared(fs[i].Default)
		}
	}
}

// position checks a node position against the printed first token.
func (c *cmp) position(kind string, got Pos, at *Tok, after *Pos, sharedKey string) {
	if at == nil {
		c.add("harness/no-token/"+kind, "model node without a token")
		return
	}
	if got == at.P {
		return
	}
	if at.KwNL != nil && got == *at.KwNL {
		c.add("position/keyword-newline/"+kind, "%s whose first token (a keyword) is followed by a newline: reported %d:%d, true position %d:%d", kind, got.L, got.C, at.P.L, at.P.C)
		return
	}
	if after != nil && got == *after {
		if c.tolK2 {
			c.addTolerated("position/const-after-eq/" + kind)
			return
		}
		c.add("position/const-after-eq/"+kind, "%s directly after '=' / ':': reported %d:%d (that token), true position %d:%d", kind, got.L, got.C, at.P.L, at.P.C)
		return
	}
	if sharedKey != "" {
		for _, p := range c.shared[sharedKey] {
			if got == p {
				if c.tolK2 {
					c.addTolerated("position/const-shared-literal/" + kind)
					return
				}
				c.add("position/const-shared-literal/"+kind, "%s reports %d:%d, the position recorded for an equal literal elsewhere; true position %d:%d", kind, got.L, got.C, at.P.L, at.P.C)
				return
			}
		}
	}
	c.add("position/"+kind, "%s reported at %d:%d, first token is at %d:%d", kind, got.L, got.C, at.P.L, at.P.C)
}

// nodePos checks ast.Pos, Info.Pos and the explicit line/column for a
// position-carrying node.
func (c *cmp) nodePos(kind string, n ast.Node, line, col int, at *Tok, after *Pos) {
	p, ok := ast.Pos(n)
	if !ok {
		c.add("position-api/"+kind, "ast.Pos does not know %s", kind)
		return
	}
	if p.Line != line || p.Column != col {
		c.add("position-api/"+kind, "ast.Pos(%s)=%v but Line/Column fields are %d:%d", kind, p, line, col)
	}
	if ip := c.info.Pos(n); ip != p {
		c.add("position-api/"+kind, "Info.Pos(%s)=%v but ast.Pos=%v", kind, ip, p)
	}
	c.position(kind, Pos{L: line, C: col}, at, after, "")
}

func (c *cmp) doc(kind string, got string, d *MDoc) {
	want := ""
	if d.Present && d.Attached {
		want = d.Want
	}
	if got == want {
		return
	}
	if d.KwLost && got == "" {
		c.add("docstring/keyword-newline/"+kind, "%s: docstring one line above is dropped because the keyword token swallows following newlines (want %q)", kind, want)
		return
	}
	c.add("docstring/"+kind, "%s: Doc=%q, want %q (docstring shape %s, %d newline(s) before the node)", kind, got, want, d.Shape, d.GapNL)
}

func (c *cmp) lit(kind string, got string, l *MLit) {
	if got == string(l.V) {
		return
	}
	if l.N2 {
		c.add("roundtrip/string-escape/numeric-quote-in-single/"+kind, "%s: single-quoted literal spelling a quote as a numeric escape: got %q, want %q", kind, got, string(l.V))
		return
	}
	c.add("value/"+kind, "%s: literal value %q, want %q", kind, got, string(l.V))
}

func (c *cmp) anns(owner string, got []*ast.Annotation, want []MAnn) {
	if len(got) != len(want) {
		c.add("structure/annotations/"+owner, "%s: %d annotations, want %d", owner, len(got), len(want))
		return
	}
	for i, g := range got {
		w := &want[i]
		if g == nil {
			c.add("structure/annotations/"+owner, "nil annotation")
			continue
		}
		if g.Name != w.Name {
			c.add("name/Annotation", "annotation name %q, want %q", g.Name, w.Name)
		}
		c.lit("Annotation", g.Value, &w.Value)
		c.nodePos("Annotation", g, g.Line, g.Column, w.At, nil)
	}
}

var baseIDs = map[string]ast.BaseTypeID{"bool": ast.BoolTypeID, "byte": ast.I8TypeID, "i8": ast.I8TypeID, "i16": ast.I16TypeID,
	"i32": ast.I32TypeID, "i64": ast.I64TypeID, "double": ast.DoubleTypeID, "string": ast.StringTypeID, "binary": ast.BinaryTypeID}

func (c *cmp) typ(ctx string, got ast.Type, w *MType) {
	if w == nil {
		if got != nil {
			c.add("structure/type/"+ctx, "%s: type %v where none (void) was written", ctx, got)
		}
		return
	}
	if got == nil {
		c.add("structure/type/"+ctx, "%s: nil type, want %s", ctx, w.K)
		return
	}
	switch w.K {
	case "base":
		g, ok := got.(ast.BaseType)
		if !ok {
			c.add("structure/type/"+ctx, "%s: got %T, want BaseType", ctx, got)
			return
		}
		if g.ID != baseIDs[w.Base] {
			c.add("value/BaseType", "base type %v, written %s", g.ID, w.Base)
		}
		c.anns("BaseType", g.Annotations, w.Anns)
		c.nodePos("BaseType", g, g.Line, g.Column, w.At, nil)
	case "ref":
		g, ok := got.(ast.TypeReference)
		if !ok {
			c.add("structure/type/"+ctx, "%s: got %T, want TypeReference", ctx, got)
			return
		}
		if g.Name != w.Name {
			c.add("name/TypeReference", "type reference %q, want %q", g.Name, w.Name)
		}
		c.nodePos("TypeReference", g, g.Line, g.Column, w.At, nil)
	case "list":
		g, ok := got.(ast.ListType)
		if !ok {
			c.add("structure/type/"+ctx, "%s: got %T, want ListType", ctx, got)
			return
		}
		c.typ("ListType", g.ValueType, w.Val)
		c.anns("ListType", g.Annotations, w.Anns)
		c.nodePos("ListType", g, g.Line, g.Column, w.At, nil)
	case "set":
		g, ok := got.(ast.SetType)
		if !ok {
			c.add("structure/type/"+ctx, "%s: got %T, want SetType", ctx, got)
			return
		}
		c.typ("SetType", g.ValueType, w.Val)
		c.anns("SetType", g.Annotations, w.Anns)
		c.nodePos("SetType", g, g.Line, g.Column, w.At, nil)
	case "map":
		g, ok := got.(ast.MapType)
		if !ok {
			c.add("structure/type/"+ctx, "%s: got %T, want MapType", ctx, got)
			return
		}
		c.typ("MapType", g.KeyType, w.Key)
		c.typ("MapType", g.ValueType, w.Val)
		c.anns("MapType", g.Annotations, w.Anns)
		c.nodePos("MapType", g, g.Line, g.Column, w.At, nil)
	}
}

func (c *cmp) scalarPos(kind string, n ast.Node, w *MConst) {
	if _, ok := ast.Pos(n); ok {
		c.add("position-api/"+kind, "ast.Pos unexpectedly knows the value-typed %s", kind)
	}
	c.position(kind, toPos(c.info.Pos(n)), w.At, w.After, scalarKey(w))
}

func (c *cmp) cval(ctx string, got ast.ConstantValue, w *MConst) {
	if got == nil {
		c.add("structure/constant/"+ctx, "%s: nil constant value, want %s", ctx, w.K)
		return
	}
	bad := func(want string) {
		c.add("structure/constant/"+ctx, "%s: got %T, want %s", ctx, got, want)
	}
	switch w.K {
	case "int":
		g, ok := got.(ast.ConstantInteger)
		if !ok {
			bad("ConstantInteger")
			return
		}
		if int64(g) != w.I {
			c.add("value/ConstantInteger", "integer %d, want %d", int64(g), w.I)
		}
		c.scalarPos("ConstantInteger", g, w)
	case "double":
		g, ok := got.(ast.ConstantDouble)
		if !ok {
			bad("ConstantDouble")
			return
		}
		if math.Float64bits(float64(g)) != math.Float64bits(w.D) {
			c.add("value/ConstantDouble", "double %v from %q, want %v", float64(g), w.DText, w.D)
		}
		c.scalarPos("ConstantDouble", g, w)
	case "bool":
		g, ok := got.(ast.ConstantBoolean)
		if !ok {
			bad("ConstantBoolean")
			return
		}
		if bool(g) != w.B {
			c.add("value/ConstantBoolean", "boolean %v, want %v", bool(g), w.B)
		}
		c.scalarPos("ConstantBoolean", g, w)
	case "string":
		g, ok := got.(ast.ConstantString)
		if !ok {
			bad("ConstantString")
			return
		}
		c.lit("ConstantString", string(g), &w.S)
		c.scalarPos("ConstantString", g, w)
	case "ref":
		g, ok := got.(ast.ConstantReference)
		if !ok {
			bad("ConstantReference")
			return
		}
		if g.Name != w.Name {
			c.add("name/ConstantReference", "constant reference %q, want %q", g.Name, w.Name)
		}
		c.nodePos("ConstantReference", g, g.Line, g.Column, w.At, w.After)
	case "list":
		g, ok := got.(ast.ConstantList)
		if !ok {
			bad("ConstantList")
			return
		}
		c.nodePos("ConstantList", g, g.Line, g.Column, w.At, w.After)
		if len(g.Items) != len(w.Items) {
			c.add("structure/ConstantList", "list with %d items, want %d", len(g.Items), len(w.Items))
			return
		}
		for i := range g.Items {
			c.cval("ConstantList", g.Items[i], &w.Items[i])
		}
	case "map":
		g, ok := got.(ast.ConstantMap)
		if !ok {
			bad("ConstantMap")
			return
		}
		c.nodePos("ConstantMap", g, g.Line, g.Column, w.At, w.After)
		if len(g.Items) != len(w.Pairs) {
			c.add("structure/ConstantMap", "map with %d items, want %d", len(g.Items), len(w.Pairs))
			return
		}
		for i := range g.Items {
			it := g.Items[i]
			c.nodePos("ConstantMapItem", it, it.Line, it.Column, w.Pairs[i].At, nil)
			c.cval("ConstantMapItem.Key", it.Key, &w.Pairs[i].Key)
			c.cval("ConstantMapItem.Value", it.Value, &w.Pairs[i].Val)
		}
	}
}

func (c *cmp) fields(owner string, got []*ast.Field, want []MField) {
	if len(got) != len(want) {
		c.add("structure/fields/"+owner, "%s: %d fields, want %d", owner, len(got), len(want))
		return
	}
	for i, g := range got {
		w := &want[i]
		if g == nil {
			c.add("structure/fields/"+owner, "nil field")
			continue
		}
		if g.Name != w.Name {
			c.add("name/Field", "field name %q, want %q", g.Name, w.Name)
		}
		if g.IDUnset != w.IDUnset || (!w.IDUnset && g.ID != w.ID) || (w.IDUnset && g.ID != 0) {
			c.add("value/Field/id", "field id (%d, unset=%v), want (%d, unset=%v)", g.ID, g.IDUnset, w.ID, w.IDUnset)
		}
		if int(g.Requiredness) != w.Req {
			c.add("value/Field/requiredness", "field requiredness %d, want %d", g.Requiredness, w.Req)
		}
		c.typ("Field", g.Type, &w.Type)
		if w.Default == nil {
			if g.Default != nil {
				c.add("structure/Field/default", "field has default %v, none written", g.Default)
			}
		} else {
			c.cval("Field.Default", g.Default, w.Default)
		}
		c.anns("Field", g.Annotations, w.Anns)
		c.doc("Field", g.Doc, &w.Doc)
		c.nodePos("Field", g, g.Line, g.Column, w.At, nil)
	}
}

func (c *cmp) def(got ast.Definition, w *MDef) {
	kind := map[string]string{"const": "Constant", "typedef": "Typedef", "enum": "Enum", "struct": "Struct", "union": "Struct", "exception": "Struct", "service": "Service"}[w.K]
	if got == nil {
		c.add("structure/definition", "nil definition, want %s", w.K)
		return
	}
	info := got.Info()
	switch w.K {
	case "const":
		g, ok := got.(*ast.Constant)
		if !ok {
			c.add("structure/definition", "got %T, want *Constant", got)
			return
		}
		if g.Name != w.Name {
			c.add("name/Constant", "constant name %q, want %q", g.Name, w.Name)
		}
		c.typ("Constant", g.Type, w.Type)
		c.cval("Constant.Value", g.Value, w.Value)
		c.doc(kind, g.Doc, &w.Doc)
		c.nodePos(kind, g, g.Line, g.Column, w.At, nil)
		c.defInfo(kind, info, g.Name, g.Line, g.Column)
	case "typedef":
		g, ok := got.(*ast.Typedef)
		if !ok {
			c.add("structure/definition", "got %T, want *Typedef", got)
			return
		}
		if g.Name != w.Name {
			c.add("name/Typedef", "typedef name %q, want %q", g.Name, w.Name)
		}
		c.typ("Typedef", g.Type, w.Type)
		c.anns(kind, g.Annotations, w.Anns)
		c.doc(kind, g.Doc, &w.Doc)
		c.nodePos(kind, g, g.Line, g.Column, w.At, nil)
		c.defInfo(kind, info, g.Name, g.Line, g.Column)
	case "enum":
		g, ok := got.(*ast.Enum)
		if !ok {
			c.add("structure/definition", "got %T, want *Enum", got)
			return
		}
		if g.Name != w.Name {
			c.add("name/Enum", "enum name %q, want %q", g.Name, w.Name)
		}
		if len(g.Items) != len(w.Items) {
			c.add("structure/Enum", "enum with %d items, want %d", len(g.Items), len(w.Items))
		} else {
			for i, it := range g.Items {
				wi := &w.Items[i]
				if it == nil {
					c.add("structure/Enum", "nil enum item")
					continue
				}
				if it.Name != wi.Name {
					c.add("name/EnumItem", "enum item %q, want %q", it.Name, wi.Name)
				}
				switch {
				case (it.Value == nil) != (wi.Value == nil):
					c.add("value/EnumItem", "enum item value presence %v, want %v", it.Value != nil, wi.Value != nil)
				case it.Value != nil && int64(*it.Value) != *wi.Value:
					c.add("value/EnumItem", "enum item value %d, want %d", *it.Value, *wi.Value)
				}
				c.anns("EnumItem", it.Annotations, wi.Anns)
				c.doc("EnumItem", it.Doc, &wi.Doc)
				c.nodePos("EnumItem", it, it.Line, it.Column, wi.At, nil)
			}
		}
		c.anns(kind, g.Annotations, w.Anns)
		c.doc(kind, g.Doc, &w.Doc)
		c.nodePos(kind, g, g.Line, g.Column, w.At, nil)
		c.defInfo(kind, info, g.Name, g.Line, g.Column)
	case "struct", "union", "exception":
		g, ok := got.(*ast.Struct)
		if !ok {
			c.add("structure/definition", "got %T, want *Struct", got)
			return
		}
		if g.Name != w.Name {
			c.add("name/Struct", "struct name %q, want %q", g.Name, w.Name)
		}
		wantT := map[string]ast.StructureType{"struct": ast.StructType, "union": ast.UnionType, "exception": ast.ExceptionType}[w.K]
		if g.Type != wantT {
			c.add("value/Struct/type", "structure type %d, written %s", g.Type, w.K)
		}
		c.fields("Struct", g.Fields, w.Fields)
		c.anns(kind, g.Annotations, w.Anns)
		c.doc(kind, g.Doc, &w.Doc)
		c.nodePos(kind, g, g.Line, g.Column, w.At, nil)
		c.defInfo(kind, info, g.Name, g.Line, g.Column)
	case "service":
		g, ok := got.(*ast.Service)
		if !ok {
			c.add("structure/definition", "got %T, want *Service", got)
			return
		}
		if g.Name != w.Name {
			c.add("name/Service", "service name %q, want %q", g.Name, w.Name)
		}
		switch {
		case (g.Parent == nil) != (w.Parent == nil):
			c.add("structure/Service/parent", "service parent presence %v, want %v", g.Parent != nil, w.Parent != nil)
		case g.Parent != nil:
			if g.Parent.Name != w.Parent.Name {
				c.add("name/ServiceReference", "service parent %q, want %q", g.Parent.Name, w.Parent.Name)
			}
			c.svcRefPos(Pos{L: g.Parent.Line, C: g.Parent.Column}, w.Parent)
		}
		if len(g.Functions) != len(w.Funcs) {
			c.add("structure/Service", "service with %d functions, want %d", len(g.Functions), len(w.Funcs))
		} else {
			for i, f := range g.Functions {
				wf := &w.Funcs[i]
				if f == nil {
					c.add("structure/Service", "nil function")
					continue
				}
				if f.Name != wf.Name {
					c.add("name/Function", "function name %q, want %q", f.Name, wf.Name)
				}
				if f.OneWay != wf.OneWay {
					c.add("value/Function/oneway", "oneway %v, want %v", f.OneWay, wf.OneWay)
				}
				c.typ("Function", f.ReturnType, wf.Ret)
				c.fields("Function.Parameters", f.Parameters, wf.Params)
				c.fields("Function.Exceptions", f.Exceptions, wf.Throws)
				c.anns("Function", f.Annotations, wf.Anns)
				c.doc("Function", f.Doc, &wf.Doc)
				c.nodePos("Function", f, f.Line, f.Column, wf.At, nil)
			}
		}
		c.anns(kind, g.Annotations, w.Anns)
		c.doc(kind, g.Doc, &w.Doc)
		c.nodePos(kind, g, g.Line, g.Column, w.At, nil)
		c.defInfo(kind, info, g.Name, g.Line, g.Column)
	}
}

func (c *cmp) svcRefPos(got Pos, w *MSvcRef) {
	const kind = "ServiceReference"
	if w.At == nil || w.Extends == nil {
		c.add("harness/no-token/"+kind, "model node without a token")
		return
	}
	switch {
	case got == w.At.P:
	case w.Extends.KwNL != nil && got == *w.Extends.KwNL:
		c.add("position/keyword-newline/"+kind, "service parent after `extends`+newline: reported %d:%d, identifier is at %d:%d", got.L, got.C, w.At.P.L, w.At.P.C)
	case got == w.Extends.P:
		if c.tolK2 {
			c.addTolerated("position/after-extends/" + kind)
			return
		}
		c.add("position/after-extends/"+kind, "service parent reports %d:%d (the `extends` keyword), identifier is at %d:%d", got.L, got.C, w.At.P.L, w.At.P.C)
	default:
		c.add("position/"+kind, "service parent reported at %d:%d, identifier is at %d:%d", got.L, got.C, w.At.P.L, w.At.P.C)
	}
}

func (c *cmp) defInfo(kind string, info ast.DefinitionInfo, name string, line, col int) {
	if info.Name != name || info.Line != line || info.Column != col {
		c.add("info/"+kind, "%s.Info()=%+v, fields say (%q,%d,%d)", kind, info, name, line, col)
	}
}

func (c *cmp) header(got ast.Header, w *MHeader) {
	if got == nil {
		c.add("structure/header", "nil header")
		return
	}
	switch w.K {
	case "include":
		g, ok := got.(*ast.Include)
		if !ok {
			c.add("structure/header", "got %T, want *Include", got)
			return
		}
		if g.Name != w.Name {
			c.add("name/Include", "include-as name %q, want %q", g.Name, w.Name)
		}
		c.lit("Include", g.Path, &w.Path)
		c.nodePos("Include", g, g.Line, g.Column, w.At, nil)
		if got.Info().Line != g.Line {
			c.add("info/Include", "Info().Line differs")
		}
	case "cpp_include":
		g, ok := got.(*ast.CppInclude)
		if !ok {
			c.add("structure/header", "got %T, want *CppInclude", got)
			return
		}
		c.lit("CppInclude", g.Path, &w.Path)
		c.nodePos("CppInclude", g, g.Line, g.Column, w.At, nil)
		if got.Info().Line != g.Line {
			c.add("info/CppInclude", "Info().Line differs")
		}
	case "namespace":
		g, ok := got.(*ast.Namespace)
		if !ok {
			c.add("structure/header", "got %T, want *Namespace", got)
			return
		}
		if g.Name != w.Name {
			c.add("name/Namespace", "namespace name %q, want %q", g.Name, w.Name)
		}
		if g.Scope != w.Scope {
			c.add("value/Namespace/scope", "namespace scope %q, want %q", g.Scope, w.Scope)
		}
		c.nodePos("Namespace", g, g.Line, g.Column, w.At, nil)
		if got.Info().Line != g.Line {
			c.add("info/Namespace", "Info().Line differs")
		}
	}
}

// hazardN1 reports whether an empty block comment /**/ between tokens is
// followed anywhere later by "*/" (then the docstring pattern of the scanner
// outruns the comment pattern).
func hazardN1(c *RTCase) bool {
	for _, off := range c.EmptyBlocks {
		if off+4 <= len(c.Text) && strings.Contains(c.Text[off+4:], "*/") {
			return true
		}
	}
	return false
}

func walkLits(m *MProg, f func(*MLit)) {
	var anns func([]MAnn)
	var typ func(*MType)
	var cv func(*MConst)
	var fields func([]MField)
	anns = func(as []MAnn) {
		for i := range as {
			if as[i].HasValue {
				f(&as[i].Value)
			}
		}
	}
	typ = func(t *MType) {
		if t == nil {
			return
		}
		anns(t.Anns)
		typ(t.Key)
		typ(t.Val)
	}
	cv = func(c *MConst) {
		if c == nil {
			return
		}
		if c.K == "string" {
			f(&c.S)
		}
		for i := range c.Items {
			cv(&c.Items[i])
		}
		for i := range c.Pairs {
			cv(&c.Pairs[i].Key)
			cv(&c.Pairs[i].Val)
		}
	}
	fields = func(fs []MField) {
		for i := range fs {
			typ(&fs[i].Type)
			cv(fs[i].Default)
			anns(fs[i].Anns)
		}
	}
	for i := range m.Headers {
		if m.Headers[i].K != "namespace" {
			f(&m.Headers[i].Path)
		}
	}
	for i := range m.Defs {
		d := &m.Defs[i]
		typ(d.Type)
		cv(d.Value)
		anns(d.Anns)
		for j := range d.Items {
			anns(d.Items[j].Anns)
		}
		fields(d.Fields)
		for j := range d.Funcs {
			fn := &d.Funcs[j]
			typ(fn.Ret)
			fields(fn.Params)
			fields(fn.Throws)
			anns(fn.Anns)
		}
	}
}

// checkRoundTrip parses c.Text and compares the tree with c.Model.
func checkRoundTrip(c RTCase) []finding {
	info := &idl.Info{}
	prog, err := (&idl.Config{Info: info}).Parse([]byte(c.Text))
	hazard := hazardN1(&c)
	if err != nil || prog == nil {
		if err == nil {
			return []finding{{key: "totality/neither", msg: "Parse returned neither a program nor an error"}}
		}
		// F12: the first reported error sits on a literal that spells an escaped
		// backslash directly before the raw other quote
		hasF12 := false
		var pe *idl.ParseError
		if errors.As(err, &pe) && len(pe.Errors) > 0 {
			first := toPos(pe.Errors[0].Pos)
			walkLits(&c.Model, func(l *MLit) {
				if l.F12 && l.At != nil && l.At.P == first {
					hasF12 = true
				}
			})
		}
		msg := fmt.Sprintf("valid document rejected: %v", err)
		switch {
		case hasF12:
			return []finding{{key: "roundtrip/string-escape/backslash-quote", msg: msg}}
		case hazard:
			return []finding{{key: "roundtrip/comment/empty-block", msg: msg}}
		}
		return []finding{{key: "roundtrip/valid-rejected", msg: msg}}
	}
	cm := &cmp{info: info, seen: map[string]bool{}, shared: map[string][]Pos{}}
	for _, t := range c.Tolerate {
		if t == "K2" {
			cm.tolK2 = true
		}
	}
	// plain Parse must agree with Config.Parse
	if p2, err2 := idl.Parse([]byte(c.Text)); err2 != nil || !reflect.DeepEqual(p2, prog) {
		cm.add("config/parse-differs", "idl.Parse and Config.Parse disagree (err=%v)", err2)
	}
	m := &c.Model
	for i := range m.Defs {
		d := &m.Defs[i]
		if d.Value != nil {
			cm.collectShared(d.Value)
		}
		cm.collectSharedFields(d.Fields)
		for j := range d.Funcs {
			cm.collectSharedFields(d.Funcs[j].Params)
			cm.collectSharedFields(d.Funcs[j].Throws)
		}
	}
	if len(prog.Headers) != len(m.Headers) {
		cm.add("structure/headers", "%d headers, want %d", len(prog.Headers), len(m.Headers))
	} else {
		for i := range m.Headers {
			cm.header(prog.Headers[i], &m.Headers[i])
		}
	}
	if len(prog.Definitions) != len(m.Defs) {
		cm.add("structure/definitions", "%d definitions, want %d", len(prog.Definitions), len(m.Defs))
	} else {
		for i := range m.Defs {
			cm.def(prog.Definitions[i], &m.Defs[i])
		}
	}
	if hazard {
		for _, f := range cm.out {
			if !f.tolerated {
				return []finding{{key: "roundtrip/comment/empty-block", msg: "document with an empty block comment /**/ followed later by \"*/\": " + f.key + ": " + f.msg}}
			}
		}
	}
	return cm.out
}
