package c11

import (
	"fmt"
	"strconv"
	"strings"
	"unicode/utf8"

	"pgregory.net/rapid"
)

// An independent pretty-printer for MProg with randomised layout. It emits
// only what idl/internal/lex.rl and thrift.y accept, and records for every
// node the true 1-based position of its first token plus the source facts
// the oracle needs to classify the known defects.

const (
	clsNone = iota
	clsWord // identifier, keyword, number
	clsSym
	clsLit
)

type kwRec struct {
	tok   *Tok
	off   int
	line  int
	doc   *MDoc
	docNL int
}

type printer struct {
	t     *rapid.T
	avoid map[string]bool

	b         []byte
	line      int
	lineStart int
	prev      int
	lastKw    *kwRec
	pending   *MDoc

	feat        map[string]bool
	excl        map[string]int
	emptyBlocks []int    // offsets of /**/ comments
	spans       [][2]int // [start,end) of every token, for the mutation engine

	style    int // 0 plain, 1 mixed, 2 newline-heavy, 3 comment-heavy
	sepStyle int // 0 random per site, 1 ',', 2 ';', 3 none
	quote    int // 0 random per literal, 1 double, 2 single
	escPct   int
	emptyPct int // chance of an empty gap where one is allowed
	// orphanPct: percent chance, per token, of an orphaned docstring in the gap before it
	orphanPct int
}

func newPrinter(t *rapid.T, avoid map[string]bool) *printer {
	p := &printer{t: t, avoid: avoid, line: 1, feat: map[string]bool{}, excl: map[string]int{}}
	p.style = weighted(t, "style", 30, 30, 20, 20)
	p.sepStyle = weighted(t, "sep_style", 55, 15, 15, 15)
	p.quote = weighted(t, "quote_style", 60, 20, 20)
	p.escPct = rapid.SampledFrom([]int{0, 10, 40, 90}).Draw(t, "esc_pct")
	p.emptyPct = rapid.SampledFrom([]int{0, 20, 70}).Draw(t, "empty_pct")
	p.orphanPct = rapid.SampledFrom([]int{0, 0, 0, 3}).Draw(t, "orphan_pct")
	return p
}

func (p *printer) write(s string) {
	for i := 0; i < len(s); i++ {
		if s[i] == '\n' {
			p.line++
			p.lineStart = len(p.b) + i + 1
		}
	}
	p.b = append(p.b, s...)
}

// ------------------------------------------------------------------ gaps

var lineBodies = []string{"", " c", " TODO: x", " struct Foo {", " \"", " '", " /* x", " */ y", " é中", "#", "//", "\t", " const i32 x = 1", " \\"}
var blockBodies = []string{" c ", "c", " x y ", " struct Foo { ", "\"", "'", " // ", " # ", "/", " /* ", "é", " * ", " a * b ", "-", " 1: i32 x ", " \\ "}
var blockBodiesML = []string{" a\n b ", "\n", " x\n * y\n ", "\n\n c \n", " \r\n ", " //\n", "\n#\n"}
var indents = []string{"", " ", "  ", "    ", "        ", "\t", "\t\t", " \t"}

// weights per style for the piece kinds below
var pieceWeights = [4][]int{
	//  sp  sps tab nl  nli crlf cr nlnl  #   //  /**/ ml  empty-block
	{70, 4, 4, 10, 10, 0, 0, 2, 0, 0, 0, 0, 0},
	{30, 5, 8, 10, 10, 4, 3, 4, 7, 7, 7, 3, 2},
	{6, 2, 2, 40, 28, 5, 1, 5, 4, 3, 2, 2, 0},
	{15, 2, 3, 8, 8, 2, 1, 3, 18, 16, 14, 8, 2},
}

func (p *printer) piece() string {
	k := weighted(p.t, "gap_piece", pieceWeights[p.style]...)
	switch k {
	case 0:
		return " "
	case 1:
		return strings.Repeat(" ", rapid.IntRange(2, 5).Draw(p.t, "gap_spaces"))
	case 2:
		p.feat["layout:tab"] = true
		return "\t"
	case 3:
		return "\n"
	case 4:
		return "\n" + rapid.SampledFrom(indents).Draw(p.t, "gap_indent")
	case 5:
		p.feat["layout:cr"] = true
		return "\r\n"
	case 6:
		p.feat["layout:cr"] = true
		return "\r"
	case 7:
		return "\n\n"
	case 8:
		p.feat["comment:hash"] = true
		return "#" + rapid.SampledFrom(lineBodies).Draw(p.t, "gap_lc") + "\n"
	case 9:
		p.feat["comment:slashes"] = true
		return "//" + rapid.SampledFrom(lineBodies).Draw(p.t, "gap_lc") + "\n"
	case 10:
		p.feat["comment:block"] = true
		return "/*" + rapid.SampledFrom(blockBodies).Draw(p.t, "gap_bc") + "*/"
	case 11:
		p.feat["comment:block-multiline"] = true
		return "/*" + rapid.SampledFrom(blockBodiesML).Draw(p.t, "gap_bcml") + "*/"
	default:
		if p.avoid["N1"] {
			p.excl["N1"]++
			p.feat["comment:block"] = true
			return "/* */"
		}
		p.feat["comment:empty-block"] = true
		return "/**/"
	}
}

// gapText draws the text between two tokens; need says the two tokens would
// fuse without a separator.
func (p *printer) gapText(need bool) string {
	if !need && chance(p.t, "gap_empty", p.emptyPct) {
		p.feat["layout:empty-gap"] = true
		return ""
	}
	n := 1
	if p.style != 0 {
		n = weighted(p.t, "gap_n", 70, 22, 8) + 1
	}
	var sb strings.Builder
	for i := 0; i < n; i++ {
		sb.WriteString(p.piece())
	}
	return sb.String()
}

func isBlank(c byte) bool { return c == ' ' || c == '\t' || c == '\r' || c == '\n' }

// emitGap writes gap text; the first gap after a keyword token decides whether
// the keyword swallows newlines.
func (p *printer) emitGap(g string) {
	if r := p.lastKw; r != nil {
		p.lastKw = nil
		run := 0
		for run < len(g) && isBlank(g[run]) {
			run++
		}
		nl := strings.Count(g[:run], "\n")
		if nl > 0 && p.avoid["F13"] {
			p.excl["F13"]++
			g = strings.ReplaceAll(g[:run], "\n", " ") + g[run:]
			nl = 0
		}
		if nl > 0 {
			p.feat["layout:keyword-newline"] = true
			last := strings.LastIndex(g[:run], "\n")
			ls := len(p.b) + last + 1
			r.tok.KwNL = &Pos{L: r.line + nl, C: r.off - ls + 1}
			r.tok.NL = nl
			if r.doc != nil && r.doc.Attached && r.docNL+nl > 1 {
				r.doc.KwLost = true
			}
		}
	}
	for i := 0; i+4 <= len(g); i++ {
		if g[i:i+4] == "/**/" {
			p.emptyBlocks = append(p.emptyBlocks, len(p.b)+i)
		}
	}
	if strings.ContainsAny(g, "#") || strings.Contains(g, "//") || strings.Contains(g, "/*") {
		p.feat["layout:comment"] = true
	}
	p.write(g)
}

// ------------------------------------------------------------------ docstrings

var docTexts = []string{"foo", "Foo does stuff.", "bar baz", "x", "returns 1 * 2", "see http://x/y", "a, b; c",
	"it's \"quoted\"", "# not a comment", "é中", "item: {a}", "TODO(x)", "1", "@param x the x", "struct Foo {}", "a\tb"}

var docGaps = []string{"", " ", "\n", "\n", "\n  ", "\n\t", "\r\n", " // c\n", " # c\n", " /* c */ ", "\n\n", "\n  \n  ", "\n// c\n", " /* a\n b */\n", "\n/* c */"}

// noBodyDoc draws a docstring that has no body at all: nothing, blanks, blank lines, lines
// holding only the gutter " *", in any mixture. By the documented rule (the text between the
// markers without gutters and indentation) its content is the empty string. The four-byte
// text "/**/" cannot come out of this (that is the empty block COMMENT of known finding N1):
// everything here is "/**" + something + "*/".
func (p *printer) noBodyDoc() (text, shape string) {
	t := p.t
	ind := rapid.SampledFrom(indents).Draw(t, "doc_ind")
	eol := "\n"
	if chance(t, "doc_crlf", 8) {
		eol = "\r\n"
	}
	closing := func() string {
		switch weighted(t, "doc_close", 40, 40, 20) {
		case 0:
			return "*/"
		case 1:
			return " */"
		default:
			return ind + " */"
		}
	}
	switch weighted(t, "doc_nobody", 20, 30, 20, 15, 15) {
	case 0:
		// /***/  /** */  /**\t*/
		return "/**" + rapid.SampledFrom([]string{"", " ", "  ", "\t", " \t ", "   "}).Draw(t, "doc_pad") + "*/", "no-body/single-line"
	case 1:
		// /**\n*/  /**\n */  /**\n\n*/  /** \n\n\n */
		return "/**" + rapid.SampledFrom([]string{"", "", " ", "\t"}).Draw(t, "doc_pad") +
			strings.Repeat(eol, weighted(t, "doc_nl", 50, 30, 20)+1) + closing(), "no-body/multi-line-empty"
	case 2:
		// /**\n *\n */  /**\n * \n * \n */  /**\n*\n*/
		var sb strings.Builder
		sb.WriteString("/**" + eol)
		g := rapid.SampledFrom([]string{" *", " *", "*", ind + " *"}).Draw(t, "doc_gutter")
		for i, n := 0, weighted(t, "doc_lines", 45, 35, 20)+1; i < n; i++ {
			sb.WriteString(g + rapid.SampledFrom([]string{"", "", " ", "  ", "\t"}).Draw(t, "doc_gsp") + eol)
		}
		sb.WriteString(closing())
		return sb.String(), "no-body/gutter-only"
	case 3:
		// /**\n   \n */
		var sb strings.Builder
		sb.WriteString("/**" + eol)
		for i, n := 0, weighted(t, "doc_lines", 45, 35, 20)+1; i < n; i++ {
			sb.WriteString(rapid.SampledFrom([]string{" ", "   ", "\t", " \t", "      "}).Draw(t, "doc_ws") + eol)
		}
		sb.WriteString(closing())
		return sb.String(), "no-body/whitespace-only"
	default:
		var sb strings.Builder
		sb.WriteString("/**" + rapid.SampledFrom([]string{"", "", " "}).Draw(t, "doc_pad") + eol)
		// one gutter per docstring (the documented form: every line starts with the same " *")
		g := rapid.SampledFrom([]string{" *", " *", "*", ind + " *"}).Draw(t, "doc_gutter")
		for i, n := 0, weighted(t, "doc_lines", 20, 30, 30, 20)+1; i < n; i++ {
			sb.WriteString(rapid.SampledFrom([]string{"", "", g, g + " ", g, "  ", "\t", ind}).Draw(t, "doc_mixed") + eol)
		}
		sb.WriteString(closing())
		return sb.String(), "no-body/mixed"
	}
}

func (p *printer) renderDoc(d *MDoc) string {
	t := p.t
	switch weighted(t, "doc_shape", 40, 40, 20, 14) {
	case 3:
		var text string
		text, d.Shape = p.noBodyDoc()
		d.Want = ""
		return text
	case 0:
		d.Shape = "single"
		text := ""
		if !chance(t, "doc_empty", 10) {
			text = rapid.SampledFrom(docTexts).Draw(t, "doc_text")
		}
		d.Want = text
		pads := []string{"", " ", "  ", "\t"}
		return "/**" + rapid.SampledFrom(pads).Draw(t, "doc_pad1") + text + rapid.SampledFrom(pads).Draw(t, "doc_pad2") + "*/"
	case 1:
		d.Shape = "starred"
		n := weighted(t, "doc_lines", 30, 30, 25, 15) + 1
		ind := rapid.SampledFrom(indents).Draw(t, "doc_ind")
		sp := rapid.SampledFrom([]string{" ", " ", ""}).Draw(t, "doc_sp")
		var want []string
		var sb strings.Builder
		sb.WriteString("/**\n")
		for i := 0; i < rapid.IntRange(0, 1).Draw(t, "doc_lead"); i++ {
			sb.WriteString(ind + " *\n")
		}
		for i := 0; i < n; i++ {
			if i > 0 && i < n-1 && chance(t, "doc_blank", 25) {
				want = append(want, "")
				if rapid.Bool().Draw(t, "doc_blank_bare") {
					sb.WriteString("\n")
				} else {
					sb.WriteString(ind + " *\n")
				}
				continue
			}
			extra := ""
			if i > 0 {
				extra = rapid.SampledFrom([]string{"", "", "  ", "    ", "\t"}).Draw(t, "doc_extra")
			}
			text := rapid.SampledFrom(docTexts).Draw(t, "doc_text")
			want = append(want, extra+text)
			sb.WriteString(ind + " *" + sp + extra + text + "\n")
		}
		for i := 0; i < rapid.IntRange(0, 1).Draw(t, "doc_trail"); i++ {
			sb.WriteString(ind + " *\n")
		}
		sb.WriteString(ind + " */")
		d.Want = strings.Join(want, "\n")
		return sb.String()
	default:
		d.Shape = "bare"
		n := weighted(t, "doc_lines", 40, 35, 25) + 1
		ind := rapid.SampledFrom(indents).Draw(t, "doc_ind")
		var want []string
		var sb strings.Builder
		sb.WriteString("/**\n")
		for i := 0; i < n; i++ {
			if i > 0 && i < n-1 && chance(t, "doc_blank", 25) {
				want = append(want, "")
				sb.WriteString("\n")
				continue
			}
			extra := ""
			if i > 0 {
				extra = rapid.SampledFrom([]string{"", "", "  ", "    "}).Draw(t, "doc_extra")
			}
			text := rapid.SampledFrom(docTexts).Draw(t, "doc_text")
			want = append(want, extra+text)
			sb.WriteString(ind + extra + text + "\n")
		}
		if rapid.Bool().Draw(t, "doc_close_ind") {
			sb.WriteString(ind)
		}
		sb.WriteString("*/")
		d.Want = strings.Join(want, "\n")
		return sb.String()
	}
}

// doc schedules a docstring in front of the next token.
func (p *printer) doc(d *MDoc) {
	if d.Present {
		p.pending = d
	}
}

// ------------------------------------------------------------------ tokens

func (p *printer) tok(text string, cls int, kw bool) *Tok {
	need := p.prev == clsWord && cls == clsWord
	var doc *MDoc
	docNL := 0
	if p.pending != nil {
		doc, p.pending = p.pending, nil
		p.emitGap(p.gapText(need))
		if chance(p.t, "doc_orphan_before", 6) {
			// an orphaned docstring directly in front of the node's own one: the later one counts
			p.feat["docstring:orphan-before-docstring"] = true
			p.emitGap(p.renderDoc(&MDoc{}) + rapid.SampledFrom([]string{"", " ", "\n", "\n\n", " /* c */ ", "\n  "}).Draw(p.t, "doc_orphan_gap"))
		}
		p.write(p.renderDoc(doc))
		p.feat["layout:docstring"] = true
		p.feat["docstring:"+doc.Shape] = true
		g := rapid.SampledFrom(docGaps).Draw(p.t, "doc_gap")
		docNL = strings.Count(g, "\n")
		doc.GapNL = docNL
		doc.Attached = docNL <= 1
		if !doc.Attached {
			p.feat["docstring:detached"] = true
		}
		p.emitGap(g)
	} else if p.orphanPct > 0 && chance(p.t, "doc_orphan", p.orphanPct) {
		// an orphaned docstring between two tokens, two or more newlines away from whatever
		// follows: it documents nothing (a node takes the docstring that ends at most one
		// line above its first token)
		p.feat["docstring:orphan"] = true
		p.emitGap(p.gapText(need) + p.renderDoc(&MDoc{}) + rapid.SampledFrom([]string{"\n\n", "\n\n", "\n \n\t", "\r\n\r\n", "\n// c\n", "\n\n\n  "}).Draw(p.t, "doc_orphan_gap"))
	} else if p.prev != clsNone || chance(p.t, "gap_first", 50) {
		p.emitGap(p.gapText(need))
	}
	p.lastKw = nil
	tk := &Tok{P: Pos{L: p.line, C: len(p.b) - p.lineStart + 1}}
	off := len(p.b)
	p.write(text)
	p.spans = append(p.spans, [2]int{off, len(p.b)})
	if kw {
		p.lastKw = &kwRec{tok: tk, off: off, line: tk.P.L, doc: doc, docNL: docNL}
	}
	p.prev = cls
	return tk
}

func (p *printer) kw(s string) *Tok  { return p.tok(s, clsWord, true) }
func (p *printer) id(s string) *Tok  { return p.tok(s, clsWord, false) }
func (p *printer) sym(s string) *Tok { return p.tok(s, clsSym, false) }

// sep emits an optional separator.
func (p *printer) sep() {
	k := p.sepStyle
	if k == 0 {
		k = weighted(p.t, "sep", 35, 25, 40) + 1
	}
	switch k {
	case 1:
		p.feat["sep:comma"] = true
		p.sym(",")
	case 2:
		p.feat["sep:semicolon"] = true
		p.sym(";")
	default:
		p.feat["sep:none"] = true
	}
}

// ------------------------------------------------------------------ literals and numbers

func hex2(b byte, upper bool) string {
	if upper {
		return fmt.Sprintf("%02X", b)
	}
	return fmt.Sprintf("%02x", b)
}

func (p *printer) numericEscape(r rune, raw []byte) string {
	t := p.t
	upper := rapid.Bool().Draw(t, "esc_upper")
	if r < 0x80 {
		switch weighted(t, "esc_num_ascii", 40, 30, 20, 10) {
		case 0:
			p.feat["escape:hex"] = true
			return `\x` + hex2(byte(r), upper)
		case 1:
			p.feat["escape:octal"] = true
			return fmt.Sprintf(`\%03o`, r)
		case 2:
			p.feat["escape:u"] = true
			return fmt.Sprintf(`\u%04x`, r)
		default:
			p.feat["escape:U"] = true
			return fmt.Sprintf(`\U%08x`, r)
		}
	}
	k := weighted(t, "esc_num_multi", 40, 20, 40)
	if r > 0xffff && k == 0 {
		k = 1
	}
	switch k {
	case 0:
		p.feat["escape:u"] = true
		if upper {
			return fmt.Sprintf(`\u%04X`, r)
		}
		return fmt.Sprintf(`\u%04x`, r)
	case 1:
		p.feat["escape:U"] = true
		return fmt.Sprintf(`\U%08x`, r)
	default:
		p.feat["escape:hex"] = true
		var sb strings.Builder
		for _, b := range raw {
			sb.WriteString(`\x` + hex2(b, upper))
		}
		return sb.String()
	}
}

var namedEscapes = map[rune]string{'\n': `\n`, '\t': `\t`, '\r': `\r`, 7: `\a`, 8: `\b`, 12: `\f`, 11: `\v`, '\\': `\\`}

// renderLit spells a literal and records the defect-relevant facts in l.
func (p *printer) renderLit(l *MLit) string {
	t := p.t
	q := byte('"')
	switch p.quote {
	case 0:
		if rapid.Bool().Draw(t, "lit_single") {
			q = '\''
		}
	case 2:
		q = '\''
	}
	other := byte('\'')
	if q == '\'' {
		other = '"'
		p.feat["quote:single"] = true
	} else {
		p.feat["quote:double"] = true
	}
	var sb strings.Builder
	sb.WriteByte(q)
	prevEscBackslash := false
	v := l.V
	for len(v) > 0 {
		r, size := utf8.DecodeRune(v)
		raw := v[:size]
		v = v[size:]
		if r == utf8.RuneError && size == 1 {
			// a byte that is not UTF-8: only numeric byte escapes can spell it
			if rapid.Bool().Draw(t, "esc_byte_octal") {
				p.feat["escape:octal"] = true
				sb.WriteString(fmt.Sprintf(`\%03o`, raw[0]))
			} else {
				p.feat["escape:hex"] = true
				sb.WriteString(`\x` + hex2(raw[0], rapid.Bool().Draw(t, "esc_upper")))
			}
			p.feat["layout:escape"] = true
			prevEscBackslash = false
			continue
		}
		must := r == '\n' || r == '\\' || r == rune(q)
		isQuote := r == '\'' || r == '"'
		if !must && !chance(t, "lit_escape", p.escPct) {
			if prevEscBackslash && r == rune(other) {
				if p.avoid["F12"] {
					p.excl["F12"]++
					sb.WriteString(`\` + string(other))
					p.feat["escape:quote"] = true
					prevEscBackslash = false
					continue
				}
				l.F12 = true
				p.feat["escape:backslash-then-raw-quote"] = true
			}
			sb.Write(raw)
			prevEscBackslash = false
			continue
		}
		p.feat["layout:escape"] = true
		named, hasNamed := namedEscapes[r]
		if isQuote {
			named, hasNamed = `\`+string(r), true
		}
		useNamed := hasNamed && chance(t, "esc_named", 65)
		if !useNamed && isQuote && q == '\'' {
			if p.avoid["N2"] {
				p.excl["N2"]++
				useNamed = true
			} else {
				l.N2 = true
				p.feat["escape:numeric-quote-in-single"] = true
			}
		}
		if useNamed {
			if isQuote {
				p.feat["escape:quote"] = true
			} else if r == '\\' {
				p.feat["escape:backslash"] = true
			} else {
				p.feat["escape:named"] = true
			}
			sb.WriteString(named)
			prevEscBackslash = named == `\\`
			continue
		}
		sb.WriteString(p.numericEscape(r, raw))
		prevEscBackslash = false
	}
	sb.WriteByte(q)
	return sb.String()
}

func (p *printer) lit(l *MLit) *Tok {
	l.At = p.tok(p.renderLit(l), clsLit, false)
	return l.At
}

func (p *printer) renderInt(v int64) string {
	t := p.t
	dec := strconv.FormatInt(v, 10)
	if v < 0 {
		if chance(t, "int_pad", 15) {
			p.feat["int:zero-padded"] = true
			return "-00" + dec[1:]
		}
		p.feat["int:negative"] = true
		return dec
	}
	switch weighted(t, "int_form", 55, 12, 10, 10, 10, 3) {
	case 1:
		p.feat["int:plus"] = true
		return "+" + dec
	case 2:
		p.feat["int:zero-padded"] = true
		return "0" + dec
	case 3:
		p.feat["int:hex"] = true
		return "0x" + strconv.FormatInt(v, 16)
	case 4:
		p.feat["int:hex"] = true
		return "0x" + strings.ToUpper(strconv.FormatInt(v, 16))
	case 5:
		if v == 0 {
			p.feat["int:negative"] = true
			return "-0"
		}
	}
	p.feat["int:decimal"] = true
	return dec
}

func (p *printer) renderDouble() (string, float64) {
	t := p.t
	sign := rapid.SampledFrom([]string{"", "", "-", "+"}).Draw(t, "dbl_sign")
	ip := rapid.SampledFrom([]string{"0", "1", "3", "10", "007", "42", "123456", "9"}).Draw(t, "dbl_int")
	frac := rapid.SampledFrom([]string{"", ".", ".0", ".5", ".25", ".000001", ".14159", ".999"}).Draw(t, "dbl_frac")
	exp := rapid.SampledFrom([]string{"", "", "e0", "e5", "E5", "e+10", "E-3", "e-20", "e300", "E+007", "e-300"}).Draw(t, "dbl_exp")
	if frac == "" && exp == "" {
		frac = ".5"
	}
	if frac != "" {
		p.feat["double:fraction"] = true
	}
	if exp != "" {
		p.feat["double:exponent"] = true
	}
	text := sign + ip + frac + exp
	d, err := strconv.ParseFloat(text, 64)
	if err != nil {
		text, d = "1.5", 1.5
	}
	return text, d
}

// ------------------------------------------------------------------ grammar productions

func (p *printer) anns(as []MAnn) {
	if len(as) == 0 {
		if chance(p.t, "ann_empty_parens", 8) {
			p.feat["ann:empty-parens"] = true
			p.sym("(")
			p.sym(")")
		}
		return
	}
	p.sym("(")
	for i := range as {
		a := &as[i]
		a.At = p.id(a.Name)
		if a.HasValue {
			p.sym("=")
			p.lit(&a.Value)
		}
		p.sep()
	}
	p.sym(")")
}

func (p *printer) typ(ty *MType) {
	switch ty.K {
	case "base":
		ty.At = p.kw(ty.Base)
		p.anns(ty.Anns)
	case "ref":
		ty.At = p.id(ty.Name)
	case "list", "set":
		ty.At = p.kw(ty.K)
		p.sym("<")
		p.typ(ty.Val)
		p.sym(">")
		p.anns(ty.Anns)
	case "map":
		ty.At = p.kw("map")
		p.sym("<")
		p.typ(ty.Key)
		p.sym(",")
		p.typ(ty.Val)
		p.sym(">")
		p.anns(ty.Anns)
	}
}

// cval prints a constant value; after is the '=' / ':' token if the value
// follows it directly.
func (p *printer) cval(c *MConst, after *Tok) {
	if after != nil {
		a := after.P
		c.After = &a
	}
	switch c.K {
	case "int":
		c.At = p.id(p.renderInt(c.I))
	case "double":
		c.DText, c.D = p.renderDouble()
		c.At = p.id(c.DText)
	case "bool":
		if c.B {
			c.At = p.kw("true")
		} else {
			c.At = p.kw("false")
		}
	case "string":
		c.At = p.lit(&c.S)
	case "ref":
		c.At = p.id(c.Name)
	case "list":
		c.At = p.sym("[")
		for i := range c.Items {
			p.cval(&c.Items[i], nil)
			p.sep()
		}
		p.sym("]")
	case "map":
		c.At = p.sym("{")
		for i := range c.Pairs {
			pr := &c.Pairs[i]
			p.cval(&pr.Key, nil)
			pr.At = pr.Key.At
			colon := p.sym(":")
			p.cval(&pr.Val, colon)
			p.sep()
		}
		p.sym("}")
	}
}

func (p *printer) field(f *MField) {
	p.doc(&f.Doc)
	var first *Tok
	set := func(t *Tok) {
		if first == nil {
			first = t
		}
	}
	if !f.IDUnset {
		set(p.id(p.renderInt(int64(f.ID))))
		p.sym(":")
	}
	switch f.Req {
	case 1:
		set(p.kw("required"))
	case 2:
		set(p.kw("optional"))
	}
	p.typ(&f.Type)
	set(f.Type.At)
	f.At = first
	p.id(f.Name)
	if f.Default != nil {
		eq := p.sym("=")
		p.cval(f.Default, eq)
	}
	p.anns(f.Anns)
}

func (p *printer) fields(fs []MField) {
	for i := range fs {
		p.field(&fs[i])
		p.sep()
	}
}

func (p *printer) fn(f *MFunc) {
	p.doc(&f.Doc)
	var first *Tok
	if f.OneWay {
		first = p.kw("oneway")
	}
	if f.Ret == nil {
		t := p.kw("void")
		if first == nil {
			first = t
		}
	} else {
		p.typ(f.Ret)
		if first == nil {
			first = f.Ret.At
		}
	}
	f.At = first
	p.id(f.Name)
	p.sym("(")
	p.fields(f.Params)
	p.sym(")")
	if f.HasThrows {
		p.kw("throws")
		p.sym("(")
		p.fields(f.Throws)
		p.sym(")")
	}
	p.anns(f.Anns)
}

func (p *printer) def(d *MDef) {
	p.doc(&d.Doc)
	switch d.K {
	case "const":
		d.At = p.kw("const")
		p.typ(d.Type)
		p.id(d.Name)
		eq := p.sym("=")
		p.cval(d.Value, eq)
	case "typedef":
		d.At = p.kw("typedef")
		p.typ(d.Type)
		p.id(d.Name)
		p.anns(d.Anns)
	case "enum":
		d.At = p.kw("enum")
		p.id(d.Name)
		p.sym("{")
		for i := range d.Items {
			it := &d.Items[i]
			p.doc(&it.Doc)
			it.At = p.id(it.Name)
			if it.Value != nil {
				p.sym("=")
				p.id(p.renderInt(*it.Value))
			}
			p.anns(it.Anns)
			p.sep()
		}
		p.sym("}")
		p.anns(d.Anns)
	case "struct", "union", "exception":
		d.At = p.kw(d.K)
		p.id(d.Name)
		p.sym("{")
		p.fields(d.Fields)
		p.sym("}")
		p.anns(d.Anns)
	case "service":
		d.At = p.kw("service")
		p.id(d.Name)
		if d.Parent != nil {
			d.Parent.Extends = p.kw("extends")
			d.Parent.At = p.id(d.Parent.Name)
		}
		p.sym("{")
		for i := range d.Funcs {
			p.fn(&d.Funcs[i])
			p.sep()
		}
		p.sym("}")
		p.anns(d.Anns)
	}
}

func (p *printer) header(h *MHeader) {
	switch h.K {
	case "include":
		h.At = p.kw("include")
		if h.Name != "" {
			p.id(h.Name)
		}
		p.lit(&h.Path)
	case "cpp_include":
		h.At = p.kw("cpp_include")
		p.lit(&h.Path)
	case "namespace":
		h.At = p.kw("namespace")
		if h.Scope == "*" {
			p.sym("*")
		} else {
			p.id(h.Scope)
		}
		p.id(h.Name)
	}
}

// program prints the whole document and returns its text.
func (p *printer) program(m *MProg) string {
	for i := range m.Headers {
		p.header(&m.Headers[i])
	}
	for i := range m.Defs {
		p.def(&m.Defs[i])
		p.sep()
	}
	if chance(p.t, "gap_last", 70) {
		p.emitGap(p.gapText(false))
	} else {
		p.emitGap("")
	}
	if chance(p.t, "doc_orphan_end", 6) {
		// an orphaned docstring at the very end of the document
		p.feat["docstring:orphan-at-end"] = true
		p.emitGap(p.renderDoc(&MDoc{}) + rapid.SampledFrom([]string{"", "\n", " ", "\n\n"}).Draw(p.t, "doc_orphan_gap"))
	}
	return string(p.b)
}
