package c11

import (
	"fmt"
	"testing"

	"verif/internal/ev"
)

// TestRepros runs a small fixed grid of hand-written minimal documents, one
// per defect class observed on the pinned tree, through the same oracles. It
// makes every known class visible in every run (as KNOWN-FINDING or
// VIOLATION) independently of what the random search happens to draw, and it
// goes quiet class by class as defects are repaired. A finding under a key
// the entry does not list is reported as such.

func tk(l, c int) *Tok { return &Tok{P: Pos{L: l, C: c}} }

func constString(text string, v string, lit MLit) RTCase {
	lit.V = []byte(v)
	lit.At = tk(1, 18)
	return RTCase{Text: text, Model: MProg{Defs: []MDef{{K: "const", Name: "a", At: tk(1, 1),
		Type:  &MType{K: "base", Base: "string", At: tk(1, 7)},
		Value: &MConst{K: "string", S: lit, At: tk(1, 18), After: &Pos{1, 16}}}}}}
}

type rtRepro struct {
	tag  string // defect label; skipped when listed in C11_AVOID
	c    RTCase
	keys []string // keys this document may raise on the pinned tree
}

func rtRepros() []rtRepro {
	k2s := "position/const-after-eq/ConstantString"
	return []rtRepro{
		{"F12", constString(`const string a = "a\\'b"`, `a\'b`, MLit{F12: true}), []string{"roundtrip/string-escape/backslash-quote", k2s}},
		{"F12", constString(`const string a = 'a\\"b'`, `a\"b`, MLit{F12: true}), []string{"roundtrip/string-escape/backslash-quote", k2s}},
		{"N2", constString(`const string a = '\x27'`, `'`, MLit{N2: true}), []string{"roundtrip/string-escape/numeric-quote-in-single/ConstantString", k2s}},
		{"N2", constString(`const string a = '\042'`, `"`, MLit{N2: true}), []string{"roundtrip/string-escape/numeric-quote-in-single/ConstantString", k2s}},
		{"N1", RTCase{Text: `/**/ struct A {} /* x */`, EmptyBlocks: []int{0},
			Model: MProg{Defs: []MDef{{K: "struct", Name: "A", At: tk(1, 6)}}}}, []string{"roundtrip/comment/empty-block"}},
		{"F13", RTCase{Text: "struct\nFoo{}",
			Model: MProg{Defs: []MDef{{K: "struct", Name: "Foo", At: &Tok{P: Pos{1, 1}, KwNL: &Pos{2, -6}, NL: 1}}}}}, []string{"position/keyword-newline/Struct"}},
		{"F13", RTCase{Text: "/** d */\nstruct\nFoo{}",
			Model: MProg{Defs: []MDef{{K: "struct", Name: "Foo", At: &Tok{P: Pos{2, 1}, KwNL: &Pos{3, -6}, NL: 1},
				Doc: MDoc{Present: true, Want: "d", Shape: "single", GapNL: 1, Attached: true, KwLost: true}}}}},
			[]string{"position/keyword-newline/Struct", "docstring/keyword-newline/Struct"}},
		{"K2", RTCase{Text: `const i32 x = 5`,
			Model: MProg{Defs: []MDef{{K: "const", Name: "x", At: tk(1, 1), Type: &MType{K: "base", Base: "i32", At: tk(1, 7)},
				Value: &MConst{K: "int", I: 5, At: tk(1, 15), After: &Pos{1, 13}}}}}}, []string{"position/const-after-eq/ConstantInteger"}},
		{"K2", RTCase{Text: `const list<i32> x = [5, 5]`,
			Model: MProg{Defs: []MDef{{K: "const", Name: "x", At: tk(1, 1),
				Type: &MType{K: "list", At: tk(1, 7), Val: &MType{K: "base", Base: "i32", At: tk(1, 12)}},
				Value: &MConst{K: "list", At: tk(1, 21), After: &Pos{1, 19}, Items: []MConst{
					{K: "int", I: 5, At: tk(1, 22)}, {K: "int", I: 5, At: tk(1, 25)}}}}}}},
			[]string{"position/const-after-eq/ConstantList", "position/const-shared-literal/ConstantInteger"}},
		{"K2", RTCase{Text: `service A extends B {}`,
			Model: MProg{Defs: []MDef{{K: "service", Name: "A", At: tk(1, 1),
				Parent: &MSvcRef{Name: "B", At: tk(1, 19), Extends: tk(1, 11)}}}}}, []string{"position/after-extends/ServiceReference"}},
	}
}

type totRepro struct {
	tag   string
	input string
	keys  []string
}

var totRepros = []totRepro{
	{"F13", "struct\n", []string{"errpos/keyword-newline"}},
	{"F13", "delete\n", []string{"errpos/keyword-newline"}},
	{"N3", "namespace //\na ", []string{"errpos/end-of-input"}},
	{"N3", "typedef foo\n", []string{"errpos/end-of-input"}},
	{"N3", "include /*\n", []string{"errpos/unterminated-comment"}},
	{"N1", "/**/\n*/ x", []string{"errpos/line-drift/empty-block-comment"}},
}

func checkKeys(fs []finding, allowed []string) []finding {
	ok := map[string]bool{}
	for _, k := range allowed {
		ok[k] = true
	}
	for i, f := range fs {
		if !ok[f.key] {
			fs[i] = finding{key: "repro-grid/unexpected/" + f.key, msg: "hand-written reproduction raised a key it does not list: " + f.msg}
		}
	}
	return fs
}

func TestRepros(t *testing.T) {
	avoid := avoidSet()
	n := 0
	for i, r := range rtRepros() {
		if avoid[r.tag] {
			ev.Class("excluded-by-construction:repro-" + r.tag)
			continue
		}
		c := r.c
		d := ev.Digest([]byte(c.Text))
		ev.Case(d, false, "unit:repro-grid", "repro:"+r.tag)
		ev.KeepSample("repro-grid", d, func() interface{} { return map[string]interface{}{"text": c.Text, "class": r.tag} })
		var fs []finding
		perr := ev.Guard(func() error { fs = checkKeys(checkRoundTrip(c), r.keys); return nil })
		reportAllSoft(t, "roundtrip", c, fs, perr, fmt.Sprintf("rt#%d", i))
		n++
	}
	for i, r := range totRepros {
		if avoid[r.tag] {
			ev.Class("excluded-by-construction:repro-" + r.tag)
			continue
		}
		c := TotCase{Input: []byte(r.input), Src: "repro-grid"}
		ev.Case(ev.Digest(c.Input), false, "unit:repro-grid", "repro:"+r.tag)
		var fs []finding
		var st totStat
		perr := ev.Guard(func() error { fs = checkKeys(checkTotality(c, &st), r.keys); return nil })
		reportAllSoft(t, "totality", c, fs, perr, fmt.Sprintf("tot#%d", i))
		n++
	}
	ev.Exhaustive("repro-grid (one hand-written minimal document per defect class observed on the pinned tree)", true)
	ev.Note("repro-grid", fmt.Sprintf("%d documents", n))
}
