package c11

import (
	"bytes"
	"errors"
	"fmt"
	"regexp"
	"strings"

	"go.uber.org/thriftrw/ast"
	"go.uber.org/thriftrw/idl"
	"pgregory.net/rapid"
	"verif/internal/ev"
)

// TotCase is an arbitrary byte string handed to the parser.
type TotCase struct {
	Input    []byte   `json:"input"`
	Src      string   `json:"src"`
	Tolerate []string `json:"tolerate,omitempty"` // N3
}

type totStat struct {
	accepted bool
	nerr     int
}

// ------------------------------------------------------------------ generator

var soupTokens = func() []string {
	out := append([]string{}, keywords...)
	out = append(out, "{", "}", "(", ")", "[", "]", "<", ">", ",", ";", ":", "=", "*",
		"foo", "Bar", "a.b", "x", "delete", "self", "END", "as",
		"0", "1", "-1", "+7", "0x1f", "0x", "1.5", "1e5", "-1.e-3", "1e", "99999999999999999999", "1e999", "0x8000000000000000", "-", "+", ".",
		`"s"`, `'s'`, `"a\\'b"`, `'\x22'`, `"`, `'`, `"\q"`, "\"a\\\nb\"", `"\u12"`, `"\400"`, "'it\\'s'",
		"/* c */", "/**/", "/** d */", "/*", "/**", "*/", "// c\n", "# c\n", "//", "#", "/",
		"\n", "\n", " ", "\t", "\r", "\r\n", "\x00", "\xff", "\xef\xbb\xbf", "é", "@", "$", "\\", "|")
	return out
}()

// keywords and reserved words both swallow the blank run that follows them
var swallowers = append(append([]string{}, keywords...), reserved...)

var kwNewline = regexp.MustCompile(`(` + strings.Join(swallowers, "|") + `)[ \t\r\n]*\n[ \t\r\n]*`)

// sanitizeF13 turns newlines in the blank run after anything that looks like a
// keyword into spaces.
func sanitizeF13(in []byte) ([]byte, int) {
	n := 0
	out := kwNewline.ReplaceAllFunc(in, func(m []byte) []byte {
		n++
		return bytes.ReplaceAll(m, []byte("\n"), []byte(" "))
	})
	return out, n
}

func genTotality(t *rapid.T) TotCase {
	avoid := avoidSet()
	var c TotCase
	switch weighted(t, "tot_mode", 40, 30, 15, 15) {
	case 2:
		c.Src = "random-bytes"
		c.Input = rapid.SliceOfN(rapid.Byte(), 0, 64).Draw(t, "raw")
	case 3:
		c.Src = "random-ascii"
		alphabet := []byte("abist_0159.+-eExX \t\r\n\"'\\/*#{}()[]<>,;:=\x00\x80")
		n := rapid.IntRange(0, 80).Draw(t, "ascii_n")
		for i := 0; i < n; i++ {
			c.Input = append(c.Input, rapid.SampledFrom(alphabet).Draw(t, "ascii_c"))
		}
	case 1:
		c.Src = "token-soup"
		n := rapid.IntRange(0, 40).Draw(t, "soup_n")
		var sb strings.Builder
		for i := 0; i < n; i++ {
			sb.WriteString(rapid.SampledFrom(soupTokens).Draw(t, "soup_tok"))
			sb.WriteString(rapid.SampledFrom([]string{" ", " ", "", "\n", "\n  ", "\t"}).Draw(t, "soup_gap"))
		}
		c.Input = []byte(sb.String())
	default:
		c.Src = "mutated-document"
		m := genProgram(t)
		p := newPrinter(t, avoid)
		text := []byte(p.program(&m))
		spans := p.spans
		nm := rapid.IntRange(1, 3).Draw(t, "n_mut")
		for i := 0; i < nm && len(spans) > 0; i++ {
			// token-level edits are applied right to left on the original spans, so pick one span per round
			k := rapid.IntRange(0, len(spans)-1).Draw(t, "mut_at")
			sp := spans[k]
			if sp[1] > len(text) || sp[0] > sp[1] {
				break
			}
			var repl []byte
			switch weighted(t, "mut_kind", 25, 20, 25, 10, 10, 10) {
			case 0: // delete the token
			case 1: // duplicate it
				repl = append(append(append([]byte{}, text[sp[0]:sp[1]]...), ' '), text[sp[0]:sp[1]]...)
			case 2: // replace by another token
				repl = []byte(rapid.SampledFrom(soupTokens).Draw(t, "mut_tok"))
			case 3: // swap with the next token
				if k+1 < len(spans) && spans[k+1][1] <= len(text) {
					nx := spans[k+1]
					repl = append(append(append([]byte{}, text[nx[0]:nx[1]]...), text[sp[1]:nx[0]]...), text[sp[0]:sp[1]]...)
					sp = [2]int{sp[0], nx[1]}
				} else {
					repl = text[sp[0]:sp[1]]
				}
			case 4: // flip one byte inside
				repl = append([]byte{}, text[sp[0]:sp[1]]...)
				if len(repl) > 0 {
					repl[rapid.IntRange(0, len(repl)-1).Draw(t, "mut_off")] = rapid.Byte().Draw(t, "mut_byte")
				}
			default: // truncate the document here
				text = text[:sp[0]]
				spans = spans[:k]
				continue
			}
			text = append(append(append([]byte{}, text[:sp[0]]...), repl...), text[sp[1]:]...)
			// spans to the right are stale now: keep the left part only
			spans = spans[:k]
		}
		c.Input = text
	}
	if c.Input == nil {
		c.Input = []byte{}
	}
	if avoid["F13"] {
		var n int
		c.Input, n = sanitizeF13(c.Input)
		if n > 0 {
			ev.ClassN("excluded-by-construction:F13", int64(n))
		}
	}
	if avoid["N1"] {
		if n := bytes.Count(c.Input, []byte("/**/")); n > 0 {
			c.Input = bytes.ReplaceAll(c.Input, []byte("/**/"), []byte("/* */"))
			ev.ClassN("excluded-by-construction:N1", int64(n))
		}
	}
	if avoid["N3"] {
		c.Tolerate = append(c.Tolerate, "N3")
	}
	return c
}

// ------------------------------------------------------------------ oracle

func keywordAt(in []byte, off int) (string, bool) {
	best := ""
	for _, k := range swallowers {
		if len(k) > len(best) && off+len(k) <= len(in) && string(in[off:off+len(k)]) == k {
			best = k
		}
	}
	return best, best != ""
}

// classifyErrPos returns "" if p lies inside the document, else a key saying
// how it lies outside.
func classifyErrPos(in []byte, p Pos) string {
	starts := []int{0}
	for i, b := range in {
		if b == '\n' {
			starts = append(starts, i+1)
		}
	}
	nlines := len(starts)
	if p.L < 1 || p.L > nlines+1 {
		return "errpos/line-out-of-range"
	}
	ls, ll := len(in), 0
	if p.L <= nlines {
		ls = starts[p.L-1]
		end := len(in)
		if p.L < nlines {
			end = starts[p.L] - 1
		}
		ll = end - ls
	}
	if p.C >= 1 && p.C <= ll+1 {
		return ""
	}
	// the scanner's docstring pattern outruns the comment pattern on /**/ and
	// then swallows text up to the next "*/" without counting its newlines:
	// from there on the line number lags behind and any column may result
	for i := 0; i+4 <= len(in); i++ {
		if string(in[i:i+4]) != "/**/" {
			continue
		}
		if j := bytes.Index(in[i+4:], []byte("*/")); j >= 0 && bytes.Contains(in[i+4:i+4+j], []byte("\n")) {
			return "errpos/line-drift/empty-block-comment"
		}
	}
	if p.C > ll+1 {
		return "errpos/column-beyond-line"
	}
	// column <= 0: which token start does the lexer arithmetic (token offset -
	// start of current line + 1) point back to?
	ts := ls + p.C - 1
	if ts < 0 || ts >= len(in) {
		return "errpos/column-nonpositive/unexplained"
	}
	if kw, ok := keywordAt(in, ts); ok {
		run := ts + len(kw)
		nl := 0
		for run < len(in) && isBlank(in[run]) {
			if in[run] == '\n' {
				nl++
			}
			run++
		}
		lineOfTs := 1 + bytes.Count(in[:ts], []byte("\n"))
		if nl > 0 && lineOfTs+nl == p.L {
			return "errpos/keyword-newline"
		}
	}
	if ts == 0 && p.L == nlines {
		return "errpos/end-of-input"
	}
	if bytes.HasPrefix(in[ts:], []byte("/*")) {
		return "errpos/unterminated-comment"
	}
	return "errpos/column-nonpositive/other"
}

func checkTotality(c TotCase, st *totStat) []finding {
	var fs []finding
	seen := map[string]bool{}
	add := func(key, format string, args ...interface{}) {
		if !seen[key] {
			seen[key] = true
			fs = append(fs, finding{key: key, msg: fmt.Sprintf(format, args...)})
		}
	}
	tolN3 := false
	for _, t := range c.Tolerate {
		if t == "N3" {
			tolN3 = true
		}
	}
	prog, err := idl.Parse(c.Input)
	info := &idl.Info{}
	prog2, err2 := (&idl.Config{Info: info}).Parse(c.Input)
	if (prog == nil) != (prog2 == nil) || (err == nil) != (err2 == nil) {
		add("config/parse-differs", "idl.Parse and Config.Parse disagree on acceptance")
	}
	switch {
	case prog != nil && err != nil:
		add("totality/both", "Parse returned a program and an error: %v", err)
	case prog == nil && err == nil:
		add("totality/neither", "Parse returned neither a program nor an error")
	}
	if prog != nil {
		st.accepted = true
		ast.Walk(ast.VisitorFunc(func(ast.Walker, ast.Node) {}), prog)
	}
	if err != nil {
		var pe *idl.ParseError
		if !errors.As(err, &pe) || pe == nil {
			add("totality/error-type", "error is a %T, not *idl.ParseError", err)
			return fs
		}
		st.nerr = len(pe.Errors)
		if len(pe.Errors) == 0 {
			add("totality/empty-error-list", "ParseError without entries")
		}
		for _, e := range pe.Errors {
			if e.Err == nil {
				add("totality/nil-error-entry", "ParseError entry without an error")
			}
			k := classifyErrPos(c.Input, toPos(e.Pos))
			if k == "" {
				continue
			}
			if tolN3 && (k == "errpos/end-of-input" || k == "errpos/unterminated-comment") {
				if !seen["tolerated "+k] {
					seen["tolerated "+k] = true
					fs = append(fs, finding{key: k, tolerated: true})
				}
				continue
			}
			add(k, "error position %d:%d lies outside the %d-byte document (%v)", e.Pos.Line, e.Pos.Column, len(c.Input), e.Err)
		}
	}
	return fs
}
