package c11

import (
	"fmt"
	"reflect"

	"go.uber.org/thriftrw/ast"
	"go.uber.org/thriftrw/idl"
)

// visit is one traversal event: a node and its ancestor chain, nearest first.
type visit struct {
	n    ast.Node
	ancs []ast.Node
}

func kindOf(n ast.Node) string {
	if n == nil {
		return "nil"
	}
	t := reflect.TypeOf(n)
	if t.Kind() == reflect.Ptr {
		t = t.Elem()
	}
	return t.Name()
}

// children lists the child nodes of n in source order, by the public fields
// of each node type only.
func children(n ast.Node) []ast.Node {
	var out []ast.Node
	anns := func(as []*ast.Annotation) {
		for _, a := range as {
			if a != nil {
				out = append(out, a)
			}
		}
	}
	fields := func(fs []*ast.Field) {
		for _, f := range fs {
			if f != nil {
				out = append(out, f)
			}
		}
	}
	typ := func(t ast.Type) {
		if t != nil {
			out = append(out, t)
		}
	}
	switch x := n.(type) {
	case *ast.Program:
		for _, h := range x.Headers {
			out = append(out, h)
		}
		for _, d := range x.Definitions {
			out = append(out, d)
		}
	case *ast.Include, *ast.CppInclude, *ast.Namespace, *ast.Annotation:
	case *ast.Constant:
		typ(x.Type)
		if x.Value != nil {
			out = append(out, x.Value)
		}
	case *ast.Typedef:
		typ(x.Type)
		anns(x.Annotations)
	case *ast.Enum:
		for _, it := range x.Items {
			if it != nil {
				out = append(out, it)
			}
		}
		anns(x.Annotations)
	case *ast.EnumItem:
		anns(x.Annotations)
	case *ast.Struct:
		fields(x.Fields)
		anns(x.Annotations)
	case *ast.Service:
		for _, f := range x.Functions {
			if f != nil {
				out = append(out, f)
			}
		}
		anns(x.Annotations)
	case *ast.Function:
		typ(x.ReturnType)
		fields(x.Parameters)
		fields(x.Exceptions)
		anns(x.Annotations)
	case *ast.Field:
		typ(x.Type)
		if x.Default != nil {
			out = append(out, x.Default)
		}
		anns(x.Annotations)
	case ast.BaseType:
		anns(x.Annotations)
	case ast.ListType:
		typ(x.ValueType)
		anns(x.Annotations)
	case ast.SetType:
		typ(x.ValueType)
		anns(x.Annotations)
	case ast.MapType:
		typ(x.KeyType)
		typ(x.ValueType)
		anns(x.Annotations)
	case ast.TypeReference:
	case ast.ConstantBoolean, ast.ConstantInteger, ast.ConstantDouble, ast.ConstantString, ast.ConstantReference:
	case ast.ConstantList:
		for _, it := range x.Items {
			if it != nil {
				out = append(out, it)
			}
		}
	case ast.ConstantMap:
		for _, it := range x.Items {
			out = append(out, it)
		}
	case ast.ConstantMapItem:
		if x.Key != nil {
			out = append(out, x.Key)
		}
		if x.Value != nil {
			out = append(out, x.Value)
		}
	default:
		panic(fmt.Sprintf("unknown node type %T", n))
	}
	return out
}

func expectedWalk(root ast.Node) []visit {
	var out []visit
	var rec func(n ast.Node, ancs []ast.Node)
	rec = func(n ast.Node, ancs []ast.Node) {
		out = append(out, visit{n: n, ancs: ancs})
		sub := append([]ast.Node{n}, ancs...)
		for _, ch := range children(n) {
			rec(ch, sub)
		}
	}
	rec(root, nil)
	return out
}

// sameNode compares identity for pointer nodes and value for value nodes.
func sameNode(a, b ast.Node) bool {
	if a == nil || b == nil {
		return a == nil && b == nil
	}
	ta, tb := reflect.TypeOf(a), reflect.TypeOf(b)
	if ta != tb {
		return false
	}
	if ta.Kind() == reflect.Ptr {
		return reflect.ValueOf(a).Pointer() == reflect.ValueOf(b).Pointer()
	}
	return reflect.DeepEqual(a, b)
}

func sameChain(a, b []ast.Node) bool {
	if len(a) != len(b) {
		return false
	}
	for i := range a {
		if !sameNode(a[i], b[i]) {
			return false
		}
	}
	return true
}

// compareWalk checks the callback sequence of ast.Walk from root.
func compareWalk(root ast.Node) []finding {
	var got []visit
	var fs []finding
	seen := map[string]bool{}
	add := func(key, format string, args ...interface{}) {
		if !seen[key] {
			seen[key] = true
			fs = append(fs, finding{key: key, msg: fmt.Sprintf(format, args...)})
		}
	}
	ast.Walk(ast.VisitorFunc(func(w ast.Walker, n ast.Node) {
		v := visit{n: n, ancs: w.Ancestors()}
		par := w.Parent()
		switch {
		case len(v.ancs) == 0 && par != nil:
			add("walk/parent-vs-ancestors/"+kindOf(n), "Parent() is %s but Ancestors() is empty", kindOf(par))
		case len(v.ancs) > 0 && !sameNode(par, v.ancs[0]):
			add("walk/parent-vs-ancestors/"+kindOf(n), "Parent() is not Ancestors()[0]")
		}
		got = append(got, v)
	}), root)
	want := expectedWalk(root)

	// every node exactly once: multiset comparison first, so that a skipped or
	// repeated node is named by kind
	used := make([]bool, len(got))
	for _, w := range want {
		found := false
		for j, g := range got {
			if !used[j] && sameNode(w.n, g.n) && sameChain(w.ancs, g.ancs) {
				used[j], found = true, true
				break
			}
		}
		if !found {
			// visited with another chain?
			other := false
			for j, g := range got {
				if !used[j] && sameNode(w.n, g.n) {
					other = true
					used[j] = true
					add("walk/parent/"+kindOf(w.n), "%s visited with ancestors %v, true chain %v", kindOf(w.n), kinds(g.ancs), kinds(w.ancs))
					break
				}
			}
			if !other {
				add("walk/not-visited/"+kindOf(w.n), "%s (child of %v) is never visited", kindOf(w.n), kinds(w.ancs))
			}
		}
	}
	for j, g := range got {
		if !used[j] {
			add("walk/extra-visit/"+kindOf(g.n), "%s visited more often than it occurs (ancestors %v)", kindOf(g.n), kinds(g.ancs))
		}
	}
	if len(fs) == 0 {
		for i := range want {
			if !sameNode(want[i].n, got[i].n) || !sameChain(want[i].ancs, got[i].ancs) {
				add("walk/order", "callback %d is %s, source-order depth-first traversal has %s", i, kindOf(got[i].n), kindOf(want[i].n))
				break
			}
		}
	}
	return fs
}

func kinds(ns []ast.Node) []string {
	out := make([]string, len(ns))
	for i, n := range ns {
		out[i] = kindOf(n)
	}
	return out
}

func checkWalk(c WalkCase) []finding {
	prog, err := idl.Parse([]byte(c.Text))
	if err != nil || prog == nil {
		// whether the text parses is the round-trip unit's business
		return nil
	}
	fs := compareWalk(prog)
	// a walk started below the root sees the sub-tree only, with chains relative to it
	for _, d := range prog.Definitions {
		for _, f := range compareWalk(d) {
			f.key = "walk-subtree/" + f.key[len("walk/"):]
			fs = append(fs, f)
		}
	}
	return fs
}
