// C12: RPC envelopes: framing is detected, echoed, and round-trips exactly.
package c12

import (
	"bytes"
	"context"
	"encoding/json"
	"fmt"
	"testing"

	"go.uber.org/thriftrw/protocol/binary"
	"go.uber.org/thriftrw/protocol/envelope"
	"go.uber.org/thriftrw/protocol/stream"
	"go.uber.org/thriftrw/wire"
	"pgregory.net/rapid"
	"verif/internal/bridge"
	"verif/internal/chunkio"
	"verif/internal/ev"
	"verif/internal/mutate"
	"verif/internal/refcodec"
	wm "verif/internal/wiremodel"
)

func TestMain(m *testing.M) { ev.Main(m, "C12") }

// ---------------------------------------------------------------- generators

func genName(t *rapid.T) []byte {
	switch rapid.IntRange(0, 9).Draw(t, "name_mode") {
	case 0: // long, up to 2^16
		n := rapid.SampledFrom([]int{255, 256, 257, 4095, 65535, 65536}).Draw(t, "name_len")
		b := make([]byte, n)
		x := rapid.Byte().Draw(t, "name_fill")
		for i := range b {
			b[i] = x + byte(i*7)
		}
		return b
	case 1: // multiplexed
		return []byte(rapid.StringMatching(`[A-Za-z]{1,8}:[a-z_]{1,8}`).Draw(t, "name_mux"))
	case 2, 3: // arbitrary bytes incl. non-UTF-8 and NUL
		return rapid.SliceOfN(rapid.Byte(), 1, 24).Draw(t, "name_raw")
	default:
		return []byte(rapid.StringMatching(`[a-zA-Z_][a-zA-Z0-9_]{0,15}`).Draw(t, "name"))
	}
}

func genSeq(t *rapid.T) int32 {
	if rapid.Bool().Draw(t, "seq_edge") {
		return rapid.SampledFrom([]int32{0, 1, -1, 2147483647, -2147483648, 255, 256, 65536, -65536}).Draw(t, "seq_e")
	}
	return rapid.Int32().Draw(t, "seq")
}

func genType(t *rapid.T) int8 {
	if rapid.IntRange(0, 3).Draw(t, "type_any") == 0 {
		return int8(rapid.IntRange(0, 127).Draw(t, "type"))
	}
	return rapid.SampledFrom([]int8{1, 2, 3, 4}).Draw(t, "type_def")
}

func genBody(t *rapid.T, label string) wm.W {
	return wm.Gen(t, wm.KStruct, wm.GenOpts{MaxDepth: rapid.IntRange(1, 4).Draw(t, label+"_d"), MaxLen: 4}, label)
}

// ---------------------------------------------------------------- unit A: envelope round trip

// EnvCase is an envelope plus a segmentation.
type EnvCase struct {
	Env  refcodec.Envelope `json:"env"`
	Plan chunkio.Plan      `json:"plan"`
}

type wEnveloper struct {
	name string
	typ  wire.EnvelopeType
	body wm.W
}

func (e wEnveloper) MethodName() string              { return e.name }
func (e wEnveloper) EnvelopeType() wire.EnvelopeType { return e.typ }
func (e wEnveloper) Encode(sw stream.Writer) error   { return bridge.StreamWrite(sw, e.body) }

func checkEnvelope(c EnvCase) error {
	e := c.Env
	name := string(e.Name)
	we := wire.Envelope{Name: name, Type: wire.EnvelopeType(e.Type), SeqID: e.SeqID, Value: bridge.ToWire(e.Body)}
	strict := refcodec.EncodeStrict(e)
	legacy := refcodec.EncodeLegacy(e)

	// value-based strict encoder
	var b bytes.Buffer
	if err := binary.Default.EncodeEnveloped(we, &b); err != nil {
		return ev.Errf("env/encode-error", "EncodeEnveloped: %v", err)
	}
	if !bytes.Equal(b.Bytes(), strict) {
		return ev.Errf("env/encode-bytes/strict", "EncodeEnveloped differs from the spec bytes (got %x… want %x…)", clip(b.Bytes(), 24), clip(strict, 24))
	}
	// streaming strict writer
	b.Reset()
	sw := binary.NewStreamWriter(&b)
	if err := sw.WriteEnvelopeBegin(stream.EnvelopeHeader{Name: name, Type: wire.EnvelopeType(e.Type), SeqID: e.SeqID}); err != nil {
		return ev.Errf("env/stream-encode-error", "WriteEnvelopeBegin: %v", err)
	}
	if err := bridge.StreamWrite(sw, e.Body); err != nil {
		return ev.Errf("env/stream-encode-error", "body: %v", err)
	}
	if err := sw.WriteEnvelopeEnd(); err != nil {
		return ev.Errf("env/stream-encode-error", "WriteEnvelopeEnd: %v", err)
	}
	sw.Close()
	if !bytes.Equal(b.Bytes(), strict) {
		return ev.Errf("env/stream-encode-bytes/strict", "stream envelope writer differs from the spec bytes")
	}
	// legacy writers (value-based via the V0 responder, streaming via WriteLegacyEnvelopeBegin)
	b.Reset()
	if err := (binary.EnvelopeV0Responder{Name: name, SeqID: e.SeqID}).EncodeResponse(bridge.ToWire(e.Body), wire.EnvelopeType(e.Type), &b); err != nil {
		return ev.Errf("env/encode-error", "legacy EncodeResponse: %v", err)
	}
	if !bytes.Equal(b.Bytes(), legacy) {
		return ev.Errf("env/encode-bytes/legacy", "legacy envelope writer differs from the spec bytes (got %x… want %x…)", clip(b.Bytes(), 24), clip(legacy, 24))
	}
	b.Reset()
	sw = binary.NewStreamWriter(&b)
	if err := sw.WriteLegacyEnvelopeBegin(stream.EnvelopeHeader{Name: name, Type: wire.EnvelopeType(e.Type), SeqID: e.SeqID}); err != nil {
		return ev.Errf("env/stream-encode-error", "WriteLegacyEnvelopeBegin: %v", err)
	}
	if err := bridge.StreamWrite(sw, e.Body); err != nil {
		return ev.Errf("env/stream-encode-error", "body: %v", err)
	}
	sw.WriteLegacyEnvelopeEnd()
	sw.Close()
	if !bytes.Equal(b.Bytes(), legacy) {
		return ev.Errf("env/stream-encode-bytes/legacy", "stream legacy envelope writer differs from the spec bytes")
	}

	// decoders invert both forms
	for _, f := range []struct {
		framing string
		enc     []byte
	}{{refcodec.FrameStrict, strict}, {refcodec.FrameLegacy, legacy}} {
		got, err := binary.Default.DecodeEnveloped(bytes.NewReader(f.enc))
		if err != nil {
			return ev.Errf("env/decode-error/"+f.framing, "DecodeEnveloped failed on a valid %s envelope: %v", f.framing, err)
		}
		body, err := bridge.FromWire(got.Value)
		if err != nil {
			return ev.Errf("env/decode-error/"+f.framing, "forcing body: %v", err)
		}
		if got.Name != name || int8(got.Type) != e.Type || got.SeqID != e.SeqID || !wm.Equal(body, e.Body) {
			return ev.Errf("env/decode-value/"+f.framing, "DecodeEnveloped(%s) = (%q, %d, %d, %s), want (%q, %d, %d, %s)", f.framing, got.Name, got.Type, got.SeqID, wm.Render(body), name, e.Type, e.SeqID, wm.Render(e.Body))
		}
		r := chunkio.New(f.enc, c.Plan)
		sr := binary.Default.Reader(r)
		eh, err := sr.ReadEnvelopeBegin()
		if err != nil {
			sr.Close()
			return ev.Errf("env/stream-decode-error/"+f.framing, "ReadEnvelopeBegin failed on a valid %s envelope (%s): %v", f.framing, c.Plan.Class(), err)
		}
		sbody, err := bridge.StreamRead(sr, wm.KStruct)
		if err == nil {
			err = sr.ReadEnvelopeEnd()
		}
		sr.Close()
		if err != nil {
			return ev.Errf("env/stream-decode-error/"+f.framing, "stream body: %v", err)
		}
		if eh.Name != name || int8(eh.Type) != e.Type || eh.SeqID != e.SeqID || !wm.Equal(sbody, e.Body) {
			return ev.Errf("env/stream-decode-value/"+f.framing, "ReadEnvelopeBegin(%s) = (%q, %d, %d), want (%q, %d, %d); body equal=%v", f.framing, eh.Name, eh.Type, eh.SeqID, name, e.Type, e.SeqID, wm.Equal(sbody, e.Body))
		}
		if p := chunkio.PosOf(r); p != len(f.enc) {
			return ev.Errf("env/stream-consumed/"+f.framing, "stream envelope reader consumed %d of %d bytes", p, len(f.enc))
		}
	}
	return nil
}

func clip(b []byte, n int) []byte {
	if len(b) > n {
		return b[:n]
	}
	return b
}

func TestEnvelopeRoundTrip(t *testing.T) {
	rapid.Check(t, func(t *rapid.T) {
		c := EnvCase{Env: refcodec.Envelope{Name: genName(t), Type: genType(t), SeqID: genSeq(t), Body: genBody(t, "body")}, Plan: chunkio.GenPlan(t, "plan")}
		d := ev.Digest(refcodec.EncodeStrict(c.Env))
		nontriv := len(c.Env.Body.Fields) > 0
		ev.Case(d, nontriv, "unit:envelope", c.Plan.Class(), nameClass(c.Env.Name), fmt.Sprintf("etype:%d", bucketType(c.Env.Type)))
		if nontriv {
			ev.KeepSample("envelope", d, func() interface{} {
				return map[string]interface{}{"name": fmt.Sprintf("%q", clip(c.Env.Name, 40)), "name_len": len(c.Env.Name), "type": c.Env.Type, "seqid": c.Env.SeqID, "body": wm.Render(c.Env.Body), "plan": c.Plan.Class()}
			})
		}
		ev.Report(t, "envelope", c, ev.Guard(func() error { return checkEnvelope(c) }))
	})
}

func bucketType(t int8) int {
	if t >= 1 && t <= 4 {
		return int(t)
	}
	if t == 0 {
		return 0
	}
	return 99
}

func nameClass(n []byte) string {
	switch {
	case len(n) >= 65535:
		return "name:>=2^16-1"
	case len(n) > 255:
		return "name:long"
	case bytes.ContainsRune(n, ':'):
		return "name:multiplexed"
	}
	for _, c := range n {
		if c >= 0x80 || c < 0x20 {
			return "name:binary"
		}
	}
	return "name:ident"
}

// ---------------------------------------------------------------- unit B/C: requests

// ReqCase is a request byte string, the envelope type the server expects, two
// segmentations, and a reply to send back.
type ReqCase struct {
	Input    []byte       `json:"input"`
	Expect   int8         `json:"expect"` // Call or OneWay
	Plan     chunkio.Plan `json:"plan"`
	Plan2    chunkio.Plan `json:"plan2"`
	Reply    wm.W         `json:"reply"`
	ReplyTyp int8         `json:"reply_type"` // Reply or Exception
	// model (only for constructed requests)
	Framing string             `json:"framing,omitempty"`
	Env     *refcodec.Envelope `json:"env,omitempty"`
	Src     string             `json:"src"`
}

type bodyReader struct {
	w   wm.W
	err error
}

func (b *bodyReader) Decode(sr stream.Reader) error {
	b.w, b.err = bridge.StreamRead(sr, wm.KStruct)
	return b.err
}

type reqOutcome struct {
	ok      bool
	err     error
	body    wm.W
	framing string
	name    string
	seq     int32
}

func classifyResponder(r interface{}) (string, string, int32) {
	switch x := r.(type) {
	case *binary.EnvelopeV1Responder:
		return refcodec.FrameStrict, x.Name, x.SeqID
	case *binary.EnvelopeV0Responder:
		return refcodec.FrameLegacy, x.Name, x.SeqID
	case binary.EnvelopeV1Responder:
		return refcodec.FrameStrict, x.Name, x.SeqID
	case binary.EnvelopeV0Responder:
		return refcodec.FrameLegacy, x.Name, x.SeqID
	}
	if r == interface{}(binary.NoEnvelopeResponder) {
		return refcodec.FrameBare, "", 0
	}
	return fmt.Sprintf("unknown(%T)", r), "", 0
}

func decodeRequest(in []byte, et wire.EnvelopeType) (reqOutcome, envelope.Responder) {
	v, resp, err := binary.Default.DecodeRequest(et, bytes.NewReader(in))
	if err != nil {
		return reqOutcome{err: err}, nil
	}
	body, err := bridge.FromWire(v)
	if err != nil {
		return reqOutcome{err: err}, nil
	}
	o := reqOutcome{ok: true, body: body}
	o.framing, o.name, o.seq = classifyResponder(resp)
	return o, resp
}

func readRequest(in []byte, et wire.EnvelopeType, plan chunkio.Plan) (reqOutcome, stream.ResponseWriter) {
	br := &bodyReader{}
	rw, err := binary.Default.ReadRequest(context.Background(), et, chunkio.New(in, plan), br)
	if err != nil {
		return reqOutcome{err: err}, nil
	}
	o := reqOutcome{ok: true, body: br.w}
	o.framing, o.name, o.seq = classifyResponder(rw)
	return o, rw
}

func sameOutcome(a, b reqOutcome) bool {
	if a.ok != b.ok {
		return false
	}
	if !a.ok {
		return true
	}
	return a.framing == b.framing && a.name == b.name && a.seq == b.seq && wm.Equal(a.body, b.body)
}

func (o reqOutcome) String() string {
	if !o.ok {
		return fmt.Sprintf("error(%v)", o.err)
	}
	return fmt.Sprintf("ok(framing=%s name=%q seq=%d body=%s)", o.framing, clip([]byte(o.name), 30), o.seq, wm.Render(o.body))
}

// checkReply verifies that a response produced through the responder parses as
// the expected framing with echoed name / seqid.
func checkReply(api string, out []byte, framing string, name string, seq int32, typ int8, reply wm.W) error {
	switch framing {
	case refcodec.FrameBare:
		if !bytes.Equal(out, refcodec.Encode(reply)) {
			return ev.Errf("reply/"+api+"/bare-bytes", "bare reply is not the plain encoding of the reply struct")
		}
		return nil
	default:
		e, f, n, err := refcodec.DecodeEnvelope(out)
		if err != nil {
			return ev.Errf("reply/"+api+"/unparseable", "reply does not parse as an envelope: %v", err)
		}
		if n != len(out) {
			return ev.Errf("reply/"+api+"/trailing", "reply has %d trailing bytes", len(out)-n)
		}
		if f != framing {
			return ev.Errf("reply/"+api+"/framing", "request framing %s answered with framing %s", framing, f)
		}
		if string(e.Name) != name || e.SeqID != seq {
			return ev.Errf("reply/"+api+"/echo", "reply carries (%q, %d), request had (%q, %d)", clip(e.Name, 30), e.SeqID, clip([]byte(name), 30), seq)
		}
		if e.Type != typ || !wm.Equal(e.Body, reply) {
			return ev.Errf("reply/"+api+"/payload", "reply type/body differ: type %d want %d", e.Type, typ)
		}
	}
	return nil
}

func checkRequest(c ReqCase, stat *[2]reqOutcome) error {
	et := wire.EnvelopeType(c.Expect)
	d, dresp := decodeRequest(c.Input, et)
	r1, rresp := readRequest(c.Input, et, c.Plan)
	r2, _ := readRequest(c.Input, et, c.Plan2)
	stat[0], stat[1] = d, r1

	// segmentation independence
	if !sameOutcome(r1, r2) {
		return ev.Errf("request/chunking-dependent", "ReadRequest depends on read segmentation: %s => %s ; %s => %s", c.Plan.Class(), r1, c.Plan2.Class(), r2)
	}
	// the streaming API accepts whatever the random-access API accepts
	if d.ok && !r1.ok {
		return ev.Errf("request/stream-rejects-accepted", "DecodeRequest accepts (%s) but ReadRequest fails: %v", d, r1.err)
	}
	// agreement when both accept
	if d.ok && r1.ok && !sameOutcome(d, r1) {
		return ev.Errf("request/api-disagreement", "DecodeRequest => %s ; ReadRequest => %s", d, r1)
	}

	// constructed requests: expected outcome is known
	if c.Env != nil {
		wantOK := c.Framing == refcodec.FrameBare || c.Env.Type == c.Expect
		for i, o := range []reqOutcome{d, r1} {
			api := []string{"DecodeRequest", "ReadRequest"}[i]
			if !wantOK {
				if o.ok {
					return ev.Errf("request/wrong-type-accepted/"+api, "%s accepted a %s envelope of type %d while expecting %d", api, c.Framing, c.Env.Type, c.Expect)
				}
				continue
			}
			if !o.ok {
				return ev.Errf("request/valid-rejected/"+api+"/"+c.Framing, "%s rejected a valid %s request: %v", api, c.Framing, o.err)
			}
			wantName, wantSeq := string(c.Env.Name), c.Env.SeqID
			if c.Framing == refcodec.FrameBare {
				wantName, wantSeq = "", 0
			}
			if o.framing != c.Framing || o.name != wantName || o.seq != wantSeq {
				return ev.Errf("request/framing/"+api+"/"+c.Framing, "%s classified a %s request (name %q seq %d) as %s (name %q seq %d)", api, c.Framing, clip(c.Env.Name, 30), c.Env.SeqID, o.framing, clip([]byte(o.name), 30), o.seq)
			}
			if !wm.Equal(o.body, c.Env.Body) {
				return ev.Errf("request/body/"+api+"/"+c.Framing, "%s decoded body %s, sent %s", api, wm.Render(o.body), wm.Render(c.Env.Body))
			}
		}
	}

	// replies echo the framing (behavioural, through both response APIs)
	if d.ok {
		var b bytes.Buffer
		if err := dresp.EncodeResponse(bridge.ToWire(c.Reply), wire.EnvelopeType(c.ReplyTyp), &b); err != nil {
			return ev.Errf("reply/EncodeResponse/error", "EncodeResponse: %v", err)
		}
		if err := checkReply("EncodeResponse", b.Bytes(), d.framing, d.name, d.seq, c.ReplyTyp, c.Reply); err != nil {
			return err
		}
	}
	if r1.ok {
		var b bytes.Buffer
		if err := rresp.WriteResponse(wire.EnvelopeType(c.ReplyTyp), &b, wEnveloper{name: r1.name, typ: wire.EnvelopeType(c.ReplyTyp), body: c.Reply}); err != nil {
			return ev.Errf("reply/WriteResponse/error", "WriteResponse: %v", err)
		}
		if err := checkReply("WriteResponse", b.Bytes(), r1.framing, r1.name, r1.seq, c.ReplyTyp, c.Reply); err != nil {
			return err
		}
	}
	return nil
}

func runReq(t ev.TB, unit string, c ReqCase) {
	var st [2]reqOutcome
	err := ev.Guard(func() error { return checkRequest(c, &st) })
	acc := "rejected-by-both"
	switch {
	case st[0].ok && st[1].ok:
		acc = "accepted-by-both"
	case st[0].ok:
		acc = "accepted-DecodeRequest-only"
	case st[1].ok:
		acc = "accepted-ReadRequest-only"
	}
	cls := []string{"unit:" + unit, "src:" + c.Src, "outcome:" + acc, c.Plan.Class()}
	if c.Framing != "" {
		cls = append(cls, "framing:"+c.Framing)
	}
	if st[1].ok {
		cls = append(cls, "classified:"+st[1].framing)
	}
	nontriv := (st[0].ok || st[1].ok) && (c.Env == nil || len(c.Env.Body.Fields) > 0)
	if c.Env != nil && c.Framing != refcodec.FrameBare && c.Env.Type != c.Expect {
		nontriv = true
		cls = append(cls, "wrong-envelope-type")
	}
	d := ev.Digest(c.Input, []byte{byte(c.Expect)})
	ev.Case(d, nontriv, cls...)
	if nontriv {
		ev.KeepSample(unit, d, func() interface{} {
			return map[string]interface{}{"input_hex": fmt.Sprintf("%x", clip(c.Input, 48)), "input_len": len(c.Input), "framing_sent": c.Framing, "expect_type": c.Expect, "plan": c.Plan.Class(), "plan2": c.Plan2.Class(), "DecodeRequest": st[0].String(), "ReadRequest": st[1].String()}
		})
	}
	ev.Report(t, unit, c, err)
}

func genReqCase(t *rapid.T) ReqCase {
	e := refcodec.Envelope{Name: genName(t), Type: rapid.SampledFrom([]int8{1, 4, 1, 4, 1, 4, 2, 3, 0, 77}).Draw(t, "req_type"), SeqID: genSeq(t), Body: genBody(t, "body")}
	c := ReqCase{Expect: rapid.SampledFrom([]int8{1, 4}).Draw(t, "expect"), Plan: chunkio.GenPlan(t, "plan"), Plan2: chunkio.GenPlan(t, "plan2"),
		Reply: genBody(t, "reply"), ReplyTyp: rapid.SampledFrom([]int8{2, 3}).Draw(t, "reply_type"), Env: &e, Src: "constructed"}
	if rapid.IntRange(0, 2).Draw(t, "match_type") != 0 {
		e.Type = c.Expect
	}
	// first read of exactly one byte is the documented hard case
	if rapid.IntRange(0, 3).Draw(t, "first1") == 0 {
		c.Plan.Sizes = append([]int{1}, c.Plan.Sizes...)
	}
	c.Framing = rapid.SampledFrom([]string{refcodec.FrameStrict, refcodec.FrameLegacy, refcodec.FrameBare}).Draw(t, "framing")
	switch c.Framing {
	case refcodec.FrameStrict:
		c.Input = refcodec.EncodeStrict(e)
	case refcodec.FrameLegacy:
		c.Input = refcodec.EncodeLegacy(e)
	default:
		c.Input = refcodec.Encode(e.Body)
	}
	return c
}

func TestRequests(t *testing.T) {
	rapid.Check(t, func(t *rapid.T) { runReq(t, "request", genReqCase(t)) })
}

// TestRequestBytes: arbitrary and mutated byte strings, for classification agreement.
func TestRequestBytes(t *testing.T) {
	rapid.Check(t, func(t *rapid.T) {
		c := genReqCase(t)
		c.Env, c.Framing = nil, ""
		switch rapid.IntRange(0, 3).Draw(t, "bytes_mode") {
		case 0:
			c.Input = rapid.SliceOfN(rapid.Byte(), 0, 40).Draw(t, "raw")
			c.Src = "random"
		case 1: // truncation of a valid request
			if len(c.Input) > 0 {
				c.Input = c.Input[:rapid.IntRange(0, len(c.Input)-1).Draw(t, "trunc")]
			}
			c.Src = "truncated"
		case 2: // header bytes scrambled
			in := append([]byte{}, c.Input...)
			n := len(in)
			if n > 16 {
				n = 16
			}
			for i := 0; i < rapid.IntRange(1, 3).Draw(t, "nflips"); i++ {
				if n > 0 {
					in[rapid.IntRange(0, n-1).Draw(t, "off")] = rapid.SampledFrom([]byte{0, 1, 2, 0x0c, 0x0f, 0x7f, 0x80, 0x81, 0xff}).Draw(t, "val")
				}
			}
			c.Input, c.Src = in, "header-scrambled"
		default: // body mutated (bare framing)
			c.Input, _ = mutate.Mutate(t, genBody(t, "mbody"), "mut")
			c.Src = "body-mutated"
		}
		runReq(t, "request-bytes", c)
	})
}

// TestFirstReadGrid: every valid framing x every first-read size 1..4 x
// seekable/non-seekable, completely.
func TestFirstReadGrid(t *testing.T) {
	body := wm.Struct(wm.Field{ID: 1, V: wm.Binary([]byte("hello"))}, wm.Field{ID: -3, V: wm.List(wm.KI32, wm.I32(7))})
	e := refcodec.Envelope{Name: []byte("Svc:method"), Type: 1, SeqID: 42, Body: body}
	n := 0
	for _, framing := range []string{refcodec.FrameStrict, refcodec.FrameLegacy, refcodec.FrameBare} {
		for _, empty := range []bool{false, true} {
			ee := e
			if empty {
				ee.Body = wm.Struct()
			}
			var in []byte
			switch framing {
			case refcodec.FrameStrict:
				in = refcodec.EncodeStrict(ee)
			case refcodec.FrameLegacy:
				in = refcodec.EncodeLegacy(ee)
			default:
				in = refcodec.Encode(ee.Body)
			}
			for first := 0; first <= 4; first++ {
				for _, seek := range []bool{false, true} {
					for _, rest := range []int{0, 1, 2} {
						p := chunkio.Plan{Rest: rest, Seekable: seek}
						if first > 0 {
							p.Sizes = []int{first}
						} else {
							p.Sizes = []int{0, 1} // a zero-length read, then one byte
						}
						c := ReqCase{Input: in, Expect: 1, Plan: p, Plan2: chunkio.Plan{}, Reply: body, ReplyTyp: 2, Framing: framing, Env: &ee, Src: "first-read-grid"}
						runReq(t, "first-read-grid", c)
						n++
					}
				}
			}
		}
	}
	ev.Exhaustive("first-read-grid(3 framings x {empty,non-empty body} x first read 0..4 bytes x seekable x rest {whole,1,2})", true)
	ev.Note("first-read-grid", fmt.Sprintf("%d cases", n))
}

func replayOne(t *testing.T, f *ev.Failure) bool {
	switch f.Unit {
	case "envelope":
		var c EnvCase
		if err := json.Unmarshal(f.Case, &c); err != nil {
			t.Fatal(err)
		}
		ev.Report(t, f.Unit, c, ev.Guard(func() error { return checkEnvelope(c) }))
	case "request", "request-bytes", "first-read-grid":
		var c ReqCase
		if err := json.Unmarshal(f.Case, &c); err != nil {
			t.Fatal(err)
		}
		var st [2]reqOutcome
		ev.Report(t, f.Unit, c, ev.Guard(func() error { return checkRequest(c, &st) }))
	default:
		return replayOther(t, f)
	}
	return true
}

func TestReplay(t *testing.T)  { ev.RunReplay(t, replayOne) }
func TestRegress(t *testing.T) { ev.RunRegress(t, replayOne) }
