package c12

import (
	"bytes"
	"context"
	"encoding/json"
	"fmt"
	"runtime"
	"testing"

	"go.uber.org/thriftrw/protocol/binary"
	"go.uber.org/thriftrw/protocol/stream"
	"go.uber.org/thriftrw/wire"
	"pgregory.net/rapid"
	"verif/internal/bridge"
	"verif/internal/chunkio"
	"verif/internal/ev"
	"verif/internal/refcodec"
	wm "verif/internal/wiremodel"
)

// ---------------------------------------------------------------- unit: request histories
//
// The protocol object is shared by every request a server handles, and it
// recycles its readers. The model of a request is stateless: what a request
// decodes to, how it is classified and how it is answered is a function of the
// request alone. This unit therefore sends SEQUENCES of requests through the
// one protocol object, mixing the APIs, seekable and non-seekable sources and
// segmentations, and demands of every step the outcome the model gives for
// that step in isolation.
//
// The body handler of a step behaves like generated code: it knows a set of
// field ids, reads those, and skips (stream.Reader.Skip) everything else, at
// the top level and in directly nested structs.

// HistStep is one request of a history.
type HistStep struct {
	API     string            `json:"api"` // DecodeRequest | ReadRequest | Reader
	Framing string            `json:"framing"`
	Env     refcodec.Envelope `json:"env"`
	Expect  int8              `json:"expect"`
	Plan    chunkio.Plan      `json:"plan"` // ReadRequest / Reader only
	Known   []int16           `json:"known"`
	All     bool              `json:"all"` // the handler knows every field (never skips)
}

// HistCase is a sequence of requests served by the same protocol object.
type HistCase struct {
	Steps    []HistStep `json:"steps"`
	Reply    wm.W       `json:"reply"`
	ReplyTyp int8       `json:"reply_type"`
}

func (s HistStep) knows(id int16) bool {
	if s.All {
		return true
	}
	for _, k := range s.Known {
		if k == id {
			return true
		}
	}
	return false
}

// project is the model of a schema-aware handler: the known fields, in order.
func (s HistStep) project(w wm.W) wm.W {
	out := wm.W{K: wm.KStruct}
	for _, f := range w.Fields {
		if !s.knows(f.ID) {
			continue
		}
		if f.V.K == wm.KStruct {
			f = wm.Field{ID: f.ID, V: s.project(f.V)}
		}
		out.Fields = append(out.Fields, f)
	}
	return out
}

// skips counts the fields the handler has to skip.
func (s HistStep) skips(w wm.W) int {
	n := 0
	for _, f := range w.Fields {
		if !s.knows(f.ID) {
			n++
		} else if f.V.K == wm.KStruct {
			n += s.skips(f.V)
		}
	}
	return n
}

func (s HistStep) input() []byte {
	switch s.Framing {
	case refcodec.FrameStrict:
		return refcodec.EncodeStrict(s.Env)
	case refcodec.FrameLegacy:
		return refcodec.EncodeLegacy(s.Env)
	}
	return refcodec.Encode(s.Env.Body)
}

// skippingBody is the handler: reads known fields, skips the others.
type skippingBody struct {
	step HistStep
	w    wm.W
}

func (b *skippingBody) Decode(sr stream.Reader) error {
	w, err := b.read(sr)
	b.w = w
	return err
}

func (b *skippingBody) read(sr stream.Reader) (wm.W, error) {
	if err := sr.ReadStructBegin(); err != nil {
		return wm.W{}, err
	}
	w := wm.W{K: wm.KStruct}
	for {
		fh, ok, err := sr.ReadFieldBegin()
		if err != nil {
			return wm.W{}, err
		}
		if !ok {
			break
		}
		switch {
		case !b.step.knows(fh.ID):
			if err := sr.Skip(fh.Type); err != nil {
				return wm.W{}, err
			}
		case fh.Type == wire.TStruct:
			v, err := b.read(sr)
			if err != nil {
				return wm.W{}, err
			}
			w.Fields = append(w.Fields, wm.Field{ID: fh.ID, V: v})
		default:
			if !wm.Kind(fh.Type).Valid() {
				return wm.W{}, fmt.Errorf("unknown field type %d", fh.Type)
			}
			v, err := bridge.StreamRead(sr, wm.Kind(fh.Type))
			if err != nil {
				return wm.W{}, err
			}
			w.Fields = append(w.Fields, wm.Field{ID: fh.ID, V: v})
		}
		if err := sr.ReadFieldEnd(); err != nil {
			return wm.W{}, err
		}
	}
	return w, sr.ReadStructEnd()
}

// runStep serves one request and returns what was observed and the reply bytes.
func runStep(s HistStep, reply wm.W, replyTyp int8) (o reqOutcome, out []byte, replyErr error) {
	in := s.input()
	et := wire.EnvelopeType(s.Expect)
	var b bytes.Buffer
	switch s.API {
	case "DecodeRequest":
		d, resp := decodeRequest(in, et)
		if !d.ok {
			return d, nil, nil
		}
		d.body = s.project(d.body) // the value API hands over the whole struct; the handler picks its fields
		replyErr = resp.EncodeResponse(bridge.ToWire(reply), wire.EnvelopeType(replyTyp), &b)
		return d, b.Bytes(), replyErr
	case "ReadRequest":
		br := &skippingBody{step: s}
		rw, err := binary.Default.ReadRequest(context.Background(), et, chunkio.New(in, s.Plan), br)
		if err != nil {
			return reqOutcome{err: err}, nil, nil
		}
		o = reqOutcome{ok: true, body: br.w}
		o.framing, o.name, o.seq = classifyResponder(rw)
		replyErr = rw.WriteResponse(wire.EnvelopeType(replyTyp), &b, wEnveloper{name: o.name, typ: wire.EnvelopeType(replyTyp), body: reply})
		return o, b.Bytes(), replyErr
	default: // "Reader": Protocol.Reader + explicit envelope calls; no type assertion, no responder
		sr := binary.Default.Reader(chunkio.New(in, s.Plan))
		defer sr.Close()
		o = reqOutcome{framing: s.Framing}
		if s.Framing != refcodec.FrameBare {
			eh, err := sr.ReadEnvelopeBegin()
			if err != nil {
				return reqOutcome{err: err}, nil, nil
			}
			o.name, o.seq = eh.Name, eh.SeqID
			if int8(eh.Type) != s.Env.Type {
				return reqOutcome{err: fmt.Errorf("envelope type %d read, %d sent", eh.Type, s.Env.Type)}, nil, nil
			}
		}
		br := &skippingBody{step: s}
		if err := br.Decode(sr); err != nil {
			return reqOutcome{err: err}, nil, nil
		}
		if s.Framing != refcodec.FrameBare {
			if err := sr.ReadEnvelopeEnd(); err != nil {
				return reqOutcome{err: err}, nil, nil
			}
		}
		o.ok, o.body = true, br.w
		return o, nil, nil
	}
}

func (s HistStep) describe() string {
	src := "random-access"
	if s.API != "DecodeRequest" {
		src = s.Plan.Class()
	}
	return fmt.Sprintf("%s[%s, %s, %d field(s) skipped]", s.API, s.Framing, src, s.skips(s.Env.Body))
}

func checkHistory(c HistCase) error {
	// Every case starts from empty reader pools (two collections empty a
	// sync.Pool and its victim cache), so that the history a verdict depends
	// on is the one recorded in the case and a replay sees the same thing.
	runtime.GC()
	runtime.GC()
	for i, s := range c.Steps {
		before := "nothing"
		if i > 0 {
			before = c.Steps[i-1].describe()
		}
		var o reqOutcome
		var out []byte
		var rerr error
		if perr := ev.Guard(func() error { o, out, rerr = runStep(s, c.Reply, c.ReplyTyp); return nil }); perr != nil {
			return ev.Errf("history/"+s.API+"/panic", "step %d of %d, %s, after %s: %v", i+1, len(c.Steps), s.describe(), before, perr)
		}
		wantOK := s.Framing == refcodec.FrameBare || s.Env.Type == s.Expect || s.API == "Reader"
		if !wantOK {
			if o.ok {
				return ev.Errf("history/"+s.API+"/wrong-type-accepted", "step %d (%s, after %s) accepted a %s envelope of type %d while expecting %d", i+1, s.describe(), before, s.Framing, s.Env.Type, s.Expect)
			}
			continue
		}
		if !o.ok {
			return ev.Errf("history/"+s.API+"/valid-rejected/"+s.Framing, "step %d of %d, %s, after %s: a valid request was rejected: %v", i+1, len(c.Steps), s.describe(), before, o.err)
		}
		wantName, wantSeq := string(s.Env.Name), s.Env.SeqID
		if s.Framing == refcodec.FrameBare {
			wantName, wantSeq = "", 0
		}
		if o.framing != s.Framing || o.name != wantName || o.seq != wantSeq {
			return ev.Errf("history/"+s.API+"/framing/"+s.Framing, "step %d (%s, after %s): a %s request (name %q seq %d) was classified as %s (name %q seq %d)", i+1, s.describe(), before, s.Framing, clip(s.Env.Name, 30), s.Env.SeqID, o.framing, clip([]byte(o.name), 30), o.seq)
		}
		if want := s.project(s.Env.Body); !wm.Equal(o.body, want) {
			return ev.Errf("history/"+s.API+"/body/"+s.Framing, "step %d (%s, after %s): handler decoded %s, the request carries %s for the fields it knows", i+1, s.describe(), before, wm.Render(o.body), wm.Render(want))
		}
		if s.API == "Reader" {
			continue
		}
		if rerr != nil {
			return ev.Errf("history/"+s.API+"/reply-error", "step %d (%s): writing the reply failed: %v", i+1, s.describe(), rerr)
		}
		api := "EncodeResponse"
		if s.API == "ReadRequest" {
			api = "WriteResponse"
		}
		if err := checkReply(api, out, o.framing, o.name, o.seq, c.ReplyTyp, c.Reply); err != nil {
			return err
		}
	}
	return nil
}

func genHistStep(t *rapid.T, i int) HistStep {
	l := fmt.Sprintf("s%d_", i)
	s := HistStep{
		API:     rapid.SampledFrom([]string{"DecodeRequest", "ReadRequest", "ReadRequest", "ReadRequest", "Reader"}).Draw(t, l+"api"),
		Framing: rapid.SampledFrom([]string{refcodec.FrameStrict, refcodec.FrameLegacy, refcodec.FrameBare}).Draw(t, l+"framing"),
		Expect:  rapid.SampledFrom([]int8{1, 4}).Draw(t, l+"expect"),
		Plan:    chunkio.GenPlan(t, l+"plan"),
	}
	s.Env = refcodec.Envelope{Name: genName(t), SeqID: genSeq(t), Body: genBody(t, l+"body")}
	if len(s.Env.Name) > 300 { // the long names are the business of the envelope unit
		s.Env.Name = s.Env.Name[:300]
	}
	s.Env.Type = s.Expect
	if rapid.IntRange(0, 7).Draw(t, l+"wrong_type") == 0 {
		s.Env.Type = rapid.SampledFrom([]int8{1, 4, 2, 3}).Draw(t, l+"type")
	}
	// what the handler knows: everything, nothing, or a subset of the ids present
	switch rapid.IntRange(0, 4).Draw(t, l+"known_mode") {
	case 0:
		s.All = true
	case 1: // knows nothing: every field is skipped
	default:
		ids := map[int16]bool{}
		var collect func(w wm.W)
		collect = func(w wm.W) {
			for _, f := range w.Fields {
				if !ids[f.ID] {
					ids[f.ID] = true
					if rapid.Bool().Draw(t, fmt.Sprintf("%sknow_%d", l, f.ID)) {
						s.Known = append(s.Known, f.ID)
					}
				}
				if f.V.K == wm.KStruct {
					collect(f.V)
				}
			}
		}
		collect(s.Env.Body)
	}
	return s
}

func histClasses(c HistCase) (cls []string, nontriv bool) {
	cls = []string{"unit:request-history", fmt.Sprintf("history-len:%d", len(c.Steps))}
	seen := map[string]bool{}
	add := func(s string) {
		if !seen[s] {
			seen[s] = true
			cls = append(cls, s)
		}
	}
	seekBefore, skipped := false, false
	for _, s := range c.Steps {
		seek := s.API == "DecodeRequest" || s.Plan.Seekable
		n := s.skips(s.Env.Body)
		add("history-api:" + s.API)
		if n > 0 {
			skipped = true
			if seek {
				add("history:skip-on-seekable")
			} else {
				add("history:skip-on-non-seekable")
				if seekBefore {
					add("history:skip-on-non-seekable-after-seekable")
				}
			}
		}
		if seek {
			seekBefore = true
		}
	}
	return cls, len(c.Steps) > 1 && skipped
}

func TestRequestHistory(t *testing.T) {
	// one P: the per-case pool flush (two collections) stays cheap, and a
	// reader put back is the one handed out next
	defer runtime.GOMAXPROCS(runtime.GOMAXPROCS(1))
	rapid.Check(t, func(t *rapid.T) {
		n := rapid.IntRange(1, 6).Draw(t, "steps")
		c := HistCase{Reply: genBody(t, "reply"), ReplyTyp: rapid.SampledFrom([]int8{2, 3}).Draw(t, "reply_type")}
		for i := 0; i < n; i++ {
			c.Steps = append(c.Steps, genHistStep(t, i))
		}
		cls, nontriv := histClasses(c)
		d := ev.DigestJSON(c)
		ev.Case(d, nontriv, cls...)
		if nontriv {
			ev.KeepSample("request-history", d, func() interface{} {
				var steps []string
				for _, s := range c.Steps {
					steps = append(steps, s.describe())
				}
				return map[string]interface{}{"steps": steps}
			})
		}
		ev.Report(t, "request-history", c, ev.Guard(func() error { return checkHistory(c) }))
	})
}

func replayHistory(t *testing.T, f *ev.Failure) bool {
	if f.Unit != "request-history" {
		return false
	}
	var c HistCase
	if err := json.Unmarshal(f.Case, &c); err != nil {
		t.Fatal(err)
	}
	ev.Report(t, f.Unit, c, ev.Guard(func() error { return checkHistory(c) }))
	return true
}
