//go:build verif

package c12

import (
	"bytes"
	"encoding/json"
	"errors"
	"fmt"
	"testing"

	pubenv "go.uber.org/thriftrw/envelope"
	"go.uber.org/thriftrw/protocol/binary"
	"go.uber.org/thriftrw/verifhook"
	"go.uber.org/thriftrw/wire"
	"pgregory.net/rapid"
	"verif/internal/bridge"
	"verif/internal/ev"
	"verif/internal/refcodec"
	wm "verif/internal/wiremodel"
)

// SrvCase drives internal/envelope server+client, multiplexing and the public
// envelope.Write / ReadReply helpers.
type SrvCase struct {
	Service string `json:"service"` // "" = not multiplexed
	// Stack lists further multiplexers around the service's one, outermost
	// first (stacked multiplex handlers / clients; names may repeat and may
	// equal Service).
	Stack    []string `json:"stack,omitempty"`
	Method   []byte   `json:"method"`
	SeqID    int32    `json:"seqid"`
	Body     wm.W     `json:"body"`
	Reply    wm.W     `json:"reply"`
	Behavior string   `json:"behavior"` // reply | unknown-method | error | unknown-service
	ErrMsg   string   `json:"errmsg"`
}

type handler struct {
	c       SrvCase
	gotName string
	gotBody wm.W
	called  int
}

func (h *handler) Handle(name string, body wire.Value) (wire.Value, error) {
	h.called++
	h.gotName = name
	h.gotBody, _ = bridge.FromWire(body)
	switch h.c.Behavior {
	case "unknown-method":
		return wire.Value{}, verifhook.ErrUnknownMethod(name)
	case "error":
		return wire.Value{}, errors.New(h.c.ErrMsg)
	}
	return bridge.ToWire(h.c.Reply), nil
}

type loopTransport struct {
	srv  verifhook.EnvelopeServer
	sent [][]byte
	recv [][]byte
}

func (l *loopTransport) Send(b []byte) ([]byte, error) {
	l.sent = append(l.sent, append([]byte{}, b...))
	out, err := l.srv.Handle(b)
	l.recv = append(l.recv, out)
	return out, err
}

type wireEnveloper struct {
	name string
	typ  wire.EnvelopeType
	body wm.W
}

func (e wireEnveloper) MethodName() string              { return e.name }
func (e wireEnveloper) EnvelopeType() wire.EnvelopeType { return e.typ }
func (e wireEnveloper) ToWire() (wire.Value, error)     { return bridge.ToWire(e.body), nil }

// muxRoot wraps h in the multiplex handlers of the case (innermost: Service).
func muxRoot(c SrvCase, h verifhook.EnvelopeHandler, unknownAs string) verifhook.EnvelopeHandler {
	if c.Service == "" {
		return h
	}
	mux := verifhook.NewMultiplexHandler()
	if c.Behavior != "unknown-service" {
		mux.Put(c.Service, h)
	} else if unknownAs != "" {
		mux.Put(unknownAs, h)
	}
	var root verifhook.EnvelopeHandler = mux
	for i := len(c.Stack) - 1; i >= 0; i-- {
		outer := verifhook.NewMultiplexHandler()
		outer.Put(c.Stack[i], root)
		root = outer
	}
	return root
}

func checkServer(c SrvCase) error {
	h := &handler{c: c}
	wireName := string(c.Method)
	if c.Service != "" {
		wireName = c.Service + ":" + string(c.Method)
		for i := len(c.Stack) - 1; i >= 0; i-- {
			wireName = c.Stack[i] + ":" + wireName
		}
	}
	root := muxRoot(c, h, c.Service+"x")
	srv := verifhook.NewEnvelopeServer(binary.Default, root)

	// (1) raw request built by the reference codec
	req := refcodec.EncodeStrict(refcodec.Envelope{Name: []byte(wireName), Type: 1, SeqID: c.SeqID, Body: c.Body})
	out, err := srv.Handle(req)
	if err != nil {
		return ev.Errf("server/handle-error", "Server.Handle failed on a valid call: %v", err)
	}
	resp, framing, n, err := refcodec.DecodeEnvelope(out)
	if err != nil || n != len(out) {
		return ev.Errf("server/reply-unparseable", "reply does not parse: %v (consumed %d of %d)", err, n, len(out))
	}
	if framing != refcodec.FrameStrict || string(resp.Name) != wireName || resp.SeqID != c.SeqID {
		return ev.Errf("server/echo", "reply envelope (%s, %q, %d) does not mirror the request (%q, %d)", framing, resp.Name, resp.SeqID, wireName, c.SeqID)
	}
	wantCalled := c.Behavior != "unknown-service"
	if (h.called == 1) != wantCalled {
		return ev.Errf("server/dispatch", "handler called %d times, behaviour %s", h.called, c.Behavior)
	}
	if wantCalled {
		if h.gotName != string(c.Method) || !wm.Equal(h.gotBody, c.Body) {
			return ev.Errf("server/dispatch-args", "handler saw (%q, %s), want (%q, %s)", h.gotName, wm.Render(h.gotBody), c.Method, wm.Render(c.Body))
		}
	}
	switch c.Behavior {
	case "reply":
		if resp.Type != 2 || !wm.Equal(resp.Body, c.Reply) {
			return ev.Errf("server/reply-payload", "reply type %d body %s, want Reply %s", resp.Type, wm.Render(resp.Body), wm.Render(c.Reply))
		}
	default:
		if resp.Type != 3 {
			return ev.Errf("server/exception-type", "behaviour %s answered with envelope type %d, want Exception", c.Behavior, resp.Type)
		}
		wantCode := int64(6)
		if c.Behavior != "error" {
			wantCode = 1
		}
		var code int64 = -1
		var msg []byte
		for _, f := range resp.Body.Fields {
			if f.ID == 1 && f.V.K == wm.KBinary {
				msg = f.V.Bin
			}
			if f.ID == 2 && f.V.K == wm.KI32 {
				code = f.V.I
			}
		}
		if code != wantCode {
			return ev.Errf("server/exception-code", "behaviour %s => TApplicationException type %d, want %d", c.Behavior, code, wantCode)
		}
		if c.Behavior == "error" && string(msg) != c.ErrMsg {
			return ev.Errf("server/exception-message", "message %q, want %q", msg, c.ErrMsg)
		}
	}

	// (2) client <-> server through the in-memory transport
	h2 := &handler{c: c}
	root2 := muxRoot(c, h2, "")
	lt := &loopTransport{srv: verifhook.NewEnvelopeServer(binary.Default, root2)}
	cl := verifhook.NewEnvelopeClient(binary.Default, lt)
	if c.Service != "" {
		for _, s := range c.Stack {
			cl = verifhook.NewMultiplexClient(s, cl)
		}
		cl = verifhook.NewMultiplexClient(c.Service, cl)
	}
	v, err := cl.Send(string(c.Method), bridge.ToWire(c.Body))
	if len(lt.sent) != 1 {
		return ev.Errf("client/sends", "client sent %d messages", len(lt.sent))
	}
	sentEnv, sf, _, derr := refcodec.DecodeEnvelope(lt.sent[0])
	if derr != nil || sf != refcodec.FrameStrict || string(sentEnv.Name) != wireName || sentEnv.Type != 1 || !wm.Equal(sentEnv.Body, c.Body) {
		return ev.Errf("client/request-bytes", "client request is not a strict Call envelope for %q with the given body (err %v)", wireName, derr)
	}
	if wantCalled && (h2.called != 1 || h2.gotName != string(c.Method) || !wm.Equal(h2.gotBody, c.Body)) {
		return ev.Errf("client/dispatch-args", "service %q (stack %q): client was asked to call %q, the service's handler was called %d time(s) with %q", c.Service, c.Stack, c.Method, h2.called, h2.gotName)
	}
	if c.Behavior == "reply" {
		if err != nil {
			return ev.Errf("client/reply-error", "client returned %v for a normal reply", err)
		}
		got, ferr := bridge.FromWire(v)
		if ferr != nil || !wm.Equal(got, c.Reply) {
			return ev.Errf("client/reply-value", "client returned %s, want %s", wm.Render(got), wm.Render(c.Reply))
		}
	} else {
		var tae *verifhook.TApplicationException
		if !errors.As(err, &tae) {
			return ev.Errf("client/exception-mapping", "behaviour %s: client returned (%v) instead of a TApplicationException", c.Behavior, err)
		}
	}

	// (3) public envelope.Write / ReadReply
	var wbuf bytes.Buffer
	if err := pubenv.Write(binary.Default, &wbuf, c.SeqID, wireEnveloper{name: wireName, typ: wire.Call, body: c.Body}); err != nil {
		return ev.Errf("public/write-error", "envelope.Write: %v", err)
	}
	if !bytes.Equal(wbuf.Bytes(), req) {
		return ev.Errf("public/write-bytes", "envelope.Write differs from the reference strict envelope")
	}
	rv, seq, rerr := pubenv.ReadReply(binary.Default, bytes.NewReader(out))
	if seq != c.SeqID {
		return ev.Errf("public/readreply-seqid", "ReadReply seqid %d, want %d", seq, c.SeqID)
	}
	if c.Behavior == "reply" {
		got, ferr := bridge.FromWire(rv)
		if rerr != nil || ferr != nil || !wm.Equal(got, c.Reply) {
			return ev.Errf("public/readreply-value", "ReadReply = (%s, %v)", wm.Render(got), rerr)
		}
	} else {
		var tae *verifhook.TApplicationException
		if !errors.As(rerr, &tae) {
			return ev.Errf("public/readreply-exception", "ReadReply returned (%v) for an exception envelope", rerr)
		}
	}
	return nil
}

func TestServerClient(t *testing.T) {
	rapid.Check(t, func(t *rapid.T) {
		c := SrvCase{SeqID: genSeq(t), Body: genBody(t, "body"), Reply: genBody(t, "reply"),
			Behavior: rapid.SampledFrom([]string{"reply", "reply", "unknown-method", "error"}).Draw(t, "behavior"),
			ErrMsg:   rapid.StringN(0, 20, 40).Draw(t, "errmsg")}
		c.Method = []byte(rapid.StringMatching(`[a-zA-Z_][a-zA-Z0-9_:]{0,12}`).Draw(t, "method"))
		if rapid.Bool().Draw(t, "mux") {
			c.Service = rapid.StringMatching(`[A-Za-z][A-Za-z0-9]{0,8}`).Draw(t, "service")
			// stacked multiplexers, often sharing the service name
			for i, n := 0, rapid.SampledFrom([]int{0, 0, 0, 1, 1, 2}).Draw(t, "stack"); i < n; i++ {
				if rapid.Bool().Draw(t, "stack_same") {
					c.Stack = append(c.Stack, c.Service)
				} else {
					c.Stack = append(c.Stack, rapid.StringMatching(`[A-Za-z][A-Za-z0-9]{0,3}`).Draw(t, "stack_name"))
				}
			}
			// method names that look multiplexed themselves: equal to / prefixed by
			// the service name, leading / trailing / doubled ':'
			rest := rapid.StringMatching(`[a-zA-Z_:]{0,6}`).Draw(t, "method_rest")
			switch rapid.IntRange(0, 9).Draw(t, "method_shape") {
			case 0:
				c.Method = []byte(c.Service + ":" + rest)
			case 1:
				c.Method = []byte(c.Service + ":" + c.Service + ":" + rest)
			case 2:
				c.Method = []byte(c.Service)
			case 3:
				c.Method = []byte(":" + rest)
			case 4:
				c.Method = []byte(c.Service + rest)
			}
			if rapid.IntRange(0, 4).Draw(t, "unknown_service") == 0 {
				c.Behavior = "unknown-service"
			}
		} else if rapid.Bool().Draw(t, "rawname") {
			c.Method = genName(t)
		}
		d := ev.DigestJSON(c)
		nontriv := len(c.Body.Fields) > 0 || c.Behavior != "reply"
		ev.Case(d, nontriv, "unit:server-client", "behavior:"+c.Behavior, fmt.Sprintf("multiplexed:%v", c.Service != ""), methodClass(c))
		if nontriv {
			ev.KeepSample("server-client", d, func() interface{} {
				return map[string]interface{}{"service": c.Service, "stack": c.Stack, "method": fmt.Sprintf("%q", clip(c.Method, 30)), "seqid": c.SeqID, "behavior": c.Behavior, "body": wm.Render(c.Body)}
			})
		}
		ev.Report(t, "server-client", c, ev.Guard(func() error { return checkServer(c) }))
	})
}

// methodClass says how the method name relates to the multiplexing.
func methodClass(c SrvCase) string {
	if c.Service == "" {
		return "method:not-multiplexed"
	}
	s := "method:plain"
	switch {
	case bytes.HasPrefix(c.Method, []byte(c.Service+":")):
		s = "method:starts-with-service-prefix"
	case string(c.Method) == c.Service:
		s = "method:equals-service"
	case bytes.ContainsRune(c.Method, ':'):
		s = "method:contains-colon"
	}
	if len(c.Stack) > 0 {
		same := false
		for _, x := range c.Stack {
			same = same || x == c.Service
		}
		if same {
			return s + "+stacked-same-service"
		}
		return s + "+stacked"
	}
	return s
}

func replayOther(t *testing.T, f *ev.Failure) bool {
	if f.Unit != "server-client" {
		return replayHistory(t, f)
	}
	var c SrvCase
	if err := json.Unmarshal(f.Case, &c); err != nil {
		t.Fatal(err)
	}
	ev.Report(t, f.Unit, c, ev.Guard(func() error { return checkServer(c) }))
	return true
}
