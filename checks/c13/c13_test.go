//go:build verif

// C13: decoding cost is bounded by the size of the input.
package c13

import (
	"bufio"
	"bytes"
	"context"
	"encoding/binary"
	"encoding/json"
	"fmt"
	"os"
	"os/exec"
	"runtime"
	"sort"
	"strconv"
	"strings"
	"syscall"
	"testing"
	"time"

	"go.uber.org/thriftrw/compile"
	"go.uber.org/thriftrw/plugin/api"
	tbinary "go.uber.org/thriftrw/protocol/binary"
	"go.uber.org/thriftrw/protocol/stream"
	"go.uber.org/thriftrw/verifhook"
	"go.uber.org/thriftrw/wire"
	"pgregory.net/rapid"
	"verif/internal/bridge"
	"verif/internal/chunkio"
	"verif/internal/ev"
	"verif/internal/mutate"
	"verif/internal/refcodec"
	wm "verif/internal/wiremodel"
)

func TestMain(m *testing.M) { ev.Main(m, "C13") }

// Case is one message fed to one decoding API.
type Case struct {
	API string `json:"api"`
	Msg []byte `json:"msg"`
	Pos string `json:"pos"`         // which length/count position carries the hostile value
	L   int64  `json:"l,omitempty"` // the hostile value
}

// Budget: a fixed constant plus a small multiple of the input size. The
// constant covers the two documented up-front buffers (1 MiB binary threshold,
// 10 MiB frame fast path) with slack for runtime noise.
const (
	allocConst   = 24 << 20
	allocPerByte = 64
	cpuLimit     = 2 * time.Second
)

// ---------------------------------------------------------------- APIs

type genType interface {
	FromWire(wire.Value) error
	Decode(stream.Reader) error
}

var apiTypes = map[string]func() genType{
	"TypeReference":           func() genType { return &api.TypeReference{} },
	"TypePair":                func() genType { return &api.TypePair{} },
	"Type":                    func() genType { return &api.Type{} },
	"Argument":                func() genType { return &api.Argument{} },
	"Function":                func() genType { return &api.Function{} },
	"Service":                 func() genType { return &api.Service{} },
	"Module":                  func() genType { return &api.Module{} },
	"HandshakeRequest":        func() genType { return &api.HandshakeRequest{} },
	"HandshakeResponse":       func() genType { return &api.HandshakeResponse{} },
	"GenerateServiceRequest":  func() genType { return &api.GenerateServiceRequest{} },
	"GenerateServiceResponse": func() genType { return &api.GenerateServiceResponse{} },
}

type bodyWalker struct{}

func (bodyWalker) Decode(sr stream.Reader) error {
	_, err := bridge.StreamRead(sr, wm.KStruct)
	return err
}

// callAPI performs exactly one decoding call of the named API on msg.
func callAPI(name string, msg []byte) error {
	switch {
	case name == "ra/decode+force":
		v, err := tbinary.Default.Decode(bytes.NewReader(msg), wire.TStruct)
		if err != nil {
			return err
		}
		return wire.EvaluateValue(v)
	case strings.HasPrefix(name, "ra/toplevel-"):
		// a top-level container (what a typedef'd container type decodes) handed to
		// thriftrw's own slice helpers, which trust Size()
		switch strings.TrimPrefix(name, "ra/toplevel-") {
		case "list+ToSlice":
			v, err := tbinary.Default.Decode(bytes.NewReader(msg), wire.TList)
			if err != nil {
				return err
			}
			_ = wire.ValueListToSlice(v.GetList())
		case "set+ToSlice":
			v, err := tbinary.Default.Decode(bytes.NewReader(msg), wire.TSet)
			if err != nil {
				return err
			}
			_ = wire.ValueListToSlice(v.GetSet())
		case "map+ToSlice":
			v, err := tbinary.Default.Decode(bytes.NewReader(msg), wire.TMap)
			if err != nil {
				return err
			}
			_ = wire.MapItemListToSlice(v.GetMap())
		}
		return nil
	case name == "stream/skip":
		sr := tbinary.Default.Reader(chunkio.New(msg, chunkio.Plan{}))
		defer sr.Close()
		return sr.Skip(wire.TStruct)
	case name == "stream/skip-seekable":
		sr := tbinary.Default.Reader(bytes.NewReader(msg))
		defer sr.Close()
		return sr.Skip(wire.TStruct)
	case name == "stream/read":
		sr := tbinary.Default.Reader(chunkio.New(msg, chunkio.Plan{}))
		defer sr.Close()
		_, err := bridge.StreamRead(sr, wm.KStruct)
		return err
	case name == "envelope/DecodeEnveloped":
		e, err := tbinary.Default.DecodeEnveloped(bytes.NewReader(msg))
		if err != nil {
			return err
		}
		return wire.EvaluateValue(e.Value)
	case name == "envelope/ReadEnvelopeBegin":
		sr := tbinary.Default.Reader(chunkio.New(msg, chunkio.Plan{}))
		defer sr.Close()
		if _, err := sr.ReadEnvelopeBegin(); err != nil {
			return err
		}
		_, err := bridge.StreamRead(sr, wm.KStruct)
		return err
	case name == "request/DecodeRequest":
		v, _, err := tbinary.Default.DecodeRequest(wire.Call, bytes.NewReader(msg))
		if err != nil {
			return err
		}
		return wire.EvaluateValue(v)
	case name == "request/ReadRequest":
		_, err := tbinary.Default.ReadRequest(context.Background(), wire.Call, chunkio.New(msg, chunkio.Plan{}), bodyWalker{})
		return err
	case name == "frame/Read":
		fr := verifhook.NewFrameReader(chunkio.New(msg, chunkio.Plan{}))
		_, err := fr.Read()
		return err
	case strings.HasPrefix(name, "gen/FromWire/"):
		x := apiTypes[strings.TrimPrefix(name, "gen/FromWire/")]()
		v, err := tbinary.Default.Decode(bytes.NewReader(msg), wire.TStruct)
		if err != nil {
			return err
		}
		return x.FromWire(v)
	case strings.HasPrefix(name, "gen/Decode/"):
		x := apiTypes[strings.TrimPrefix(name, "gen/Decode/")]()
		sr := tbinary.Default.Reader(chunkio.New(msg, chunkio.Plan{}))
		defer sr.Close()
		return x.Decode(sr)
	}
	return fmt.Errorf("unknown api %s", name)
}

var plainAPIs = []string{"ra/decode+force", "stream/skip", "stream/skip-seekable", "stream/read", "request/DecodeRequest", "request/ReadRequest"}

// ---------------------------------------------------------------- child side

type result struct {
	Idx    int
	Alloc  uint64
	CPU    time.Duration
	Status string // ok | err
}

func cpuNow() time.Duration {
	var ru syscall.Rusage
	syscall.Getrusage(syscall.RUSAGE_SELF, &ru)
	return time.Duration(ru.Utime.Nano() + ru.Stime.Nano())
}

// TestChildAlloc is the child side: measures every case of the batch file.
func TestChildAlloc(t *testing.T) {
	path := os.Getenv("VERIF_CHILD_ALLOC")
	if path == "" {
		t.Skip("child only")
	}
	// Cap the address space so that a runaway allocation kills this child, not the machine.
	lim := syscall.Rlimit{Cur: 6 << 30, Max: 6 << 30}
	syscall.Setrlimit(syscall.RLIMIT_AS, &lim)
	b, err := os.ReadFile(path)
	if err != nil {
		t.Fatal(err)
	}
	var cases []Case
	if err := json.Unmarshal(b, &cases); err != nil {
		t.Fatal(err)
	}
	start, _ := strconv.Atoi(os.Getenv("VERIF_CHILD_START"))
	out := bufio.NewWriter(os.Stdout)
	for i := start; i < len(cases); i++ {
		fmt.Fprintf(out, "BEGIN %d\n", i)
		out.Flush()
		var m0, m1 runtime.MemStats
		runtime.ReadMemStats(&m0)
		c0 := cpuNow()
		err := ev.Guard(func() error { return callAPI(cases[i].API, cases[i].Msg) })
		c1 := cpuNow()
		runtime.ReadMemStats(&m1)
		st := "ok"
		if err != nil {
			st = "err"
			if _, isPanic := err.(*ev.PanicError); isPanic {
				st = "panic"
			}
		}
		fmt.Fprintf(out, "RES %d %d %d %s\n", i, m1.TotalAlloc-m0.TotalAlloc, int64(c1-c0), st)
		out.Flush()
		if m1.HeapSys > 1<<30 {
			runtime.GC()
		}
	}
	fmt.Fprintln(out, "DONE")
	out.Flush()
}

// ---------------------------------------------------------------- parent side

// measure runs the batch in child processes and returns one result per case;
// a case during which the child died gets Status "killed:<reason>".
func measure(cases []Case, scratch string) ([]result, error) {
	f, err := os.CreateTemp(scratch, "c13-batch-*.json")
	if err != nil {
		return nil, err
	}
	defer os.Remove(f.Name())
	json.NewEncoder(f).Encode(cases)
	f.Close()
	res := make([]result, len(cases))
	start := 0
	for start < len(cases) {
		cmd := exec.Command(os.Args[0], "-test.run", "^TestChildAlloc$", "-test.timeout", "10m")
		cmd.Env = append(os.Environ(), "VERIF_CHILD_ALLOC="+f.Name(), "VERIF_CHILD_START="+strconv.Itoa(start), "VERIF_STATS=", "VERIF_REPLAY=", "GOGC=100")
		var out bytes.Buffer
		cmd.Stdout, cmd.Stderr = &out, &out
		if err := cmd.Start(); err != nil {
			return nil, err
		}
		done := make(chan error, 1)
		go func() { done <- cmd.Wait() }()
		timedOut := false
		select {
		case <-done:
		case <-time.After(5 * time.Minute):
			cmd.Process.Kill()
			<-done
			timedOut = true
		}
		cur := -1
		finished := false
		for _, line := range strings.Split(out.String(), "\n") {
			fs := strings.Fields(line)
			switch {
			case len(fs) == 2 && fs[0] == "BEGIN":
				cur, _ = strconv.Atoi(fs[1])
			case len(fs) == 5 && fs[0] == "RES":
				i, _ := strconv.Atoi(fs[1])
				a, _ := strconv.ParseUint(fs[2], 10, 64)
				c, _ := strconv.ParseInt(fs[3], 10, 64)
				if i >= 0 && i < len(res) {
					res[i] = result{Idx: i, Alloc: a, CPU: time.Duration(c), Status: fs[4]}
				}
				if i == cur {
					cur = -1
				}
			case line == "DONE":
				finished = true
			}
		}
		if finished {
			break
		}
		if cur < 0 {
			return nil, fmt.Errorf("child ended without finishing and without a case in flight: %s", tailS(out.String(), 800))
		}
		reason := "crash"
		s := out.String()
		switch {
		case timedOut:
			reason = "timeout"
		case strings.Contains(s, "out of memory") || strings.Contains(s, "cannot allocate memory") || strings.Contains(s, "makeslice: len out of range") || strings.Contains(s, "makemap"):
			reason = "oom"
		case strings.Contains(s, "stack overflow"):
			reason = "stack-overflow"
		}
		res[cur] = result{Idx: cur, Status: "killed:" + reason}
		start = cur + 1
	}
	return res, nil
}

func tailS(s string, n int) string {
	if len(s) > n {
		return s[len(s)-n:]
	}
	return s
}

// verdict applies the bound to one measured case.
func verdict(c Case, r result) error {
	n := int64(len(c.Msg))
	bound := uint64(allocConst + allocPerByte*n)
	key := fmt.Sprintf("%s/%s", c.API, c.Pos)
	switch {
	case strings.HasPrefix(r.Status, "killed:"):
		return ev.Errf("killed/"+key, "decoding a %d-byte message through %s killed the process (%s); length position %s set to %d", n, c.API, strings.TrimPrefix(r.Status, "killed:"), c.Pos, c.L)
	case r.Status == "panic":
		return ev.Errf("panic/"+key, "decoding a %d-byte message through %s panicked; length position %s set to %d", n, c.API, c.Pos, c.L)
	case r.Alloc > bound:
		return ev.Errf("alloc/"+key, "decoding a %d-byte message through %s allocated %d bytes (bound %d); length position %s set to %d", n, c.API, r.Alloc, bound, c.Pos, c.L)
	case r.CPU > cpuLimit:
		return ev.Errf("cpu/"+key, "decoding a %d-byte message through %s used %v CPU (limit %v); length position %s set to %d", n, c.API, r.CPU, cpuLimit, c.Pos, c.L)
	}
	return nil
}

func scratchDir(t testing.TB) string {
	if s := os.Getenv("VERIF_SCRATCH"); s != "" {
		return s
	}
	return t.TempDir()
}

// evaluate measures the cases and reports verdicts. A CPU breach is re-measured
// alone (twice) before it counts.
func evaluate(t *testing.T, unit string, cases []Case) {
	res, err := measure(cases, scratchDir(t))
	if err != nil {
		t.Fatalf("environment: %v", err)
	}
	for i, c := range cases {
		r := res[i]
		if r.CPU > cpuLimit && !strings.HasPrefix(r.Status, "killed") {
			for k := 0; k < 2 && r.CPU > cpuLimit; k++ {
				rr, err := measure([]Case{c}, scratchDir(t))
				if err == nil {
					r = rr[0]
				}
			}
		}
		d := ev.Digest([]byte(c.API), c.Msg)
		nontriv := c.L >= 1<<16 || c.Pos == "mutated"
		ev.Case(d, nontriv, "api:"+apiClass(c.API), "pos:"+c.Pos, "status:"+strings.SplitN(r.Status, ":", 2)[0], fmt.Sprintf("L:%s", lClass(c.L)))
		if nontriv {
			ev.KeepSample(unit, d, func() interface{} {
				return map[string]interface{}{"api": c.API, "pos": c.Pos, "L": c.L, "msg_hex": fmt.Sprintf("%x", c.Msg), "alloc_bytes": r.Alloc, "cpu": r.CPU.String(), "status": r.Status}
			})
		}
		ev.ReportSoft(t, unit, c, verdict(c, r))
	}
}

func apiClass(a string) string {
	if strings.HasPrefix(a, "gen/") {
		return strings.Join(strings.Split(a, "/")[:2], "/")
	}
	return a
}

func lClass(l int64) string {
	switch {
	case l == 0:
		return "none"
	case l >= 1<<31-1:
		return "2^31-1"
	case l >= 1<<28:
		return "2^28"
	case l >= 1<<24:
		return "2^24"
	case l >= 1<<20:
		return "2^20"
	case l >= 1<<16:
		return "2^16"
	}
	return "small"
}

// ---------------------------------------------------------------- systematic grid

var hostile = []int64{1 << 16, 1 << 20, 1 << 24, 1 << 28, 1<<31 - 1}

func be32(v int64) []byte {
	var b [4]byte
	binary.BigEndian.PutUint32(b[:], uint32(v))
	return b[:]
}

func fieldHdr(typ byte, id int16) []byte { return []byte{typ, byte(uint16(id) >> 8), byte(id)} }

var elemKinds = []wm.Kind{wm.KBool, wm.KI8, wm.KI16, wm.KI32, wm.KI64, wm.KDouble, wm.KBinary, wm.KStruct, wm.KList, wm.KSet, wm.KMap}

// structBodies returns (position name, body bytes) for every length position
// of a bare struct, with the hostile value L; the body is left truncated
// after a few real bytes of content.
func structBodies(L int64) [][2]interface{} {
	var out [][2]interface{}
	add := func(pos string, b []byte) { out = append(out, [2]interface{}{pos, b}) }
	few := []byte{0, 0, 0, 1, 0, 0, 0, 0}
	add("binary-length", cat(fieldHdr(11, 1), be32(L), []byte("abcd")))
	for _, ek := range elemKinds {
		add("list-count/"+ek.String(), cat(fieldHdr(15, 1), []byte{byte(ek)}, be32(L), few))
		add("set-count/"+ek.String(), cat(fieldHdr(14, 1), []byte{byte(ek)}, be32(L), few))
	}
	for _, kv := range [][2]wm.Kind{{wm.KI32, wm.KI32}, {wm.KI64, wm.KDouble}, {wm.KBinary, wm.KI32}, {wm.KI32, wm.KStruct}, {wm.KI64, wm.KList}, {wm.KBool, wm.KBool}, {wm.KBinary, wm.KBinary}, {wm.KStruct, wm.KMap}} {
		add("map-count/"+kv[0].String()+","+kv[1].String(), cat(fieldHdr(13, 1), []byte{byte(kv[0]), byte(kv[1])}, be32(L), few))
	}
	// nested one level down
	add("nested/list<list<i64>>-inner-count", cat(fieldHdr(15, 1), []byte{15}, be32(1), []byte{10}, be32(L), few))
	add("nested/list<binary>-inner-length", cat(fieldHdr(15, 1), []byte{11}, be32(1), be32(L), []byte("ab")))
	add("nested/struct-field-list<i32>-count", cat(fieldHdr(12, 1), fieldHdr(15, 2), []byte{8}, be32(L), few))
	add("nested/map<i32,list<i8>>-inner-count", cat(fieldHdr(13, 1), []byte{8, 15}, be32(1), be32(7), []byte{3}, be32(L), few))
	return out
}

func cat(bs ...[]byte) []byte {
	var out []byte
	for _, b := range bs {
		out = append(out, b...)
	}
	return out
}

func gridCases() []Case {
	var cases []Case
	for _, L := range hostile {
		for _, pb := range structBodies(L) {
			pos, body := pb[0].(string), pb[1].([]byte)
			for _, a := range plainAPIs {
				cases = append(cases, Case{API: a, Msg: body, Pos: pos, L: L})
			}
			// the same body behind a well-formed strict envelope / inside a frame
			env := cat(be32(int64(int32(-2147418111))), be32(2), []byte("ab"), be32(1), body) // 0x80010001
			for _, a := range []string{"envelope/DecodeEnveloped", "envelope/ReadEnvelopeBegin", "request/DecodeRequest", "request/ReadRequest"} {
				cases = append(cases, Case{API: a, Msg: env, Pos: "enveloped-body/" + pos, L: L})
			}
		}
		// top-level containers
		few := []byte{0, 0, 0, 1, 0, 0, 0, 0}
		for _, ek := range elemKinds {
			cases = append(cases, Case{API: "ra/toplevel-list+ToSlice", Msg: cat([]byte{byte(ek)}, be32(L), few), Pos: "toplevel-list-count/" + ek.String(), L: L})
			cases = append(cases, Case{API: "ra/toplevel-set+ToSlice", Msg: cat([]byte{byte(ek)}, be32(L), few), Pos: "toplevel-set-count/" + ek.String(), L: L})
		}
		for _, kv := range [][2]wm.Kind{{wm.KI32, wm.KI32}, {wm.KI64, wm.KDouble}, {wm.KBinary, wm.KI32}, {wm.KBool, wm.KI8}} {
			cases = append(cases, Case{API: "ra/toplevel-map+ToSlice", Msg: cat([]byte{byte(kv[0]), byte(kv[1])}, be32(L), few), Pos: "toplevel-map-count/" + kv[0].String() + "," + kv[1].String(), L: L})
		}
		// envelope name lengths
		strict := cat(be32(int64(int32(-2147418111))), be32(L), []byte("abcd"), be32(1), []byte{0})
		legacy := cat(be32(L), []byte("abcd"), []byte{1}, be32(1), []byte{0})
		for _, a := range []string{"envelope/DecodeEnveloped", "envelope/ReadEnvelopeBegin", "request/DecodeRequest", "request/ReadRequest"} {
			cases = append(cases, Case{API: a, Msg: strict, Pos: "strict-envelope-name-length", L: L})
			cases = append(cases, Case{API: a, Msg: legacy, Pos: "legacy-envelope-name-length", L: L})
		}
		// frame length
		cases = append(cases, Case{API: "frame/Read", Msg: cat(be32(L), []byte("abcdefgh")), Pos: "frame-length", L: L})
	}
	return cases
}

// genCases targets every container / binary field of the repository's own
// generated plugin API types.
func genCases(t testing.TB) []Case {
	m, err := compile.Compile(ev.Repo() + "/plugin/api.thrift")
	if err != nil {
		t.Fatalf("cannot compile plugin/api.thrift: %v", err)
	}
	var names []string
	for n := range m.Types {
		names = append(names, n)
	}
	sort.Strings(names)
	var cases []Case
	for _, n := range names {
		ss, ok := m.Types[n].(*compile.StructSpec)
		if !ok || apiTypes[n] == nil {
			continue
		}
		for _, f := range ss.Fields {
			root := compile.RootTypeSpec(f.Type)
			for _, L := range hostile {
				var body []byte
				pos := ""
				few := []byte{0, 0, 0, 1, 0, 0, 0, 0}
				switch r := root.(type) {
				case *compile.ListSpec:
					body = cat(fieldHdr(15, f.ID), []byte{byte(compile.RootTypeSpec(r.ValueSpec).TypeCode())}, be32(L), few)
					pos = "list-count"
				case *compile.SetSpec:
					body = cat(fieldHdr(14, f.ID), []byte{byte(compile.RootTypeSpec(r.ValueSpec).TypeCode())}, be32(L), few)
					pos = "set-count"
				case *compile.MapSpec:
					body = cat(fieldHdr(13, f.ID), []byte{byte(compile.RootTypeSpec(r.KeySpec).TypeCode()), byte(compile.RootTypeSpec(r.ValueSpec).TypeCode())}, be32(L), few)
					pos = "map-count"
				case *compile.StringSpec, *compile.BinarySpec:
					body = cat(fieldHdr(11, f.ID), be32(L), []byte("abcd"))
					pos = "binary-length"
				default:
					continue
				}
				pos = fmt.Sprintf("%s.%s/%s", n, f.Name, pos)
				cases = append(cases, Case{API: "gen/FromWire/" + n, Msg: body, Pos: pos, L: L})
				cases = append(cases, Case{API: "gen/Decode/" + n, Msg: body, Pos: pos, L: L})
			}
		}
	}
	return cases
}

func shardOf(cases []Case) []Case {
	shard, _ := strconv.Atoi(os.Getenv("VERIF_SHARD"))
	n, _ := strconv.Atoi(os.Getenv("VERIF_NSHARDS"))
	if n <= 1 {
		return cases
	}
	var out []Case
	for i, c := range cases {
		if i%n == shard {
			out = append(out, c)
		}
	}
	return out
}

// TestGrid: the complete systematic grid (every length position x hostile
// value x API).
func TestGrid(t *testing.T) {
	all := gridCases()
	evaluate(t, "grid", shardOf(all))
	ev.Exhaustive(fmt.Sprintf("length-position grid: %d positions x %d hostile values x APIs = %d cases", len(structBodies(1))+3, len(hostile), len(all)), true)
}

// TestGenGrid: every container/binary field of the generated plugin API types.
func TestGenGrid(t *testing.T) {
	all := genCases(t)
	evaluate(t, "gen-grid", shardOf(all))
	ev.Exhaustive(fmt.Sprintf("plugin/api generated types: every container or binary field x %d hostile values x {FromWire,Decode} = %d cases", len(hostile), len(all)), true)
}

// TestMutated: random short messages from the mutation engine, all APIs.
func TestMutated(t *testing.T) {
	var typeNames []string
	for n := range apiTypes {
		typeNames = append(typeNames, n)
	}
	sort.Strings(typeNames)
	var batch []Case
	rapid.Check(t, func(t *rapid.T) {
		w := wm.Gen(t, wm.KStruct, wm.GenOpts{MaxDepth: 3, MaxLen: 3}, "w")
		msg, _ := mutate.Mutate(t, w, "mut")
		if len(msg) > 96 {
			msg = msg[:96]
		}
		var a string
		switch rapid.IntRange(0, 3).Draw(t, "api_class") {
		case 0:
			a = rapid.SampledFrom([]string{"gen/FromWire/", "gen/Decode/"}).Draw(t, "gen_api") + rapid.SampledFrom(typeNames).Draw(t, "gen_type")
		case 1:
			a = rapid.SampledFrom([]string{"envelope/DecodeEnveloped", "envelope/ReadEnvelopeBegin", "frame/Read"}).Draw(t, "env_api")
			if rapid.Bool().Draw(t, "wrap") {
				msg = refcodec.EncodeStrict(refcodec.Envelope{Name: []byte("m"), Type: 1, SeqID: 1, Body: wm.Struct()})
				msg = append(msg[:len(msg)-1], msgTail(msg, w)...)
			}
		default:
			a = rapid.SampledFrom(plainAPIs).Draw(t, "api")
		}
		batch = append(batch, Case{API: a, Msg: msg, Pos: "mutated"})
	})
	// rapid only generated the inputs; they are measured in child processes here
	evaluate(t, "mutated", batch)
}

func msgTail(_ []byte, w wm.W) []byte { return refcodec.Encode(w) }

func replayOne(t *testing.T, f *ev.Failure) bool {
	var c Case
	if err := json.Unmarshal(f.Case, &c); err != nil {
		t.Fatal(err)
	}
	res, err := measure([]Case{c}, scratchDir(t))
	if err != nil {
		t.Fatalf("environment: %v", err)
	}
	ev.Report(t, f.Unit, c, verdict(c, res[0]))
	return true
}

func TestReplay(t *testing.T)  { ev.RunReplay(t, replayOne) }
func TestRegress(t *testing.T) { ev.RunRegress(t, replayOne) }
