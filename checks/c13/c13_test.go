//go:build verif

// C13: decoding cost is bounded by the size of the input.
package c13

import (
	"bytes"
	"context"
	"encoding/binary"
	"encoding/json"
	"fmt"
	"io"
	"os"
	"sort"
	"strconv"
	"strings"
	"testing"

	"go.uber.org/thriftrw/compile"
	"go.uber.org/thriftrw/plugin/api"
	tbinary "go.uber.org/thriftrw/protocol/binary"
	"go.uber.org/thriftrw/protocol/stream"
	"go.uber.org/thriftrw/verifhook"
	"go.uber.org/thriftrw/wire"
	"pgregory.net/rapid"
	"verif/internal/allocprobe"
	"verif/internal/bridge"
	"verif/internal/chunkio"
	"verif/internal/ev"
	"verif/internal/mutate"
	"verif/internal/refcodec"
	wm "verif/internal/wiremodel"
)

func TestMain(m *testing.M) { ev.Main(m, "C13") }

// Case is one message fed to one decoding API.
type Case = allocprobe.Case

const cpuLimit = allocprobe.CPULimit

// ---------------------------------------------------------------- APIs

type genType interface {
	FromWire(wire.Value) error
	Decode(stream.Reader) error
}

var apiTypes = map[string]func() genType{
	"TypeReference":           func() genType { return &api.TypeReference{} },
	"TypePair":                func() genType { return &api.TypePair{} },
	"Type":                    func() genType { return &api.Type{} },
	"Argument":                func() genType { return &api.Argument{} },
	"Function":                func() genType { return &api.Function{} },
	"Service":                 func() genType { return &api.Service{} },
	"Module":                  func() genType { return &api.Module{} },
	"HandshakeRequest":        func() genType { return &api.HandshakeRequest{} },
	"HandshakeResponse":       func() genType { return &api.HandshakeResponse{} },
	"GenerateServiceRequest":  func() genType { return &api.GenerateServiceRequest{} },
	"GenerateServiceResponse": func() genType { return &api.GenerateServiceResponse{} },
}

type bodyWalker struct{}

func (bodyWalker) Decode(sr stream.Reader) error {
	_, err := bridge.StreamRead(sr, wm.KStruct)
	return err
}

// isStreamAPI reports whether the API reads from an io.Reader (else: io.ReaderAt).
func isStreamAPI(name string) bool {
	switch name {
	case "stream/skip", "stream/skip-seekable", "stream/read", "envelope/ReadEnvelopeBegin", "request/ReadRequest", "frame/Read":
		return true
	}
	return strings.HasPrefix(name, "gen/Decode/")
}

// The concrete source types of the grids (Case.Src; "" = the historical one:
// chunkio's plain non-seekable reader, resp. *bytes.Reader). The mutated unit
// draws from all of chunkio's.
var (
	gridStreamSrcs = []string{"", chunkio.SrcBytesBuffer, chunkio.SrcBytesReader, chunkio.SrcBufio}
	gridAtSrcs     = []string{"", chunkio.SrcPlainAt}
	allStreamSrcs  = append([]string{""}, chunkio.StreamSrcs...)
	allAtSrcs      = []string{"", chunkio.SrcPlainAt, chunkio.SrcStringsReader, chunkio.SrcSection}
)

// withSrcs is the case once per concrete source type of its API's class.
func withSrcs(c Case) []Case {
	srcs := gridAtSrcs
	switch {
	case c.API == "stream/skip-seekable":
		return []Case{c} // kept for recorded cases: stream/skip over a *bytes.Reader
	case isStreamAPI(c.API):
		srcs = gridStreamSrcs
	}
	out := make([]Case, 0, len(srcs))
	for _, s := range srcs {
		x := c
		x.Src = s
		out = append(out, x)
	}
	return out
}

// callAPI performs exactly one decoding call of the named API on msg, read
// from a source of the concrete type src.
func callAPI(name string, msg []byte, src string) error {
	stream := func() io.Reader { return chunkio.New(msg, chunkio.Plan{Src: src}) }
	at := func() io.ReaderAt { return chunkio.NewAt(msg, chunkio.AtPlan{Src: src, EagerEOF: true}) }
	switch {
	case name == "ra/decode+force":
		v, err := tbinary.Default.Decode(at(), wire.TStruct)
		if err != nil {
			return err
		}
		return wire.EvaluateValue(v)
	case strings.HasPrefix(name, "ra/toplevel-"):
		// a top-level container (what a typedef'd container type decodes) handed to
		// thriftrw's own slice helpers, which trust Size()
		switch strings.TrimPrefix(name, "ra/toplevel-") {
		case "list+ToSlice":
			v, err := tbinary.Default.Decode(at(), wire.TList)
			if err != nil {
				return err
			}
			_ = wire.ValueListToSlice(v.GetList())
		case "set+ToSlice":
			v, err := tbinary.Default.Decode(at(), wire.TSet)
			if err != nil {
				return err
			}
			_ = wire.ValueListToSlice(v.GetSet())
		case "map+ToSlice":
			v, err := tbinary.Default.Decode(at(), wire.TMap)
			if err != nil {
				return err
			}
			_ = wire.MapItemListToSlice(v.GetMap())
		}
		return nil
	case name == "stream/skip":
		sr := tbinary.Default.Reader(stream())
		defer sr.Close()
		return sr.Skip(wire.TStruct)
	case name == "stream/skip-seekable":
		var r io.Reader = bytes.NewReader(msg)
		if src != "" {
			r = stream()
		}
		sr := tbinary.Default.Reader(r)
		defer sr.Close()
		return sr.Skip(wire.TStruct)
	case name == "stream/read":
		sr := tbinary.Default.Reader(stream())
		defer sr.Close()
		_, err := bridge.StreamRead(sr, wm.KStruct)
		return err
	case name == "envelope/DecodeEnveloped":
		e, err := tbinary.Default.DecodeEnveloped(at())
		if err != nil {
			return err
		}
		return wire.EvaluateValue(e.Value)
	case name == "envelope/ReadEnvelopeBegin":
		sr := tbinary.Default.Reader(stream())
		defer sr.Close()
		if _, err := sr.ReadEnvelopeBegin(); err != nil {
			return err
		}
		_, err := bridge.StreamRead(sr, wm.KStruct)
		return err
	case name == "request/DecodeRequest":
		v, _, err := tbinary.Default.DecodeRequest(wire.Call, at())
		if err != nil {
			return err
		}
		return wire.EvaluateValue(v)
	case name == "request/ReadRequest":
		_, err := tbinary.Default.ReadRequest(context.Background(), wire.Call, stream(), bodyWalker{})
		return err
	case name == "frame/Read":
		fr := verifhook.NewFrameReader(stream())
		_, err := fr.Read()
		return err
	case strings.HasPrefix(name, "gen/FromWire/"):
		x := apiTypes[strings.TrimPrefix(name, "gen/FromWire/")]()
		v, err := tbinary.Default.Decode(at(), wire.TStruct)
		if err != nil {
			return err
		}
		return x.FromWire(v)
	case strings.HasPrefix(name, "gen/Decode/"):
		x := apiTypes[strings.TrimPrefix(name, "gen/Decode/")]()
		sr := tbinary.Default.Reader(stream())
		defer sr.Close()
		return x.Decode(sr)
	}
	return fmt.Errorf("unknown api %s", name)
}

var plainAPIs = []string{"ra/decode+force", "stream/skip", "stream/skip-seekable", "stream/read", "request/DecodeRequest", "request/ReadRequest"}

// ---------------------------------------------------------------- child / parent plumbing

// TestChildAlloc is the child side: measures every case of the batch file.
func TestChildAlloc(t *testing.T) {
	if !allocprobe.InChild() {
		t.Skip("child only")
	}
	if err := allocprobe.ChildLoop(func(c Case) error { return callAPI(c.API, c.Msg, c.Src) }); err != nil {
		t.Fatal(err)
	}
}

type result = allocprobe.Result

func measure(cases []Case, scratch string) ([]result, error) {
	return allocprobe.Measure(cases, scratch, "^TestChildAlloc$")
}

func verdict(c Case, r result) error { return allocprobe.Verdict(c, r) }

func scratchDir(t testing.TB) string {
	if s := os.Getenv("VERIF_SCRATCH"); s != "" {
		return s
	}
	return t.TempDir()
}

// evaluate measures the cases and reports verdicts. A CPU breach is re-measured
// alone (twice) before it counts.
//
// It reports whether every case was measured (after allocprobe.MaxCPUStops
// stopped children the rest of a failed batch is skipped).
func evaluate(t *testing.T, unit string, cases []Case) (complete bool) {
	res, err := measure(cases, scratchDir(t))
	if err != nil {
		t.Fatalf("environment: %v", err)
	}
	complete = true
	for i, c := range cases {
		r := res[i]
		if r.Status == "skipped" {
			complete = false
			continue
		}
		if r.CPU > cpuLimit && !strings.HasPrefix(r.Status, "killed") {
			for k := 0; k < 2 && r.CPU > cpuLimit; k++ {
				rr, err := measure([]Case{c}, scratchDir(t))
				if err == nil {
					r = rr[0]
				}
			}
		}
		d := ev.Digest([]byte(c.API), c.Msg, []byte(fmt.Sprintf("%s|%d|%d|%d", c.Src, c.PadAt, c.PadN, c.PadFill)))
		nontriv := c.L >= 1<<16 || c.Pos == "mutated"
		cls := []string{"api:" + apiClass(c.API), "pos:" + c.Pos, "status:" + strings.SplitN(r.Status, ":", 2)[0], fmt.Sprintf("L:%s", lClass(c.L)), "src:" + srcClass(c)}
		if c.PadN > 0 {
			cls = append(cls, fmt.Sprintf("payload:1MiB%+d", c.PadN-1<<20))
		}
		ev.Case(d, nontriv, cls...)
		if nontriv {
			ev.KeepSample(unit, d, func() interface{} {
				return map[string]interface{}{"api": c.API, "src": srcClass(c), "pos": c.Pos, "L": c.L, "msg_hex": fmt.Sprintf("%x", c.Msg), "pad_at": c.PadAt, "pad_n": c.PadN, "alloc_bytes": r.Alloc, "cpu": r.CPU.String(), "status": r.Status}
			})
		}
		ev.ReportSoft(t, unit, c, verdict(c, r))
	}
	return complete
}

// srcClass names the concrete source type of the case.
func srcClass(c Case) string {
	switch {
	case c.Src != "":
		return c.Src
	case c.API == "stream/skip-seekable" || !isStreamAPI(c.API):
		return chunkio.SrcBytesReader
	}
	return "chunkio.Reader"
}

func apiClass(a string) string {
	if strings.HasPrefix(a, "gen/") {
		return strings.Join(strings.Split(a, "/")[:2], "/")
	}
	return a
}

func lClass(l int64) string {
	switch {
	case l == 0:
		return "none"
	case l >= 1<<31-1:
		return "2^31-1"
	case l >= 1<<28:
		return "2^28"
	case l >= 1<<24:
		return "2^24"
	case l >= 1<<20:
		return "2^20"
	case l >= 1<<16:
		return "2^16"
	}
	return "small"
}

// ---------------------------------------------------------------- systematic grid

var hostile = []int64{1 << 16, 1 << 20, 1 << 24, 1 << 28, 1<<31 - 1}

func be32(v int64) []byte {
	var b [4]byte
	binary.BigEndian.PutUint32(b[:], uint32(v))
	return b[:]
}

func fieldHdr(typ byte, id int16) []byte { return []byte{typ, byte(uint16(id) >> 8), byte(id)} }

var elemKinds = []wm.Kind{wm.KBool, wm.KI8, wm.KI16, wm.KI32, wm.KI64, wm.KDouble, wm.KBinary, wm.KStruct, wm.KList, wm.KSet, wm.KMap}

// structBodies returns (position name, body bytes) for every length position
// of a bare struct, with the hostile value L; the body is left truncated
// after a few real bytes of content.
func structBodies(L int64) [][2]interface{} {
	var out [][2]interface{}
	add := func(pos string, b []byte) { out = append(out, [2]interface{}{pos, b}) }
	few := []byte{0, 0, 0, 1, 0, 0, 0, 0}
	add("binary-length", cat(fieldHdr(11, 1), be32(L), []byte("abcd")))
	for _, ek := range elemKinds {
		add("list-count/"+ek.String(), cat(fieldHdr(15, 1), []byte{byte(ek)}, be32(L), few))
		add("set-count/"+ek.String(), cat(fieldHdr(14, 1), []byte{byte(ek)}, be32(L), few))
	}
	for _, kv := range [][2]wm.Kind{{wm.KI32, wm.KI32}, {wm.KI64, wm.KDouble}, {wm.KBinary, wm.KI32}, {wm.KI32, wm.KStruct}, {wm.KI64, wm.KList}, {wm.KBool, wm.KBool}, {wm.KBinary, wm.KBinary}, {wm.KStruct, wm.KMap}} {
		add("map-count/"+kv[0].String()+","+kv[1].String(), cat(fieldHdr(13, 1), []byte{byte(kv[0]), byte(kv[1])}, be32(L), few))
	}
	// type bytes that are not wire types at all: the count must not be believed for them either
	for _, bad := range []byte{0, 1, 5, 7, 9, 16, 0x7f, 0xff} {
		add(fmt.Sprintf("list-count/invalid-type-%d", bad), cat(fieldHdr(15, 1), []byte{bad}, be32(L), few))
		add(fmt.Sprintf("set-count/invalid-type-%d", bad), cat(fieldHdr(14, 1), []byte{bad}, be32(L), few))
		add(fmt.Sprintf("map-count/invalid-type-%d,i32", bad), cat(fieldHdr(13, 1), []byte{bad, 8}, be32(L), few))
		add(fmt.Sprintf("map-count/i32,invalid-type-%d", bad), cat(fieldHdr(13, 1), []byte{8, bad}, be32(L), few))
		add(fmt.Sprintf("map-count/invalid-type-%d,invalid-type-%d", bad, bad), cat(fieldHdr(13, 1), []byte{bad, bad}, be32(L), few))
	}
	add("nested/list<invalid-type-0>-inner-count", cat(fieldHdr(15, 1), []byte{15}, be32(1), []byte{0}, be32(L), few))
	// nested one level down
	add("nested/list<list<i64>>-inner-count", cat(fieldHdr(15, 1), []byte{15}, be32(1), []byte{10}, be32(L), few))
	add("nested/list<binary>-inner-length", cat(fieldHdr(15, 1), []byte{11}, be32(1), be32(L), []byte("ab")))
	add("nested/struct-field-list<i32>-count", cat(fieldHdr(12, 1), fieldHdr(15, 2), []byte{8}, be32(L), few))
	add("nested/map<i32,list<i8>>-inner-count", cat(fieldHdr(13, 1), []byte{8, 15}, be32(1), be32(7), []byte{3}, be32(L), few))
	return out
}

func cat(bs ...[]byte) []byte {
	var out []byte
	for _, b := range bs {
		out = append(out, b...)
	}
	return out
}

// Long payloads: the value really is longer than the stream reader's 1 MiB
// threshold (so whatever is done "after the first chunk has arrived" happens),
// declares far more, and the message ends with the payload.
var (
	longPayloads = []int{1 << 20, 1<<20 + 1, 1<<20 + 4096}
	longDeclared = []int64{1 << 29, 1<<31 - 1}
)

// longBodies returns (position name, prefix up to and including the hostile
// length) of a bare struct for every position that carries a binary length;
// the payload is appended symbolically (Case.Pad*).
func longBodies(L int64) [][2]interface{} {
	var out [][2]interface{}
	add := func(pos string, b []byte) { out = append(out, [2]interface{}{pos, b}) }
	add("binary-length", cat(fieldHdr(11, 1), be32(L)))
	add("nested/list<binary>-inner-length", cat(fieldHdr(15, 1), []byte{11}, be32(2), be32(L)))
	add("nested/set<binary>-inner-length", cat(fieldHdr(14, 1), []byte{11}, be32(2), be32(L)))
	add("nested/map<binary,i32>-key-length", cat(fieldHdr(13, 1), []byte{11, 8}, be32(1), be32(L)))
	add("nested/map<i32,binary>-value-length", cat(fieldHdr(13, 1), []byte{8, 11}, be32(1), be32(7), be32(L)))
	add("nested/struct-field-binary-length", cat(fieldHdr(12, 1), fieldHdr(11, 2), be32(L)))
	add("second-binary-length", cat(fieldHdr(11, 1), be32(3), []byte("abc"), fieldHdr(11, 2), be32(L)))
	return out
}

const strictVersion = int64(int32(-2147418111)) // 0x80010001: version 1, Call

func longCases() []Case {
	var cases []Case
	add := func(api string, prefix []byte, pos string, L int64, n int) {
		cases = append(cases, withSrcs(Case{API: api, Msg: prefix, Pos: "long-payload/" + pos, L: L, PadAt: len(prefix), PadN: n, PadFill: 'x'})...)
	}
	envAPIs := []string{"envelope/DecodeEnveloped", "envelope/ReadEnvelopeBegin", "request/DecodeRequest", "request/ReadRequest"}
	for _, L := range longDeclared {
		for _, n := range longPayloads {
			for _, pb := range longBodies(L) {
				pos, body := pb[0].(string), pb[1].([]byte)
				for _, a := range plainAPIs {
					add(a, body, pos, L, n)
				}
				env := cat(be32(strictVersion), be32(2), []byte("ab"), be32(1), body)
				for _, a := range envAPIs {
					add(a, env, "enveloped-body/"+pos, L, n)
				}
			}
			for _, a := range envAPIs {
				add(a, cat(be32(strictVersion), be32(L)), "strict-envelope-name-length", L, n)
				add(a, be32(L), "legacy-envelope-name-length", L, n)
			}
			add("frame/Read", be32(L), "frame-length", L, n)
		}
	}
	return cases
}

func gridCases() []Case {
	cases := longCases()
	for _, c := range shortGridCases() {
		cases = append(cases, withSrcs(c)...)
	}
	return cases
}

func shortGridCases() []Case {
	var cases []Case
	for _, L := range hostile {
		for _, pb := range structBodies(L) {
			pos, body := pb[0].(string), pb[1].([]byte)
			for _, a := range plainAPIs {
				cases = append(cases, Case{API: a, Msg: body, Pos: pos, L: L})
			}
			// the same body behind a well-formed strict envelope / inside a frame
			env := cat(be32(int64(int32(-2147418111))), be32(2), []byte("ab"), be32(1), body) // 0x80010001
			for _, a := range []string{"envelope/DecodeEnveloped", "envelope/ReadEnvelopeBegin", "request/DecodeRequest", "request/ReadRequest"} {
				cases = append(cases, Case{API: a, Msg: env, Pos: "enveloped-body/" + pos, L: L})
			}
		}
		// top-level containers
		few := []byte{0, 0, 0, 1, 0, 0, 0, 0}
		for _, ek := range elemKinds {
			cases = append(cases, Case{API: "ra/toplevel-list+ToSlice", Msg: cat([]byte{byte(ek)}, be32(L), few), Pos: "toplevel-list-count/" + ek.String(), L: L})
			cases = append(cases, Case{API: "ra/toplevel-set+ToSlice", Msg: cat([]byte{byte(ek)}, be32(L), few), Pos: "toplevel-set-count/" + ek.String(), L: L})
		}
		for _, kv := range [][2]wm.Kind{{wm.KI32, wm.KI32}, {wm.KI64, wm.KDouble}, {wm.KBinary, wm.KI32}, {wm.KBool, wm.KI8}} {
			cases = append(cases, Case{API: "ra/toplevel-map+ToSlice", Msg: cat([]byte{byte(kv[0]), byte(kv[1])}, be32(L), few), Pos: "toplevel-map-count/" + kv[0].String() + "," + kv[1].String(), L: L})
		}
		// envelope name lengths
		strict := cat(be32(int64(int32(-2147418111))), be32(L), []byte("abcd"), be32(1), []byte{0})
		legacy := cat(be32(L), []byte("abcd"), []byte{1}, be32(1), []byte{0})
		for _, a := range []string{"envelope/DecodeEnveloped", "envelope/ReadEnvelopeBegin", "request/DecodeRequest", "request/ReadRequest"} {
			cases = append(cases, Case{API: a, Msg: strict, Pos: "strict-envelope-name-length", L: L})
			cases = append(cases, Case{API: a, Msg: legacy, Pos: "legacy-envelope-name-length", L: L})
		}
		// frame length
		cases = append(cases, Case{API: "frame/Read", Msg: cat(be32(L), []byte("abcdefgh")), Pos: "frame-length", L: L})
	}
	return cases
}

// genCases targets every container / binary field of the repository's own
// generated plugin API types.
func genCases(t testing.TB) []Case {
	m, err := compile.Compile(ev.Repo() + "/plugin/api.thrift")
	if err != nil {
		t.Fatalf("cannot compile plugin/api.thrift: %v", err)
	}
	var names []string
	for n := range m.Types {
		names = append(names, n)
	}
	sort.Strings(names)
	var cases []Case
	for _, n := range names {
		ss, ok := m.Types[n].(*compile.StructSpec)
		if !ok || apiTypes[n] == nil {
			continue
		}
		for _, f := range ss.Fields {
			root := compile.RootTypeSpec(f.Type)
			add := func(c Case) {
				// a container header announcing the declared element type: the open finding K1 (the
				// streaming decoder pre-sizes from the count, before it touches the source again) makes
				// each of these cost up to gigabytes; over the further source types only the two small counts
				k1 := strings.HasSuffix(c.Pos, "-count") && c.L > 1<<20
				c.Pos = fmt.Sprintf("%s.%s/%s", n, f.Name, c.Pos)
				for _, a := range []string{"gen/FromWire/", "gen/Decode/"} {
					c.API = a + n
					for _, x := range withSrcs(c) {
						if k1 && x.Src != "" && a == "gen/Decode/" {
							continue
						}
						cases = append(cases, x)
					}
				}
			}
			for _, L := range hostile {
				few := []byte{0, 0, 0, 1, 0, 0, 0, 0}
				switch r := root.(type) {
				case *compile.ListSpec:
					e := byte(compile.RootTypeSpec(r.ValueSpec).TypeCode())
					add(Case{Msg: cat(fieldHdr(15, f.ID), []byte{e}, be32(L), few), Pos: "list-count", L: L})
					// the same header announcing another element type: the generated reader skips the elements one by one
					for _, m := range mismatches(e) {
						add(Case{Msg: cat(fieldHdr(15, f.ID), []byte{m}, be32(L), few), Pos: "list-count-of-" + wm.Kind(m).String(), L: L})
					}
				case *compile.SetSpec:
					e := byte(compile.RootTypeSpec(r.ValueSpec).TypeCode())
					add(Case{Msg: cat(fieldHdr(14, f.ID), []byte{e}, be32(L), few), Pos: "set-count", L: L})
					for _, m := range mismatches(e) {
						add(Case{Msg: cat(fieldHdr(14, f.ID), []byte{m}, be32(L), few), Pos: "set-count-of-" + wm.Kind(m).String(), L: L})
					}
				case *compile.MapSpec:
					k, v := byte(compile.RootTypeSpec(r.KeySpec).TypeCode()), byte(compile.RootTypeSpec(r.ValueSpec).TypeCode())
					add(Case{Msg: cat(fieldHdr(13, f.ID), []byte{k, v}, be32(L), few), Pos: "map-count", L: L})
					k2, v2 := mismatches(k)[0], mismatches(v)[1]
					for _, kv := range [][2]byte{{k2, v}, {k, v2}, {k2, v2}} {
						add(Case{Msg: cat(fieldHdr(13, f.ID), []byte{kv[0], kv[1]}, be32(L), few), Pos: "map-count-of-" + wm.Kind(kv[0]).String() + "," + wm.Kind(kv[1]).String(), L: L})
					}
				case *compile.StringSpec, *compile.BinarySpec:
					add(Case{Msg: cat(fieldHdr(11, f.ID), be32(L), []byte("abcd")), Pos: "binary-length", L: L})
				}
			}
			switch root.(type) {
			case *compile.StringSpec, *compile.BinarySpec:
				for _, L := range longDeclared {
					for _, np := range longPayloads {
						h := cat(fieldHdr(11, f.ID), be32(L))
						add(Case{Msg: h, Pos: "long-binary", L: L, PadAt: len(h), PadN: np, PadFill: 'x'})
					}
				}
			}
		}
	}
	return cases
}

// mismatches returns four element type codes other than e: fixed-width ones
// (i64, bool, i32, i8) and binary.
func mismatches(e byte) []byte {
	var out []byte
	for _, m := range []byte{byte(wm.KI64), byte(wm.KBool), byte(wm.KI32), byte(wm.KBinary), byte(wm.KI8)} {
		if m != e && len(out) < 4 {
			out = append(out, m)
		}
	}
	return out
}

func shardOf(cases []Case) []Case {
	shard, _ := strconv.Atoi(os.Getenv("VERIF_SHARD"))
	n, _ := strconv.Atoi(os.Getenv("VERIF_NSHARDS"))
	if n <= 1 {
		return cases
	}
	var out []Case
	for i, c := range cases {
		if i%n == shard {
			out = append(out, c)
		}
	}
	return out
}

// TestGrid: the complete systematic grid (every length position x hostile
// value x API).
func TestGrid(t *testing.T) {
	all := gridCases()
	done := evaluate(t, "grid", shardOf(all))
	ev.Exhaustive(fmt.Sprintf("length-position grid: (%d positions x %d hostile values on short messages + %d binary-length positions x %d declared lengths x %d real payloads just above 1 MiB) x APIs x concrete source types (%d stream, %d random-access) = %d cases", len(structBodies(1))+3, len(hostile), len(longBodies(1))+3, len(longDeclared), len(longPayloads), len(gridStreamSrcs), len(gridAtSrcs), len(all)), done)
}

// TestGenGrid: every container/binary field of the generated plugin API types.
func TestGenGrid(t *testing.T) {
	all := genCases(t)
	done := evaluate(t, "gen-grid", shardOf(all))
	ev.Exhaustive(fmt.Sprintf("plugin/api generated types: every container or binary field x %d hostile values (containers also announcing up to 4 other element types) + long payloads for every string / binary field, x {FromWire,Decode} x concrete source types = %d cases", len(hostile), len(all)), done)
}

// TestMutated: random short messages from the mutation engine, all APIs.
func TestMutated(t *testing.T) {
	var typeNames []string
	for n := range apiTypes {
		typeNames = append(typeNames, n)
	}
	sort.Strings(typeNames)
	var batch []Case
	rapid.Check(t, func(t *rapid.T) {
		w := wm.Gen(t, wm.KStruct, wm.GenOpts{MaxDepth: 3, MaxLen: 3}, "w")
		msg, _ := mutate.Mutate(t, w, "mut")
		if len(msg) > 96 {
			msg = msg[:96]
		}
		var a string
		switch rapid.IntRange(0, 3).Draw(t, "api_class") {
		case 0:
			a = rapid.SampledFrom([]string{"gen/FromWire/", "gen/Decode/"}).Draw(t, "gen_api") + rapid.SampledFrom(typeNames).Draw(t, "gen_type")
		case 1:
			a = rapid.SampledFrom([]string{"envelope/DecodeEnveloped", "envelope/ReadEnvelopeBegin", "frame/Read"}).Draw(t, "env_api")
			if rapid.Bool().Draw(t, "wrap") {
				msg = refcodec.EncodeStrict(refcodec.Envelope{Name: []byte("m"), Type: 1, SeqID: 1, Body: wm.Struct()})
				msg = append(msg[:len(msg)-1], msgTail(msg, w)...)
			}
		default:
			a = rapid.SampledFrom(plainAPIs).Draw(t, "api")
		}
		srcs := allAtSrcs
		if isStreamAPI(a) {
			srcs = allStreamSrcs
		}
		batch = append(batch, Case{API: a, Msg: msg, Pos: "mutated", Src: rapid.SampledFrom(srcs).Draw(t, "src")})
	})
	// rapid only generated the inputs; they are measured in child processes here
	evaluate(t, "mutated", batch)
}

func msgTail(_ []byte, w wm.W) []byte { return refcodec.Encode(w) }

func replayOne(t *testing.T, f *ev.Failure) bool {
	var c Case
	if err := json.Unmarshal(f.Case, &c); err != nil {
		t.Fatal(err)
	}
	res, err := measure([]Case{c}, scratchDir(t))
	if err != nil {
		t.Fatalf("environment: %v", err)
	}
	ev.Report(t, f.Unit, c, verdict(c, res[0]))
	return true
}

func TestReplay(t *testing.T)  { ev.RunReplay(t, replayOne) }
func TestRegress(t *testing.T) { ev.RunRegress(t, replayOne) }
