//go:build verif

// C14 (wire half): wire.ValuesAreEqual agrees with an independent structural
// comparison on pairs of arbitrary wire values. The generated-code half runs
// inside labs (harness/drv).
package c14

import (
	"encoding/json"
	"testing"

	"go.uber.org/thriftrw/wire"
	"pgregory.net/rapid"
	"verif/internal/bridge"
	"verif/internal/ev"
	"verif/internal/refcodec"
	wm "verif/internal/wiremodel"
)

func TestMain(m *testing.M) { ev.Main(m, "C14") }

// Case is a pair of wire values.
type Case struct {
	A wm.W `json:"a"`
	B wm.W `json:"b"`
}

func check(c Case) error {
	want := wm.SemEqual(c.A, c.B)
	for _, p := range [][2]wm.W{{c.A, c.B}, {c.B, c.A}} {
		got := wire.ValuesAreEqual(bridge.ToWire(p[0]), bridge.ToWire(p[1]))
		if got != want {
			return ev.Errf("wire-equality/"+c.A.K.String(), "wire.ValuesAreEqual = %v, structural comparison = %v\na = %s\nb = %s", got, want, wm.Render(p[0]), wm.Render(p[1]))
		}
	}
	if !wire.ValuesAreEqual(bridge.ToWire(c.A), bridge.ToWire(c.A)) {
		return ev.Errf("wire-equality/reflexive", "a value is not equal to itself: %s", wm.Render(c.A))
	}
	return nil
}

// related derives b from a: identical, permuted, or perturbed at a random node.
func related(t *rapid.T, a wm.W) (wm.W, string) {
	switch rapid.IntRange(0, 3).Draw(t, "relation") {
	case 0:
		return a, "identical"
	case 1:
		return permute(t, a), "permuted"
	case 2:
		if b := perturb(t, a); wm.DupFree(b) {
			return b, "perturbed"
		}
		// the perturbation made two set elements / map keys equal: outside the property's domain
	}
	return wm.Gen(t, a.K, wm.GenOpts{NoNaN: true, SetLike: true, MaxDepth: 3, MaxLen: 4}, "b"), "independent"
}

func permute(t *rapid.T, w wm.W) wm.W {
	out := w
	switch w.K {
	case wm.KStruct:
		out.Fields = make([]wm.Field, len(w.Fields))
		for i, f := range w.Fields {
			out.Fields[i] = wm.Field{ID: f.ID, V: permute(t, f.V)}
		}
		if len(out.Fields) > 1 {
			out.Fields = rapid.Permutation(out.Fields).Draw(t, "pf")
		}
	case wm.KList:
		out.Elems = make([]wm.W, len(w.Elems))
		for i, e := range w.Elems {
			out.Elems[i] = permute(t, e)
		}
	case wm.KSet:
		out.Elems = make([]wm.W, len(w.Elems))
		for i, e := range w.Elems {
			out.Elems[i] = permute(t, e)
		}
		if len(out.Elems) > 1 {
			out.Elems = rapid.Permutation(out.Elems).Draw(t, "ps")
		}
	case wm.KMap:
		out.Pairs = make([]wm.Pair, len(w.Pairs))
		for i, p := range w.Pairs {
			out.Pairs[i] = wm.Pair{K: permute(t, p.K), V: permute(t, p.V)}
		}
		if len(out.Pairs) > 1 {
			out.Pairs = rapid.Permutation(out.Pairs).Draw(t, "pm")
		}
	}
	return out
}

// perturb changes one node: a leaf, a length, a list order, a field id.
func perturb(t *rapid.T, w wm.W) wm.W {
	out := w
	children := len(w.Fields) + len(w.Elems) + len(w.Pairs)
	if children > 0 && rapid.IntRange(0, 2).Draw(t, "descend") != 0 {
		i := rapid.IntRange(0, children-1).Draw(t, "child")
		switch {
		case i < len(w.Fields):
			out.Fields = append([]wm.Field{}, w.Fields...)
			out.Fields[i] = wm.Field{ID: w.Fields[i].ID, V: perturb(t, w.Fields[i].V)}
		case i < len(w.Fields)+len(w.Elems):
			j := i - len(w.Fields)
			out.Elems = append([]wm.W{}, w.Elems...)
			out.Elems[j] = perturb(t, w.Elems[j])
		default:
			j := i - len(w.Fields) - len(w.Elems)
			out.Pairs = append([]wm.Pair{}, w.Pairs...)
			out.Pairs[j] = wm.Pair{K: w.Pairs[j].K, V: perturb(t, w.Pairs[j].V)}
		}
		return out
	}
	switch w.K {
	case wm.KBool:
		out.B = !w.B
	case wm.KI8, wm.KI16, wm.KI32, wm.KI64:
		if w.I == 0 {
			out.I = 1
		} else {
			out.I = 0
		}
	case wm.KDouble:
		switch {
		case w.F == 0 || w.F == 0x8000000000000000:
			out.F = w.F ^ 0x8000000000000000 // +0 <-> -0: equal values, different bits
		case w.F == 0x4010000000000000:
			out.F = 0
		default:
			out.F = 0x4010000000000000
		}
	case wm.KBinary:
		out.Bin = append(append([]byte{}, w.Bin...), 1)
	case wm.KStruct:
		if len(w.Fields) > 0 && rapid.Bool().Draw(t, "dropfield") {
			out.Fields = append([]wm.Field{}, w.Fields[1:]...)
		} else {
			out.Fields = append(append([]wm.Field{}, w.Fields...), wm.Field{ID: 31999, V: wm.Bool(true)})
		}
	case wm.KList, wm.KSet:
		if len(w.Elems) >= 2 && w.K == wm.KList && rapid.Bool().Draw(t, "swap") {
			out.Elems = append([]wm.W{}, w.Elems...)
			out.Elems[0], out.Elems[len(out.Elems)-1] = out.Elems[len(out.Elems)-1], out.Elems[0]
		} else if len(w.Elems) > 0 {
			out.Elems = append([]wm.W{}, w.Elems[1:]...)
		} else {
			out.EK = wm.KBool
			if w.EK == wm.KBool {
				out.EK = wm.KI8
			}
		}
	case wm.KMap:
		if len(w.Pairs) > 0 && w.KK < wm.KStruct && rapid.Bool().Draw(t, "rekey") {
			// same value under another key
			out.Pairs = append([]wm.Pair{}, w.Pairs...)
			out.Pairs[0] = wm.Pair{K: perturb(t, w.Pairs[0].K), V: w.Pairs[0].V}
		} else if len(w.Pairs) > 0 {
			out.Pairs = append([]wm.Pair{}, w.Pairs[1:]...)
		} else {
			out.VK = wm.KBool
			if w.VK == wm.KBool {
				out.VK = wm.KI8
			}
		}
	}
	return out
}

func unordered(w wm.W) bool {
	if (w.K == wm.KSet && len(w.Elems) >= 2) || (w.K == wm.KMap && len(w.Pairs) >= 2) {
		return true
	}
	for _, f := range w.Fields {
		if unordered(f.V) {
			return true
		}
	}
	for _, e := range w.Elems {
		if unordered(e) {
			return true
		}
	}
	for _, p := range w.Pairs {
		if unordered(p.V) || unordered(p.K) {
			return true
		}
	}
	return false
}

// TestWirePairs: pairs of arbitrary NaN-free duplicate-free wire values.
func TestWirePairs(t *testing.T) {
	rapid.Check(t, func(t *rapid.T) {
		k := wm.GenRootKind().Draw(t, "kind")
		a := wm.Gen(t, k, wm.GenOpts{NoNaN: true, SetLike: true, MaxDepth: rapid.IntRange(1, 4).Draw(t, "depth"), MaxLen: 5}, "a")
		b, rel := related(t, a)
		c := Case{A: a, B: b}
		d := ev.Digest(refcodec.Encode(a), refcodec.Encode(b), []byte{byte(a.K), byte(b.K)})
		nontriv := unordered(a) || rel == "perturbed" && wm.Depth(a) > 1
		ev.Case(d, nontriv, "unit:wire-pairs", "relation:"+rel, "kind:"+k.String(), "equal:"+map[bool]string{true: "yes", false: "no"}[wm.SemEqual(a, b)])
		if nontriv {
			ev.KeepSample("wire-pairs", d, func() interface{} {
				return map[string]interface{}{"a": wm.Render(a), "b": wm.Render(b), "relation": rel}
			})
		}
		ev.Report(t, "wire-pairs", c, ev.Guard(func() error { return check(c) }))
	})
}

func replayOne(t *testing.T, f *ev.Failure) bool {
	if f.Unit != "wire-pairs" {
		return false
	}
	var c Case
	if err := json.Unmarshal(f.Case, &c); err != nil {
		t.Fatal(err)
	}
	ev.Report(t, f.Unit, c, ev.Guard(func() error { return check(c) }))
	return true
}

func TestReplay(t *testing.T)  { ev.RunReplay(t, replayOne) }
func TestRegress(t *testing.T) { ev.RunRegress(t, replayOne) }
