// C16: Plugin protocol: handshake gates generation; every plugin is shut down.
//
// Black-box: the real thriftrw binary is run against 1-3 scripted fake
// plugins (verif/harness/fakeplugin, protocol spoken with refcodec); the
// oracle checks the per-plugin event histories and the host's exit status /
// stderr. The library side (plugin.Main) is in lib_test.go.
package c16

import (
	"encoding/json"
	"fmt"
	"os"
	"path/filepath"
	"sort"
	"strconv"
	"strings"
	"testing"
	"time"

	"pgregory.net/rapid"
	"verif/harness/fplab"
	"verif/internal/bins"
	"verif/internal/ev"
)

func TestMain(m *testing.M) { ev.Main(m, "C16") }

// thriftSrc is the (valid) input of every host run: one struct, one service.
const thriftSrc = `struct Req { 1: optional string q }
service Svc { void ping(1: Req r) }
`

// Plugin names are chosen so that none is a substring of another, of the
// sandbox paths or of any thriftrw message.
var pluginNames = []string{"zqalfa", "zqbravo", "zqcarol"}

// Case is one host run: the scripts of 1-3 plugins.
type Case struct {
	Src     string         `json:"src"` // which unit/grid row built it
	Thrift  string         `json:"thrift"`
	Plugins []fplab.Plugin `json:"plugins"`
	// CLI is the variation of the rest of the command line ("" = the plain
	// one); Arg is its parameter.
	CLI string `json:"cli,omitempty"`
	Arg string `json:"arg,omitempty"`
	// CLIAfter: the variation's flag follows the --plugin flags instead of
	// preceding them
	CLIAfter bool `json:"cli_after,omitempty"`
}

// Variations of the command line around the --plugin flags. Those listed in
// cliFails make (or may make) the run fail for a reason that has nothing to do
// with the plugins - before they are started (argument validation, missing or
// invalid input, thrift root, package prefix), or after (code generation of
// the module fails, the output directory cannot be written). The statement's
// life-cycle clauses hold for such runs too: a plugin is either never started,
// or it is shut down (goodbye after a good handshake, pipes closed, reaped)
// before thriftrw returns. Whether thriftrw fails is not C16's business there.
const (
	cliOutputFile      = "output-file"        // --output-file=<Arg ending in .go>: a normal run
	cliHarmlessFlag    = "harmless-flag"      // a generator option that does not concern plugins (Arg): a normal run
	cliOutputFileNotGo = "output-file-not-go" // --output-file=<Arg not ending in .go>
	cliNoInput         = "no-input-file"
	cliTwoInputs       = "two-input-files"
	cliUnknownFlag     = "unknown-flag"
	cliInputMissing    = "input-file-missing"
	cliCompileError    = "compile-error" // the Thrift file does not compile
	cliRootNotAncestor = "thrift-root-not-an-ancestor"
	cliNoPkgPrefix     = "no-pkg-prefix" // no --pkg-prefix and no GOPATH
	cliPluginNotFound  = "plugin-not-found"
	cliVersion         = "version"
	cliHelp            = "help"
	cliGenerateError   = "generate-error" // compiles, but two types map to one Go name
	cliOutIsFile       = "out-is-a-file"  // --out names an existing regular file
)

var cliFails = []string{cliOutputFileNotGo, cliNoInput, cliTwoInputs, cliUnknownFlag, cliInputMissing, cliCompileError,
	cliRootNotAncestor, cliNoPkgPrefix, cliPluginNotFound, cliVersion, cliHelp, cliGenerateError, cliOutIsFile}

var (
	notGoNames    = []string{"svc.txt", "svc", "svc.go.bak", "svc.GO", "svc.go/", "go"}
	goNames       = []string{"svc.go", "x.go", "all.thrift.go"}
	harmlessFlags = []string{"--no-zap", "--no-embed-idl", "--no-recurse", "--no-constants", "--no-service-helpers", "--no-version-check", "--enum-text-marshal-strict"}
)

// cliMayFail reports whether the variation lets the run fail for reasons of
// its own.
func cliMayFail(cli string) bool {
	for _, k := range cliFails {
		if k == cli {
			return true
		}
	}
	return false
}

// withCLI returns the case with the variation applied (the Thrift source is
// part of the case).
func withCLI(c Case, cli, arg string, after bool) Case {
	c.CLI, c.Arg, c.CLIAfter = cli, arg, after
	switch cli {
	case cliCompileError:
		c.Thrift = thriftSrc + "struct Broken { 1: optional NoSuchType x }\n"
	case cliGenerateError:
		c.Thrift = thriftSrc + "struct foo_bar { 1: optional string a }\nstruct FooBar { 1: optional string a }\n"
	}
	return c
}

// ---------------------------------------------------------------- running

func scratch() string {
	if d := os.Getenv("VERIF_SCRATCH"); d != "" {
		return d
	}
	return os.TempDir()
}

func shard() (int, int) {
	s, _ := strconv.Atoi(os.Getenv("VERIF_SHARD"))
	n, _ := strconv.Atoi(os.Getenv("VERIF_NSHARDS"))
	if n < 1 {
		n = 1
	}
	if s < 0 || s >= n {
		s = 0
	}
	return s, n
}

func runOnce(c Case) (*fplab.Obs, error) {
	thriftrw, err := bins.Path("thriftrw", "go.uber.org/thriftrw")
	if err != nil {
		return nil, err
	}
	fake, err := bins.Path("fakeplugin", "verif/harness/fakeplugin")
	if err != nil {
		return nil, err
	}
	work, err := os.MkdirTemp(scratch(), "c16-")
	if err != nil {
		return nil, err
	}
	defer os.RemoveAll(work)
	idl := filepath.Join(work, "idl")
	if err := os.MkdirAll(idl, 0o755); err != nil {
		return nil, err
	}
	if err := os.WriteFile(filepath.Join(idl, "svc.thrift"), []byte(c.Thrift), 0o644); err != nil {
		return nil, err
	}
	out, root, input := filepath.Join(work, "out"), idl, filepath.Join(idl, "svc.thrift")
	var extra []string
	switch c.CLI {
	case cliOutputFile, cliOutputFileNotGo:
		extra = []string{"--output-file=" + c.Arg}
	case cliHarmlessFlag:
		extra = []string{c.Arg}
	case cliUnknownFlag:
		extra = []string{"--no-such-flag"}
	case cliVersion:
		extra = []string{"--version"}
	case cliHelp:
		extra = []string{"--help"}
	case cliInputMissing:
		input = filepath.Join(idl, "nosuch.thrift")
	case cliRootNotAncestor:
		root = filepath.Join(work, "elsewhere")
		if err := os.MkdirAll(root, 0o755); err != nil {
			return nil, err
		}
	case cliOutIsFile:
		if err := os.WriteFile(out, []byte("in the way\n"), 0o644); err != nil {
			return nil, err
		}
	}
	args := []string{"--out", out, "--thrift-root", root}
	if c.CLI != cliNoPkgPrefix {
		args = append(args, "--pkg-prefix", "example.test/gen")
	}
	pargs := fplab.PluginArgs(c.Plugins)
	if c.CLI == cliPluginNotFound {
		// Arg = position of the flag naming a plugin that is not on the PATH
		at, _ := strconv.Atoi(c.Arg)
		if at < 0 || at > len(pargs) {
			at = len(pargs)
		}
		pargs = append(pargs[:at:at], append([]string{"--plugin=zqnosuch"}, pargs[at:]...)...)
	}
	if !c.CLIAfter {
		args = append(append(args, extra...), pargs...)
	} else {
		args = append(append(args, pargs...), extra...)
	}
	switch c.CLI {
	case cliNoInput:
	case cliTwoInputs:
		args = append(args, input, input)
	default:
		args = append(args, input)
	}
	return fplab.Run{Thriftrw: thriftrw, Fakeplugin: fake, Work: work, Dir: work, Args: args, Plugins: c.Plugins, Timeout: hostTimeout}.Do()
}

// envError marks harness problems (not verdicts).
type envError struct{ err error }

func (e envError) Error() string { return "environment: " + e.err.Error() }

// checkCase runs the host (once more if it hit the 60 s ceiling) and judges
// the observation.
// hostTimeout is the wall-clock ceiling of one thriftrw run: 60 s, and 240 s for the retry that
// decides whether a run that hit the ceiling counts as a hang (the machine may be busy).
var hostTimeout = 60 * time.Second

func checkCase(c Case) (*fplab.Obs, error) {
	o, err := runOnce(c)
	if err != nil {
		return nil, envError{err}
	}
	if o.TimedOut && o.Quiescent {
		// blocked for good, not slow: no second, longer run is needed to tell
		return o, ev.Errf("host/hang", "thriftrw did not finish: after %.0f s nothing moved any more (every thread of the host and of its plugins asleep for 5 s, no CPU time used, no new event): %s; plugins: %s; traces: %s", o.Wall.Seconds(), o.Blocked, describe(c), traces(c, o))
	}
	if o.TimedOut {
		hostTimeout = 240 * time.Second
		o, err = runOnce(c)
		hostTimeout = 60 * time.Second
		if err != nil {
			return nil, envError{err}
		}
		if o.TimedOut {
			return o, ev.Errf("host/hang", "thriftrw did not finish within 60 s, nor within 240 s when run again; plugins: %s", describe(c))
		}
	}
	return o, judge(c, o)
}

// ---------------------------------------------------------------- oracle

func clipS(s string, n int) string {
	if len(s) > n {
		return s[:n] + "…"
	}
	return s
}

func describe(c Case) string {
	var parts []string
	for _, p := range c.Plugins {
		hs, gen, bye := p.Script.Kinds()
		s := fmt.Sprintf("%s[hs=%s gen=%s bye=%s", p.ID(), hs, gen, bye)
		if p.Script.Handshake.FeatureList {
			s += fmt.Sprintf(" features=%v", p.Script.Handshake.Features)
		}
		if p.Script.ExitStatus != 0 {
			s += fmt.Sprintf(" exit=%d", p.Script.ExitStatus)
		}
		if p.Script.LingerMs != 0 {
			s += fmt.Sprintf(" linger=%dms", p.Script.LingerMs)
		}
		for _, step := range fplab.Steps {
			if st := p.Script.StepOf(step); fplab.Normalize(step, st.Kind) == fplab.KFlood || st.FloodsAfter(step) {
				s += fmt.Sprintf(" %s-flood=%d/%s", step, st.Flood, st.FloodPat)
			}
		}
		parts = append(parts, s+"]")
	}
	if c.CLI != "" {
		parts = append(parts, fmt.Sprintf("cli[%s %q after-plugins=%v]", c.CLI, c.Arg, c.CLIAfter))
	}
	return strings.Join(parts, " ")
}

func traces(c Case, o *fplab.Obs) string {
	var trs []string
	for _, p := range c.Plugins {
		trs = append(trs, p.ID()+": "+trace(fplab.Of(o.Events, p.ID())))
	}
	return strings.Join(trs, " | ")
}

func trace(evs []fplab.Event) string {
	var parts []string
	for _, e := range evs {
		s := e.Ev
		switch e.Ev {
		case fplab.EvRequest, fplab.EvBadRequest:
			s += "(" + e.Method + ")"
		case fplab.EvFault:
			s += "(" + e.Step + ":" + e.Kind + ")"
		case fplab.EvExit:
			s += fmt.Sprintf("(%d)", e.Status)
		}
		parts = append(parts, s)
	}
	return strings.Join(parts, " ")
}

// judge is the history-checking oracle.
func judge(c Case, o *fplab.Obs) error {
	if o.Signal != "" || strings.Contains(o.Stderr, "panic:") || strings.Contains(o.Stderr, "goroutine 1 [") {
		return ev.Errf("host/crash", "thriftrw crashed (signal %q): %s", o.Signal, clipS(o.Stderr, 1500))
	}
	pred := fplab.Predict(c.Plugins)
	survivors := map[int]bool{}
	for _, pid := range o.Survivors {
		survivors[pid] = true
	}
	type failure struct {
		idx   int
		what  string
		phase string
	}
	var failed []failure
	// ambiguous: some plugin did what the statement neither counts as a
	// failure nor as conforming (junk after the goodbye reply)
	ambiguous := false

	for i, p := range c.Plugins {
		evs := fplab.Of(o.Events, p.ID())
		if len(evs) == 0 {
			continue // never started: nothing to shut down
		}
		tr := trace(evs)
		// --- automaton: start (handshake (generate)* goodbye?)? eof? exit
		var (
			started, handshook, goodbye, eof, exited bool
			ngen, nbye                               int
			pid                                      int
			exitSeq                                  = -1
		)
		for _, e := range evs {
			if exited {
				return ev.Errf("trace/event-after-exit", "plugin %s: %s", p.Name, tr)
			}
			switch e.Ev {
			case fplab.EvStart:
				if started {
					return ev.Errf("trace/started-twice", "plugin %s was started more than once: %s", p.Name, tr)
				}
				started, pid = true, e.Pid
			case fplab.EvBadRequest:
				if strings.HasPrefix(e.Detail, "partial frame") {
					return ev.Errf("trace/partial-request-frame", "plugin %s received an incomplete frame from the host (%s): %s", p.Name, e.Detail, tr)
				}
				return ev.Errf("trace/malformed-request", "plugin %s received a request that is not a strict Call envelope of a known method (%s %s): %s", p.Name, e.Method, e.Detail, tr)
			case fplab.EvRequest:
				if eof {
					return ev.Errf("trace/request-after-eof", "plugin %s: %s", p.Name, tr)
				}
				switch e.Step {
				case fplab.StepHandshake:
					if handshook || ngen > 0 || goodbye {
						return ev.Errf("trace/handshake-not-first", "plugin %s got a handshake that is not the first request: %s", p.Name, tr)
					}
					handshook = true
				case fplab.StepGenerate:
					if !handshook {
						return ev.Errf("trace/generate-before-handshake", "plugin %s got generate before any handshake: %s", p.Name, tr)
					}
					if goodbye {
						return ev.Errf("trace/request-after-goodbye", "plugin %s got generate after goodbye: %s", p.Name, tr)
					}
					ngen++
				case fplab.StepGoodbye:
					if !handshook {
						return ev.Errf("trace/goodbye-before-handshake", "plugin %s got goodbye before any handshake: %s", p.Name, tr)
					}
					if goodbye {
						return ev.Errf("goodbye/repeated", "plugin %s got more than one goodbye: %s", p.Name, tr)
					}
					goodbye = true
					nbye++
				}
			case fplab.EvFault:
				if fplab.Ambiguous(e.Step, e.Kind) {
					ambiguous = true
				} else if fplab.IsFailure(e.Step, e.Kind) {
					failed = append(failed, failure{i, e.Step + ":" + e.Kind, pred.FailPhase[i]})
				}
			case fplab.EvEOF:
				eof = true
			case fplab.EvExit:
				exited, exitSeq = true, e.Seq
				if e.Status != 0 {
					failed = append(failed, failure{i, fmt.Sprintf("exit status %d", e.Status), pred.FailPhase[i]})
				}
			}
		}
		if !started {
			return ev.Errf("trace/no-start", "plugin %s: %s", p.Name, tr)
		}
		// --- gate: generate only after a conforming handshake that advertised the feature
		if ngen > 0 && !p.Advertises() {
			hs, _, _ := p.Script.Kinds()
			if p.Conforms() && hs != fplab.KNoFeature {
				return ev.Errf("gate/generate-without-service-generator-feature", "plugin %s advertised the features %v (SERVICE_GENERATOR = %d is not among them) and still received generate: %s", p.Name, p.Script.Handshake.Features, fplab.FeatureServiceGenerator, tr)
			}
			return ev.Errf("gate/generate-after-"+hs+"-handshake", "plugin %s answered the handshake with %q and still received generate: %s", p.Name, hs, tr)
		}
		// --- reaping: gone, and logged its exit, before the host returned
		if !exited || exitSeq > o.HostExit {
			return ev.Errf("reap/alive-after-host-exit", "plugin %s (pid %d) had not exited when thriftrw returned (linger %d ms): %s", p.Name, pid, p.Script.LingerMs, tr)
		}
		if survivors[pid] {
			return ev.Errf("reap/process-survived", "plugin %s (pid %d) was still a process after thriftrw returned: %s", p.Name, pid, tr)
		}
		// --- goodbye: exactly one at every plugin whose handshake conformed and which kept reading
		if p.Conforms() && eof && nbye != 1 {
			return ev.Errf("goodbye/missing", "plugin %s answered the handshake correctly and read until EOF but never received goodbye: %s", p.Name, tr)
		}
	}

	// --- host exit status != 0 iff some plugin failed; failing plugins are named
	if len(failed) == 0 && o.Exit != 0 && !ambiguous && !cliMayFail(c.CLI) {
		return ev.Errf("host/failed-without-plugin-failure", "no plugin executed a fault, yet thriftrw exited with %d: %s", o.Exit, clipS(o.Stderr, 600))
	}
	sort.SliceStable(failed, func(a, b int) bool { return failed[a].idx < failed[b].idx })
	seen := map[int]bool{}
	for _, f := range failed {
		if seen[f.idx] {
			continue
		}
		seen[f.idx] = true
		phase := f.phase
		if phase == "" {
			phase = "unpredicted"
		}
		name := c.Plugins[f.idx].Name
		if o.Exit == 0 {
			return ev.Errf("host/exit-zero-despite-failure/"+phase, "plugin %s failed (%s) but thriftrw exited with status 0", name, f.what)
		}
		if !strings.Contains(o.Stderr, name) {
			return ev.Errf("host/failure-not-named/"+phase, "plugin %s failed (%s; surfaces in the %s phase); thriftrw exited with %d but its stderr does not name the plugin: %q", name, f.what, phase, o.Exit, clipS(o.Stderr, 400))
		}
	}
	return nil
}

// ---------------------------------------------------------------- bookkeeping

func nontrivial(c Case) bool {
	if len(c.Plugins) >= 2 || c.CLI != "" {
		return true
	}
	for _, p := range c.Plugins {
		hs, gen, bye := p.Script.Kinds()
		if hs != fplab.KOK || gen != fplab.KOK || bye != fplab.KOK || p.Script.ExitStatus != 0 || p.Script.Handshake.FeatureList {
			return true
		}
		for _, step := range fplab.Steps {
			if p.Script.StepOf(step).FloodsAfter(step) {
				return true
			}
		}
	}
	return false
}

func classes(c Case, o *fplab.Obs) []string {
	cls := []string{"unit:" + c.Src, fmt.Sprintf("plugins:%d", len(c.Plugins))}
	for _, p := range c.Plugins {
		if p.Instance != "" {
			cls = append(cls, "further-instance-of-a-plugin")
		}
	}
	if c.CLI != "" {
		cls = append(cls, "cli:"+c.CLI)
		if o != nil {
			started := 0
			for _, e := range o.Events {
				if e.Ev == fplab.EvStart {
					started++
				}
			}
			when := "cli-failure:no-plugin-started"
			switch {
			case !cliMayFail(c.CLI):
				when = "cli-variation:normal-run"
			case started > 0:
				when = "cli-failure:plugins-started"
			}
			cls = append(cls, when)
		}
	}
	pred := fplab.Predict(c.Plugins)
	for i, p := range c.Plugins {
		hs, gen, bye := p.Script.Kinds()
		cls = append(cls, "handshake:"+hs, "generate:"+gen, "goodbye:"+bye)
		if p.Conforms() {
			cls = append(cls, p.FeatureClass())
		}
		for _, st := range []fplab.Step{p.Script.Handshake, p.Script.Generate, p.Script.Goodbye} {
			if st.Write != "" && st.Write != fplab.WWhole {
				cls = append(cls, "write:"+st.Write)
			}
		}
		for _, step := range fplab.Steps {
			st := p.Script.StepOf(step)
			how := ""
			switch {
			case fplab.Normalize(step, st.Kind) == fplab.KFlood:
				how = "instead-of-reply"
			case st.FloodsAfter(step):
				how = "after-" + fplab.Normalize(step, st.Kind) + "-reply"
			default:
				continue
			}
			size := "flood-size:<=pipe-buffer"
			if st.Flood > fplab.PipeBuffer {
				size = "flood-size:>pipe-buffer"
			}
			cls = append(cls, "flood:"+step+":"+how, size, "flood-pattern:"+st.FloodPat)
		}
		if p.Script.ExitStatus != 0 {
			cls = append(cls, "plugin-exit-status:nonzero")
		}
		if p.Script.LingerMs > 0 {
			cls = append(cls, "linger")
		}
		if pred.FailPhase[i] != "" {
			cls = append(cls, "predicted-fail-phase:"+pred.FailPhase[i])
		}
	}
	if o != nil {
		if o.Exit == 0 {
			cls = append(cls, "host:exit-0")
		} else {
			cls = append(cls, "host:exit-nonzero")
		}
		if pred.AnyFailure() != (o.Exit != 0) {
			cls = append(cls, "model-vs-host:disagree")
		}
		ngen := 0
		for _, e := range o.Events {
			if e.Ev == fplab.EvRequest && e.Step == fplab.StepGenerate {
				ngen++
			}
		}
		cls = append(cls, fmt.Sprintf("generate-requests:%d", ngen))
	}
	return cls
}

func runCase(t ev.TB, unit string, c Case) {
	var o *fplab.Obs
	err := ev.Guard(func() error {
		var e error
		o, e = checkCase(c)
		return e
	})
	if ee, ok := err.(envError); ok {
		t.Fatalf("%v", ee)
		return
	}
	d := ev.DigestJSON(struct {
		P        []fplab.Plugin
		CLI, Arg string
		After    bool
	}{c.Plugins, c.CLI, c.Arg, c.CLIAfter})
	if c.CLI == "" {
		d = ev.DigestJSON(c.Plugins)
	}
	nt := nontrivial(c)
	ev.Case(d, nt, classes(c, o)...)
	if nt {
		ev.KeepSample(unit, d, func() interface{} {
			m := map[string]interface{}{"plugins": describe(c)}
			if c.CLI != "" {
				m["cli"] = c.CLI + " " + c.Arg
			}
			if o != nil {
				m["host_exit"] = o.Exit
				m["stderr"] = clipS(o.Stderr, 300)
				var trs []string
				for _, p := range c.Plugins {
					trs = append(trs, p.ID()+": "+trace(fplab.Of(o.Events, p.ID())))
				}
				m["traces"] = trs
			}
			return m
		})
	}
	ev.Report(t, unit, c, err)
}

// ---------------------------------------------------------------- generators

func genWrite(t *rapid.T, st *fplab.Step, label string) {
	switch rapid.IntRange(0, 5).Draw(t, label+"_write") {
	case 0:
		st.Write = fplab.WBytes
		st.DelayUs = rapid.SampledFrom([]int{0, 0, 20, 200}).Draw(t, label+"_delay")
	case 1, 2:
		st.Write = fplab.WSegments
		st.Segs = rapid.SliceOfN(rapid.IntRange(1, 24), 1, 4).Draw(t, label+"_segs")
		st.DelayUs = rapid.SampledFrom([]int{0, 0, 50, 500, 2000}).Draw(t, label+"_delay")
	}
}

func genStep(t *rapid.T, self, step string, st *fplab.Step, faultBias int) {
	label := self + "_" + step
	kind := fplab.KOK
	if rapid.IntRange(0, 9).Draw(t, label+"_faulty") < faultBias {
		kind = rapid.SampledFrom(fplab.KindsOf(step)).Draw(t, label+"_kind")
	}
	genWrite(t, st, label)
	fplab.Fill(self, step, kind, st)
	switch kind {
	case fplab.KWrongName:
		st.Name = rapid.SampledFrom([]string{"", "x", self + "x", "x" + self, strings.ToUpper(self), "somebodyelse", self[:len(self)-1]}).Draw(t, label+"_name")
	case fplab.KWrongAPI:
		st.API = rapid.SampledFrom([]int32{0, 3, 5, -1, 2147483647, -2147483648, 4 << 8, 4 << 24}).Draw(t, label+"_api")
	case fplab.KWrongType:
		st.EnvType = rapid.SampledFrom([]int8{1, 4, 0, 5, 100, -1, -128}).Draw(t, label+"_etype")
	case fplab.KGarbageFrame:
		st.Bytes = rapid.SampledFrom(fplab.GarbagePayloads).Draw(t, label+"_garbage")
	case fplab.KGarbageRaw:
		st.Bytes = rapid.SampledFrom(fplab.GarbageRaw).Draw(t, label+"_raw")
	case fplab.KTruncate:
		st.At = rapid.IntRange(0, fplab.OKFrameLen(self, step, *st)-1).Draw(t, label+"_at")
	case fplab.KOversize:
		n := uint32(fplab.OKFrameLen(self, step, *st) - 4)
		st.Prefix = rapid.SampledFrom([]uint32{n + 1, n + 1000, 10<<20 - 1, 10 << 20, 0x7fffffff, 0x80000000, 0xffffffff}).Draw(t, label+"_prefix")
	case fplab.KException:
		st.Message = rapid.SampledFrom([]string{"", "scripted failure", strings.Repeat("e", 300)}).Draw(t, label+"_msg")
	}
	// junk on stdout: instead of the reply (kind flood), or - one step in
	// eight of a plugin that may fail - right after a complete reply
	if kind == fplab.KFlood || (faultBias > 0 && fplab.RepliesInFull(fplab.Normalize(step, kind)) && rapid.IntRange(0, 7).Draw(t, label+"_floods") == 0) {
		genFlood(t, st, label)
	}
}

func genFlood(t *rapid.T, st *fplab.Step, label string) {
	st.Flood = rapid.SampledFrom(fplab.FloodSizes).Draw(t, label+"_flood")
	st.FloodPat = rapid.SampledFrom(fplab.FloodPats).Draw(t, label+"_flood_pat")
}

func genPlugin(t *rapid.T, name string, faultBias int) fplab.Plugin {
	p := fplab.OKPlugin(name)
	p.Script.Handshake.LibVer = rapid.SampledFrom([]string{"1.34.0", "", "0.0.1", "not-a-version"}).Draw(t, name+"_libver")
	nfiles := rapid.IntRange(0, 2).Draw(t, name+"_nfiles")
	p.Script.Generate.Files = map[string][]byte{}
	for i := 0; i < nfiles; i++ {
		p.Script.Generate.Files[fmt.Sprintf("%s/f%d.txt", name, i)] = rapid.SliceOfN(rapid.Byte(), 0, 40).Draw(t, fmt.Sprintf("%s_file%d", name, i))
	}
	// handshake faults hide everything after them: draw them less often
	genStep(t, name, fplab.StepHandshake, &p.Script.Handshake, (faultBias+1)/2)
	genStep(t, name, fplab.StepGenerate, &p.Script.Generate, faultBias)
	genStep(t, name, fplab.StepGoodbye, &p.Script.Goodbye, faultBias)
	// the advertised feature list: usually [SERVICE_GENERATOR]; otherwise empty,
	// only values unknown to the host, those mixed with SERVICE_GENERATOR,
	// repetitions (none of this is a failure)
	if rapid.IntRange(0, 2).Draw(t, name+"_featurelist") == 0 {
		p.Script.Handshake.FeatureList = true
		if rapid.Bool().Draw(t, name+"_features_table") {
			p.Script.Handshake.Features = rapid.SampledFrom(fplab.FeatureLists).Draw(t, name+"_features")
		} else {
			p.Script.Handshake.Features = rapid.SliceOfN(rapid.SampledFrom([]int32{0, 1, 1, 2, 3, 7, -1, 255, 256, 2147483647, -2147483648}), 0, 4).Draw(t, name+"_features_drawn")
		}
	}
	if faultBias == 0 {
		// healthy plugin: only the deviations that are not failures
		if rapid.IntRange(0, 3).Draw(t, name+"_nofeature") == 0 {
			p.Script.Handshake.Kind = fplab.KNoFeature
		}
		if rapid.IntRange(0, 3).Draw(t, name+"_leaves") == 0 {
			p.Script.Goodbye.Kind = fplab.KExitAfterReply
		}
		// junk after the goodbye reply: the protocol is over, not a failure
		if rapid.IntRange(0, 7).Draw(t, name+"_floods_after_goodbye") == 0 {
			genFlood(t, &p.Script.Goodbye, name+"_goodbye")
		}
	}
	if faultBias > 0 && rapid.IntRange(0, 19).Draw(t, name+"_exit_nz") == 0 {
		p.Script.ExitStatus = rapid.SampledFrom([]int{1, 2, 3, 127, 255}).Draw(t, name+"_exit")
	}
	if rapid.IntRange(0, 3).Draw(t, name+"_lingers") == 0 {
		p.Script.LingerMs = rapid.SampledFrom([]int{1, 20, 150}).Draw(t, name+"_linger")
	}
	return p
}

// genCLI draws a variation of the command line and its parameter.
func genCLI(t *rapid.T, nplugins int) (string, string) {
	var cli string
	switch rapid.IntRange(0, 5).Draw(t, "cli_class") {
	case 0:
		cli = rapid.SampledFrom([]string{cliOutputFile, cliHarmlessFlag}).Draw(t, "cli_normal")
	case 1, 2:
		cli = cliOutputFileNotGo
	default:
		cli = rapid.SampledFrom(cliFails).Draw(t, "cli_failing")
	}
	arg := ""
	switch cli {
	case cliOutputFile:
		arg = rapid.SampledFrom(goNames).Draw(t, "cli_go_name")
	case cliOutputFileNotGo:
		arg = rapid.SampledFrom(notGoNames).Draw(t, "cli_not_go_name")
	case cliHarmlessFlag:
		arg = rapid.SampledFrom(harmlessFlags).Draw(t, "cli_flag")
	case cliPluginNotFound:
		arg = strconv.Itoa(rapid.IntRange(0, nplugins).Draw(t, "cli_missing_plugin_at"))
	}
	return cli, arg
}

// ---------------------------------------------------------------- units

// TestRandomScripts: 1-3 plugins with independently drawn scripts.
func TestRandomScripts(t *testing.T) {
	rapid.Check(t, func(t *rapid.T) {
		n := rapid.SampledFrom([]int{1, 2, 2, 3, 3}).Draw(t, "nplugins")
		// the more plugins, the fewer faults each, so that late phases stay
		// reachable; a quarter of the cases have no failing plugin at all
		bias := []int{0, 4, 2, 2}[n]
		if rapid.IntRange(0, 3).Draw(t, "healthy") == 0 {
			bias = 0
		}
		order := rapid.Permutation(pluginNames).Draw(t, "names")
		c := Case{Src: "random", Thrift: thriftSrc}
		for i := 0; i < n; i++ {
			// one later plugin in four is a further instance of an earlier
			// one: the same executable with other arguments and a script of
			// its own (its files go to a directory of its own: a path
			// conflict is C17's business)
			if i > 0 && rapid.IntRange(0, 3).Draw(t, fmt.Sprintf("plugin%d_is_instance", i)) == 0 {
				name := c.Plugins[rapid.IntRange(0, i-1).Draw(t, fmt.Sprintf("plugin%d_instance_of", i))].Name
				p := genPlugin(t, name, bias)
				p.Instance = fmt.Sprintf("i%d", i+1)
				files := map[string][]byte{}
				for k, v := range p.Script.Generate.Files {
					files[p.Instance+"-"+k] = v
				}
				p.Script.Generate.Files = files
				c.Plugins = append(c.Plugins, p)
				continue
			}
			c.Plugins = append(c.Plugins, genPlugin(t, order[i], bias))
		}
		// a quarter of the runs vary the rest of the command line
		if rapid.IntRange(0, 3).Draw(t, "cli_varied") == 0 {
			cli, arg := genCLI(t, n)
			c = withCLI(c, cli, arg, rapid.Bool().Draw(t, "cli_after_plugins"))
		}
		runCase(t, "random", c)
	})
}

// gridRun walks cases, keeping those of this shard.
func gridRun(t *testing.T, unit string, cases []Case) int {
	s, n := shard()
	ran := 0
	for i, c := range cases {
		if i%n != s {
			continue
		}
		runCase(t, unit, c)
		ran++
	}
	return ran
}

// TestTruncationGrid: the reply frame of each of the three steps cut after
// every byte offset 0..len-1 (then the plugin exits), one plugin.
func TestTruncationGrid(t *testing.T) {
	var cases []Case
	lens := map[string]int{}
	for _, step := range fplab.Steps {
		p := fplab.OKPlugin(pluginNames[0])
		l := fplab.OKFrameLen(p.Name, step, *p.Script.StepOf(step))
		lens[step] = l
		for at := 0; at < l; at++ {
			q := fplab.OKPlugin(pluginNames[0])
			st := q.Script.StepOf(step)
			st.Kind, st.At = fplab.KTruncate, at
			cases = append(cases, Case{Src: "truncation-grid", Thrift: thriftSrc, Plugins: []fplab.Plugin{q}})
		}
	}
	ran := gridRun(t, "truncation-grid", cases)
	ev.Exhaustive(fmt.Sprintf("truncation-grid(handshake reply frame cut at each of %d offsets, generate reply at each of %d, goodbye reply at each of %d; 1 plugin)", lens[fplab.StepHandshake], lens[fplab.StepGenerate], lens[fplab.StepGoodbye]), true)
	ev.Note("truncation-grid", fmt.Sprintf("%d cases in total, %d in this shard", len(cases), ran))
}

// faultRows enumerates every (step, kind) with representative parameters,
// plus the non-failure variations (write modes, linger, exit status).
func faultRows(name string) []fplab.Plugin {
	var rows []fplab.Plugin
	for _, step := range fplab.Steps {
		for _, kind := range fplab.KindsOf(step) {
			p := fplab.OKPlugin(name)
			fplab.Fill(name, step, kind, p.Script.StepOf(step))
			rows = append(rows, p)
		}
		for _, w := range []string{fplab.WBytes, fplab.WSegments} {
			p := fplab.OKPlugin(name)
			st := p.Script.StepOf(step)
			st.Write, st.Segs, st.DelayUs = w, []int{3, 1, 7}, 100
			rows = append(rows, p)
		}
		// a conforming reply followed by more junk than a pipe holds: empty
		// frames the host reads four bytes at a time, and a prefix that makes
		// the host read all of it
		for _, pat := range []string{fplab.FloodZero, fplab.FloodText} {
			p := fplab.OKPlugin(name)
			st := p.Script.StepOf(step)
			st.Flood, st.FloodPat = 4*fplab.PipeBuffer, pat
			rows = append(rows, p)
		}
	}
	// a handshake the host rejects / that does not advertise the feature, with
	// junk pending behind it; junk that fits into the pipe
	for _, kind := range []string{fplab.KWrongName, fplab.KNoFeature} {
		p := fplab.OKPlugin(name)
		fplab.Fill(name, fplab.StepHandshake, kind, &p.Script.Handshake)
		p.Script.Handshake.Flood, p.Script.Handshake.FloodPat = 4*fplab.PipeBuffer, fplab.FloodZero
		rows = append(rows, p)
	}
	{
		p := fplab.OKPlugin(name)
		p.Script.Generate.Flood, p.Script.Generate.FloodPat = 4096, fplab.FloodZero
		rows = append(rows, p)
	}
	for _, fl := range fplab.FeatureLists {
		p := fplab.OKPlugin(name)
		p.Script.Handshake.FeatureList, p.Script.Handshake.Features = true, fl
		rows = append(rows, p)
	}
	p := fplab.OKPlugin(name)
	p.Script.ExitStatus = 3
	rows = append(rows, p)
	p = fplab.OKPlugin(name)
	p.Script.LingerMs = 150
	rows = append(rows, p)
	return rows
}

// TestFaultGrid: every fault kind x step, for a plugin alone and next to a
// healthy plugin (listed before and after it).
func TestFaultGrid(t *testing.T) {
	var cases []Case
	rows := faultRows(pluginNames[0])
	for _, p := range rows {
		cases = append(cases, Case{Src: "fault-grid", Thrift: thriftSrc, Plugins: []fplab.Plugin{p}})
		healthy := fplab.OKPlugin(pluginNames[1])
		healthy.Script.LingerMs = 30
		cases = append(cases, Case{Src: "fault-grid", Thrift: thriftSrc, Plugins: []fplab.Plugin{p, healthy}})
		cases = append(cases, Case{Src: "fault-grid", Thrift: thriftSrc, Plugins: []fplab.Plugin{healthy, p}})
	}
	ran := gridRun(t, "fault-grid", cases)
	ev.Exhaustive(fmt.Sprintf("fault-grid(%d rows = every fault kind x step + write modes + advertised feature lists (empty / only unknown values / unknown next to SERVICE_GENERATOR / repeated) + exit status + linger; alone / before / after a healthy plugin)", len(rows)), true)
	ev.Note("fault-grid", fmt.Sprintf("%d cases in total, %d in this shard", len(cases), ran))
}

// cliRows are the command-line variations with representative parameters.
func cliRows() [][2]string {
	rows := [][2]string{{cliOutputFile, "svc.go"}, {cliPluginNotFound, "0"}, {cliPluginNotFound, "9"}}
	for _, n := range notGoNames {
		rows = append(rows, [2]string{cliOutputFileNotGo, n})
	}
	for _, f := range harmlessFlags {
		rows = append(rows, [2]string{cliHarmlessFlag, f})
	}
	for _, k := range cliFails {
		if k != cliOutputFileNotGo && k != cliPluginNotFound {
			rows = append(rows, [2]string{k, ""})
		}
	}
	return rows
}

// TestCLIGrid: every variation of the rest of the command line (valid and
// invalid --output-file values, the other argument validations, inputs that
// do not compile / do not generate, an output dir that cannot be written) x
// plugin sets: one healthy plugin, two, a healthy one next to one whose
// handshake is rejected, one that lingers, one that fails in generate.
func TestCLIGrid(t *testing.T) {
	var sets [][]fplab.Plugin
	a, b := fplab.OKPlugin(pluginNames[0]), fplab.OKPlugin(pluginNames[1])
	sets = append(sets, []fplab.Plugin{a}, []fplab.Plugin{a, b})
	bad := fplab.OKPlugin(pluginNames[1])
	fplab.Fill(bad.Name, fplab.StepHandshake, fplab.KWrongAPI, &bad.Script.Handshake)
	sets = append(sets, []fplab.Plugin{a, bad})
	slow := fplab.OKPlugin(pluginNames[2])
	slow.Script.LingerMs = 150
	sets = append(sets, []fplab.Plugin{slow, a})
	exc := fplab.OKPlugin(pluginNames[1])
	fplab.Fill(exc.Name, fplab.StepGenerate, fplab.KException, &exc.Script.Generate)
	sets = append(sets, []fplab.Plugin{exc, a})
	var cases []Case
	rows := cliRows()
	for _, r := range rows {
		for _, ps := range sets {
			for _, after := range []bool{false, true} {
				cases = append(cases, withCLI(Case{Src: "cli-grid", Thrift: thriftSrc, Plugins: ps}, r[0], r[1], after))
			}
		}
	}
	ran := gridRun(t, "cli-grid", cases)
	ev.Exhaustive(fmt.Sprintf("cli-grid(%d command-line variations = valid / invalid --output-file values, generator flags, every argument validation of main.go, input that does not compile / generate, unwritable --out, --version, --help, a plugin that is not on the PATH; before / after the --plugin flags; x %d plugin sets)", len(rows), len(sets)), true)
	ev.Note("cli-grid", fmt.Sprintf("%d cases in total, %d in this shard", len(cases), ran))
}

// TestPairGrid: every row x every row for two concurrently running plugins.
func TestPairGrid(t *testing.T) {
	var cases []Case
	a, b := faultRows(pluginNames[0]), faultRows(pluginNames[1])
	for _, p := range a {
		for _, q := range b {
			cases = append(cases, Case{Src: "pair-grid", Thrift: thriftSrc, Plugins: []fplab.Plugin{p, q}})
		}
	}
	ran := gridRun(t, "pair-grid", cases)
	ev.Exhaustive(fmt.Sprintf("pair-grid(%d x %d scripts of two concurrent plugins)", len(a), len(b)), true)
	ev.Note("pair-grid", fmt.Sprintf("%d cases in total, %d in this shard", len(cases), ran))
}

// ---------------------------------------------------------------- replay

func replayOne(t *testing.T, f *ev.Failure) bool {
	switch f.Unit {
	case "random", "truncation-grid", "fault-grid", "pair-grid", "cli-grid":
		var c Case
		if err := json.Unmarshal(f.Case, &c); err != nil {
			t.Fatal(err)
		}
		_, err := checkCase(c)
		if ee, ok := err.(envError); ok {
			t.Fatalf("%v", ee)
		}
		ev.Report(t, f.Unit, c, err)
	case "lib":
		var c LibCase
		if err := json.Unmarshal(f.Case, &c); err != nil {
			t.Fatal(err)
		}
		err := checkLib(c)
		if ee, ok := err.(envError); ok {
			t.Fatalf("%v", ee)
		}
		ev.Report(t, f.Unit, c, err)
	default:
		return false
	}
	return true
}

func TestReplay(t *testing.T)  { ev.RunReplay(t, replayOne) }
func TestRegress(t *testing.T) { ev.RunRegress(t, replayOne) }
