package c16

import (
	"bytes"
	"encoding/json"
	"fmt"
	"io"
	"os"
	"os/exec"
	"path/filepath"
	"regexp"
	"sort"
	"strings"
	"syscall"
	"testing"
	"time"

	"pgregory.net/rapid"
	"verif/harness/fplab"
	"verif/internal/bins"
	"verif/internal/ev"
	"verif/internal/refcodec"
	wm "verif/internal/wiremodel"
)

// LibReq is one request sent to the library-built plugin.
type LibReq struct {
	Method string `json:"method"`
	SeqID  int32  `json:"seqid"`
	Legacy bool   `json:"legacy,omitempty"` // non-strict envelope
}

// LibCase drives verif/harness/libplugin (which only calls plugin.Main).
type LibCase struct {
	Name      string            `json:"name"`
	Generator bool              `json:"generator"`
	Fail      bool              `json:"fail"`
	Files     map[string][]byte `json:"files"`
	Reqs      []LibReq          `json:"reqs"` // the last one is Plugin:goodbye
	Segs      []int             `json:"segs"` // write sizes for the request stream (cycled; empty = one write)
	PauseUs   int               `json:"pause_us"`
	Version   string            `json:"version"` // expected libraryVersion (from /repo/version)
	// Channel: which of Plugin.Reader / Plugin.Writer the plugin sets explicitly (to its standard
	// streams): "", "reader", "writer", "both". The documented default for an unset one is the
	// standard stream, so the conversation must be the same in all four.
	Channel string `json:"channel,omitempty"`
}

var versionRe = regexp.MustCompile(`(?m)^const Version = "([^"]+)"`)

func libraryVersion() (string, error) {
	b, err := os.ReadFile(filepath.Join(ev.Repo(), "version", "version.go"))
	if err != nil {
		return "", err
	}
	m := versionRe.FindSubmatch(b)
	if m == nil {
		return "", fmt.Errorf("no Version constant in version/version.go")
	}
	return string(m[1]), nil
}

func str(s string) wm.W { return wm.Binary([]byte(s)) }

// requestBody builds the argument struct of a method.
func requestBody(method string) wm.W {
	switch method {
	case fplab.MethodHandshake:
		return wm.Struct(wm.Field{ID: 1, V: wm.Struct()})
	case fplab.MethodGenerate:
		req := wm.Struct(
			wm.Field{ID: 1, V: wm.W{K: wm.KList, EK: wm.KI32}},
			wm.Field{ID: 2, V: wm.W{K: wm.KMap, KK: wm.KI32, VK: wm.KStruct}},
			wm.Field{ID: 3, V: wm.W{K: wm.KMap, KK: wm.KI32, VK: wm.KStruct}},
			wm.Field{ID: 4, V: str("example.test/gen")},
			wm.Field{ID: 5, V: str("/idl")},
		)
		return wm.Struct(wm.Field{ID: 1, V: req})
	}
	return wm.Struct()
}

func field(w wm.W, id int16) (wm.W, bool) {
	for _, f := range w.Fields {
		if f.ID == id {
			return f.V, true
		}
	}
	return wm.W{}, false
}

type libObs struct {
	out      []byte
	stderr   string
	exit     int
	exitedBy string // "goodbye" (stdin still open), "eof" (only after we closed stdin), "killed"
}

func runLib(c LibCase) (*libObs, error) {
	lib, err := bins.Path("libplugin", "verif/harness/libplugin")
	if err != nil {
		return nil, err
	}
	work, err := os.MkdirTemp(scratch(), "c16lib-")
	if err != nil {
		return nil, err
	}
	defer os.RemoveAll(work)
	cfg, _ := json.Marshal(map[string]interface{}{"name": c.Name, "generator": c.Generator, "fail": c.Fail, "files": c.Files, "channel": c.Channel})
	cfgPath := filepath.Join(work, "config.json")
	if err := os.WriteFile(cfgPath, cfg, 0o644); err != nil {
		return nil, err
	}
	var stream []byte
	for _, r := range c.Reqs {
		e := refcodec.Envelope{Name: []byte(r.Method), Type: fplab.TypeCall, SeqID: r.SeqID, Body: requestBody(r.Method)}
		if r.Legacy {
			stream = append(stream, refcodec.Frame(refcodec.EncodeLegacy(e))...)
		} else {
			stream = append(stream, refcodec.Frame(refcodec.EncodeStrict(e))...)
		}
	}
	cmd := exec.Command(lib)
	cmd.Env = []string{"LIBPLUGIN_CONFIG=" + cfgPath, "HOME=" + work, "TMPDIR=" + work}
	cmd.Dir = work
	cmd.SysProcAttr = &syscall.SysProcAttr{Setpgid: true}
	stdin, err := cmd.StdinPipe()
	if err != nil {
		return nil, err
	}
	stdout, err := cmd.StdoutPipe()
	if err != nil {
		return nil, err
	}
	var stderr bytes.Buffer
	cmd.Stderr = &stderr
	if err := cmd.Start(); err != nil {
		return nil, err
	}
	pgid := cmd.Process.Pid
	defer syscall.Kill(-pgid, syscall.SIGKILL)
	// writer: the request stream in the drawn segmentation; stdin stays open
	go func() {
		b, i := stream, 0
		for len(b) > 0 {
			n := len(b)
			if len(c.Segs) > 0 {
				n = c.Segs[i%len(c.Segs)]
				i++
				if n < 1 {
					n = 1
				}
				if n > len(b) {
					n = len(b)
				}
			}
			if _, err := stdin.Write(b[:n]); err != nil {
				return
			}
			b = b[n:]
			if c.PauseUs > 0 {
				time.Sleep(time.Duration(c.PauseUs) * time.Microsecond)
			}
		}
	}()
	o := &libObs{}
	outDone := make(chan struct{})
	go func() {
		o.out, _ = io.ReadAll(stdout)
		close(outDone)
	}()
	// The process must finish by itself after the goodbye reply (EOF on its
	// stdout is the signal); generous ceilings, then EOF on stdin, then kill.
	o.exitedBy = "goodbye"
	select {
	case <-outDone:
	case <-time.After(60 * time.Second):
		o.exitedBy = "eof"
		stdin.Close()
		select {
		case <-outDone:
		case <-time.After(60 * time.Second):
			o.exitedBy = "killed"
			syscall.Kill(-pgid, syscall.SIGKILL)
			<-outDone
		}
	}
	werr := make(chan error, 1)
	go func() { werr <- cmd.Wait() }()
	select {
	case <-werr:
	case <-time.After(60 * time.Second):
		o.exitedBy = "killed"
		syscall.Kill(-pgid, syscall.SIGKILL)
		<-werr
	}
	stdin.Close()
	o.exit = cmd.ProcessState.ExitCode()
	o.stderr = stderr.String()
	return o, nil
}

func checkLib(c LibCase) error {
	o, err := runLib(c)
	if err != nil {
		return envError{err}
	}
	if o.exit == 98 {
		return envError{fmt.Errorf("libplugin: %s", o.stderr)}
	}
	// split the output into frames
	var replies [][]byte
	rest := o.out
	for len(rest) > 0 {
		p, r, err := refcodec.Unframe(rest)
		if err != nil {
			return ev.Errf("lib/output-not-framed", "after %d whole reply frames the output has %d bytes that are not a frame (exit %d, stderr %q)", len(replies), len(rest), o.exit, clipS(o.stderr, 300))
		}
		replies = append(replies, p)
		rest = r
	}
	if len(replies) != len(c.Reqs) {
		return ev.Errf("lib/reply-count", "%d requests sent (segmentation %v), %d replies received; exit %d (%s), stderr %q", len(c.Reqs), c.Segs, len(replies), o.exit, o.exitedBy, clipS(o.stderr, 300))
	}
	for i, r := range c.Reqs {
		e, framing, n, err := refcodec.DecodeEnvelope(replies[i])
		if err != nil || n != len(replies[i]) {
			return ev.Errf("lib/reply-undecodable", "reply %d (to %s) is not exactly one envelope: %v", i, r.Method, err)
		}
		_ = framing
		if string(e.Name) != r.Method || e.SeqID != r.SeqID {
			return ev.Errf("lib/reply-order", "reply %d carries (%q, seq %d), request %d was (%q, seq %d): frames were reordered, merged or lost", i, e.Name, e.SeqID, i, r.Method, r.SeqID)
		}
		switch {
		case r.Method == fplab.MethodHandshake:
			if e.Type != fplab.TypeReply {
				return ev.Errf("lib/handshake/not-a-reply", "envelope type %d", e.Type)
			}
			res, ok := field(e.Body, 0)
			if !ok {
				return ev.Errf("lib/handshake/no-result", "body %s", wm.Render(e.Body))
			}
			name, _ := field(res, 1)
			api, _ := field(res, 2)
			feats, okf := field(res, 3)
			ver, okv := field(res, 4)
			if string(name.Bin) != c.Name {
				return ev.Errf("lib/handshake/name", "name %q, plugin was built as %q", name.Bin, c.Name)
			}
			if api.K != wm.KI32 || api.I != fplab.APIVersion {
				return ev.Errf("lib/handshake/api-version", "apiVersion %d, want %d", api.I, fplab.APIVersion)
			}
			has := false
			for _, f := range feats.Elems {
				if f.I == fplab.FeatureServiceGenerator {
					has = true
				}
			}
			if !okf || has != c.Generator {
				return ev.Errf("lib/handshake/features", "features %s, generator present: %v", wm.Render(feats), c.Generator)
			}
			if !okv || string(ver.Bin) != c.Version {
				return ev.Errf("lib/handshake/library-version", "libraryVersion %q, library is %q", ver.Bin, c.Version)
			}
		case r.Method == fplab.MethodGenerate && c.Generator && !c.Fail:
			if e.Type != fplab.TypeReply {
				return ev.Errf("lib/generate/not-a-reply", "envelope type %d", e.Type)
			}
			res, _ := field(e.Body, 0)
			files, _ := field(res, 1)
			got := map[string][]byte{}
			for _, p := range files.Pairs {
				got[string(p.K.Bin)] = p.V.Bin
			}
			if len(got) != len(c.Files) || len(files.Pairs) != len(c.Files) {
				return ev.Errf("lib/generate/files", "%d files returned, generator produced %d", len(files.Pairs), len(c.Files))
			}
			for k, v := range c.Files {
				g, ok := got[k]
				if !ok || !bytes.Equal(g, v) {
					return ev.Errf("lib/generate/files", "file %q not returned verbatim", k)
				}
			}
		case r.Method == fplab.MethodGoodbye:
			if e.Type != fplab.TypeReply {
				return ev.Errf("lib/goodbye/not-a-reply", "envelope type %d", e.Type)
			}
		default:
			// unknown method, generate without a generator, failing generator
			if e.Type != fplab.TypeException {
				return ev.Errf("lib/unknown-method/not-an-exception", "request %q answered with envelope type %d", r.Method, e.Type)
			}
		}
	}
	switch o.exitedBy {
	case "eof":
		return ev.Errf("lib/goodbye/exit-needs-eof", "the plugin answered goodbye but only exited after its stdin was closed")
	case "killed":
		return ev.Errf("lib/goodbye/no-exit", "the plugin answered goodbye but did not exit")
	}
	if o.exit != 0 {
		return ev.Errf("lib/goodbye/exit-status", "exit status %d after goodbye; stderr %q", o.exit, clipS(o.stderr, 300))
	}
	return nil
}

var libMethods = []string{fplab.MethodHandshake, fplab.MethodGenerate, "Plugin:nosuch", "ServiceGenerator:nosuch", "Nope:handshake", "handshake", "", ":", "Plugin:", "Plugin:goodbye:x"}

func genLibCase(t *rapid.T, version string) LibCase {
	c := LibCase{Name: rapid.SampledFrom([]string{"p", "zqalfa", "with space", "ünï"}).Draw(t, "name"), Generator: rapid.Bool().Draw(t, "generator"), Version: version}
	c.Channel = rapid.SampledFrom([]string{"", "", "reader", "writer", "both"}).Draw(t, "channel")
	if c.Generator {
		c.Fail = rapid.IntRange(0, 5).Draw(t, "fail") == 0
		c.Files = map[string][]byte{}
		for i, n := 0, rapid.IntRange(0, 3).Draw(t, "nfiles"); i < n; i++ {
			path := rapid.SampledFrom([]string{"a.go", "dir/b.go", "../up.go", "/abs.go", "", "ünï/ç.txt", "./x//y"}).Draw(t, "path")
			c.Files[path] = wm.GenBinary(t, false, "content")
		}
	}
	n := rapid.IntRange(0, 6).Draw(t, "nreqs")
	seq := int32(rapid.IntRange(-3, 1000).Draw(t, "seq0"))
	for i := 0; i < n; i++ {
		m := rapid.SampledFrom(libMethods).Draw(t, "method")
		if rapid.IntRange(0, 2).Draw(t, "common") != 0 {
			m = rapid.SampledFrom(libMethods[:2]).Draw(t, "method_common")
		}
		c.Reqs = append(c.Reqs, LibReq{Method: m, SeqID: seq, Legacy: rapid.IntRange(0, 7).Draw(t, "legacy") == 0 && m != ""})
		seq += int32(rapid.IntRange(1, 5).Draw(t, "seqstep"))
	}
	c.Reqs = append(c.Reqs, LibReq{Method: fplab.MethodGoodbye, SeqID: seq})
	switch rapid.IntRange(0, 3).Draw(t, "segmode") {
	case 0: // one write for everything (requests pipelined)
	case 1:
		c.Segs = []int{1}
	default:
		c.Segs = rapid.SliceOfN(rapid.IntRange(1, 40), 1, 6).Draw(t, "segs")
	}
	c.PauseUs = rapid.SampledFrom([]int{0, 0, 10, 200}).Draw(t, "pause")
	return c
}

func libClasses(c LibCase) []string {
	cls := []string{"unit:lib", fmt.Sprintf("lib-generator:%v", c.Generator), fmt.Sprintf("lib-requests:%d", len(c.Reqs))}
	seg := "lib-seg:segments"
	switch {
	case len(c.Segs) == 0:
		seg = "lib-seg:one-write"
	case len(c.Segs) == 1 && c.Segs[0] == 1:
		seg = "lib-seg:bytewise"
	}
	cls = append(cls, seg)
	ms := map[string]bool{}
	for _, r := range c.Reqs {
		switch r.Method {
		case fplab.MethodHandshake, fplab.MethodGenerate, fplab.MethodGoodbye:
			ms["lib-method:"+r.Method] = true
		default:
			ms["lib-method:unknown"] = true
		}
		if r.Legacy {
			ms["lib-envelope:legacy"] = true
		}
	}
	var keys []string
	for k := range ms {
		keys = append(keys, k)
	}
	sort.Strings(keys)
	return append(cls, keys...)
}

func runLibCase(t ev.TB, c LibCase) {
	err := ev.Guard(func() error { return checkLib(c) })
	if ee, ok := err.(envError); ok {
		t.Fatalf("%v", ee)
		return
	}
	d := ev.DigestJSON(c)
	nt := len(c.Reqs) >= 2
	ev.Case(d, nt, libClasses(c)...)
	if nt {
		ev.KeepSample("lib", d, func() interface{} {
			var ms []string
			for _, r := range c.Reqs {
				ms = append(ms, fmt.Sprintf("%s#%d", r.Method, r.SeqID))
			}
			return map[string]interface{}{"name": c.Name, "generator": c.Generator, "fail": c.Fail, "files": len(c.Files), "requests": strings.Join(ms, " "), "segs": c.Segs}
		})
	}
	ev.Report(t, "lib", c, err)
}

// TestLibPlugin: a plugin built on the public plugin.Main answers the
// protocol, under any segmentation of its stdin.
func TestLibPlugin(t *testing.T) {
	version, err := libraryVersion()
	if err != nil {
		t.Fatalf("environment: %v", err)
	}
	rapid.Check(t, func(t *rapid.T) { runLibCase(t, genLibCase(t, version)) })
}
