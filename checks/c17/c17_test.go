// C17: Generated output is confined, conflict-free and all-or-nothing on failure.
//
// Black-box: the real thriftrw binary runs inside a sandbox directory whose
// complete tree (output dir, its parent, the Thrift sources) is snapshotted
// (path, mode, SHA-256) before and after. Plugins are scripted fake plugins
// (verif/harness/fakeplugin) that return chosen file paths or fail.
package c17

import (
	"crypto/sha256"
	"encoding/hex"
	"encoding/json"
	"fmt"
	"io/fs"
	"os"
	"os/exec"
	"path/filepath"
	"sort"
	"strconv"
	"strings"
	"syscall"
	"testing"
	"time"

	"verif/harness/fplab"
	"verif/internal/bins"
	"verif/internal/ev"
)

func TestMain(m *testing.M) { ev.Main(m, "C17") }

// SB is replaced by the absolute sandbox path in plugin file paths.
const SB = "${SB}"

// Contents of a plugin file that stand for bytes only thriftrw itself can
// tell: CoreSame is replaced at run time by exactly the bytes the core
// generator produces for the destination the file's path means (learnt from a
// preliminary run of the same command line without plugins in the same
// sandbox), CoreOff by those bytes with one byte changed. When the destination
// is not a core-generated file (or the preliminary run fails) both stand for
// a fixed text.
const (
	CoreSame = "${CORE}"
	CoreOff  = "${CORE~1}"
)

// File is a file of the sandbox, path relative to the sandbox root.
type File struct {
	Path string `json:"path"`
	Data string `json:"data"`
}

// Bad is an injected source-level failure.
type Bad struct {
	File string `json:"file"` // sandbox-relative Thrift file that carries it
	Kind string `json:"kind"` // compile/... or generate/...
}

// Case is one host run in a sandbox.
type Case struct {
	Src        string         `json:"src"`
	Thrift     []File         `json:"thrift"`      // Thrift sources
	Pre        []File         `json:"pre"`         // other pre-existing files
	Main       string         `json:"main"`        // file given on the command line
	ThriftRoot string         `json:"thrift_root"` // "" = flag omitted
	Out        string         `json:"out"`         // output dir
	MkOut      bool           `json:"mk_out"`      // output dir exists beforehand
	NoRecurse  bool           `json:"no_recurse"`
	RelArgs    bool           `json:"rel_args"` // relative paths on the command line
	Plugins    []fplab.Plugin `json:"plugins"`
	// what the generator of the case knows about it
	Modules    []string `json:"modules"`            // every module reachable from Main, Main first
	Bad        *Bad     `json:"bad"`                // injected compile / generate failure
	Ancestry   bool     `json:"ancestry"`           // a module lies outside ThriftRoot: must be rejected
	MayReject  bool     `json:"may_reject"`         // the layout may legitimately be rejected
	PathShapes []string `json:"path_shapes"`        // labels of the plugin path shapes used (bookkeeping)
	Contents   []string `json:"contents,omitempty"` // labels of the contents of colliding plugin files (bookkeeping)
	Layout     string   `json:"layout,omitempty"`   // name of the layout (bookkeeping)
	Recased    []string `json:"recased,omitempty"`  // labels of the letter-case variations applied to the layout (bookkeeping)
	// Unwritable: a plugin path names the output dir itself or needs a file
	// where a directory is (write-phase failure; beyond the literal statement,
	// only used by the optional unwritable-path probe)
	Unwritable bool `json:"unwritable,omitempty"`
}

// ---------------------------------------------------------------- snapshot

type entry struct {
	Mode fs.FileMode
	Sum  string // files only
}

func snapshot(root string) (map[string]entry, error) {
	snap := map[string]entry{}
	err := filepath.Walk(root, func(p string, info fs.FileInfo, err error) error {
		if err != nil {
			return err
		}
		rel, _ := filepath.Rel(root, p)
		e := entry{Mode: info.Mode()}
		switch {
		case info.Mode().IsRegular():
			b, err := os.ReadFile(p)
			if err != nil {
				return err
			}
			s := sha256.Sum256(b)
			e.Sum = hex.EncodeToString(s[:])
		case info.Mode()&fs.ModeSymlink != 0:
			e.Sum, _ = os.Readlink(p)
		}
		snap[rel] = e
		return nil
	})
	return snap, err
}

// diff lists the paths created, modified or deleted, sorted.
func diff(before, after map[string]entry) []string {
	var d []string
	for p, a := range after {
		if b, ok := before[p]; !ok {
			d = append(d, "+"+p)
		} else if a != b {
			d = append(d, "~"+p)
		}
	}
	for p := range before {
		if _, ok := after[p]; !ok {
			d = append(d, "-"+p)
		}
	}
	sort.Strings(d)
	return d
}

// ---------------------------------------------------------------- model

// clean is an independent statement of lexical path cleaning for the inputs
// used here (slash-separated): drop empty and "." components, resolve "..".
// The result is relative to base (the components of an absolute path are
// simply appended, as joining under the output dir must do); ok is false when
// the path climbs above base.
func cleanUnder(p string) (string, bool) {
	var st []string
	for _, c := range strings.Split(p, "/") {
		switch c {
		case "", ".":
		case "..":
			if len(st) == 0 {
				return "", false
			}
			st = st[:len(st)-1]
		default:
			st = append(st, c)
		}
	}
	return strings.Join(st, "/"), true
}

// isPlain reports whether p is a plain relative path: non-empty components,
// none of them "." or "..", no leading or trailing slash.
func isPlain(p string) bool {
	if p == "" {
		return false
	}
	for _, c := range strings.Split(p, "/") {
		if c == "" || c == "." || c == ".." {
			return false
		}
	}
	return true
}

func dirOf(p string) string {
	if i := strings.LastIndex(p, "/"); i >= 0 {
		return p[:i]
	}
	return ""
}

func baseOf(p string) string { return p[strings.LastIndex(p, "/")+1:] }

// relTo returns p relative to dir (both sandbox-relative, cleaned); ok is
// false if p is not beneath dir.
func relTo(dir, p string) (string, bool) {
	if dir == "" {
		return p, true
	}
	if strings.HasPrefix(p, dir+"/") {
		return p[len(dir)+1:], true
	}
	return "", false
}

// commonDir is the deepest common ancestor directory of the files.
func commonDir(files []string) string {
	var common []string
	for i, f := range files {
		parts := strings.Split(dirOf(f), "/")
		if dirOf(f) == "" {
			parts = nil
		}
		if i == 0 {
			common = parts
			continue
		}
		n := 0
		for n < len(common) && n < len(parts) && common[n] == parts[n] {
			n++
		}
		common = common[:n]
	}
	return strings.Join(common, "/")
}

// Expect is the model's prediction for a case.
type Expect struct {
	MustFail  string            // non-empty: the run has to fail, for this reason
	MayFail   string            // non-empty: the run may fail (and then leave no trace), for this reason
	Core      []string          // out-relative paths of the core-generated files
	Plugin    map[string][]byte // out-relative destination -> content
	Source    map[string]Source // out-relative destination -> the plugin file it comes from
	Conflicts []string          // descriptions
	ConfKey   string            // classifier tail of the first conflict
}

// Source names a file of a plugin script.
type Source struct {
	Plugin int
	Raw    string
}

// predict computes the expectation; sb is the absolute sandbox path (for
// plugin paths that mention it).
func predict(c Case, sb string) Expect {
	e := Expect{Plugin: map[string][]byte{}, Source: map[string]Source{}}
	// core files
	root := c.ThriftRoot
	if root == "" {
		root = commonDir(c.Modules)
	} else if root == "." {
		root = "" // the sandbox itself
	}
	mods := c.Modules
	if c.NoRecurse {
		mods = mods[:1]
	}
	owner := map[string]string{} // dest -> "core" / plugin name
	spelled := map[string]string{}
	for _, m := range mods {
		rel, ok := relTo(root, strings.TrimSuffix(m, ".thrift"))
		if !ok {
			continue // ancestry violation, flagged by the generator of the case
		}
		dest := rel + "/" + baseOf(rel) + ".go"
		e.Core = append(e.Core, dest)
		owner[dest], spelled[dest] = "core", dest
	}
	// source-level failures
	switch {
	case c.Ancestry:
		e.MustFail = "thrift-root-ancestry"
	case c.Bad != nil && strings.HasPrefix(c.Bad.Kind, "compile/"):
		e.MustFail = c.Bad.Kind
	case c.Bad != nil && (!c.NoRecurse || c.Bad.File == c.Main):
		e.MustFail = c.Bad.Kind
	}
	if c.MayReject {
		e.MayFail = "layout"
	}
	if c.Unwritable && e.MustFail == "" {
		e.MustFail = "unwritable-plugin-path"
	}
	// plugins
	pr := fplab.Predict(c.Plugins)
	for i := range c.Plugins {
		switch pr.FailPhase[i] {
		case fplab.StepHandshake, fplab.StepGenerate:
			if e.MustFail == "" {
				e.MustFail = "plugin-" + pr.FailPhase[i]
			}
		}
	}
	for i, p := range c.Plugins {
		if !pr.Generate[i] || pr.FailPhase[i] == fplab.StepGenerate {
			continue
		}
		paths := make([]string, 0, len(p.Script.Generate.Files))
		for k := range p.Script.Generate.Files {
			paths = append(paths, k)
		}
		sort.Strings(paths)
		for _, raw := range paths {
			if strings.Contains(raw, "..") && e.MayFail == "" {
				e.MayFail = "dotdot-path"
			}
			dest, ok := cleanUnder(strings.ReplaceAll(raw, SB, sb))
			if !ok {
				// climbs out of the output dir: can only be rejected
				if e.MustFail == "" {
					e.MustFail = "escaping-path"
				}
				continue
			}
			// owners are plugin processes (fplab.Plugin.ID), not plugin names:
			// two instances of one plugin are two sources
			if prev, taken := owner[dest]; taken && prev != p.ID() {
				kind := "literal"
				if spelled[dest] != raw {
					kind = "uncleaned"
				}
				with := "plugins"
				if prev == "core" {
					with = "core"
				} else if strings.Split(prev, "@")[0] == p.Name {
					with = "instances-of-one-plugin"
				}
				// the contents do not matter to the statement; they are
				// told apart in the classifier only
				cont := "different"
				switch mine := string(p.Script.Generate.Files[raw]); {
				case prev == "core" && mine == CoreSame, prev != "core" && mine == string(e.Plugin[dest]):
					cont = "identical"
				case prev == "core" && mine == CoreOff:
					cont = "one byte off"
				}
				e.Conflicts = append(e.Conflicts, fmt.Sprintf("%s's %q and %s's %q both mean %q (%s contents)", prev, spelled[dest], p.ID(), raw, dest, cont))
				if e.ConfKey == "" {
					e.ConfKey = kind + "-path-not-reported/" + with
					if cont == "identical" {
						e.ConfKey += "/identical-contents"
					}
				}
				continue
			}
			owner[dest], spelled[dest] = p.ID(), raw
			e.Plugin[dest] = p.Script.Generate.Files[raw]
			e.Source[dest] = Source{Plugin: i, Raw: raw}
		}
	}
	if len(e.Conflicts) > 0 && e.MustFail == "" {
		e.MustFail = "conflict"
	}
	return e
}

// ---------------------------------------------------------------- running

func scratch() string {
	if d := os.Getenv("VERIF_SCRATCH"); d != "" {
		return d
	}
	return os.TempDir()
}

func shard() (int, int) {
	s, _ := strconv.Atoi(os.Getenv("VERIF_SHARD"))
	n, _ := strconv.Atoi(os.Getenv("VERIF_NSHARDS"))
	if n < 1 {
		n = 1
	}
	if s < 0 || s >= n {
		s = 0
	}
	return s, n
}

type envError struct{ err error }

func (e envError) Error() string { return "environment: " + e.err.Error() }

// Result is what one run showed.
type Result struct {
	Plugins []fplab.Plugin // the plugins of the case with CoreSame / CoreOff contents resolved
	CoreRun string         // how the preliminary run went ("" = not needed)

	Obs   *fplab.Obs
	Diff  []string
	After map[string]entry
	SB    string
	Files map[string][]byte // content of every file beneath the output dir afterwards
}

func writeFiles(sb string, files []File) error {
	for _, f := range files {
		p := filepath.Join(sb, f.Path)
		if err := os.MkdirAll(filepath.Dir(p), 0o755); err != nil {
			return err
		}
		if err := os.WriteFile(p, []byte(f.Data), 0o644); err != nil {
			return err
		}
	}
	return nil
}

// needsCore reports whether a plugin file stands for core-generated bytes.
func needsCore(c Case) bool {
	for _, p := range c.Plugins {
		for _, v := range p.Script.Generate.Files {
			if s := string(v); s == CoreSame || s == CoreOff {
				return true
			}
		}
	}
	return false
}

// hostArgs is the command line of the case without the --plugin flags.
func hostArgs(c Case, sb string) (before []string, main string) {
	arg := func(rel string) string {
		if c.RelArgs {
			if rel == "" {
				return "."
			}
			return rel
		}
		return filepath.Join(sb, rel)
	}
	args := []string{"--out", arg(c.Out), "--pkg-prefix", "example.test/gen"}
	if c.ThriftRoot != "" {
		args = append(args, "--thrift-root", arg(c.ThriftRoot))
	}
	if c.NoRecurse {
		args = append(args, "--no-recurse")
	}
	return args, arg(c.Main)
}

// populate creates the sandbox of the case.
func populate(c Case, sb string) error {
	if err := os.MkdirAll(sb, 0o755); err != nil {
		return err
	}
	if err := writeFiles(sb, c.Thrift); err != nil {
		return err
	}
	if err := writeFiles(sb, c.Pre); err != nil {
		return err
	}
	if err := os.MkdirAll(filepath.Dir(filepath.Join(sb, c.Out)), 0o755); err != nil {
		return err
	}
	if c.MkOut {
		if err := os.MkdirAll(filepath.Join(sb, c.Out), 0o755); err != nil {
			return err
		}
	}
	return nil
}

// learnCore runs the command line of the case without plugins in a sandbox
// at the very path the real run will use, and returns the files found beneath
// the output dir that did not exist before or changed (out-relative path ->
// bytes). The sandbox is removed again. A failing run teaches nothing.
func learnCore(c Case, thriftrw, sb, work string) (map[string][]byte, string, error) {
	defer os.RemoveAll(sb)
	if err := populate(c, sb); err != nil {
		return nil, "", err
	}
	before, err := snapshot(sb)
	if err != nil {
		return nil, "", err
	}
	args, main := hostArgs(c, sb)
	cmd := exec.Command(thriftrw, append(args, main)...)
	cmd.Dir = sb
	cmd.Env = []string{"PATH=" + work, "HOME=" + work, "TMPDIR=" + work}
	cmd.SysProcAttr = &syscall.SysProcAttr{Setpgid: true}
	if err := cmd.Start(); err != nil {
		return nil, "", err
	}
	done := make(chan error, 1)
	go func() { done <- cmd.Wait() }()
	select {
	case err = <-done:
	case <-time.After(240 * time.Second):
		syscall.Kill(-cmd.Process.Pid, syscall.SIGKILL)
		<-done
		return nil, "timed-out", nil
	}
	if err != nil {
		return nil, "failed", nil
	}
	after, err := snapshot(sb)
	if err != nil {
		return nil, "", err
	}
	core := map[string][]byte{}
	for p, e := range after {
		rel, ok := relTo(c.Out, p)
		if !ok || !e.Mode.IsRegular() || before[p] == e {
			continue
		}
		b, err := os.ReadFile(filepath.Join(sb, p))
		if err != nil {
			return nil, "", err
		}
		core[rel] = b
	}
	return core, "ok", nil
}

// resolveContents replaces CoreSame / CoreOff by the bytes they stand for.
func resolveContents(ps []fplab.Plugin, core map[string][]byte, sb string) []fplab.Plugin {
	out := make([]fplab.Plugin, len(ps))
	for i, p := range ps {
		q := p
		if p.Script.Generate.Files != nil {
			q.Script.Generate.Files = map[string][]byte{}
			for k, v := range p.Script.Generate.Files {
				if s := string(v); s == CoreSame || s == CoreOff {
					dest, _ := cleanUnder(strings.ReplaceAll(k, SB, sb))
					b, ok := core[dest]
					switch {
					case !ok || len(b) == 0:
						v = []byte("no core-generated bytes known for this path\n")
					case s == CoreSame:
						v = append([]byte{}, b...)
					default:
						v = append([]byte{}, b...)
						v[len(v)/2] ^= 0x01
					}
				}
				q.Script.Generate.Files[k] = v
			}
		}
		out[i] = q
	}
	return out
}

func runOnce(c Case) (*Result, error) {
	thriftrw, err := bins.Path("thriftrw", "go.uber.org/thriftrw")
	if err != nil {
		return nil, err
	}
	fake, err := bins.Path("fakeplugin", "verif/harness/fakeplugin")
	if err != nil {
		return nil, err
	}
	top, err := os.MkdirTemp(scratch(), "c17-")
	if err != nil {
		return nil, err
	}
	defer os.RemoveAll(top)
	// resolve symlinks so that ${SB} is the path the host sees
	if r, err := filepath.EvalSymlinks(top); err == nil {
		top = r
	}
	sb, work := filepath.Join(top, "sb"), filepath.Join(top, "work")
	for _, d := range []string{sb, work} {
		if err := os.MkdirAll(d, 0o755); err != nil {
			return nil, err
		}
	}
	// contents that stand for core-generated bytes: learn them first
	resolved, coreRun := c.Plugins, ""
	if needsCore(c) {
		prework := filepath.Join(top, "prework")
		if err := os.MkdirAll(prework, 0o755); err != nil {
			return nil, err
		}
		core, how, err := learnCore(c, thriftrw, sb, prework)
		if err != nil {
			return nil, err
		}
		resolved, coreRun = resolveContents(c.Plugins, core, sb), how
	}
	if err := populate(c, sb); err != nil {
		return nil, err
	}
	// plugins: substitute the sandbox path in returned file names
	plugins := make([]fplab.Plugin, len(c.Plugins))
	for i, p := range resolved {
		q := p
		if p.Script.Generate.Files != nil {
			q.Script.Generate.Files = map[string][]byte{}
			for k, v := range p.Script.Generate.Files {
				q.Script.Generate.Files[strings.ReplaceAll(k, SB, sb)] = v
			}
		}
		plugins[i] = q
	}
	args, mainArg := hostArgs(c, sb)
	args = append(args, fplab.PluginArgs(plugins)...)
	args = append(args, mainArg)

	before, err := snapshot(sb)
	if err != nil {
		return nil, err
	}
	o, err := fplab.Run{Thriftrw: thriftrw, Fakeplugin: fake, Work: work, Dir: sb, Args: args, Plugins: plugins, Timeout: hostTimeout}.Do()
	if err != nil {
		return nil, err
	}
	after, err := snapshot(sb)
	if err != nil {
		return nil, err
	}
	r := &Result{Plugins: resolved, CoreRun: coreRun, Obs: o, Diff: diff(before, after), After: after, SB: sb, Files: map[string][]byte{}}
	for p, e := range after {
		if rel, ok := relTo(c.Out, p); ok && e.Mode.IsRegular() {
			b, err := os.ReadFile(filepath.Join(sb, p))
			if err != nil {
				return nil, err
			}
			r.Files[rel] = b
		}
	}
	return r, nil
}

// hostTimeout is the wall-clock ceiling of one thriftrw run: 60 s, and 240 s for the retry that
// decides whether a run that hit the ceiling counts as a hang (the machine may be busy).
var hostTimeout = 60 * time.Second

func checkCase(c Case) (*Result, error) {
	r, err := runOnce(c)
	if err != nil {
		return nil, envError{err}
	}
	if r.Obs.TimedOut && r.Obs.Quiescent {
		// blocked for good, not slow (see fplab.Obs): no second run needed
		return r, ev.Errf("host/hang", "thriftrw did not finish: after %.0f s nothing moved any more (every thread of the host and of its plugins asleep for 5 s, no CPU time used): %s", r.Obs.Wall.Seconds(), r.Obs.Blocked)
	}
	if r.Obs.TimedOut {
		hostTimeout = 240 * time.Second
		r, err = runOnce(c)
		hostTimeout = 60 * time.Second
		if err != nil {
			return nil, envError{err}
		}
		if r.Obs.TimedOut {
			return r, ev.Errf("host/hang", "thriftrw did not finish within 60 s, nor within 240 s when run again")
		}
	}
	return r, judge(c, r)
}

// ---------------------------------------------------------------- oracle

func clipS(s string, n int) string {
	if len(s) > n {
		return s[:n] + "…"
	}
	return s
}

func judge(c Case, r *Result) error {
	o := r.Obs
	if o.Signal != "" || strings.Contains(o.Stderr, "panic:") || strings.Contains(o.Stderr, "goroutine 1 [") {
		return ev.Errf("host/crash", "thriftrw crashed (signal %q): %s", o.Signal, clipS(o.Stderr, 1500))
	}
	e := predict(c, r.SB)
	// the files have the bytes the plugins really returned
	for dest, src := range e.Source {
		e.Plugin[dest] = r.Plugins[src.Plugin].Script.Generate.Files[src.Raw]
	}
	// 1. confinement: nothing outside the output dir is touched, ever
	for _, d := range r.Diff {
		p := d[1:]
		if p == c.Out {
			continue // the output dir itself may be created
		}
		if _, ok := relTo(c.Out, p); !ok {
			return ev.Errf("confine/write-outside-output-dir", "%s (output dir %q; exit %d; plugin paths %v); whole diff %v", d, c.Out, o.Exit, pluginPaths(c), r.Diff)
		}
	}
	// 2. all-or-nothing
	if o.Exit != 0 {
		if len(r.Diff) > 0 {
			why := e.MustFail
			if why == "" {
				why = e.MayFail
			}
			if why == "" {
				why = "unexpected-failure"
			}
			return ev.Errf("atomic/"+keyOf(why)+"/output-changed-on-failure", "thriftrw failed (exit %d: %s) yet the sandbox changed: %v", o.Exit, clipS(o.Stderr, 300), r.Diff)
		}
		if e.MustFail == "" && e.MayFail == "" {
			return ev.Errf("host/unexpected-failure", "nothing in the case should fail, thriftrw exited with %d: %s", o.Exit, clipS(o.Stderr, 500))
		}
		return nil
	}
	// 3. success
	if e.MustFail != "" {
		if e.MustFail == "conflict" {
			return ev.Errf("conflict/"+e.ConfKey, "two sources produce the same file and thriftrw reports no error: %s; diff %v", strings.Join(e.Conflicts, "; "), r.Diff)
		}
		return ev.Errf("host/exit-zero-despite/"+keyOf(e.MustFail), "the run had to fail (%s) but thriftrw exited with 0; diff %v", e.MustFail, r.Diff)
	}
	predicted := map[string]bool{}
	for _, p := range e.Core {
		predicted[p] = true
		b, ok := r.Files[p]
		if !ok {
			return ev.Errf("output/core-file-missing", "core-generated %q is not in the output dir; diff %v", p, r.Diff)
		}
		if !strings.Contains(string(b), "package ") {
			return ev.Errf("output/core-file-content", "%q does not look like generated Go code", p)
		}
	}
	for p, want := range e.Plugin {
		predicted[p] = true
		b, ok := r.Files[p]
		if !ok {
			return ev.Errf("output/plugin-file-missing", "plugin file %q is not in the output dir; diff %v", p, r.Diff)
		}
		if string(b) != string(want) {
			return ev.Errf("output/plugin-file-content", "plugin file %q has %d bytes, plugin returned %d", p, len(b), len(want))
		}
	}
	for _, d := range r.Diff {
		p := d[1:]
		if p == c.Out {
			continue
		}
		rel, _ := relTo(c.Out, p)
		if predicted[rel] {
			continue
		}
		isAncestor := false
		for q := range predicted {
			if strings.HasPrefix(q, rel+"/") {
				isAncestor = true
			}
		}
		if isAncestor && d[0] == '+' && r.After[p].Mode.IsDir() {
			continue
		}
		return ev.Errf("output/unpredicted-change", "%s is not a file the model predicts (core %v, plugin %v)", d, e.Core, keys(e.Plugin))
	}
	return nil
}

func keyOf(s string) string { return strings.NewReplacer(" ", "-", "/", "-").Replace(s) }

func keys(m map[string][]byte) []string {
	var k []string
	for p := range m {
		k = append(k, p)
	}
	sort.Strings(k)
	return k
}

func pluginPaths(c Case) []string {
	var out []string
	for _, p := range c.Plugins {
		for _, k := range keys(p.Script.Generate.Files) {
			out = append(out, p.ID()+":"+k)
		}
	}
	return out
}

// ---------------------------------------------------------------- bookkeeping

func nontrivial(c Case, e Expect) bool {
	if e.MustFail != "" {
		return true
	}
	for _, p := range c.Plugins {
		for k := range p.Script.Generate.Files {
			if !isPlain(k) {
				return true
			}
		}
	}
	return false
}

func runCase(t ev.TB, unit string, c Case) {
	var r *Result
	err := ev.Guard(func() error {
		var e error
		r, e = checkCase(c)
		return e
	})
	if ee, ok := err.(envError); ok {
		t.Fatalf("%v", ee)
		return
	}
	e := predict(c, "/sandbox")
	cls := []string{"unit:" + unit, fmt.Sprintf("plugins:%d", len(c.Plugins)), fmt.Sprintf("modules:%d", len(c.Modules))}
	if e.MustFail != "" {
		cls = append(cls, "must-fail:"+e.MustFail)
	} else if e.MayFail != "" {
		cls = append(cls, "may-fail:"+e.MayFail)
	} else {
		cls = append(cls, "must-succeed")
	}
	for _, s := range c.PathShapes {
		cls = append(cls, "path:"+s)
	}
	names := map[string]int{}
	for _, p := range c.Plugins {
		names[p.Name]++
	}
	for _, n := range names {
		if n > 1 {
			cls = append(cls, fmt.Sprintf("instances-of-one-plugin:%d", n))
		}
	}
	for _, s := range c.Recased {
		cls = append(cls, "layout:"+s)
	}
	if c.Layout != "" {
		cls = append(cls, "layout-name:"+c.Layout)
	}
	for _, s := range c.Contents {
		cls = append(cls, "contents:"+s)
	}
	if r != nil && r.CoreRun != "" {
		cls = append(cls, "core-bytes-learnt:"+r.CoreRun)
	}
	if len(c.Pre) > 1 {
		cls = append(cls, "prepopulated")
	}
	if c.ThriftRoot == "" {
		cls = append(cls, "thrift-root:implicit")
	}
	if c.NoRecurse {
		cls = append(cls, "no-recurse")
	}
	if r != nil {
		if r.Obs.Exit == 0 {
			cls = append(cls, "host:exit-0", fmt.Sprintf("files-changed:%d", len(r.Diff)))
		} else {
			cls = append(cls, "host:exit-nonzero")
		}
	}
	d := ev.DigestJSON(c)
	nt := nontrivial(c, e)
	ev.Case(d, nt, cls...)
	if nt {
		ev.KeepSample(unit, d, func() interface{} {
			m := map[string]interface{}{"main": c.Main, "thrift_root": c.ThriftRoot, "out": c.Out, "modules": c.Modules, "plugin_paths": pluginPaths(c), "must_fail": e.MustFail, "may_fail": e.MayFail}
			if c.Bad != nil {
				m["bad"] = c.Bad
			}
			if r != nil {
				m["exit"] = r.Obs.Exit
				m["diff"] = r.Diff
				m["stderr"] = clipS(r.Obs.Stderr, 200)
			}
			return m
		})
	}
	ev.Report(t, unit, c, err)
}

func gridRun(t *testing.T, unit string, cases []Case) int {
	s, n := shard()
	ran := 0
	for i, c := range cases {
		if i%n != s {
			continue
		}
		runCase(t, unit, c)
		ran++
	}
	return ran
}

// ---------------------------------------------------------------- replay

func replayOne(t *testing.T, f *ev.Failure) bool {
	switch f.Unit {
	case "random", "path-grid", "module-failure-grid", "plugin-failure-grid", "layout-grid", "unwritable-path-probe":
		var c Case
		if err := json.Unmarshal(f.Case, &c); err != nil {
			t.Fatal(err)
		}
		_, err := checkCase(c)
		if ee, ok := err.(envError); ok {
			t.Fatalf("%v", ee)
		}
		ev.Report(t, f.Unit, c, err)
		return true
	}
	return false
}

func TestReplay(t *testing.T)  { ev.RunReplay(t, replayOne) }
func TestRegress(t *testing.T) { ev.RunRegress(t, replayOne) }
