package c17

import (
	"fmt"
	"strings"
	"testing"

	"pgregory.net/rapid"
	"verif/harness/fplab"
	"verif/internal/ev"
)

var pluginNames = []string{"zqalfa", "zqbravo", "zqcarol"}

// ---------------------------------------------------------------- sources

// badKinds are the injected source-level failures: the first two make
// compilation fail, the others compile but make code generation of the module
// fail (two Thrift names that map to the same Go name).
var badKinds = []string{"compile/syntax", "compile/undefined-type", "generate/type-name-collision", "generate/field-name-collision", "generate/enum-item-collision"}

var badText = map[string]string{
	"compile/syntax":                "struct {\n",
	"compile/undefined-type":        "struct Broken { 1: optional NoSuchType x }\n",
	"generate/type-name-collision":  "struct foo_bar { 1: optional string a }\nstruct FooBar { 1: optional string a }\n",
	"generate/field-name-collision": "struct Clash { 1: optional string a; 2: optional string A }\n",
	"generate/enum-item-collision":  "enum Clash { A_B, aB }\n",
}

// relInclude is the include path of file `to` as seen from file `from`.
func relInclude(from, to string) string {
	f := strings.Split(dirOf(from), "/")
	if dirOf(from) == "" {
		f = nil
	}
	t := strings.Split(to, "/")
	n := 0
	for n < len(f) && n < len(t)-1 && f[n] == t[n] {
		n++
	}
	var parts []string
	for i := n; i < len(f); i++ {
		parts = append(parts, "..")
	}
	parts = append(parts, t[n:]...)
	p := strings.Join(parts, "/")
	if !strings.HasPrefix(p, "..") {
		p = "./" + p
	}
	return p
}

func modID(path string) string { return strings.TrimSuffix(baseOf(path), ".thrift") }

// buildSources writes n modules at paths (paths[0] is the main file). shape
// "chain": module i includes module i+1; "star": the main file includes all.
// bad >= 0 appends the failing declarations of kind to module bad.
func buildSources(paths []string, shape string, bad int, kind string) []File {
	var files []File
	for i, p := range paths {
		var incs []int
		switch {
		case shape == "star" && i == 0:
			for j := 1; j < len(paths); j++ {
				incs = append(incs, j)
			}
		case shape != "star" && i+1 < len(paths):
			incs = []int{i + 1}
		}
		var sb strings.Builder
		for _, j := range incs {
			fmt.Fprintf(&sb, "include %q\n", relInclude(p, paths[j]))
		}
		fmt.Fprintf(&sb, "struct T%d {\n  1: optional string a\n", i)
		for k, j := range incs {
			fmt.Fprintf(&sb, "  %d: optional %s.T%d r%d\n", k+2, modID(paths[j]), j, j)
		}
		sb.WriteString("}\n")
		if i == 0 {
			sb.WriteString("service Svc { void ping(1: T0 t) }\n")
		}
		if i == bad {
			sb.WriteString(badText[kind])
		}
		files = append(files, File{Path: p, Data: sb.String()})
	}
	return files
}

// ---------------------------------------------------------------- layouts

type layout struct {
	name      string
	paths     []string // up to four module paths, main first
	root      string   // --thrift-root ("" = omitted, "." = the sandbox itself)
	out       string
	minMods   int  // the layout's point needs at least this many modules
	ancestry  bool // with >= minMods modules an include lies outside the root
	mayReject bool
	relArgs   bool
}

var layouts = []layout{
	{name: "flat", paths: []string{"idl/svc.thrift", "idl/m2.thrift", "idl/m3.thrift", "idl/m4.thrift"}, root: "idl", out: "parent/out", minMods: 1},
	{name: "nested", paths: []string{"idl/a/svc.thrift", "idl/b/m2.thrift", "idl/a/deep/m3.thrift", "idl/m4.thrift"}, root: "idl", out: "parent/out", minMods: 1},
	{name: "implicit-root", paths: []string{"idl/a/svc.thrift", "idl/b/m2.thrift", "idl/a/deep/m3.thrift", "idl/m4.thrift"}, root: "", out: "parent/out", minMods: 1},
	{name: "implicit-root-far-include", paths: []string{"idl/a/svc.thrift", "other/m2.thrift", "idl/a/m3.thrift", "other/x/m4.thrift"}, root: "", out: "parent/out", minMods: 2},
	{name: "high-root", paths: []string{"idl/a/svc.thrift", "idl/b/m2.thrift", "other/m3.thrift", "idl/m4.thrift"}, root: ".", out: "parent/out", minMods: 1},
	{name: "out-inside-root", paths: []string{"idl/svc.thrift", "idl/m2.thrift", "idl/sub/m3.thrift", "idl/m4.thrift"}, root: "idl", out: "idl/gen", minMods: 1},
	{name: "root-inside-out", paths: []string{"parent/out/idl/svc.thrift", "parent/out/idl/m2.thrift", "parent/out/idl/sub/m3.thrift", "parent/out/idl/m4.thrift"}, root: "parent/out/idl", out: "parent/out", minMods: 1},
	{name: "include-outside-root", paths: []string{"idl/a/svc.thrift", "idl/b/m2.thrift", "idl/a/m3.thrift", "idl/a/m4.thrift"}, root: "idl/a", out: "parent/out", minMods: 2, ancestry: true},
	{name: "include-in-sibling-with-root-prefix", paths: []string{"idl/svc.thrift", "idl2/m2.thrift", "idl/m3.thrift", "idl/m4.thrift"}, root: "idl", out: "parent/out", minMods: 2, ancestry: true},
	{name: "implicit-root-sibling-with-name-prefix", paths: []string{"idl/svc/svc.thrift", "idl/svc2/m2.thrift", "idl/svc/m3.thrift", "idl/svc22/m4.thrift"}, root: "", out: "parent/out", minMods: 2},
	{name: "implicit-root-sibling-is-name-prefix", paths: []string{"idl/svc2/svc.thrift", "idl/svc/m2.thrift", "idl/svc2/m3.thrift", "idl/s/m4.thrift"}, root: "", out: "parent/out", minMods: 2},
	// sibling directories / files whose names differ in letter case only are
	// different directories / files (the sandbox is case-sensitive)
	{name: "implicit-root-sibling-differs-in-case", paths: []string{"idl/Billing/svc.thrift", "idl/billing/m2.thrift", "idl/Billing/m3.thrift", "idl/BILLING/x/m4.thrift"}, root: "", out: "parent/out", minMods: 2},
	{name: "implicit-root-deep-sibling-differs-in-case", paths: []string{"idl/v1/api/svc.thrift", "idl/v1/Api/m2.thrift", "idl/V1/api/m3.thrift", "idl/v1/api/m4.thrift"}, root: "", out: "parent/out", minMods: 2},
	{name: "root-sibling-differs-in-case", paths: []string{"idl/svc.thrift", "Idl/m2.thrift", "idl/m3.thrift", "IDL/m4.thrift"}, root: "idl", out: "parent/out", minMods: 2, ancestry: true},
	{name: "files-differ-in-case", paths: []string{"idl/svc.thrift", "idl/M2.thrift", "idl/m2.thrift", "idl/sub/M3.thrift"}, root: "", out: "parent/out", minMods: 2},
	{name: "out-differs-in-case-from-root", paths: []string{"Gen/svc.thrift", "Gen/sub/m2.thrift", "gen/m3.thrift", "Gen/m4.thrift"}, root: "", out: "gen", minMods: 1},
	{name: "dotdot-named-dir", paths: []string{"idl/svc.thrift", "idl/..x/m2.thrift", "idl/m3.thrift", "idl/m4.thrift"}, root: "idl", out: "parent/out", minMods: 2, mayReject: true},
	{name: "relative-arguments", paths: []string{"idl/a/svc.thrift", "idl/b/m2.thrift", "idl/a/deep/m3.thrift", "idl/m4.thrift"}, root: "idl", out: "parent/out", minMods: 1, relArgs: true},
}

// Letter-case variations of one path component.
var recasings = []struct {
	label string
	f     func(string) string
}{
	{"upper-first", func(s string) string { return strings.ToUpper(s[:1]) + s[1:] }},
	{"all-upper", strings.ToUpper},
	{"upper-last", func(s string) string { return s[:len(s)-1] + strings.ToUpper(s[len(s)-1:]) }},
}

// recase returns the layout with one component (directory, or the file name
// without its extension) of module mod's path spelled in another letter case:
// the module then lives in a sibling directory / file that differs from the
// original in case only. comp counts components from the left; how selects
// the variation. ok is false when nothing changes (component without lower
// case letters, or the new path is already in use).
func recase(l layout, mod, comp, how int) (layout, string, bool) {
	parts := strings.Split(l.paths[mod], "/")
	comp %= len(parts)
	old := parts[comp]
	stem, ext := old, ""
	if comp == len(parts)-1 {
		stem, ext = strings.TrimSuffix(old, ".thrift"), ".thrift"
	}
	if stem == "" || strings.HasPrefix(stem, ".") {
		return l, "", false
	}
	rc := recasings[how%len(recasings)]
	parts[comp] = rc.f(stem) + ext
	np := strings.Join(parts, "/")
	for _, p := range l.paths {
		if p == np {
			return l, "", false
		}
	}
	out := l
	out.paths = append([]string{}, l.paths...)
	out.paths[mod] = np
	what := "directory"
	if ext != "" {
		what = "file-name"
	}
	return out, "recased-" + what + "/" + rc.label, true
}

// newCase builds a case on layout l with n modules.
func newCase(src string, l layout, n int, shape string, bad int, kind string) Case {
	paths := l.paths[:n]
	c := Case{Src: src, Main: paths[0], ThriftRoot: l.root, Out: l.out, RelArgs: l.relArgs,
		Thrift:  buildSources(paths, shape, bad, kind),
		Modules: append([]string{}, paths...),
		Pre:     []File{{Path: "parent/sibling.txt", Data: "not yours\n"}},
	}
	c.Layout = l.name
	if n >= l.minMods {
		c.Ancestry, c.MayReject = l.ancestry, l.mayReject
	}
	// whatever the table says: a module that is not beneath an explicit root
	// is an ancestry violation (layouts also come out of recase)
	if l.root != "" && l.root != "." {
		for _, p := range paths {
			if _, ok := relTo(l.root, p); !ok {
				c.Ancestry = true
			}
		}
	}
	if bad >= 0 {
		c.Bad = &Bad{File: paths[bad], Kind: kind}
	}
	if strings.HasPrefix(paths[0], l.out+"/") {
		c.MkOut = true
	}
	return c
}

// prepopulate puts stale copies of the core files, an unrelated file and a
// stale copy of every plugin destination into the output dir.
func prepopulate(c *Case) {
	c.MkOut = true
	e := predict(*c, "/sandbox")
	c.Pre = append(c.Pre, File{Path: c.Out + "/keep.txt", Data: "keep me\n"})
	for _, p := range e.Core {
		c.Pre = append(c.Pre, File{Path: c.Out + "/" + p, Data: "// stale\npackage stale\n"})
	}
	for _, p := range c.Plugins {
		for raw := range p.Script.Generate.Files {
			if isPlain(raw) && !strings.HasSuffix(raw, ".go") {
				c.Pre = append(c.Pre, File{Path: c.Out + "/" + raw, Data: "stale plugin output\n"})
			}
		}
	}
}

// ---------------------------------------------------------------- path shapes

type shape struct {
	label string
	make  func(target string) string
}

var shapes = []shape{
	{"plain", func(t string) string { return t }},
	{"dot-prefix", func(t string) string { return "./" + t }},
	{"double-separator", func(t string) string { return strings.Replace(t, "/", "//", 1) }},
	{"inner-dot", func(t string) string { return strings.Replace(t, "/", "/./", 1) }},
	{"trailing-separator", func(t string) string { return t + "/" }},
	{"absolute", func(t string) string { return "/" + t }},
	{"dotdot-staying-inside", func(t string) string { return "tmp/../" + t }},
	{"dotdot-to-parent", func(t string) string { return "../" + baseOf(t) }},
	{"dotdot-deep-escape", func(t string) string { return dirOf(t) + "/../../../" + baseOf(t) }},
	{"absolute-into-sandbox", func(t string) string { return SB + "/parent/" + baseOf(t) }},
	{"dotdot-in-name", func(t string) string { return dirOf(t) + "/.." + baseOf(t) }},
	// rooted paths whose first elements climb: cleaning a rooted path silently drops them, cleaning
	// the same path after its leading separators were trimmed does not
	{"absolute-dotdot-escape", func(t string) string { return "/../../" + baseOf(t) }},
	{"absolute-dotdot-then-target", func(t string) string { return "/../" + t }},
	{"absolute-double-separator-dotdot", func(t string) string { return "//../../" + t }},
}

// relations of a plugin path to the other sources.
const (
	relIndependent = "independent"
	relCore        = "vs-core"
	relPlugin      = "vs-plugin"
	relInstance    = "vs-instance" // the other source is a second instance of the same plugin (same name, other arguments)
)

// contents of a plugin file relative to the file it collides with.
const (
	contOwn       = "own"          // bytes of its own
	contIdentical = "identical"    // exactly the bytes of the other source
	contOneOff    = "one-byte-off" // the core-generated bytes with one byte changed
)

// contentsOf lists the contents worth telling apart for a relation.
func contentsOf(rel string) []string {
	switch rel {
	case relCore:
		return []string{contOwn, contIdentical, contOneOff}
	case relPlugin, relInstance:
		return []string{contOwn, contIdentical}
	}
	return []string{contOwn}
}

// withPathCase returns the flat one-module case in which plugin zqalfa
// returns shape(target) where target is unique, the core file, or the (plain)
// path of plugin zqbravo; cont says what zqalfa's bytes are relative to the
// other source's.
func withPathCase(src string, sh shape, rel, cont string) Case {
	c := newCase(src, layouts[0], 1, "chain", -1, "")
	a := fplab.OKPlugin(pluginNames[0])
	target := "zqalfa/extra.txt"
	switch rel {
	case relCore:
		target = "svc/svc.go"
	case relPlugin:
		target = "shared/both.txt"
		b := fplab.OKPlugin(pluginNames[1])
		b.Script.Generate.Files = map[string][]byte{target: []byte("from zqbravo\n")}
		c.Plugins = append(c.Plugins, b)
	case relInstance:
		// -p "zqalfa --instance=de" next to -p zqalfa: two processes of one
		// plugin, both answering the handshake as zqalfa
		target = "shared/both.txt"
		b := fplab.OKPlugin(pluginNames[0])
		b.Instance = "de"
		b.Script.Generate.Files = map[string][]byte{target: []byte("from zqbravo\n"), "zqalfa/de.txt": []byte("second instance\n")}
		c.Plugins = append(c.Plugins, b)
	}
	mine := []byte("from zqalfa\n")
	switch {
	case rel == relCore && cont == contIdentical:
		mine = []byte(CoreSame)
	case rel == relCore && cont == contOneOff:
		mine = []byte(CoreOff)
	case (rel == relPlugin || rel == relInstance) && cont == contIdentical:
		mine = []byte("from zqbravo\n")
	}
	a.Script.Generate.Files = map[string][]byte{sh.make(target): mine, "zqalfa/other.txt": []byte("second file\n")}
	c.Plugins = append(c.Plugins, a)
	c.PathShapes = []string{sh.label + "/" + rel}
	if rel != relIndependent {
		c.Contents = []string{cont + "/" + rel}
	}
	return c
}

// TestPathGrid: every path shape x every relation x fresh / pre-populated
// output dir.
func TestPathGrid(t *testing.T) {
	var cases []Case
	for _, sh := range shapes {
		for _, rel := range []string{relIndependent, relCore, relPlugin, relInstance} {
			for _, cont := range contentsOf(rel) {
				for _, pre := range []bool{false, true} {
					c := withPathCase("path-grid", sh, rel, cont)
					if pre {
						prepopulate(&c)
					}
					cases = append(cases, c)
				}
			}
		}
	}
	ran := gridRun(t, "path-grid", cases)
	ev.Exhaustive(fmt.Sprintf("path-grid(%d path shapes x {independent, equal to a core path with own / the core-generated / one-byte-off contents, equal to another plugin's path with own / identical contents, equal to the path of a second instance of the same plugin with own / identical contents} x {fresh, pre-populated output dir})", len(shapes)), true)
	ev.Note("path-grid", fmt.Sprintf("%d cases in total, %d in this shard", len(cases), ran))
}

// TestModuleFailureGrid: the k-th of n modules fails to compile / generate.
func TestModuleFailureGrid(t *testing.T) {
	var cases []Case
	for n := 1; n <= 4; n++ {
		for _, shp := range []string{"chain", "star"} {
			if shp == "star" && n < 3 {
				continue // same graph as the chain
			}
			for k := 0; k < n; k++ {
				for _, kind := range badKinds {
					for _, withPlugin := range []bool{false, true} {
						for _, pre := range []bool{false, true} {
							for _, norec := range []bool{false, true} {
								if norec && (pre || n == 1) {
									continue
								}
								c := newCase("module-failure-grid", layouts[1], n, shp, k, kind)
								c.NoRecurse = norec
								if withPlugin {
									c.Plugins = []fplab.Plugin{fplab.OKPlugin(pluginNames[0])}
								}
								if pre {
									prepopulate(&c)
								}
								cases = append(cases, c)
							}
						}
					}
				}
			}
		}
	}
	ran := gridRun(t, "module-failure-grid", cases)
	ev.Exhaustive(fmt.Sprintf("module-failure-grid(n=1..4 modules as chain/star x failing module k=1..n x %d failure kinds x {no plugin, healthy plugin} x {fresh, pre-populated, --no-recurse})", len(badKinds)), true)
	ev.Note("module-failure-grid", fmt.Sprintf("%d cases in total, %d in this shard", len(cases), ran))
}

// pluginFailures lists every (step, kind) whose failure surfaces in the
// handshake or in the generate request.
func pluginFailures() [][2]string {
	var out [][2]string
	for _, step := range []string{fplab.StepHandshake, fplab.StepGenerate} {
		for _, kind := range fplab.KindsOf(step) {
			if !fplab.IsFailure(step, kind) {
				continue
			}
			if step == fplab.StepGenerate && kind == fplab.KExitAfterReply {
				continue // surfaces at goodbye, after a successful generate: the statement is silent
			}
			out = append(out, [2]string{step, kind})
		}
	}
	return out
}

// TestPluginFailureGrid: the i-th of n plugins fails its handshake / generate
// request in every way.
func TestPluginFailureGrid(t *testing.T) {
	var cases []Case
	fails := pluginFailures()
	for n := 1; n <= 3; n++ {
		for i := 0; i < n; i++ {
			for _, f := range fails {
				for _, pre := range []bool{false, true} {
					c := newCase("plugin-failure-grid", layouts[0], 2, "chain", -1, "")
					for j := 0; j < n; j++ {
						p := fplab.OKPlugin(pluginNames[j])
						if j == i {
							fplab.Fill(p.Name, f[0], f[1], p.Script.StepOf(f[0]))
						}
						c.Plugins = append(c.Plugins, p)
					}
					if pre {
						prepopulate(&c)
					}
					cases = append(cases, c)
				}
			}
		}
	}
	ran := gridRun(t, "plugin-failure-grid", cases)
	ev.Exhaustive(fmt.Sprintf("plugin-failure-grid(n=1..3 plugins x failing plugin i=1..n x %d handshake/generate failure kinds x {fresh, pre-populated output dir})", len(fails)), true)
	ev.Note("plugin-failure-grid", fmt.Sprintf("%d cases in total, %d in this shard", len(cases), ran))
}

// TestLayoutGrid: thrift-root / output-dir layouts x number of modules x
// {plain, healthy plugin, failing include, failing plugin} x fresh/pre-populated.
func TestLayoutGrid(t *testing.T) {
	var cases []Case
	for _, l := range layouts {
		for n := 1; n <= 3; n++ {
			for _, variant := range []string{"plain", "plugin", "bad-compile", "bad-generate", "plugin-fails", "no-recurse"} {
				for _, pre := range []bool{false, true} {
					bad, kind := -1, ""
					switch variant {
					case "bad-compile":
						bad, kind = n-1, "compile/undefined-type"
					case "bad-generate":
						bad, kind = n-1, "generate/type-name-collision"
					}
					c := newCase("layout-grid", l, n, "chain", bad, kind)
					switch variant {
					case "plugin":
						c.Plugins = []fplab.Plugin{fplab.OKPlugin(pluginNames[0]), fplab.OKPlugin(pluginNames[1])}
					case "plugin-fails":
						p := fplab.OKPlugin(pluginNames[1])
						fplab.Fill(p.Name, fplab.StepGenerate, fplab.KException, &p.Script.Generate)
						c.Plugins = []fplab.Plugin{fplab.OKPlugin(pluginNames[0]), p}
					case "no-recurse":
						c.NoRecurse = true
					}
					if pre {
						prepopulate(&c)
					}
					cases = append(cases, c)
				}
			}
		}
	}
	ran := gridRun(t, "layout-grid", cases)
	ev.Exhaustive(fmt.Sprintf("layout-grid(%d layouts x 1..3 modules x {plain, 2 plugins, include fails to compile, include fails to generate, plugin fails generate, --no-recurse} x {fresh, pre-populated})", len(layouts)), true)
	ev.Note("layout-grid", fmt.Sprintf("%d cases in total, %d in this shard", len(cases), ran))
}

// TestUnwritablePathProbe (optional, beyond the literal statement): a plugin
// answers generate successfully but one returned path cannot be written (it
// names the output dir itself, or needs a directory where another generated
// file is). The failure happens in the write loop; the probe asks whether the
// run is still all-or-nothing. The write order is a Go map iteration, so each
// case is repeated to make a partial write show.
func TestUnwritablePathProbe(t *testing.T) {
	var cases []Case
	for _, bad := range []string{"", ".", "svc", "zqalfa/f0.txt/x.txt", "svc/svc.go/x.txt"} {
		for rep := 0; rep < 4; rep++ {
			c := newCase("unwritable-path-probe", layouts[0], 2, "chain", -1, "")
			p := fplab.OKPlugin(pluginNames[0])
			p.Script.Generate.Files = map[string][]byte{bad: []byte("unwritable\n")}
			for i := 0; i < 6; i++ {
				p.Script.Generate.Files[fmt.Sprintf("zqalfa/f%d.txt", i)] = []byte(fmt.Sprintf("file %d, repetition %d\n", i, rep))
			}
			c.Plugins = []fplab.Plugin{p}
			c.Unwritable = true
			c.PathShapes = []string{"unwritable"}
			cases = append(cases, c)
		}
	}
	ran := gridRun(t, "unwritable-path-probe", cases)
	ev.Note("unwritable-path-probe", fmt.Sprintf("%d cases in total, %d in this shard", len(cases), ran))
}

// ---------------------------------------------------------------- random

func genCase(t *rapid.T) Case {
	l := rapid.SampledFrom(layouts).Draw(t, "layout")
	n := rapid.IntRange(1, 4).Draw(t, "modules")
	shp := rapid.SampledFrom([]string{"chain", "star"}).Draw(t, "graph")
	bad, kind := -1, ""
	if rapid.IntRange(0, 4).Draw(t, "inject_bad") == 0 {
		bad = rapid.IntRange(0, n-1).Draw(t, "bad_module")
		kind = rapid.SampledFrom(badKinds).Draw(t, "bad_kind")
	}
	// a quarter of the cases: one or two modules move to a sibling directory /
	// file that differs from the drawn one in letter case only
	var recased []string
	if rapid.IntRange(0, 3).Draw(t, "recase") == 0 {
		for k, times := 0, rapid.IntRange(1, 2).Draw(t, "recasings"); k < times; k++ {
			mod := rapid.IntRange(0, n-1).Draw(t, "recased_module")
			comp := rapid.IntRange(0, 5).Draw(t, "recased_component")
			how := rapid.IntRange(0, len(recasings)-1).Draw(t, "recasing")
			if l2, label, ok := recase(l, mod, comp, how); ok {
				l, recased = l2, append(recased, label)
			}
		}
	}
	c := newCase("random", l, n, shp, bad, kind)
	c.Recased = recased
	c.NoRecurse = rapid.IntRange(0, 5).Draw(t, "no_recurse") == 0
	c.RelArgs = c.RelArgs || rapid.IntRange(0, 3).Draw(t, "rel_args") == 0
	core := predict(c, "/sandbox").Core
	np := rapid.IntRange(0, 3).Draw(t, "plugins")
	order := rapid.Permutation(pluginNames).Draw(t, "names")
	fails := pluginFailures()
	var plainPaths []string // plain paths already returned by earlier plugins
	plainBytes := map[string][]byte{}
	for i := 0; i < np; i++ {
		name := order[i]
		p := fplab.OKPlugin(name)
		// a third of the later plugins are a further instance of an earlier
		// plugin: the same executable with other arguments (two processes, two
		// sources, one plugin name). Such a plugin writes below the directory
		// called like the plugin - as the first instance does - or below one
		// of its own.
		dir := name
		if i > 0 && rapid.IntRange(0, 2).Draw(t, fmt.Sprintf("plugin%d_is_instance", i)) == 0 {
			earlier := c.Plugins[rapid.IntRange(0, i-1).Draw(t, fmt.Sprintf("plugin%d_instance_of", i))]
			name = earlier.Name
			p = fplab.OKPlugin(name)
			p.Instance = fmt.Sprintf("i%d", i+1)
			dir = name
			if rapid.Bool().Draw(t, fmt.Sprintf("plugin%d_own_dir", i)) {
				dir = name + "-" + p.Instance
			}
			name = p.ID() // labels of the draws below
		}
		p.Script.Generate.Files = map[string][]byte{}
		dests := map[string]bool{}
		for j, nf := 0, rapid.IntRange(0, 3).Draw(t, name+"_files"); j < nf; j++ {
			target := fmt.Sprintf("%s/f%d.txt", dir, j)
			rel := relIndependent
			switch r := rapid.IntRange(0, 9).Draw(t, fmt.Sprintf("%s_rel%d", name, j)); {
			case r == 0 && len(core) > 0:
				target, rel = rapid.SampledFrom(core).Draw(t, "core_target"), relCore
			case r == 1 && len(plainPaths) > 0:
				target, rel = rapid.SampledFrom(plainPaths).Draw(t, "plugin_target"), relPlugin
			}
			sh := shapes[0]
			if rapid.Bool().Draw(t, fmt.Sprintf("%s_shaped%d", name, j)) {
				sh = rapid.SampledFrom(shapes).Draw(t, fmt.Sprintf("%s_shape%d", name, j))
			}
			raw := sh.make(target)
			// one plugin never returns two spellings of one destination (the
			// statement speaks of two sources)
			d, ok := cleanUnder(strings.ReplaceAll(raw, SB, "/sandbox"))
			if dests[d] {
				continue
			}
			if ok {
				dests[d] = true
			}
			mine := []byte(fmt.Sprintf("%s file %d\n", name, j))
			if rel != relIndependent {
				// a colliding file may carry the very bytes of the other
				// source (a plugin re-emitting a generated file)
				cont := rapid.SampledFrom(contentsOf(rel)).Draw(t, fmt.Sprintf("%s_contents%d", name, j))
				switch {
				case rel == relCore && cont == contIdentical:
					mine = []byte(CoreSame)
				case rel == relCore && cont == contOneOff:
					mine = []byte(CoreOff)
				case rel == relPlugin && cont == contIdentical:
					mine = plainBytes[target]
				}
				c.Contents = append(c.Contents, cont+"/"+rel)
			}
			p.Script.Generate.Files[raw] = mine
			c.PathShapes = append(c.PathShapes, sh.label+"/"+rel)
			if sh.label == "plain" && rel == relIndependent {
				plainPaths = append(plainPaths, raw)
				plainBytes[raw] = mine
			}
		}
		if rapid.IntRange(0, 5).Draw(t, name+"_fails") == 0 {
			f := rapid.SampledFrom(fails).Draw(t, name+"_failure")
			fplab.Fill(p.Name, f[0], f[1], p.Script.StepOf(f[0]))
		}
		if rapid.IntRange(0, 3).Draw(t, name+"_segmented") == 0 {
			p.Script.Generate.Write, p.Script.Generate.Segs = fplab.WSegments, []int{1, 5, 2}
		}
		c.Plugins = append(c.Plugins, p)
	}
	if rapid.Bool().Draw(t, "prepopulated") {
		prepopulate(&c)
	}
	return c
}

// TestRandom: random layouts, module graphs, injected failures and plugin
// path sets.
func TestRandom(t *testing.T) {
	rapid.Check(t, func(t *rapid.T) { runCase(t, "random", genCase(t)) })
}
