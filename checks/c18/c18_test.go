//go:build verif

// C18: concurrent use of the codec and framed client is safe and isolated.
//
// Units (see NOTES.md):
//
//	codec         TestConcurrentCodec   K operations on the shared protocol object, sequential baseline vs concurrent run
//	pool          TestPoolStateMachine  sequential stateful test of pool reuse (decode/keep/force/close/GC)
//	frame-client  TestFrameClient       K concurrent Sends on one frame.Client against an echo server
//	frame-stream  TestFrameStream       frame.Reader / frame.Writer back-to-back, segmented, and shared by goroutines
//	multi         TestMultiGenerator    MultiServiceGenerator / MultiHandle / concurrent.Range fan-out
//
// The whole binary is built with -race: a data race prints "WARNING: DATA RACE"
// on stderr and makes the binary exit non-zero. Nothing here redirects stderr.
package c18

import (
	"bytes"
	"context"
	"encoding/json"
	"fmt"
	"io"
	"reflect"
	"runtime"
	"sort"
	"strings"
	"sync"
	"testing"

	"go.uber.org/thriftrw/protocol/binary"
	"go.uber.org/thriftrw/protocol/stream"
	"go.uber.org/thriftrw/wire"
	"pgregory.net/rapid"
	"verif/internal/bridge"
	"verif/internal/chunkio"
	"verif/internal/ev"
	"verif/internal/refcodec"
	wm "verif/internal/wiremodel"
)

func TestMain(m *testing.M) { ev.Main(m, "C18") }

// ---------------------------------------------------------------- yields

// yielder injects runtime.Gosched() calls from inside the I/O callbacks the
// codec invokes while it holds pooled objects. Bit i%64 of mask decides whether
// the i-th callback yields. One yielder belongs to one operation execution (it
// is never shared between goroutines).
type yielder struct {
	mask uint64
	n    uint
}

func (y *yielder) tick() {
	if y == nil || y.mask == 0 {
		return
	}
	if y.mask>>(y.n&63)&1 == 1 {
		runtime.Gosched()
	}
	y.n++
}

type yWriter struct {
	w io.Writer
	y *yielder
}

func (w yWriter) Write(p []byte) (int, error) { w.y.tick(); return w.w.Write(p) }

type yReaderAt struct {
	r io.ReaderAt
	y *yielder
}

func (r yReaderAt) ReadAt(p []byte, off int64) (int, error) { r.y.tick(); return r.r.ReadAt(p, off) }

type yReader struct {
	r io.Reader
	y *yielder
}

func (r yReader) Read(p []byte) (int, error) { r.y.tick(); return r.r.Read(p) }

type ySeekReader struct {
	yReader
	s io.Seeker
}

func (r ySeekReader) Seek(off int64, whence int) (int64, error) {
	r.y.tick()
	return r.s.Seek(off, whence)
}

// planReader delivers data per plan, yielding per y; it is an io.Seeker iff the
// plan says so (the stream reader picks its skipping strategy from that).
func planReader(data []byte, plan chunkio.Plan, y *yielder) io.Reader {
	r := chunkio.New(data, plan)
	if s, ok := r.(io.Seeker); ok {
		return ySeekReader{yReader{r, y}, s}
	}
	return yReader{r, y}
}

// ---------------------------------------------------------------- operations

// Operation kinds.
const (
	opEncode       = "encode"         // binary.Default.Encode(ToWire(W))
	opDecode       = "decode"         // binary.Default.Decode + forcing every lazy container
	opStreamWrite  = "stream-write"   // binary.Default.Writer + bridge.StreamWrite
	opStreamRead   = "stream-read"    // binary.Default.Reader over a segmented reader + bridge.StreamRead
	opEncEnv       = "enc-env"        // EncodeEnveloped
	opDecEnv       = "dec-env"        // DecodeEnveloped (strict or legacy input)
	opReadRequest  = "read-request"   // ReadRequest with a body reader (strict, legacy or bare input)
	opGenToWire    = "gen-towire"     // generated ToWire + Encode
	opGenEncode    = "gen-encode"     // generated Encode(stream.Writer)
	opGenFromWire  = "gen-fromwire"   // Decode(bytes) + generated FromWire
	opGenDecode    = "gen-decode"     // generated Decode(stream.Reader) over a segmented reader
	opDecodeReqRaw = "decode-request" // DecodeRequest (random-access twin of ReadRequest)
	opStreamSkip   = "stream-skip"    // stream reader over a segmented reader, Skip()ing a drawn subset of the fields
	opDecodeEval   = "decode-eval"    // binary.Default.Decode + wire.EvaluateValue (iterates and closes everything)
	opServe        = "serve"          // ReadRequest / DecodeRequest, then the responder's EncodeResponse / WriteResponse (serve_test.go)
)

var allOpKinds = []string{opEncode, opDecode, opStreamWrite, opStreamRead, opEncEnv, opDecEnv, opReadRequest,
	opGenToWire, opGenEncode, opGenFromWire, opGenDecode, opDecodeReqRaw, opStreamSkip, opDecodeEval, opServe}

// bigDecodeKinds are the kinds a big binary is decoded through (every one of
// them ends in the stream reader); badKinds are the kinds that may be given an
// input whose forcing fails.
var (
	bigDecodeKinds = []string{opStreamRead, opStreamRead, opGenDecode, opGenDecode, opReadRequest, opReadRequest, opDecode, opDecEnv, opDecodeReqRaw, opGenFromWire, opStreamSkip}
	bigOtherKinds  = []string{opEncode, opStreamWrite, opEncEnv, opGenEncode, opGenToWire, opDecodeEval}
	badKinds       = map[string]bool{opDecode: true, opDecodeEval: true, opDecEnv: true, opDecodeReqRaw: true, opStreamRead: true, opReadRequest: true, opGenFromWire: true, opGenDecode: true}
)

// Op is one drawn operation with its value; everything needed to re-run it.
type Op struct {
	Kind string       `json:"kind"`
	W    *wm.W        `json:"w,omitempty"`    // value (body struct for envelope / request kinds)
	Plan chunkio.Plan `json:"plan,omitempty"` // segmentation for stream-reading kinds
	// envelope / request kinds
	Name    []byte `json:"name,omitempty"`
	EType   int8   `json:"etype,omitempty"`
	SeqID   int32  `json:"seqid,omitempty"`
	Framing string `json:"framing,omitempty"`
	// generated-type kinds
	Gen *Recipe `json:"gen,omitempty"`
	// stream-skip: bit i%64 set = the i-th field of the root struct is skipped, not read
	Skip uint64 `json:"skip,omitempty"`
	// yield mask for the concurrent run (0 = never yield)
	Yield uint64 `json:"yield,omitempty"`
	// Big: the value is withBig(W, Big) -- a struct that also holds a binary longer than 1 MiB
	Big *Big `json:"big,omitempty"`
	// Bad: the input is spoiled so that Decode accepts it and forcing fails (decoding kinds only)
	Bad *Poison `json:"bad,omitempty"`
	// serve: how the request is read and answered
	Serve *Serve `json:"serve,omitempty"`
}

// big reports whether the operation carries a binary longer than 1 MiB.
func (op Op) big() bool { return op.Big != nil || (op.Gen != nil && op.Gen.Big != nil) }

// errPath reports whether the operation is expected to fail (its input is bad).
func (op Op) errPath() bool {
	if op.Bad == nil || !badKinds[op.Kind] {
		return false
	}
	if op.Gen != nil {
		w, err := toW(op.Gen.build())
		return err == nil && stripCandidates(w, false) > 0
	}
	return op.W != nil && (poisonable(*op.W) || (op.Big != nil && op.Big.At == "map-key"))
}

// CodecCase is one case of unit "codec".
type CodecCase struct {
	Ops   []Op `json:"ops"`
	Procs int  `json:"procs"` // GOMAXPROCS during the concurrent phase
	R     int  `json:"r"`     // repetitions of each operation in its goroutine
	GCs   int  `json:"gcs"`   // forced runtime.GC() calls from a side goroutine
}

// result is what an operation yields; exactly the fields relevant to its kind are set.
type result struct {
	bytes []byte
	w     wm.W
	hdr   string      // framing/name/type/seqid rendering for envelope kinds
	obj   interface{} // generated value for gen-fromwire / gen-decode
}

// prepared is an operation with everything computed up front (sequentially)
// that its execution needs: input bytes and the model it must agree with.
type prepared struct {
	op     Op
	input  []byte   // encoded input for decoding kinds
	want   []byte   // spec bytes for encoding kinds (nil for generated kinds: map order is free)
	wantW  wm.W     // model value
	wantH  string   // model header
	orig   genValue // generated kinds: the built value
	semCmp bool     // compare W results up to map/set order (generated kinds)
	base   result   // the sequential baseline
	val    wm.W     // the value the operation works on: withBig(op.W, op.Big)
	bad    bool     // the input is bad: the operation must fail, alone and in company
}

// spoil replaces the body (the tail of input) by its poisoned encoding.
func (p *prepared) spoil() error {
	if p.op.Bad == nil {
		return nil
	}
	clean := refcodec.Encode(p.val)
	if !bytes.HasSuffix(p.input, clean) {
		return ev.Errf("harness/poison", "the input of %s does not end with the encoding of its value", p.op.Kind)
	}
	enc, ok, err := poisonEncoding(p.val, p.op.Bad)
	if err != nil {
		return ev.Errf("harness/poison", "%s: %v", p.op.Kind, err)
	}
	if ok {
		p.input = append(p.input[:len(p.input)-len(clean):len(p.input)-len(clean)], enc...)
		p.bad = true
	}
	return nil
}

func hdr(framing, name string, typ int8, seq int32) string {
	return fmt.Sprintf("%s|%q|%d|%d", framing, name, typ, seq)
}

type yBody struct {
	y   *yielder
	w   wm.W
	err error
}

func (b *yBody) Decode(sr stream.Reader) error {
	b.y.tick()
	b.w, b.err = bridge.StreamRead(sr, wm.KStruct)
	b.y.tick()
	return b.err
}

func classify(r interface{}) (string, string, int32) {
	switch x := r.(type) {
	case *binary.EnvelopeV1Responder:
		return refcodec.FrameStrict, x.Name, x.SeqID
	case *binary.EnvelopeV0Responder:
		return refcodec.FrameLegacy, x.Name, x.SeqID
	}
	if r == interface{}(binary.NoEnvelopeResponder) {
		return refcodec.FrameBare, "", 0
	}
	return fmt.Sprintf("unknown(%T)", r), "", 0
}

// skipModel is w (a struct) without the fields the mask selects.
func skipModel(w wm.W, mask uint64) wm.W {
	out := wm.W{K: wm.KStruct}
	for i, f := range w.Fields {
		if mask>>(uint(i)&63)&1 == 0 {
			out.Fields = append(out.Fields, f)
		}
	}
	return out
}

// streamReadSkipping reads a struct, calling Skip for the selected fields.
func streamReadSkipping(sr stream.Reader, mask uint64) (wm.W, error) {
	if err := sr.ReadStructBegin(); err != nil {
		return wm.W{}, err
	}
	w := wm.W{K: wm.KStruct}
	for i := uint(0); ; i++ {
		fh, ok, err := sr.ReadFieldBegin()
		if err != nil {
			return wm.W{}, err
		}
		if !ok {
			break
		}
		if mask>>(i&63)&1 == 1 {
			if err := sr.Skip(fh.Type); err != nil {
				return wm.W{}, err
			}
		} else {
			v, err := bridge.StreamRead(sr, wm.Kind(fh.Type))
			if err != nil {
				return wm.W{}, err
			}
			w.Fields = append(w.Fields, wm.Field{ID: fh.ID, V: v})
		}
		if err := sr.ReadFieldEnd(); err != nil {
			return wm.W{}, err
		}
	}
	return w, sr.ReadStructEnd()
}

// prepare computes inputs and models; it runs before anything concurrent.
func prepare(op Op) (*prepared, error) {
	p := &prepared{op: op}
	if op.W != nil {
		p.val = withBig(*op.W, op.Big)
	}
	switch op.Kind {
	case opEncode, opStreamWrite:
		p.want = refcodec.Encode(p.val)
	case opDecode, opStreamRead, opDecodeEval:
		p.input = refcodec.Encode(p.val)
		p.wantW = p.val
		if err := p.spoil(); err != nil {
			return nil, err
		}
	case opStreamSkip:
		p.input = refcodec.Encode(p.val)
		p.wantW = skipModel(p.val, op.Skip)
	case opEncEnv:
		p.want = refcodec.EncodeStrict(refcodec.Envelope{Name: op.Name, Type: op.EType, SeqID: op.SeqID, Body: p.val})
	case opDecEnv, opReadRequest, opDecodeReqRaw, opServe:
		e := refcodec.Envelope{Name: op.Name, Type: op.EType, SeqID: op.SeqID, Body: p.val}
		name, seq := string(op.Name), op.SeqID
		switch op.Framing {
		case refcodec.FrameStrict:
			p.input = refcodec.EncodeStrict(e)
		case refcodec.FrameLegacy:
			p.input = refcodec.EncodeLegacy(e)
		default:
			p.input = refcodec.Encode(p.val)
			name, seq = "", 0
		}
		p.wantW = p.val
		p.wantH = hdr(op.Framing, name, op.EType, seq)
		if op.Kind == opServe {
			if op.Serve == nil || op.Serve.Resp == nil || op.Serve.Resp.K != wm.KStruct {
				return nil, ev.Errf("harness/op-kind", "a serve operation needs a response struct")
			}
			if op.Serve.Respond != respondWriteFail {
				p.want = serveWant(op.Framing, op.Name, op.SeqID, op.Serve)
			}
		}
		if err := p.spoil(); err != nil {
			return nil, err
		}
	case opGenToWire, opGenEncode, opGenFromWire, opGenDecode:
		p.orig = op.Gen.build()
		w, err := toW(p.orig)
		if err != nil {
			return nil, ev.Errf("harness/gen-build", "building the generated value for %s failed: %v", op.Gen.Kind, err)
		}
		p.wantW = w
		p.input = refcodec.Encode(w)
		p.semCmp = true
		if op.Bad != nil && badKinds[op.Kind] {
			if n := stripCandidates(w, false); n > 0 {
				k := op.Bad.N % n
				p.input = refcodec.Encode(stripRequired(w, false, &k))
				p.bad = true
			}
		}
	default:
		return nil, ev.Errf("harness/op-kind", "unknown op kind %q", op.Kind)
	}
	return p, nil
}

// exec runs the operation once against the shared protocol object.
func (p *prepared) exec(y *yielder) (res result, err error) {
	op := p.op
	switch op.Kind {
	case opEncode:
		var b bytes.Buffer
		b.Grow(len(p.want))
		err = binary.Default.Encode(bridge.ToWire(p.val), yWriter{&b, y})
		res.bytes = b.Bytes()
	case opStreamWrite:
		var b bytes.Buffer
		b.Grow(len(p.want))
		sw := binary.Default.Writer(yWriter{&b, y})
		err = bridge.StreamWrite(sw, p.val)
		if cerr := sw.Close(); err == nil {
			err = cerr
		}
		res.bytes = b.Bytes()
	case opDecode:
		var v wire.Value
		v, err = binary.Default.Decode(yReaderAt{bytes.NewReader(p.input), y}, wire.Type(p.val.K))
		if err == nil {
			y.tick()
			res.w, err = forceAll(v)
		}
	case opDecodeEval:
		var v wire.Value
		v, err = binary.Default.Decode(yReaderAt{bytes.NewReader(p.input), y}, wire.Type(p.val.K))
		if err == nil {
			y.tick()
			err = wire.EvaluateValue(v)
		}
	case opStreamRead:
		sr := binary.Default.Reader(planReader(p.input, op.Plan, y))
		res.w, err = bridge.StreamRead(sr, p.val.K)
		if cerr := sr.Close(); err == nil {
			err = cerr
		}
	case opStreamSkip:
		sr := binary.Default.Reader(planReader(p.input, op.Plan, y))
		res.w, err = streamReadSkipping(sr, op.Skip)
		if cerr := sr.Close(); err == nil {
			err = cerr
		}
	case opEncEnv:
		var b bytes.Buffer
		b.Grow(len(p.want))
		err = binary.Default.EncodeEnveloped(wire.Envelope{Name: string(op.Name), Type: wire.EnvelopeType(op.EType), SeqID: op.SeqID, Value: bridge.ToWire(p.val)}, yWriter{&b, y})
		res.bytes = b.Bytes()
	case opDecEnv:
		var e wire.Envelope
		e, err = binary.Default.DecodeEnveloped(yReaderAt{bytes.NewReader(p.input), y})
		if err == nil {
			y.tick()
			res.hdr = hdr(op.Framing, e.Name, int8(e.Type), e.SeqID)
			res.w, err = forceAll(e.Value)
		}
	case opDecodeReqRaw:
		v, resp, derr := binary.Default.DecodeRequest(wire.EnvelopeType(op.EType), yReaderAt{bytes.NewReader(p.input), y})
		err = derr
		if err == nil {
			f, n, s := classify(resp)
			res.hdr = hdr(f, n, op.EType, s)
			res.w, err = forceAll(v)
		}
	case opReadRequest:
		body := &yBody{y: y}
		var rw stream.ResponseWriter
		rw, err = binary.Default.ReadRequest(context.Background(), wire.EnvelopeType(op.EType), planReader(p.input, op.Plan, y), body)
		if err == nil {
			f, n, s := classify(rw)
			res.hdr = hdr(f, n, op.EType, s)
			res.w = body.w
		}
	case opServe:
		res.hdr, res.w, res.bytes, err = serveOnce(p.input, op.Plan, op.EType, op.Serve, y, len(p.want))
	case opGenToWire:
		var v wire.Value
		v, err = p.orig.ToWire()
		if err == nil {
			var b bytes.Buffer
			y.tick()
			err = binary.Default.Encode(v, yWriter{&b, y})
			res.bytes = b.Bytes()
		}
	case opGenEncode:
		var b bytes.Buffer
		sw := binary.Default.Writer(yWriter{&b, y})
		err = p.orig.Encode(sw)
		if cerr := sw.Close(); err == nil {
			err = cerr
		}
		res.bytes = b.Bytes()
	case opGenFromWire:
		var v wire.Value
		v, err = binary.Default.Decode(yReaderAt{bytes.NewReader(p.input), y}, wire.TStruct)
		if err == nil {
			z := newGen(op.Gen.Kind)
			y.tick()
			err = z.FromWire(v)
			res.obj = z
			if err == nil {
				res.w, err = toW(z)
			}
		}
	case opGenDecode:
		sr := binary.Default.Reader(planReader(p.input, op.Plan, y))
		z := newGen(op.Gen.Kind)
		err = z.Decode(sr)
		if cerr := sr.Close(); err == nil {
			err = cerr
		}
		res.obj = z
		if err == nil {
			res.w, err = toW(z)
		}
	}
	return res, err
}

func producesBytes(kind string) bool {
	switch kind {
	case opEncode, opStreamWrite, opEncEnv, opGenToWire, opGenEncode:
		return true
	}
	return false
}

// agrees checks a result against the model (spec bytes / model value).
// It returns "" or a short reason.
func (p *prepared) agrees(r result) string {
	if p.op.Kind == opDecodeEval {
		return "" // success is all EvaluateValue reports
	}
	if p.op.Kind == opServe && !bytes.Equal(r.bytes, p.want) {
		return fmt.Sprintf("the response differs from the spec encoding at offset %d (got %d bytes, want %d): got %x… want %x…", firstDiff(r.bytes, p.want), len(r.bytes), len(p.want), clip(r.bytes, 32), clip(p.want, 32))
	}
	if producesBytes(p.op.Kind) {
		if p.want != nil {
			if !bytes.Equal(r.bytes, p.want) {
				return fmt.Sprintf("bytes differ from the spec encoding at offset %d (got %d bytes, want %d)", firstDiff(r.bytes, p.want), len(r.bytes), len(p.want))
			}
			return ""
		}
		// generated kinds: strict reference decode, compare up to map order
		w, n, err := refcodec.Decode(wm.KStruct, r.bytes)
		if err != nil || n != len(r.bytes) {
			return fmt.Sprintf("output is not one well-formed struct (err=%v, consumed %d of %d)", err, n, len(r.bytes))
		}
		if !wm.SemEqual(w, p.wantW) {
			return fmt.Sprintf("output decodes to %s, want %s", wm.Render(w), wm.Render(p.wantW))
		}
		return ""
	}
	if r.hdr != p.wantH {
		return fmt.Sprintf("header %s, want %s", r.hdr, p.wantH)
	}
	if p.semCmp {
		if !wm.SemEqual(r.w, p.wantW) {
			return fmt.Sprintf("value %s, want %s", wm.Render(r.w), wm.Render(p.wantW))
		}
		return ""
	}
	if !wm.Equal(r.w, p.wantW) {
		return fmt.Sprintf("value %s, want %s", wm.Render(r.w), wm.Render(p.wantW))
	}
	return ""
}

// sameAsBaseline compares a concurrent result with the sequential baseline.
func (p *prepared) sameAsBaseline(r result) string {
	b := p.base
	if p.op.Kind == opDecodeEval {
		return ""
	}
	if producesBytes(p.op.Kind) {
		if bytes.Equal(r.bytes, b.bytes) {
			return ""
		}
		if p.want != nil {
			return fmt.Sprintf("bytes differ from the sequential baseline at offset %d (got %d bytes, baseline %d): got %x… baseline %x…", firstDiff(r.bytes, b.bytes), len(r.bytes), len(b.bytes), clip(r.bytes, 32), clip(b.bytes, 32))
		}
		// generated encoders iterate Go maps: byte order is free, content is not
		return p.agrees(r)
	}
	if p.op.Kind == opServe && !bytes.Equal(r.bytes, b.bytes) {
		return fmt.Sprintf("the response differs from the sequential baseline at offset %d (got %d bytes, baseline %d): got %x… baseline %x…", firstDiff(r.bytes, b.bytes), len(r.bytes), len(b.bytes), clip(r.bytes, 32), clip(b.bytes, 32))
	}
	if r.hdr != b.hdr {
		return fmt.Sprintf("header %s, sequential baseline %s", r.hdr, b.hdr)
	}
	eq := wm.Equal
	if p.semCmp {
		eq = wm.SemEqual
	}
	if !eq(r.w, b.w) {
		return fmt.Sprintf("value %s, sequential baseline %s", wm.Render(r.w), wm.Render(b.w))
	}
	if b.obj != nil && !reflect.DeepEqual(r.obj, b.obj) {
		return fmt.Sprintf("generated value %s, sequential baseline %s", clipStr(fmt.Sprint(r.obj), 300), clipStr(fmt.Sprint(b.obj), 300))
	}
	return ""
}

// stillAgrees re-examines, at the end of a case, a result obtained earlier:
// what an operation returned belongs to its caller and must not change because
// later operations ran. Generated values are rendered again from the object.
func (p *prepared) stillAgrees(r result) string {
	if r.obj != nil {
		w, err := toW(r.obj.(genValue))
		if err != nil {
			return fmt.Sprintf("the generated value no longer converts: %v", err)
		}
		if !wm.SemEqual(w, p.wantW) {
			return fmt.Sprintf("the generated value now renders as %s, want %s", wm.Render(w), wm.Render(p.wantW))
		}
	}
	return p.agrees(r)
}

func firstDiff(a, b []byte) int {
	n := len(a)
	if len(b) < n {
		n = len(b)
	}
	for i := 0; i < n; i++ {
		if a[i] != b[i] {
			return i
		}
	}
	return n
}

func clip(b []byte, n int) []byte {
	if len(b) > n {
		return b[:n]
	}
	return b
}

func (op Op) render() string {
	var s string
	switch {
	case op.Gen != nil:
		s = fmt.Sprintf("%s(%s salt=%d strs=%q nums=%v%s)", op.Kind, op.Gen.Kind, op.Gen.Salt, op.Gen.Strs, op.Gen.Nums, op.Gen.Big)
	case op.Serve != nil:
		s = fmt.Sprintf("%s(%s %s name=%q type=%d seq=%d body=%s rtype=%d response=%s)", op.Kind, op.Framing, op.Serve, op.Name, op.EType, op.SeqID, clipStr(wm.Render(*op.W), 60), op.Serve.RType, wm.Render(*op.Serve.Resp))
	case op.Framing != "" || op.Kind == opEncEnv:
		s = fmt.Sprintf("%s(%s name=%q type=%d seq=%d body=%s)", op.Kind, op.Framing, op.Name, op.EType, op.SeqID, wm.Render(*op.W))
	default:
		s = fmt.Sprintf("%s(%s)", op.Kind, wm.Render(*op.W))
	}
	if len(s) > 200 {
		s = s[:200] + "…"
	}
	s += op.Big.String()
	if op.Bad != nil {
		s += fmt.Sprintf(" +bad[n=%d byte=%#x]", op.Bad.N, op.Bad.Byte)
	}
	return s
}

func describeOps(ops []Op) string {
	var sb strings.Builder
	for i, op := range ops {
		fmt.Fprintf(&sb, "\n  #%d %s", i, op.render())
	}
	return sb.String()
}

// checkCodec is the oracle of unit "codec".
func checkCodec(c CodecCase) error {
	if len(c.Ops) == 0 {
		return nil
	}
	drainPools() // same starting point in the rapid run and in a replay
	// phase 0: inputs and models
	ps := make([]*prepared, len(c.Ops))
	for i, op := range c.Ops {
		p, err := prepare(op)
		if err != nil {
			return err
		}
		ps[i] = p
	}
	// phase 1: every operation alone, sequentially; must agree with the model
	// (an operation on a bad input must fail, with an error)
	for i, p := range ps {
		var res result
		err := ev.Guard(func() (e error) { res, e = p.exec(nil); return })
		if pe, ok := err.(*ev.PanicError); ok {
			return ev.Errf("baseline/"+p.op.Kind+"/panic", "op #%d %s panicked when run alone: %s", i, p.op.render(), pe.Error())
		}
		if p.bad {
			if err == nil {
				return ev.Errf("baseline/"+p.op.Kind+"/error-missed", "op #%d %s run alone succeeds on an input the reference decoder rejects (got %s)", i, p.op.render(), wm.Render(res.w))
			}
			continue
		}
		if err != nil {
			return ev.Errf("baseline/"+p.op.Kind+"/error", "op #%d %s failed when run alone: %v", i, p.op.render(), err)
		}
		if why := p.agrees(res); why != "" {
			return ev.Errf("baseline/"+p.op.Kind+"/model", "op #%d %s run alone: %s", i, p.op.render(), why)
		}
		p.base = res
	}
	// phase 2: all together
	procs := c.Procs
	if procs < 1 {
		procs = 1
	}
	reps := c.R
	if reps < 1 {
		reps = 1
	}
	prev := runtime.GOMAXPROCS(procs)
	defer runtime.GOMAXPROCS(prev)

	type failure struct {
		key, msg string
	}
	fails := make([]*failure, len(ps))
	last := make([]result, len(ps)) // what the final repetition of each operation returned
	start := make(chan struct{})
	var wg sync.WaitGroup
	for i, p := range ps {
		wg.Add(1)
		go func(i int, p *prepared) {
			defer wg.Done()
			<-start
			n := reps
			if p.op.big() {
				n = 1 // every run of a big operation allocates (and, under the race detector, page-faults) megabytes
			}
			for rep := 0; rep < n; rep++ {
				var res result
				y := &yielder{mask: p.op.Yield}
				err := ev.Guard(func() (e error) { res, e = p.exec(y); return })
				if pe, ok := err.(*ev.PanicError); ok {
					fails[i] = &failure{"concurrent/" + p.op.Kind + "/panic", fmt.Sprintf("op #%d (repetition %d) panicked: %s", i, rep, pe.Error())}
					return
				}
				if p.bad {
					if err == nil {
						fails[i] = &failure{"concurrent/" + p.op.Kind + "/error-missed", fmt.Sprintf("op #%d (repetition %d) succeeds although it fails alone (got %s)", i, rep, wm.Render(res.w))}
						return
					}
					continue
				}
				if err != nil {
					fails[i] = &failure{"concurrent/" + p.op.Kind + "/error", fmt.Sprintf("op #%d (repetition %d) failed although it succeeds alone: %v", i, rep, err)}
					return
				}
				if why := p.sameAsBaseline(res); why != "" {
					fails[i] = &failure{"concurrent/" + p.op.Kind + "/differs", fmt.Sprintf("op #%d (repetition %d): %s", i, rep, why)}
					return
				}
				last[i] = res
			}
		}(i, p)
	}
	gcDone := make(chan struct{})
	go func() {
		defer close(gcDone)
		<-start
		for i := 0; i < c.GCs; i++ {
			runtime.Gosched()
			runtime.GC() // moves / drops everything the sync.Pools hold
		}
	}()
	close(start)
	wg.Wait()
	<-gcDone
	tail := func(i int) string {
		return fmt.Sprintf("\n op #%d = %s\n GOMAXPROCS=%d R=%d GCs=%d; all %d operations:%s", i, c.Ops[i].render(), procs, reps, c.GCs, len(c.Ops), describeOps(c.Ops))
	}
	for i, f := range fails {
		if f != nil {
			return ev.Errf(f.key, "%s%s", f.msg, tail(i))
		}
	}
	// phase 3: what the operations returned earlier is still what it was
	for i, p := range ps {
		if p.bad {
			continue
		}
		if why := p.stillAgrees(p.base); why != "" {
			return ev.Errf("final/"+p.op.Kind+"/baseline-changed", "the result op #%d returned when run alone was right then and has changed since: %s%s", i, why, tail(i))
		}
		if why := p.stillAgrees(last[i]); why != "" {
			return ev.Errf("final/"+p.op.Kind+"/result-changed", "the result of the last repetition of op #%d equalled the baseline when it was returned and has changed since: %s%s", i, why, tail(i))
		}
	}
	return nil
}

// ---------------------------------------------------------------- generators

func genIdent(t *rapid.T, label string) string {
	if rapid.IntRange(0, 7).Draw(t, label+"_u") == 0 {
		return rapid.SampledFrom([]string{"", "é", "世界", "a b", "x\ty", "Svc:method"}).Draw(t, label+"_s")
	}
	return rapid.StringMatching(`[a-zA-Z_][a-zA-Z0-9_./]{0,11}`).Draw(t, label)
}

func genValueW(t *rapid.T, k wm.Kind, label string) *wm.W {
	w := wm.Gen(t, k, wm.GenOpts{MaxDepth: rapid.IntRange(1, 3).Draw(t, label+"_d"), MaxLen: 4}, label)
	return &w
}

// genOp draws operation #i. With bad set, a decoding kind gets an input whose
// forcing fails; with big set, the value carries a binary longer than 1 MiB.
func genOp(t *rapid.T, i int, kinds []string, bad bool, big *Big) Op {
	label := fmt.Sprintf("op%d", i)
	op := Op{Kind: rapid.SampledFrom(kinds).Draw(t, label+"_kind")}
	bad = bad && badKinds[op.Kind]
	switch {
	case bad && op.Gen == nil && (op.Kind == opDecode || op.Kind == opDecodeEval || op.Kind == opStreamRead):
		op.W, op.Bad = genPoisonable(t, false, label), genPoison(t, label)
	case bad && (op.Kind == opDecEnv || op.Kind == opReadRequest || op.Kind == opDecodeReqRaw):
		op.W, op.Bad = genPoisonable(t, true, label), genPoison(t, label)
	}
	switch op.Kind {
	case opEncode, opDecode, opStreamWrite, opStreamRead, opDecodeEval:
		if op.W == nil {
			op.W = genValueW(t, wm.GenRootKind().Draw(t, label+"_root"), label)
		}
	case opStreamSkip:
		op.W = genValueW(t, wm.KStruct, label)
		op.Skip = rapid.Uint64().Draw(t, label+"_skip")
	case opEncEnv, opDecEnv, opReadRequest, opDecodeReqRaw, opServe:
		if op.W == nil {
			op.W = genValueW(t, wm.KStruct, label)
		}
		op.Name = []byte(genIdent(t, label+"_name"))
		op.SeqID = rapid.Int32().Draw(t, label+"_seq")
		switch op.Kind {
		case opEncEnv:
			op.EType = rapid.SampledFrom([]int8{1, 2, 3, 4}).Draw(t, label+"_etype")
			op.Framing = refcodec.FrameStrict
		case opDecEnv:
			op.EType = rapid.SampledFrom([]int8{1, 2, 3, 4}).Draw(t, label+"_etype")
			op.Framing = rapid.SampledFrom([]string{refcodec.FrameStrict, refcodec.FrameLegacy}).Draw(t, label+"_framing")
		default:
			op.EType = rapid.SampledFrom([]int8{1, 4}).Draw(t, label+"_etype")
			op.Framing = rapid.SampledFrom([]string{refcodec.FrameStrict, refcodec.FrameLegacy, refcodec.FrameBare}).Draw(t, label+"_framing")
		}
		if len(op.Name) == 0 {
			// a legacy envelope with an empty name starts 00 00 00 00: DecodeEnveloped takes a
			// non-positive first word for a (bad) version word. Envelope framing is C12's
			// business, not C18's: method names here are never empty.
			op.Name = []byte("m")
		}
		if op.Kind == opServe {
			op.Serve = genServe(t, label+"_serve")
		}
	default:
		op.Gen = genRecipe(t, label, i)
		if bad {
			// recipes whose values hold structs beneath containers
			op.Gen.Kind = rapid.SampledFrom([]string{"function", "service", "request", "request", "type"}).Draw(t, label+"_badgkind")
			op.Bad = genPoison(t, label)
		}
		if big != nil {
			op.Gen.Kind = rapid.SampledFrom([]string{"handshake", "response"}).Draw(t, label+"_biggkind")
			op.Gen.Big = big
		}
	}
	if big != nil && op.Gen == nil {
		op.Big = big
	}
	switch op.Kind {
	case opStreamRead, opReadRequest, opGenDecode, opStreamSkip, opServe:
		op.Plan = chunkio.GenPlan(t, label+"_plan")
		if big != nil {
			op.Plan = bigPlan(t, op.Plan, label)
		}
	}
	return op
}

func opCanon(op Op) []byte {
	o := op
	o.Yield = 0
	o.Plan = chunkio.Plan{}
	b, _ := json.Marshal(o)
	return b
}

// makeDistinct wraps the value of an operation that duplicates an earlier one
// of the same kind, so that cross-talk between any two operations is visible.
func makeDistinct(ops []Op) {
	seen := map[string]bool{}
	for i := range ops {
		k := string(opCanon(ops[i]))
		if seen[k] && ops[i].W != nil {
			inner := *ops[i].W
			w := wm.Struct(wm.Field{ID: 1, V: inner}, wm.Field{ID: 2, V: wm.I32(int32(i))})
			ops[i].W = &w
			k = string(opCanon(ops[i]))
		}
		seen[k] = true
	}
}

func countBucket(n int) string {
	switch {
	case n == 0:
		return "0"
	case n == 1:
		return "1"
	case n <= 4:
		return "2-4"
	}
	return "5+"
}

func kBucket(k int) string {
	switch {
	case k <= 3:
		return "K:2-3"
	case k <= 8:
		return "K:4-8"
	case k <= 24:
		return "K:9-24"
	}
	return "K:25-64"
}

func genK(t *rapid.T, label string) int {
	switch rapid.IntRange(0, 9).Draw(t, label+"_bucket") {
	case 0:
		return rapid.IntRange(2, 3).Draw(t, label)
	case 1, 2, 3, 4:
		return rapid.IntRange(4, 8).Draw(t, label)
	case 5, 6, 7:
		return rapid.IntRange(9, 24).Draw(t, label)
	}
	return rapid.IntRange(25, 64).Draw(t, label)
}

func genYield(t *rapid.T, label string) uint64 {
	switch rapid.IntRange(0, 3).Draw(t, label+"_ymode") {
	case 0:
		return 0
	case 1:
		return ^uint64(0)
	}
	return rapid.Uint64().Draw(t, label+"_ymask")
}

func kindsOf(ops []Op) []string {
	m := map[string]bool{}
	for _, op := range ops {
		m[op.Kind] = true
	}
	var ks []string
	for k := range m {
		ks = append(ks, k)
	}
	sort.Strings(ks)
	return ks
}

func TestConcurrentCodec(t *testing.T) {
	rapid.Check(t, func(t *rapid.T) {
		k := genK(t, "K")
		// either the full mix, or a narrow mix that hammers one or two pools
		kinds := allOpKinds
		if rapid.IntRange(0, 2).Draw(t, "narrow") == 0 {
			kinds = rapid.SliceOfNDistinct(rapid.SampledFrom(allOpKinds), 2, 3, rapid.ID[string]).Draw(t, "kinds")
		}
		c := CodecCase{
			Procs: rapid.SampledFrom([]int{1, 2, 16}).Draw(t, "procs"),
			R:     rapid.IntRange(1, 8).Draw(t, "R"),
			GCs:   rapid.SampledFrom([]int{0, 0, 1, 2, 3}).Draw(t, "gcs"),
		}
		yields := rapid.Bool().Draw(t, "yields")
		// error paths: in a third of the cases some decoding operations get bad inputs
		errCase := rapid.IntRange(0, 2).Draw(t, "err_paths") == 0
		for i := 0; i < k; i++ {
			bad := errCase && rapid.IntRange(0, 2).Draw(t, fmt.Sprintf("op%d_bad", i)) == 0
			op := genOp(t, i, kinds, bad, nil)
			if yields {
				op.Yield = genYield(t, fmt.Sprintf("op%d", i))
			}
			c.Ops = append(c.Ops, op)
		}
		// big binaries: in one case of thirty-two two or three extra operations (mostly
		// decoders, whatever the mix) carry a binary or string longer than 1 MiB
		if rare(t, "big_case", 5) {
			base := rapid.Byte().Draw(t, "big_fill")
			budget := maxBigPerCase
			for n := 0; budget > 0 && n < 3; n++ {
				i := len(c.Ops)
				ks := bigDecodeKinds
				if n > 0 && rapid.IntRange(0, 3).Draw(t, fmt.Sprintf("op%d_bigother", i)) == 0 {
					ks = bigOtherKinds
				}
				b := genBig(t, fmt.Sprintf("op%d", i), base, n, budget)
				budget -= b.weight()
				op := genOp(t, i, ks, false, b)
				if yields {
					op.Yield = genYield(t, fmt.Sprintf("op%d", i))
				}
				c.Ops = append(c.Ops, op)
			}
			// big operations need not come last
			for n := rapid.IntRange(0, 3).Draw(t, "big_swaps"); n > 0; n-- {
				a := rapid.IntRange(0, len(c.Ops)-1).Draw(t, "swap_a")
				b := rapid.IntRange(0, len(c.Ops)-1).Draw(t, "swap_b")
				c.Ops[a], c.Ops[b] = c.Ops[b], c.Ops[a]
			}
		}
		makeDistinct(c.Ops)
		runCodec(t, c)
	})
}

func runCodec(t ev.TB, c CodecCase) {
	ks := kindsOf(c.Ops)
	nontriv := len(c.Ops) >= 4 && len(ks) >= 2
	anyYield := false
	for _, op := range c.Ops {
		if op.Yield != 0 {
			anyYield = true
		}
	}
	cls := []string{"unit:codec", fmt.Sprintf("procs:%d", c.Procs), kBucket(len(c.Ops)), fmt.Sprintf("gc:%v", c.GCs > 0), fmt.Sprintf("yield:%v", anyYield), fmt.Sprintf("R:%d", c.R), fmt.Sprintf("kinds:%d", len(ks))}
	for _, k := range ks {
		cls = append(cls, "op:"+k)
	}
	nBad, nBig := 0, 0
	for _, op := range c.Ops {
		if op.errPath() {
			nBad++
			cls = append(cls, "bad-input:"+op.Kind)
		}
		if op.big() {
			nBig++
			cls = append(cls, "big:"+op.Kind)
		}
		if op.Serve != nil {
			cls = append(cls, "serve:"+op.Framing+"/"+op.Serve.String())
		}
	}
	cls = append(cls, fmt.Sprintf("bad-inputs:%s", countBucket(nBad)), fmt.Sprintf("big-binaries:%d", nBig))
	d := ev.DigestJSON(c)
	ev.Case(d, nontriv, cls...)
	if nontriv {
		ev.KeepSample("codec", d, func() interface{} {
			n := len(c.Ops)
			if n > 6 {
				n = 6
			}
			var ops []string
			for _, op := range c.Ops[:n] {
				ops = append(ops, op.render())
			}
			return map[string]interface{}{"K": len(c.Ops), "kinds": ks, "procs": c.Procs, "R": c.R, "gcs": c.GCs, "yields": anyYield, "first_ops": ops}
		})
	}
	ev.Report(t, "codec", c, ev.Guard(func() error { return checkCodec(c) }))
}

// ---------------------------------------------------------------- replay

func replayOne(t *testing.T, f *ev.Failure) bool {
	switch f.Unit {
	case "codec":
		var c CodecCase
		if err := json.Unmarshal(f.Case, &c); err != nil {
			t.Fatal(err)
		}
		ev.Report(t, f.Unit, c, ev.Guard(func() error { return checkCodec(c) }))
	case "pool":
		var c PoolCase
		if err := json.Unmarshal(f.Case, &c); err != nil {
			t.Fatal(err)
		}
		ev.Report(t, f.Unit, c, ev.Guard(func() error { return checkPool(c) }))
	case "frame-client":
		var c FrameCase
		if err := json.Unmarshal(f.Case, &c); err != nil {
			t.Fatal(err)
		}
		ev.Report(t, f.Unit, c, ev.Guard(func() error { return checkFrameClient(c) }))
	case "frame-stream":
		var c StreamCase
		if err := json.Unmarshal(f.Case, &c); err != nil {
			t.Fatal(err)
		}
		ev.Report(t, f.Unit, c, ev.Guard(func() error { return checkFrameStream(c) }))
	case "multi":
		var c MultiCase
		if err := json.Unmarshal(f.Case, &c); err != nil {
			t.Fatal(err)
		}
		ev.Report(t, f.Unit, c, ev.Guard(func() error { return checkMulti(c) }))
	default:
		return false
	}
	return true
}

func TestReplay(t *testing.T)  { ev.RunReplay(t, replayOne) }
func TestRegress(t *testing.T) { ev.RunRegress(t, replayOne) }
