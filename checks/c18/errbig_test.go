//go:build verif

package c18

import (
	"bytes"
	"errors"
	"fmt"
	"math"

	"go.uber.org/thriftrw/wire"
	"pgregory.net/rapid"
	"verif/internal/chunkio"
	"verif/internal/refcodec"
	wm "verif/internal/wiremodel"
)

// This file holds what the codec unit and the pool state machine share for
// their two extra value classes:
//
//   - "big": a binary (or string) longer than 1 MiB, the length above which the
//     stream reader changes the way it collects the bytes. It is described
//     symbolically (length, fill byte, place), so the case JSON stays small.
//   - "bad": an input that Decode accepts but whose forcing fails part-way (a
//     bool byte other than 0/1 beneath a lazily read container; for generated
//     types a struct beneath a container that lacks a required field). These
//     are the error paths of the pooled cursors: ForEach returns an error and
//     the consumer still closes, as the wire package documents.

// ---------------------------------------------------------------- big binaries

const (
	bigMin        = 1<<20 + 1 // first length beyond the stream reader's allocation threshold
	bigMax        = 3 << 19   // 1.5 MiB
	maxBigPerCase = 3         // weight budget (a "pair" weighs 2): keeps a case below ~40 MiB
)

// Big is one big binary and where it sits in the operation's value.
type Big struct {
	Len  int    `json:"len"`
	Fill byte   `json:"fill"`
	At   string `json:"at"` // field | list | set | map-value | map-key | pair (two big fields in one value)
}

var bigPlaces = []string{"field", "field", "list", "set", "map-value", "map-key", "pair"}

func (b *Big) weight() int {
	if b != nil && b.At == "pair" {
		return 2
	}
	return 1
}

func (b *Big) String() string {
	if b == nil {
		return ""
	}
	return fmt.Sprintf(" +big[%d×%02x @%s]", b.Len, b.Fill, b.At)
}

// bigBytes is n times fill, with the length stamped at both ends (so two
// binaries of one fill but different lengths differ where they overlap).
func bigBytes(n int, fill byte) []byte {
	bs := bytes.Repeat([]byte{fill}, n)
	for i := 0; i < 4 && i < n; i++ {
		bs[i] = byte(n >> (8 * (3 - i)))
		bs[n-1-i] = byte(n >> (8 * i))
	}
	return bs
}

// pairSecond is the second big binary of place "pair".
func (b *Big) pairSecond() []byte { return bigBytes(bigMin+int(b.Fill), ^b.Fill) }

// withBig wraps w into a struct that also holds the big binary.
func withBig(w wm.W, b *Big) wm.W {
	if b == nil {
		return w
	}
	big := wm.Binary(bigBytes(b.Len, b.Fill))
	small := wm.Binary([]byte{b.Fill, 1, 2, 3})
	var h wm.W
	switch b.At {
	case "list":
		h = wm.List(wm.KBinary, small, big)
	case "set":
		h = wm.Set(wm.KBinary, big, small)
	case "map-value":
		h = wm.Map(wm.KI32, wm.KBinary, wm.Pair{K: wm.I32(int32(b.Fill)), V: big})
	case "map-key":
		h = wm.Map(wm.KBinary, wm.KBool, wm.Pair{K: big, V: wm.Bool(true)})
	case "pair":
		return wm.Struct(wm.Field{ID: 1, V: big}, wm.Field{ID: 2, V: w}, wm.Field{ID: 3, V: wm.Binary(b.pairSecond())})
	default:
		h = big
	}
	return wm.Struct(wm.Field{ID: 1, V: w}, wm.Field{ID: 2, V: h})
}

// genBig draws the nth big binary of a case: fills are distinct within a case.
func genBig(t *rapid.T, label string, base byte, nth int, budget int) *Big {
	b := &Big{
		Len:  rapid.IntRange(bigMin, bigMax).Draw(t, label+"_biglen"),
		Fill: base + byte(37*nth),
		At:   rapid.SampledFrom(bigPlaces).Draw(t, label+"_bigat"),
	}
	if rapid.IntRange(0, 3).Draw(t, label+"_bigedge") == 0 {
		b.Len = bigMin + rapid.IntRange(0, 2).Draw(t, label+"_bigedgelen")
	}
	if b.weight() > budget {
		b.At = "field"
	}
	return b
}

// rare is true once in 2^bits cases. (rapid's integer draws favour the ends of
// their range: "IntRange(0, n) == 0" is far more frequent than 1/(n+1). Bools
// are fair coins.)
func rare(t *rapid.T, label string, bits int) bool {
	r := true
	for i := 0; i < bits; i++ {
		if !rapid.Bool().Draw(t, fmt.Sprintf("%s_%d", label, i)) {
			r = false
		}
	}
	return r
}

// bigPlan keeps the first (small) reads of a plan but delivers the remainder in
// blocks: a megabyte in 1-byte reads under the race detector costs seconds.
func bigPlan(t *rapid.T, p chunkio.Plan, label string) chunkio.Plan {
	if p.Rest > 0 {
		p.Rest = rapid.IntRange(4096, 1<<16).Draw(t, label+"_bigrest")
	}
	return p
}

// ---------------------------------------------------------------- bad inputs

// Poison selects the bool byte to spoil (generic values) or the struct to strip
// of its required field (generated types).
type Poison struct {
	N    int  `json:"n"`    // which candidate (modulo their number)
	Byte byte `json:"byte"` // the invalid bool byte, 2..255 (unused for generated types)
}

// boolOffsets appends the offsets, inside refcodec.Encode(w) placed at off, of
// every bool byte that lies beneath at least one list, set or map: those are
// skipped by width when the container is decoded and only validated when it is
// iterated. It returns the offset after w.
func boolOffsets(w wm.W, off int, lazy bool, out *[]int) int {
	switch w.K {
	case wm.KBool:
		if lazy {
			*out = append(*out, off)
		}
		return off + 1
	case wm.KI8:
		return off + 1
	case wm.KI16:
		return off + 2
	case wm.KI32:
		return off + 4
	case wm.KI64, wm.KDouble:
		return off + 8
	case wm.KBinary:
		return off + 4 + len(w.Bin)
	case wm.KStruct:
		for _, f := range w.Fields {
			off = boolOffsets(f.V, off+3, lazy, out)
		}
		return off + 1
	case wm.KList, wm.KSet:
		off += 5
		for _, e := range w.Elems {
			off = boolOffsets(e, off, true, out)
		}
		return off
	case wm.KMap:
		off += 6
		for _, p := range w.Pairs {
			off = boolOffsets(p.K, off, true, out)
			off = boolOffsets(p.V, off, true, out)
		}
		return off
	}
	return off
}

// poisonable reports whether w has a bool beneath a container.
func poisonable(w wm.W) bool {
	var offs []int
	boolOffsets(w, 0, false, &offs)
	return len(offs) > 0
}

// poisonEncoding returns the spec encoding of w with one lazily validated bool
// byte replaced; ok is false when w has no such byte.
func poisonEncoding(w wm.W, p *Poison) (enc []byte, ok bool, err error) {
	enc = refcodec.Encode(w)
	if p == nil {
		return enc, false, nil
	}
	var offs []int
	end := boolOffsets(w, 0, false, &offs)
	if end != len(enc) {
		return nil, false, fmt.Errorf("layout walk ends at %d, encoding has %d bytes", end, len(enc))
	}
	if len(offs) == 0 {
		return enc, false, nil
	}
	n := p.N
	if n < 0 {
		n = -(n + 1)
	}
	o := offs[n%len(offs)]
	if enc[o] > 1 {
		return nil, false, fmt.Errorf("offset %d holds %#x, not a bool", o, enc[o])
	}
	b := p.Byte
	if b < 2 {
		b += 2
	}
	enc[o] = b
	if _, _, derr := refcodec.Decode(w.K, enc); derr == nil {
		return nil, false, fmt.Errorf("the reference decoder accepts the poisoned input")
	}
	return enc, true, nil
}

// stripCandidates counts the structs beneath a container that have a field 1.
// In plugin/api every such struct (Argument, Function, Service, Module,
// TypePair, TypeReference) requires its field 1, and a Type union that holds
// field 1 holds nothing else: without it the generated reader must fail.
func stripCandidates(w wm.W, lazy bool) int {
	n := 0
	switch w.K {
	case wm.KStruct:
		for _, f := range w.Fields {
			if f.ID == 1 && lazy {
				n++
			}
			n += stripCandidates(f.V, lazy)
		}
	case wm.KList, wm.KSet:
		for _, e := range w.Elems {
			n += stripCandidates(e, true)
		}
	case wm.KMap:
		for _, p := range w.Pairs {
			n += stripCandidates(p.K, true) + stripCandidates(p.V, true)
		}
	}
	return n
}

// stripRequired returns w without field 1 of its (*n)th candidate struct.
func stripRequired(w wm.W, lazy bool, n *int) wm.W {
	switch w.K {
	case wm.KStruct:
		out := wm.W{K: wm.KStruct}
		for _, f := range w.Fields {
			if f.ID == 1 && lazy {
				if *n == 0 {
					*n = -1
					continue
				}
				if *n > 0 {
					*n--
				}
			}
			out.Fields = append(out.Fields, wm.Field{ID: f.ID, V: stripRequired(f.V, lazy, n)})
		}
		return out
	case wm.KList, wm.KSet:
		out := wm.W{K: w.K, EK: w.EK}
		for _, e := range w.Elems {
			out.Elems = append(out.Elems, stripRequired(e, true, n))
		}
		return out
	case wm.KMap:
		out := wm.W{K: w.K, KK: w.KK, VK: w.VK}
		for _, p := range w.Pairs {
			k := stripRequired(p.K, true, n)
			out.Pairs = append(out.Pairs, wm.Pair{K: k, V: stripRequired(p.V, true, n)})
		}
		return out
	}
	return w
}

// genCarrier draws a container of kind k that holds at least one bool beneath
// it: directly, in a struct element, or in a nested container (so that the
// failure surfaces inside the ForEach callback of the outer one).
func genCarrier(t *rapid.T, k wm.Kind, depth int, label string) wm.W {
	hi := 1
	if depth > 0 {
		hi = 3 // nested twice as likely as each flat shape
	}
	mode := rapid.IntRange(0, hi).Draw(t, label+"_inner")
	var ik wm.Kind
	if mode >= 2 {
		ik = rapid.SampledFrom([]wm.Kind{wm.KList, wm.KSet, wm.KMap, wm.KMap}).Draw(t, label+"_ik")
	}
	n := rapid.IntRange(1, 3).Draw(t, label+"_n")
	elems := make([]wm.W, n)
	for i := range elems {
		l := fmt.Sprintf("%s_e%d", label, i)
		switch mode {
		case 0:
			elems[i] = wm.Bool(rapid.Bool().Draw(t, l))
		case 1:
			s := wm.Struct(wm.Field{ID: int16(rapid.IntRange(1, 5).Draw(t, l+"_id")), V: wm.Bool(rapid.Bool().Draw(t, l))})
			if rapid.Bool().Draw(t, l+"_more") {
				s.Fields = append(s.Fields, wm.Field{ID: 7, V: wm.I32(int32(i))})
			}
			elems[i] = s
		default:
			elems[i] = genCarrier(t, ik, depth-1, l)
		}
	}
	ek := elems[0].K
	switch k {
	case wm.KList, wm.KSet:
		return wm.W{K: k, EK: ek, Elems: elems}
	}
	w := wm.W{K: wm.KMap}
	if rapid.IntRange(0, 3).Draw(t, label+"_side") == 0 {
		w.KK, w.VK = ek, wm.KI8
		for i, e := range elems {
			w.Pairs = append(w.Pairs, wm.Pair{K: e, V: wm.I8(int8(i))})
		}
		return w
	}
	w.KK, w.VK = wm.KI32, ek
	for i, e := range elems {
		w.Pairs = append(w.Pairs, wm.Pair{K: wm.I32(int32(100 + i)), V: e})
	}
	return w
}

// genPoisonable draws a value with at least one lazily validated bool: a
// carrier at the root, or a struct of carriers and ordinary siblings.
func genPoisonable(t *rapid.T, structRoot bool, label string) *wm.W {
	ck := func(l string) wm.Kind {
		return rapid.SampledFrom([]wm.Kind{wm.KList, wm.KSet, wm.KMap, wm.KMap}).Draw(t, l)
	}
	if !structRoot && rapid.IntRange(0, 2).Draw(t, label+"_bare") == 0 {
		w := genCarrier(t, ck(label+"_ck"), 2, label+"_c")
		return &w
	}
	w := wm.W{K: wm.KStruct}
	id := int16(0)
	sibling := func(l string) {
		if rapid.Bool().Draw(t, l+"_sib") {
			id++
			k := rapid.SampledFrom([]wm.Kind{wm.KI32, wm.KBinary, wm.KMap, wm.KList, wm.KStruct, wm.KMap}).Draw(t, l+"_sibk")
			w.Fields = append(w.Fields, wm.Field{ID: id, V: wm.Gen(t, k, wm.GenOpts{MaxDepth: 2, MaxLen: 3}, l+"_sibv")})
		}
	}
	sibling(label + "_a")
	for i, n := 0, rapid.IntRange(1, 2).Draw(t, label+"_nc"); i < n; i++ {
		id++
		w.Fields = append(w.Fields, wm.Field{ID: id, V: genCarrier(t, ck(fmt.Sprintf("%s_ck%d", label, i)), 2, fmt.Sprintf("%s_c%d", label, i))})
		sibling(fmt.Sprintf("%s_b%d", label, i))
	}
	return &w
}

func genPoison(t *rapid.T, label string) *Poison {
	return &Poison{N: rapid.IntRange(0, 63).Draw(t, label+"_badn"), Byte: byte(rapid.IntRange(2, 255).Draw(t, label+"_badbyte"))}
}

// ---------------------------------------------------------------- walking lazy values

// errStop is what a consumer's callback returns to give up an iteration.
var errStop = errors.New("c18: the consumer stops the iteration here")

// walker forces a wire.Value into a W the way a consumer may: persistent
// containers (reachable through structs only from the decoded root) are closed
// iff closeP, ephemeral ones (handed out by a ForEach) iff closeE -- also when
// the iteration failed, as the generated readers and wire.EvaluateValue do. With
// budget >= 0 the callbacks accept that many elements (list/set elements and map
// items, counted over the whole walk) and then return errStop. Binaries are NOT
// copied: the value owns what GetBinary hands out.
type walker struct {
	closeP, closeE bool
	budget         int
}

func (wk *walker) stop() bool {
	if wk.budget < 0 {
		return false
	}
	if wk.budget == 0 {
		return true
	}
	wk.budget--
	return false
}

// forceAll is ForEach then Close of every container, without an element budget.
func forceAll(v wire.Value) (wm.W, error) {
	return (&walker{closeP: true, closeE: true, budget: -1}).walk(v, true)
}

func (wk *walker) walk(v wire.Value, persistent bool) (wm.W, error) {
	doClose := wk.closeE
	if persistent {
		doClose = wk.closeP
	}
	switch v.Type() {
	case wire.TBool:
		return wm.Bool(v.GetBool()), nil
	case wire.TI8:
		return wm.I8(v.GetI8()), nil
	case wire.TI16:
		return wm.I16(v.GetI16()), nil
	case wire.TI32:
		return wm.I32(v.GetI32()), nil
	case wire.TI64:
		return wm.I64(v.GetI64()), nil
	case wire.TDouble:
		return wm.DoubleBits(math.Float64bits(v.GetDouble())), nil
	case wire.TBinary:
		return wm.Binary(v.GetBinary()), nil
	case wire.TStruct:
		w := wm.W{K: wm.KStruct}
		for _, f := range v.GetStruct().Fields {
			c, err := wk.walk(f.Value, persistent)
			if err != nil {
				return wm.W{}, err
			}
			w.Fields = append(w.Fields, wm.Field{ID: f.ID, V: c})
		}
		return w, nil
	case wire.TList, wire.TSet:
		var l wire.ValueList
		k := wm.KList
		if v.Type() == wire.TSet {
			l, k = v.GetSet(), wm.KSet
		} else {
			l = v.GetList()
		}
		w := wm.W{K: k, EK: wm.Kind(l.ValueType())}
		n := l.Size()
		err := l.ForEach(func(e wire.Value) error {
			if wk.stop() {
				return errStop
			}
			c, err := wk.walk(e, false)
			if err != nil {
				return err
			}
			w.Elems = append(w.Elems, c)
			return nil
		})
		if doClose {
			l.Close()
		}
		if err != nil {
			return wm.W{}, err
		}
		if n != len(w.Elems) {
			return wm.W{}, fmt.Errorf("list Size()=%d but ForEach yielded %d", n, len(w.Elems))
		}
		return w, nil
	case wire.TMap:
		mp := v.GetMap()
		w := wm.W{K: wm.KMap, KK: wm.Kind(mp.KeyType()), VK: wm.Kind(mp.ValueType())}
		n := mp.Size()
		err := mp.ForEach(func(it wire.MapItem) error {
			if wk.stop() {
				return errStop
			}
			kk, err := wk.walk(it.Key, false)
			if err != nil {
				return err
			}
			vv, err := wk.walk(it.Value, false)
			if err != nil {
				return err
			}
			w.Pairs = append(w.Pairs, wm.Pair{K: kk, V: vv})
			return nil
		})
		if doClose {
			mp.Close()
		}
		if err != nil {
			return wm.W{}, err
		}
		if n != len(w.Pairs) {
			return wm.W{}, fmt.Errorf("map Size()=%d but ForEach yielded %d", n, len(w.Pairs))
		}
		return w, nil
	}
	return wm.W{}, fmt.Errorf("unknown wire type %d", v.Type())
}
