//go:build verif

package c18

import (
	"bytes"
	"encoding/binary"
	"errors"
	"fmt"
	"io"
	"runtime"
	"sync"
	"testing"
	"time"

	"go.uber.org/thriftrw/verifhook"
	"pgregory.net/rapid"
	"verif/internal/chunkio"
	"verif/internal/ev"
	"verif/internal/refcodec"
)

// ---------------------------------------------------------------- payloads and transports

// Payload describes a byte string: Len bytes of the LCG stream seeded by Seed
// (a pure function, so cases stay small even with 100 KiB payloads).
type Payload struct {
	Len  int    `json:"len"`
	Seed uint32 `json:"seed"`
}

func (p Payload) bytes() []byte {
	b := make([]byte, p.Len+4)
	x := p.Seed*2654435761 + 12345
	for i := 0; i < p.Len; i += 4 {
		x = x*1664525 + 1013904223
		binary.LittleEndian.PutUint32(b[i:], x^(x>>15))
	}
	return b[:p.Len]
}

// distinctPayloads bumps lengths until all byte strings differ.
func distinctPayloads(ps []Payload) {
	seen := map[string]bool{}
	for i := range ps {
		for {
			k := string(ps[i].bytes())
			if len(k) > 64 {
				k = fmt.Sprintf("%d/%d", ps[i].Len, ps[i].Seed)
			}
			if !seen[k] {
				seen[k] = true
				break
			}
			ps[i].Len++
			ps[i].Seed += uint32(i) + 1
		}
	}
}

// SegPlan cuts every Write into pieces: the first pieces have the listed sizes,
// the remainder goes out in pieces of Rest bytes (0 = all at once).
type SegPlan struct {
	Sizes []int `json:"sizes,omitempty"`
	Rest  int   `json:"rest,omitempty"`
	Yield bool  `json:"yield,omitempty"` // Gosched between pieces
}

type segWriter struct {
	w io.Writer
	p SegPlan
}

func (s segWriter) Write(b []byte) (int, error) {
	total := 0
	for i := 0; len(b) > 0; i++ {
		n := s.p.Rest
		if i < len(s.p.Sizes) {
			n = s.p.Sizes[i]
		}
		if n <= 0 || n > len(b) {
			n = len(b)
		}
		m, err := s.w.Write(b[:n])
		total += m
		if err != nil {
			return total, err
		}
		b = b[n:]
		if s.p.Yield {
			runtime.Gosched()
		}
	}
	return total, nil
}

func (s segWriter) Close() error {
	if c, ok := s.w.(io.Closer); ok {
		return c.Close()
	}
	return nil
}

func genSegPlan(t *rapid.T, label string) SegPlan {
	p := SegPlan{Yield: rapid.Bool().Draw(t, label+"_yield")}
	switch rapid.IntRange(0, 3).Draw(t, label+"_mode") {
	case 0: // whole
	case 1: // bytewise start, then blocks
		p.Sizes = []int{1, 1, 1, 1, 1, 1, 1, 1}
		p.Rest = rapid.SampledFrom([]int{512, 4096, 0}).Draw(t, label+"_rest")
	default:
		p.Sizes = rapid.SliceOfN(rapid.IntRange(1, 9), 0, 8).Draw(t, label+"_sizes")
		p.Rest = rapid.SampledFrom([]int{0, 257, 4096, 65536}).Draw(t, label+"_rest")
	}
	return p
}

func (p SegPlan) class() string {
	if len(p.Sizes) == 0 && p.Rest == 0 {
		return "whole"
	}
	return "segmented"
}

// bufPipe is an in-memory pipe with an unbounded buffer (io.Pipe is the
// synchronous variant): writes never block, reads block until data or close.
type bufPipe struct {
	mu     sync.Mutex
	cond   *sync.Cond
	buf    []byte
	closed bool
	maxRd  int // max bytes handed out per Read (0 = unlimited)
}

func newBufPipe(maxRd int) *bufPipe {
	p := &bufPipe{maxRd: maxRd}
	p.cond = sync.NewCond(&p.mu)
	return p
}

func (p *bufPipe) Write(b []byte) (int, error) {
	p.mu.Lock()
	defer p.mu.Unlock()
	if p.closed {
		return 0, io.ErrClosedPipe
	}
	p.buf = append(p.buf, b...)
	p.cond.Broadcast()
	return len(b), nil
}

func (p *bufPipe) Read(b []byte) (int, error) {
	p.mu.Lock()
	defer p.mu.Unlock()
	for len(p.buf) == 0 && !p.closed {
		p.cond.Wait()
	}
	if len(p.buf) == 0 {
		return 0, io.EOF
	}
	n := len(b)
	if p.maxRd > 0 && n > p.maxRd {
		n = p.maxRd
	}
	n = copy(b[:n], p.buf)
	p.buf = p.buf[n:]
	if len(p.buf) == 0 {
		p.buf = nil
	}
	return n, nil
}

func (p *bufPipe) Close() error {
	p.mu.Lock()
	p.closed = true
	p.cond.Broadcast()
	p.mu.Unlock()
	return nil
}

// link is one direction of the connection.
type link struct {
	r io.ReadCloser
	w io.WriteCloser
}

func newLink(buffered bool, maxRd int) link {
	if buffered {
		p := newBufPipe(maxRd)
		return link{p, p}
	}
	r, w := io.Pipe()
	return link{r, w}
}

func (l link) closeAll() { l.r.Close(); l.w.Close() }

// ---------------------------------------------------------------- unit frame-client

// FrameCase is one case of unit "frame-client".
type FrameCase struct {
	Payloads []Payload `json:"payloads"` // one sender goroutine each
	Procs    int       `json:"procs"`
	Buffered bool      `json:"buffered"` // buffered in-memory pipes instead of io.Pipe
	MaxRead  int       `json:"max_read"` // buffered: read segmentation
	CliSeg   SegPlan   `json:"cli_seg"`  // segmentation of client -> server writes
	SrvSeg   SegPlan   `json:"srv_seg"`  // segmentation of server -> client writes
	Delays   []int     `json:"delays"`   // per request in arrival order (cyclic): v%4 yields, v/4*20 microseconds sleep
	Starts   []int     `json:"starts"`   // per sender (cyclic): yields before Send
	Xor      byte      `json:"xor"`
	GCs      int       `json:"gcs"`
}

const respTag = "RESP:"

func transform(req []byte, xor byte) []byte {
	out := make([]byte, 0, len(req)+len(respTag)+4+8)
	out = append(out, respTag...)
	out = append(out, byte(len(req)>>24), byte(len(req)>>16), byte(len(req)>>8), byte(len(req)))
	h := len(out)
	out = append(out, req...)
	body := out[h:]
	x8 := uint64(xor) * 0x0101010101010101
	i := 0
	for ; i+8 <= len(body); i += 8 { // word-wise: the race detector instruments every access
		binary.LittleEndian.PutUint64(body[i:], binary.LittleEndian.Uint64(body[i:])^x8)
	}
	for ; i < len(body); i++ {
		body[i] ^= xor
	}
	return out
}

type echoHandler struct {
	c    *FrameCase
	mu   sync.Mutex
	seen map[uint64]int
	n    int
}

func (h *echoHandler) Handle(req []byte) ([]byte, error) {
	h.mu.Lock()
	i := h.n
	h.n++
	h.seen[ev.Digest(req)]++
	h.mu.Unlock()
	if len(h.c.Delays) > 0 {
		d := h.c.Delays[i%len(h.c.Delays)]
		for j := 0; j < d%4; j++ {
			runtime.Gosched()
		}
		if d/4 > 0 {
			time.Sleep(time.Duration(d/4*20) * time.Microsecond)
		}
	}
	return transform(req, h.c.Xor), nil
}

const hangCeiling = 60 * time.Second // a case takes milliseconds; a hung case is repeated once before it counts

func waitFor(done <-chan struct{}) bool {
	select {
	case <-done:
		return true
	case <-time.After(hangCeiling):
		return false
	}
}

var errHang = errors.New("hang")

func frameClientOnce(c FrameCase) error {
	procs := c.Procs
	if procs < 1 {
		procs = 1
	}
	prev := runtime.GOMAXPROCS(procs)
	defer runtime.GOMAXPROCS(prev)

	c2s := newLink(c.Buffered, c.MaxRead)
	s2c := newLink(c.Buffered, c.MaxRead)
	h := &echoHandler{c: &c, seen: map[uint64]int{}}
	srv := verifhook.NewFrameServer(c2s.r, segWriter{s2c.w, c.SrvSeg})
	cli := verifhook.NewFrameClient(segWriter{c2s.w, c.CliSeg}, s2c.r)
	srvDone := make(chan struct{})
	var srvErr error
	go func() {
		defer close(srvDone)
		srvErr = srv.Serve(h)
	}()

	payloads := make([][]byte, len(c.Payloads))
	for i, p := range c.Payloads {
		payloads[i] = p.bytes()
	}
	fails := make([]error, len(payloads))
	start := make(chan struct{})
	var wg sync.WaitGroup
	for i := range payloads {
		wg.Add(1)
		go func(i int) {
			defer wg.Done()
			<-start
			if len(c.Starts) > 0 {
				for j := 0; j < c.Starts[i%len(c.Starts)]; j++ {
					runtime.Gosched()
				}
			}
			fails[i] = ev.Guard(func() error {
				resp, err := cli.Send(payloads[i])
				if err != nil {
					return ev.Errf("frame-client/send-error", "sender #%d (payload len %d seed %d): Send failed: %v", i, c.Payloads[i].Len, c.Payloads[i].Seed, err)
				}
				want := transform(payloads[i], c.Xor)
				if !bytes.Equal(resp, want) {
					// whose response is it?
					whose := "nobody's"
					for j := range payloads {
						if bytes.Equal(resp, transform(payloads[j], c.Xor)) {
							whose = fmt.Sprintf("sender #%d's", j)
							break
						}
					}
					return ev.Errf("frame-client/wrong-response", "sender #%d (payload len %d seed %d) received %d bytes (%x…) which is %s response; it wants %d bytes (%x…)", i, c.Payloads[i].Len, c.Payloads[i].Seed, len(resp), clip(resp, 24), whose, len(want), clip(want, 24))
				}
				return nil
			})
		}(i)
	}
	gcDone := make(chan struct{})
	go func() {
		defer close(gcDone)
		<-start
		for i := 0; i < c.GCs; i++ {
			runtime.Gosched()
			runtime.GC()
		}
	}()
	sendersDone := make(chan struct{})
	go func() { wg.Wait(); close(sendersDone) }()
	close(start)
	hung := !waitFor(sendersDone)
	if hung {
		c2s.closeAll()
		s2c.closeAll()
		<-sendersDone
	}
	<-gcDone
	srv.Stop()
	if !waitFor(srvDone) {
		c2s.closeAll()
		s2c.closeAll()
		<-srvDone
		hung = true
	}
	c2s.closeAll()
	s2c.closeAll()
	_ = srvErr // the statement is silent on what Serve returns after Stop
	if hung {
		return errHang
	}
	for _, f := range fails {
		if f != nil {
			return f
		}
	}
	// no loss, no duplication: the server saw exactly the requests that were sent
	if h.n != len(payloads) {
		return ev.Errf("frame-client/request-count", "server handled %d requests, %d were sent", h.n, len(payloads))
	}
	for i, p := range payloads {
		if h.seen[ev.Digest(p)] != 1 {
			return ev.Errf("frame-client/request-mangled", "server saw the request of sender #%d %d times", i, h.seen[ev.Digest(p)])
		}
	}
	return nil
}

func (c FrameCase) describe() string {
	return fmt.Sprintf("K=%d GOMAXPROCS=%d buffered=%v max_read=%d cli_seg=%+v srv_seg=%+v delays=%v starts=%v payloads(len/seed)=%v", len(c.Payloads), c.Procs, c.Buffered, c.MaxRead, c.CliSeg, c.SrvSeg, c.Delays, c.Starts, c.Payloads)
}

func checkFrameClient(c FrameCase) error {
	var err error
	for attempt := 0; attempt < 2; attempt++ {
		err = ev.Guard(func() error { return frameClientOnce(c) })
		if err != errHang {
			break
		}
	}
	if err == errHang {
		return ev.Errf("frame-client/hang", "senders or server still blocked after %v, twice; %s", hangCeiling, c.describe())
	}
	if ce, ok := err.(*ev.CheckErr); ok {
		return ev.Errf(ce.Key, "%s\n case: %s", ce.Msg, c.describe())
	}
	return err
}

func genPayload(t *rapid.T, label string, big *int) Payload {
	p := Payload{Seed: rapid.Uint32().Draw(t, label+"_seed")}
	switch m := rapid.IntRange(0, 19).Draw(t, label+"_size"); {
	case m == 0:
		p.Len = 0
	case m <= 9:
		p.Len = rapid.IntRange(1, 300).Draw(t, label+"_len")
	case m <= 15:
		p.Len = rapid.IntRange(301, 5000).Draw(t, label+"_len")
	default:
		if *big >= 3 {
			p.Len = rapid.IntRange(1, 300).Draw(t, label+"_len")
		} else {
			*big++
			p.Len = rapid.IntRange(5001, 100<<10).Draw(t, label+"_len")
		}
	}
	return p
}

func TestFrameClient(t *testing.T) {
	rapid.Check(t, func(t *rapid.T) {
		k := genK(t, "K")
		c := FrameCase{
			Procs:    rapid.SampledFrom([]int{1, 2, 16}).Draw(t, "procs"),
			Buffered: rapid.Bool().Draw(t, "buffered"),
			CliSeg:   genSegPlan(t, "cli"),
			SrvSeg:   genSegPlan(t, "srv"),
			Delays:   rapid.SliceOfN(rapid.IntRange(0, 11), 0, 8).Draw(t, "delays"),
			Starts:   rapid.SliceOfN(rapid.IntRange(0, 3), 0, 8).Draw(t, "starts"),
			Xor:      rapid.Byte().Draw(t, "xor"),
			GCs:      rapid.SampledFrom([]int{0, 0, 0, 1, 2}).Draw(t, "gcs"),
		}
		if c.Buffered {
			c.MaxRead = rapid.SampledFrom([]int{0, 1, 3, 1000}).Draw(t, "max_read")
		}
		big := 0
		for i := 0; i < k; i++ {
			c.Payloads = append(c.Payloads, genPayload(t, fmt.Sprintf("p%d", i), &big))
		}
		huge := false
		if ev.Thorough() && rapid.IntRange(0, 49).Draw(t, "huge") == 31 { // ~1% of cases, ~2 s each under -race (rapid favours the bounds of a range: not "== 0")
			// beyond the 10 MiB fast path of frame.Reader
			c.Payloads[0].Len = 10<<20 + rapid.IntRange(-1, 70000).Draw(t, "huge_len")
			huge = true
			if c.MaxRead > 0 && c.MaxRead < 1000 {
				c.MaxRead = 1000
			}
			for _, sp := range []*SegPlan{&c.CliSeg, &c.SrvSeg} {
				if sp.Rest > 0 && sp.Rest < 4096 {
					sp.Rest = 65536
				}
			}
		}
		if big > 0 && c.MaxRead > 0 && c.MaxRead < 1000 {
			c.MaxRead = 1000 // keep a case within tens of milliseconds
		}
		distinctPayloads(c.Payloads)
		runFrameClient(t, c, huge)
	})
}

func runFrameClient(t ev.TB, c FrameCase, huge bool) {
	nontriv := len(c.Payloads) >= 4
	maxLen, zero := 0, false
	for _, p := range c.Payloads {
		if p.Len > maxLen {
			maxLen = p.Len
		}
		if p.Len == 0 {
			zero = true
		}
	}
	sz := "max-payload:<=300"
	switch {
	case maxLen > 10<<20-2:
		sz = "max-payload:>10MiB"
	case maxLen > 5000:
		sz = "max-payload:5001..100KiB"
	case maxLen > 300:
		sz = "max-payload:301..5000"
	}
	tr := "transport:io.Pipe"
	if c.Buffered {
		tr = "transport:buffered"
	}
	cls := []string{"unit:frame-client", fmt.Sprintf("procs:%d", c.Procs), kBucket(len(c.Payloads)), sz, tr,
		"client-writes:" + c.CliSeg.class(), "server-writes:" + c.SrvSeg.class(), fmt.Sprintf("gc:%v", c.GCs > 0), fmt.Sprintf("server-delay:%v", len(c.Delays) > 0)}
	if zero {
		cls = append(cls, "has-empty-payload")
	}
	d := ev.DigestJSON(c)
	ev.Case(d, nontriv, cls...)
	if nontriv {
		ev.KeepSample("frame-client", d, func() interface{} { return c.describe() })
	}
	ev.Report(t, "frame-client", c, checkFrameClient(c))
}

// ---------------------------------------------------------------- unit frame-stream

// StreamCase is one case of unit "frame-stream".
type StreamCase struct {
	Frames  []Payload    `json:"frames"`
	Plan    chunkio.Plan `json:"plan"`    // read segmentation of the sequential part
	Writers int          `json:"writers"` // concurrent part: goroutines sharing one frame.Writer
	Readers int          `json:"readers"` // concurrent part: goroutines sharing one frame.Reader
	Seg     SegPlan      `json:"seg"`
	MaxRead int          `json:"max_read"`
	Procs   int          `json:"procs"`
}

func frameStreamOnce(c StreamCase) error {
	frames := make([][]byte, len(c.Frames))
	var want []byte
	for i, p := range c.Frames {
		frames[i] = p.bytes()
		want = append(want, refcodec.Frame(frames[i])...)
	}
	// (a) back-to-back through one Writer, sequentially: the stream is the concatenation of the frames
	var buf bytes.Buffer
	fw := verifhook.NewFrameWriter(segWriter{&buf, c.Seg})
	for i, f := range frames {
		if err := fw.Write(f); err != nil {
			return ev.Errf("frame-stream/write-error", "Write of frame #%d failed: %v", i, err)
		}
	}
	if !bytes.Equal(buf.Bytes(), want) {
		return ev.Errf("frame-stream/written-bytes", "the written stream differs from len32+payload concatenation at offset %d (%d bytes, want %d)", firstDiff(buf.Bytes(), want), buf.Len(), len(want))
	}
	// (b) read back under the drawn segmentation: intact and in order, then an error
	fr := verifhook.NewFrameReader(chunkio.New(want, c.Plan))
	for i, f := range frames {
		got, err := fr.Read()
		if err != nil {
			return ev.Errf("frame-stream/read-error", "Read of frame #%d (len %d) failed under %s: %v", i, len(f), c.Plan.Class(), err)
		}
		if !bytes.Equal(got, f) {
			return ev.Errf("frame-stream/read-frame", "frame #%d arrives as %d bytes (%x…), written as %d bytes (%x…), plan %s", i, len(got), clip(got, 16), len(f), clip(f, 16), c.Plan.Class())
		}
	}
	if got, err := fr.Read(); err == nil {
		return ev.Errf("frame-stream/read-past-end", "Read after the last frame returned %d bytes and no error", len(got))
	}
	// (c) one Writer shared by writers, one Reader shared by readers, over a pipe
	if c.Writers < 1 || c.Readers < 1 {
		return nil
	}
	procs := c.Procs
	if procs < 1 {
		procs = 1
	}
	prev := runtime.GOMAXPROCS(procs)
	defer runtime.GOMAXPROCS(prev)
	l := newLink(true, c.MaxRead)
	sw := verifhook.NewFrameWriter(segWriter{l.w, c.Seg})
	sr := verifhook.NewFrameReader(l.r)
	start := make(chan struct{})
	var wg sync.WaitGroup
	var mu sync.Mutex
	recv := map[uint64]int{}
	var firstErr error
	fail := func(err error) {
		mu.Lock()
		if firstErr == nil {
			firstErr = err
		}
		mu.Unlock()
	}
	for w := 0; w < c.Writers; w++ {
		wg.Add(1)
		go func(w int) {
			defer wg.Done()
			<-start
			for i := w; i < len(frames); i += c.Writers {
				if err := sw.Write(frames[i]); err != nil {
					fail(ev.Errf("frame-stream/shared-write-error", "writer %d: Write of frame #%d failed: %v", w, i, err))
					return
				}
			}
		}(w)
	}
	for r := 0; r < c.Readers; r++ {
		wg.Add(1)
		go func(r int) {
			defer wg.Done()
			<-start
			for i := r; i < len(frames); i += c.Readers {
				got, err := sr.Read()
				if err != nil {
					fail(ev.Errf("frame-stream/shared-read-error", "reader %d: Read failed: %v", r, err))
					return
				}
				mu.Lock()
				recv[ev.Digest(got)]++
				mu.Unlock()
			}
		}(r)
	}
	done := make(chan struct{})
	go func() { wg.Wait(); close(done) }()
	close(start)
	if !waitFor(done) {
		l.closeAll()
		<-done
		return errHang
	}
	l.closeAll()
	if firstErr != nil {
		return firstErr
	}
	for i, f := range frames {
		if recv[ev.Digest(f)] != 1 {
			return ev.Errf("frame-stream/shared-frames", "frame #%d (len %d) written through the shared Writer was received %d times intact by the shared Reader (%d writers, %d readers)", i, len(f), recv[ev.Digest(f)], c.Writers, c.Readers)
		}
	}
	return nil
}

func checkFrameStream(c StreamCase) error {
	var err error
	for attempt := 0; attempt < 2; attempt++ {
		err = ev.Guard(func() error { return frameStreamOnce(c) })
		if err != errHang {
			break
		}
	}
	if err == errHang {
		return ev.Errf("frame-stream/hang", "writers or readers still blocked after %v, twice; frames(len/seed)=%v", hangCeiling, c.Frames)
	}
	return err
}

func TestFrameStream(t *testing.T) {
	rapid.Check(t, func(t *rapid.T) {
		n := rapid.IntRange(1, 24).Draw(t, "n")
		c := StreamCase{
			Plan:    chunkio.GenPlan(t, "plan"),
			Writers: rapid.IntRange(0, 6).Draw(t, "writers"),
			Readers: rapid.IntRange(1, 6).Draw(t, "readers"),
			Seg:     genSegPlan(t, "seg"),
			MaxRead: rapid.SampledFrom([]int{0, 1, 3, 1000}).Draw(t, "max_read"),
			Procs:   rapid.SampledFrom([]int{1, 2, 16}).Draw(t, "procs"),
		}
		big := 2 // at most one large frame: the sequential part reads bytewise at times
		for i := 0; i < n; i++ {
			p := genPayload(t, fmt.Sprintf("f%d", i), &big)
			if p.Len > 3000 {
				p.Len = 3000 + p.Len%1000
			}
			c.Frames = append(c.Frames, p)
		}
		distinctPayloads(c.Frames)
		nontriv := len(c.Frames) >= 2
		d := ev.DigestJSON(c)
		ev.Case(d, nontriv, "unit:frame-stream", c.Plan.Class(), fmt.Sprintf("shared-writers:%d", c.Writers), fmt.Sprintf("shared-readers:%d", c.Readers), fmt.Sprintf("procs:%d", c.Procs))
		if nontriv {
			ev.KeepSample("frame-stream", d, func() interface{} {
				return map[string]interface{}{"frames": len(c.Frames), "plan": c.Plan.Class(), "writers": c.Writers, "readers": c.Readers}
			})
		}
		ev.Report(t, "frame-stream", c, checkFrameStream(c))
	})
}
