//go:build verif

package c18

import (
	"fmt"

	"go.uber.org/thriftrw/plugin/api"
	"go.uber.org/thriftrw/protocol/stream"
	"go.uber.org/thriftrw/wire"
	"pgregory.net/rapid"
	"verif/internal/bridge"
	wm "verif/internal/wiremodel"
)

// genValue is what every generated struct of plugin/api offers.
type genValue interface {
	ToWire() (wire.Value, error)
	FromWire(wire.Value) error
	Encode(stream.Writer) error
	Decode(stream.Reader) error
	String() string
}

// Recipe is a JSON-able description from which build() deterministically makes
// a value of a generated type: strings and numbers are consumed cyclically.
type Recipe struct {
	Kind string   `json:"kind"` // handshake | type | function | service | request | response
	Strs []string `json:"strs"`
	Nums []int32  `json:"nums"`
	Blob []byte   `json:"blob,omitempty"`
	Salt int      `json:"salt"` // operation index, mixed into the first name: makes values distinct
	// Big (handshake: appended to the plugin name, a string; response: one more file, a binary)
	Big *Big `json:"big,omitempty"`
}

var recipeKinds = []string{"handshake", "type", "function", "service", "request", "response"}

func genRecipe(t *rapid.T, label string, salt int) *Recipe {
	r := &Recipe{Kind: rapid.SampledFrom(recipeKinds).Draw(t, label+"_gkind"), Salt: salt}
	r.Strs = rapid.SliceOfN(rapid.Custom(func(t *rapid.T) string { return genIdent(t, "s") }), 1, 6).Draw(t, label+"_strs")
	r.Nums = rapid.SliceOfN(rapid.Int32(), 1, 10).Draw(t, label+"_nums")
	if r.Kind == "response" {
		r.Blob = rapid.SliceOfN(rapid.Byte(), 0, 48).Draw(t, label+"_blob")
	}
	return r
}

type cursor struct {
	r      *Recipe
	si, ni int
}

func (c *cursor) str() string {
	s := c.r.Strs[c.si%len(c.r.Strs)]
	if c.si >= len(c.r.Strs) {
		s = fmt.Sprintf("%s~%d", s, c.si)
	}
	if c.si == 0 {
		s = fmt.Sprintf("%s#%d", s, c.r.Salt)
	}
	c.si++
	return s
}

func (c *cursor) num() int32 {
	n := c.r.Nums[c.ni%len(c.r.Nums)]
	n += int32(c.ni / len(c.r.Nums))
	c.ni++
	return n
}

// upto returns a number in 0..max.
func (c *cursor) upto(max int) int { return int(uint32(c.num()) % uint32(max+1)) }

func (c *cursor) annotations() map[string]string {
	n := c.upto(3)
	if n == 3 {
		return nil // optional field absent
	}
	m := make(map[string]string, n)
	for i := 0; i < n; i++ {
		m[c.str()] = c.str()
	}
	return m
}

func (c *cursor) typ(depth int) *api.Type {
	mode := c.upto(5)
	if depth <= 0 && mode != 4 {
		mode = 0
	}
	switch mode {
	case 1:
		return &api.Type{SliceType: c.typ(depth - 1)}
	case 2:
		return &api.Type{KeyValueSliceType: &api.TypePair{Left: c.typ(depth - 1), Right: c.typ(depth - 1), Annotations: c.annotations()}}
	case 3:
		return &api.Type{MapType: &api.TypePair{Left: c.typ(depth - 1), Right: c.typ(depth - 1)}}
	case 4:
		return &api.Type{ReferenceType: &api.TypeReference{Name: c.str(), ImportPath: c.str(), Annotations: c.annotations()}}
	case 5:
		return &api.Type{PointerType: c.typ(depth - 1)}
	}
	st := api.SimpleType(1 + c.upto(8))
	return &api.Type{SimpleType: &st}
}

func (c *cursor) argument() *api.Argument {
	return &api.Argument{Name: c.str(), Type: c.typ(2), Annotations: c.annotations()}
}

func (c *cursor) arguments(max int) []*api.Argument {
	n := c.upto(max)
	as := make([]*api.Argument, 0, n)
	for i := 0; i < n; i++ {
		as = append(as, c.argument())
	}
	return as
}

func (c *cursor) function() *api.Function {
	f := &api.Function{Name: c.str(), ThriftName: c.str(), Arguments: c.arguments(3), Annotations: c.annotations()}
	if c.upto(1) == 1 {
		f.ReturnType = c.typ(2)
	}
	if c.upto(1) == 1 {
		f.Exceptions = c.arguments(2)
	}
	if c.upto(2) > 0 {
		b := c.upto(1) == 1
		f.OneWay = &b
	}
	return f
}

func (c *cursor) service() *api.Service {
	s := &api.Service{Name: c.str(), ThriftName: c.str(), ModuleID: api.ModuleID(c.num()), Annotations: c.annotations()}
	if c.upto(1) == 1 {
		id := api.ServiceID(c.num())
		s.ParentID = &id
	}
	n := c.upto(3)
	s.Functions = make([]*api.Function, 0, n)
	for i := 0; i < n; i++ {
		s.Functions = append(s.Functions, c.function())
	}
	return s
}

func (r *Recipe) build() genValue {
	c := &cursor{r: r}
	switch r.Kind {
	case "handshake":
		h := &api.HandshakeResponse{Name: c.str(), APIVersion: c.num(), Features: []api.Feature{}}
		if r.Big != nil {
			h.Name += string(bigBytes(r.Big.Len, r.Big.Fill))
		}
		for i, n := 0, c.upto(3); i < n; i++ {
			h.Features = append(h.Features, api.Feature(c.num()))
		}
		if c.upto(1) == 1 {
			v := c.str()
			h.LibraryVersion = &v
		}
		return h
	case "type":
		// a reference type at the root carries the salted name
		name := c.str()
		t := c.typ(3)
		return &api.Type{KeyValueSliceType: &api.TypePair{Left: &api.Type{ReferenceType: &api.TypeReference{Name: name, ImportPath: c.str()}}, Right: t}}
	case "function":
		return c.function()
	case "service":
		return c.service()
	case "request":
		q := &api.GenerateServiceRequest{PackagePrefix: c.str(), ThriftRoot: c.str(), RootServices: []api.ServiceID{}, Services: map[api.ServiceID]*api.Service{}, Modules: map[api.ModuleID]*api.Module{}}
		for i, n := 0, c.upto(3); i < n; i++ {
			q.RootServices = append(q.RootServices, api.ServiceID(c.num()))
		}
		for i, n := 0, c.upto(3); i < n; i++ {
			q.Services[api.ServiceID(c.num())] = c.service()
		}
		for i, n := 0, c.upto(3); i < n; i++ {
			q.Modules[api.ModuleID(c.num())] = &api.Module{ImportPath: c.str(), Directory: c.str(), ThriftFilePath: c.str()}
		}
		if c.upto(1) == 1 {
			q.RootModules = []api.ModuleID{api.ModuleID(c.num())}
		}
		return q
	case "response":
		p := &api.GenerateServiceResponse{Files: map[string][]byte{}}
		for i, n := 0, 1+c.upto(3); i < n; i++ {
			lo := 0
			if len(r.Blob) > 0 {
				lo = c.upto(len(r.Blob))
			}
			p.Files[c.str()] = append([]byte{byte(i)}, r.Blob[lo:]...)
		}
		if r.Big != nil {
			p.Files[c.str()+"+big"] = bigBytes(r.Big.Len, r.Big.Fill)
			if r.Big.At == "pair" {
				p.Files[c.str()+"+big2"] = r.Big.pairSecond()
			}
		}
		return p
	}
	panic("c18: unknown recipe kind " + r.Kind)
}

func newGen(kind string) genValue {
	switch kind {
	case "handshake":
		return &api.HandshakeResponse{}
	case "type":
		return &api.Type{}
	case "function":
		return &api.Function{}
	case "service":
		return &api.Service{}
	case "request":
		return &api.GenerateServiceRequest{}
	case "response":
		return &api.GenerateServiceResponse{}
	}
	panic("c18: unknown recipe kind " + kind)
}

// toW renders a generated value as a W tree through its own ToWire (the lists
// and maps ToWire hands out are plain slices/maps, not pooled objects).
func toW(v genValue) (wm.W, error) {
	x, err := v.ToWire()
	if err != nil {
		return wm.W{}, err
	}
	return bridge.FromWire(x)
}
