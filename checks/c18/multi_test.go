//go:build verif

package c18

import (
	"bytes"
	"errors"
	"fmt"
	"reflect"
	"runtime"
	"sort"
	"strings"
	"sync"
	"sync/atomic"
	"testing"
	"time"

	"go.uber.org/thriftrw/plugin/api"
	"go.uber.org/thriftrw/verifhook"
	"pgregory.net/rapid"
	"verif/internal/ev"
)

// FileSpec is one generated file: Path as the generator spells it.
type FileSpec struct {
	Path    string `json:"path"`
	Content []byte `json:"content"`
}

// GenSpec describes one in-process plugin.
type GenSpec struct {
	Name      string     `json:"name"`
	Files     []FileSpec `json:"files"`
	Fail      bool       `json:"fail,omitempty"`       // Generate returns an error
	NoGen     bool       `json:"no_gen,omitempty"`     // the handle offers no ServiceGenerator
	CloseFail bool       `json:"close_fail,omitempty"` // Close returns an error
	Delay     int        `json:"delay,omitempty"`      // v%4 yields, v/4*20 microseconds sleep, before answering
}

// MultiCase is one case of unit "multi".
type MultiCase struct {
	Gens  []GenSpec `json:"gens"`
	Procs int       `json:"procs"`
	Req   Recipe    `json:"req"` // the request handed to every generator
}

// cleanPath is the model of "the same file under the output directory": empty
// and "." segments do not count (no ".." segments are ever generated).
func cleanPath(p string) string {
	var out []string
	for _, s := range strings.Split(p, "/") {
		if s != "" && s != "." {
			out = append(out, s)
		}
	}
	return strings.Join(out, "/")
}

type fakePlugin struct {
	spec   GenSpec
	calls  int32
	closes int32
	reqOK  int32
	want   *api.GenerateServiceRequest
}

func (f *fakePlugin) Name() string { return f.spec.Name }

func (f *fakePlugin) Close() error {
	atomic.AddInt32(&f.closes, 1)
	if f.spec.CloseFail {
		return errors.New("close of " + f.spec.Name + " failed")
	}
	return nil
}

func (f *fakePlugin) ServiceGenerator() verifhook.PluginServiceGenerator {
	if f.spec.NoGen {
		return nil
	}
	return fakeGenerator{f}
}

type fakeGenerator struct{ p *fakePlugin }

func (g fakeGenerator) Handle() verifhook.PluginHandle { return g.p }

func (g fakeGenerator) Generate(req *api.GenerateServiceRequest) (*api.GenerateServiceResponse, error) {
	f := g.p
	atomic.AddInt32(&f.calls, 1)
	d := f.spec.Delay
	for j := 0; j < d%4; j++ {
		runtime.Gosched()
	}
	if d/4 > 0 {
		time.Sleep(time.Duration(d/4*20) * time.Microsecond)
	}
	// every generator reads the whole shared request (a write to it by anybody is a race)
	if req.Equals(f.want) {
		atomic.AddInt32(&f.reqOK, 1)
	}
	if f.spec.Fail {
		return nil, errors.New("generator " + f.spec.Name + " failed")
	}
	files := make(map[string][]byte, len(f.spec.Files))
	for _, fs := range f.spec.Files {
		files[fs.Path] = fs.Content
	}
	return &api.GenerateServiceResponse{Files: files}, nil
}

func checkMulti(c MultiCase) error {
	procs := c.Procs
	if procs < 1 {
		procs = 1
	}
	prev := runtime.GOMAXPROCS(procs)
	defer runtime.GOMAXPROCS(prev)

	req := c.Req.build().(*api.GenerateServiceRequest)
	reqCopy := c.Req.build().(*api.GenerateServiceRequest)

	// model
	union := map[string][]byte{}
	owner := map[string]string{}
	conflict, anyFail, anyCloseFail := "", false, false
	plugins := make([]*fakePlugin, len(c.Gens))
	handles := make(verifhook.MultiHandle, len(c.Gens))
	active := 0
	for i, g := range c.Gens {
		plugins[i] = &fakePlugin{spec: g, want: reqCopy}
		handles[i] = plugins[i]
		if g.CloseFail {
			anyCloseFail = true
		}
		if g.NoGen {
			continue
		}
		active++
		if g.Fail {
			anyFail = true
			continue
		}
		for _, f := range g.Files {
			p := cleanPath(f.Path)
			if o, taken := owner[p]; taken && conflict == "" {
				conflict = fmt.Sprintf("%q (by %s and %s)", p, o, g.Name)
			}
			owner[p] = g.Name
			union[p] = f.Content
		}
	}

	sg := handles.ServiceGenerator()
	res, err := sg.Generate(req)

	for i, p := range plugins {
		want := int32(1)
		if p.spec.NoGen {
			want = 0
		}
		if n := atomic.LoadInt32(&p.calls); n != want {
			return ev.Errf("multi/call-count", "generator #%d (%s) was called %d times, want %d", i, p.spec.Name, n, want)
		}
		if want == 1 && atomic.LoadInt32(&p.reqOK) != 1 {
			return ev.Errf("multi/request-altered", "generator #%d (%s) did not receive the request unchanged", i, p.spec.Name)
		}
	}
	if !reflect.DeepEqual(req, reqCopy) {
		return ev.Errf("multi/request-altered", "the request was modified by the fan-out")
	}
	switch {
	case anyFail && err == nil:
		return ev.Errf("multi/error-swallowed/generator-failure", "a generator failed but MultiServiceGenerator.Generate returned no error; %s", describeGens(c.Gens))
	case conflict != "" && err == nil:
		return ev.Errf("multi/error-swallowed/conflict", "path %s is produced twice but Generate returned no error; %s", conflict, describeGens(c.Gens))
	case !anyFail && conflict == "" && err != nil:
		return ev.Errf("multi/spurious-error", "disjoint outputs, no failing generator, yet Generate returned: %v; %s", err, describeGens(c.Gens))
	}
	if err == nil {
		if res == nil {
			return ev.Errf("multi/nil-response", "Generate returned neither a response nor an error")
		}
		for p, want := range union {
			got, ok := res.Files[p]
			if !ok {
				return ev.Errf("multi/merge/lost-file", "file %q (from %s) is missing from the merged response (%d files, want %d); %s", p, owner[p], len(res.Files), len(union), describeGens(c.Gens))
			}
			if !bytes.Equal(got, want) {
				return ev.Errf("multi/merge/wrong-content", "file %q (from %s) has content %x, want %x", p, owner[p], clip(got, 24), clip(want, 24))
			}
		}
		for p := range res.Files {
			if _, ok := union[p]; !ok {
				return ev.Errf("multi/merge/extra-file", "merged response has %q which no generator produced under that (cleaned) name; %s", p, describeGens(c.Gens))
			}
		}
	}

	// the owning handle: closes every plugin (those with a generator) exactly once
	mh := sg.Handle()
	cerr := mh.Close()
	wantCloseErr := false
	for i, p := range plugins {
		want := int32(1)
		if p.spec.NoGen {
			want = 0
		} else if p.spec.CloseFail {
			wantCloseErr = true
		}
		if n := atomic.LoadInt32(&p.closes); n != want {
			return ev.Errf("multi/close-count", "plugin #%d (%s) was closed %d times by MultiServiceGenerator.Handle().Close(), want %d", i, p.spec.Name, n, want)
		}
	}
	if (cerr != nil) != wantCloseErr {
		return ev.Errf("multi/close-error", "Close returned %v, failing closers present: %v", cerr, wantCloseErr)
	}
	// the full MultiHandle closes everybody
	for _, p := range plugins {
		atomic.StoreInt32(&p.closes, 0)
	}
	cerr = handles.Close()
	for i, p := range plugins {
		if n := atomic.LoadInt32(&p.closes); n != 1 {
			return ev.Errf("multi/close-count", "plugin #%d (%s) was closed %d times by MultiHandle.Close(), want 1", i, p.spec.Name, n)
		}
	}
	if (cerr != nil) != anyCloseFail {
		return ev.Errf("multi/close-error", "MultiHandle.Close returned %v, failing closers present: %v", cerr, anyCloseFail)
	}

	// concurrent.Range itself, over a slice and over a map
	n := len(c.Gens)
	var mu sync.Mutex
	visits := make([]int, n)
	rerr := verifhook.ConcurrentRange(c.Gens, func(i int, g GenSpec) error {
		for j := 0; j < g.Delay%4; j++ {
			runtime.Gosched()
		}
		mu.Lock()
		visits[i]++
		mu.Unlock()
		if g.Fail {
			return errors.New("item " + g.Name)
		}
		return nil
	})
	wantRangeErr := false
	for i, g := range c.Gens {
		if g.Fail {
			wantRangeErr = true
		}
		if visits[i] != 1 {
			return ev.Errf("multi/range/visits", "concurrent.Range visited slice item %d %d times", i, visits[i])
		}
	}
	if (rerr != nil) != wantRangeErr {
		return ev.Errf("multi/range/error", "concurrent.Range(slice) returned %v, failing items present: %v", rerr, wantRangeErr)
	}
	if rerr != nil {
		for _, g := range c.Gens {
			if g.Fail && !strings.Contains(rerr.Error(), "item "+g.Name) {
				return ev.Errf("multi/range/error-lost", "concurrent.Range(slice) error %q lost the failure of item %s", rerr.Error(), g.Name)
			}
		}
	}
	byName := map[string]GenSpec{}
	for _, g := range c.Gens {
		byName[g.Name] = g
	}
	mvisits := map[string]int{}
	rerr = verifhook.ConcurrentRange(byName, func(name string, g GenSpec) error {
		mu.Lock()
		mvisits[name]++
		mu.Unlock()
		if g.Fail {
			return errors.New("item " + name)
		}
		return nil
	})
	for name := range byName {
		if mvisits[name] != 1 {
			return ev.Errf("multi/range/visits", "concurrent.Range visited map key %s %d times", name, mvisits[name])
		}
	}
	if (rerr != nil) != wantRangeErr {
		return ev.Errf("multi/range/error", "concurrent.Range(map) returned %v, failing items present: %v", rerr, wantRangeErr)
	}
	_ = active
	return nil
}

func describeGens(gs []GenSpec) string {
	var sb strings.Builder
	sb.WriteString("generators:")
	for _, g := range gs {
		var ps []string
		for _, f := range g.Files {
			ps = append(ps, f.Path)
		}
		fmt.Fprintf(&sb, " %s{fail=%v nogen=%v delay=%d files=%q}", g.Name, g.Fail, g.NoGen, g.Delay, ps)
	}
	return sb.String()
}

var pathDirs = []string{"", "a", "b", "a/b", "gen/x"}

func spell(t *rapid.T, canon string, label string) string {
	segs := strings.Split(canon, "/")
	switch rapid.IntRange(0, 7).Draw(t, label+"_spell") {
	case 0:
		return "./" + canon
	case 1:
		return strings.Join(segs, "//")
	case 2:
		return "/" + canon
	case 3:
		return "./" + strings.Join(segs, "//")
	case 4:
		return strings.Join(segs, "/./")
	}
	return canon
}

func TestMultiGenerator(t *testing.T) {
	rapid.Check(t, func(t *rapid.T) {
		n := rapid.IntRange(1, 8).Draw(t, "N")
		c := MultiCase{Procs: rapid.SampledFrom([]int{1, 2, 16}).Draw(t, "procs")}
		c.Req = *genRecipe(t, "req", 0)
		c.Req.Kind = "request"
		disjoint := rapid.IntRange(0, 9).Draw(t, "disjoint") < 6
		failRate := rapid.SampledFrom([]int{0, 0, 0, 5, 2}).Draw(t, "fail_rate")
		used := map[string]bool{}
		for i := 0; i < n; i++ {
			label := fmt.Sprintf("g%d", i)
			g := GenSpec{Name: label, Delay: rapid.IntRange(0, 11).Draw(t, label+"_delay")}
			if failRate > 0 && rapid.IntRange(0, failRate).Draw(t, label+"_fail") == 0 {
				g.Fail = true
			}
			g.NoGen = rapid.IntRange(0, 9).Draw(t, label+"_nogen") == 0
			g.CloseFail = rapid.IntRange(0, 7).Draw(t, label+"_closefail") == 0
			own := map[string]bool{}
			for j, nf := 0, rapid.IntRange(0, 5).Draw(t, label+"_nfiles"); j < nf; j++ {
				dir := rapid.SampledFrom(pathDirs).Draw(t, label+"_dir")
				canon := fmt.Sprintf("f%d.go", rapid.IntRange(0, 7).Draw(t, label+"_file"))
				if dir != "" {
					canon = dir + "/" + canon
				}
				if own[canon] || (disjoint && used[canon]) {
					continue // never twice within one generator; in disjoint mode never twice at all
				}
				own[canon] = true
				used[canon] = true
				g.Files = append(g.Files, FileSpec{Path: spell(t, canon, label), Content: rapid.SliceOfN(rapid.Byte(), 0, 24).Draw(t, label+"_content")})
			}
			c.Gens = append(c.Gens, g)
		}
		runMulti(t, c)
	})
}

func runMulti(t ev.TB, c MultiCase) {
	seen := map[string]int{}
	fails, files, respelled := 0, 0, false
	for _, g := range c.Gens {
		if g.NoGen {
			continue
		}
		if g.Fail {
			fails++
			continue
		}
		for _, f := range g.Files {
			seen[cleanPath(f.Path)]++
			files++
			if cleanPath(f.Path) != f.Path {
				respelled = true
			}
		}
	}
	conflicts := 0
	var cpaths []string
	for p, k := range seen {
		if k > 1 {
			conflicts++
			cpaths = append(cpaths, p)
		}
	}
	sort.Strings(cpaths)
	outcome := "expect:merged"
	switch {
	case fails > 0 && conflicts > 0:
		outcome = "expect:error(failure+conflict)"
	case fails > 0:
		outcome = "expect:error(failure)"
	case conflicts > 0:
		outcome = "expect:error(conflict)"
	}
	nontriv := len(c.Gens) >= 2
	cls := []string{"unit:multi", fmt.Sprintf("N:%d", len(c.Gens)), fmt.Sprintf("procs:%d", c.Procs), outcome, fmt.Sprintf("respelled-paths:%v", respelled), fmt.Sprintf("files:%s", stepBucket(files))}
	d := ev.DigestJSON(c)
	ev.Case(d, nontriv, cls...)
	if nontriv {
		ev.KeepSample("multi", d, func() interface{} {
			return map[string]interface{}{"generators": describeGens(c.Gens), "outcome": outcome, "conflicting": cpaths}
		})
	}
	ev.Report(t, "multi", c, ev.Guard(func() error { return checkMulti(c) }))
}
