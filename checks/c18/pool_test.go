//go:build verif

package c18

import (
	"bytes"
	"fmt"
	"math"
	"runtime"
	"testing"

	"go.uber.org/thriftrw/protocol/binary"
	"go.uber.org/thriftrw/wire"
	"pgregory.net/rapid"
	"verif/internal/bridge"
	"verif/internal/chunkio"
	"verif/internal/ev"
	"verif/internal/refcodec"
	wm "verif/internal/wiremodel"
)

// Unit "pool": a SEQUENTIAL stateful test of the five sync.Pools behind the
// codec. No goroutines: a double Put or a missed reset shows up as a kept lazy
// value whose content changes under the feet of its owner, or as a fresh
// encode/decode that yields another operation's data.
//
// Lifetime rules respected by the generator (wire.ValueList / MapItemList docs):
// a lazy container may be iterated any number of times until Close; after Close
// (or wire.EvaluateValue, which closes) it is never touched again. "Persistent"
// containers are the ones a decoded value holds on to (reachable through structs
// only); containers nested inside another container are created afresh by every
// ForEach of the outer one ("ephemeral") and are closed -- or, legally, simply
// dropped -- inside the callback.

// drainPools empties the sync.Pools (two collections: primary -> victim ->
// gone), so that a script starts from the same pool state in the rapid run and
// in a replay, whatever earlier cases left behind.
func drainPools() {
	runtime.GC()
	runtime.GC()
}

// Step is one action of the script.
type Step struct {
	Act  string       `json:"act"`
	W    *wm.W        `json:"w,omitempty"`
	Plan chunkio.Plan `json:"plan,omitempty"`
	Idx  int          `json:"idx,omitempty"`  // which kept value (index into the list of all values ever kept)
	Eph  bool         `json:"eph,omitempty"`  // force: close ephemeral inner containers (true) or drop them (false)
	N    int          `json:"n,omitempty"`    // gc: how many collections
	Env  string       `json:"env,omitempty"`  // decode-keep: "" plain Decode, strict/legacy DecodeEnveloped
	Skip uint64       `json:"skip,omitempty"` // stream-skip: which fields of the root struct are skipped
}

// PoolCase is one script.
type PoolCase struct {
	Steps []Step `json:"steps"`
}

type kept struct {
	v     wire.Value
	model wm.W
	open  bool
}

type machine struct {
	kept []*kept
}

func (m *machine) openIdx() []int {
	var is []int
	for i, k := range m.kept {
		if k.open {
			is = append(is, i)
		}
	}
	return is
}

// walk forces v into a W. Persistent containers are closed iff closeP,
// ephemeral ones iff closeE.
func walk(v wire.Value, persistent, closeP, closeE bool) (wm.W, error) {
	doClose := func() bool {
		if persistent {
			return closeP
		}
		return closeE
	}
	switch v.Type() {
	case wire.TBool:
		return wm.Bool(v.GetBool()), nil
	case wire.TI8:
		return wm.I8(v.GetI8()), nil
	case wire.TI16:
		return wm.I16(v.GetI16()), nil
	case wire.TI32:
		return wm.I32(v.GetI32()), nil
	case wire.TI64:
		return wm.I64(v.GetI64()), nil
	case wire.TDouble:
		return wm.DoubleBits(math.Float64bits(v.GetDouble())), nil
	case wire.TBinary:
		return wm.Binary(append([]byte{}, v.GetBinary()...)), nil
	case wire.TStruct:
		w := wm.W{K: wm.KStruct}
		for _, f := range v.GetStruct().Fields {
			c, err := walk(f.Value, persistent, closeP, closeE)
			if err != nil {
				return wm.W{}, err
			}
			w.Fields = append(w.Fields, wm.Field{ID: f.ID, V: c})
		}
		return w, nil
	case wire.TList, wire.TSet:
		var l wire.ValueList
		k := wm.KList
		if v.Type() == wire.TSet {
			l, k = v.GetSet(), wm.KSet
		} else {
			l = v.GetList()
		}
		w := wm.W{K: k, EK: wm.Kind(l.ValueType())}
		n := l.Size()
		err := l.ForEach(func(e wire.Value) error {
			c, err := walk(e, false, closeP, closeE)
			if err != nil {
				return err
			}
			w.Elems = append(w.Elems, c)
			return nil
		})
		if doClose() {
			l.Close()
		}
		if err != nil {
			return wm.W{}, err
		}
		if n != len(w.Elems) {
			return wm.W{}, fmt.Errorf("list Size()=%d but ForEach yielded %d", n, len(w.Elems))
		}
		return w, nil
	case wire.TMap:
		mp := v.GetMap()
		w := wm.W{K: wm.KMap, KK: wm.Kind(mp.KeyType()), VK: wm.Kind(mp.ValueType())}
		n := mp.Size()
		err := mp.ForEach(func(it wire.MapItem) error {
			kk, err := walk(it.Key, false, closeP, closeE)
			if err != nil {
				return err
			}
			vv, err := walk(it.Value, false, closeP, closeE)
			if err != nil {
				return err
			}
			w.Pairs = append(w.Pairs, wm.Pair{K: kk, V: vv})
			return nil
		})
		if doClose() {
			mp.Close()
		}
		if err != nil {
			return wm.W{}, err
		}
		if n != len(w.Pairs) {
			return wm.W{}, fmt.Errorf("map Size()=%d but ForEach yielded %d", n, len(w.Pairs))
		}
		return w, nil
	}
	return wm.W{}, fmt.Errorf("unknown wire type %d", v.Type())
}

// invariant: every still-open kept value forces to its model.
func (m *machine) invariant(after string, stepNo int) error {
	for i, k := range m.kept {
		if !k.open {
			continue
		}
		got, err := walk(k.v, true, false, true)
		if err != nil {
			return ev.Errf("pool/invariant/force-error", "after step %d (%s): forcing kept value #%d failed: %v (model %s)", stepNo, after, i, err, wm.Render(k.model))
		}
		if !wm.Equal(got, k.model) {
			return ev.Errf("pool/invariant/kept-value-changed", "after step %d (%s): kept value #%d now forces to %s, it was decoded from %s", stepNo, after, i, wm.Render(got), wm.Render(k.model))
		}
	}
	return nil
}

func (m *machine) step(no int, s Step) error {
	switch s.Act {
	case "encode":
		var b bytes.Buffer
		if err := binary.Default.Encode(bridge.ToWire(*s.W), &b); err != nil {
			return ev.Errf("pool/encode/error", "step %d: Encode failed: %v", no, err)
		}
		if want := refcodec.Encode(*s.W); !bytes.Equal(b.Bytes(), want) {
			return ev.Errf("pool/encode/bytes", "step %d: Encode(%s) differs from the spec bytes at offset %d", no, wm.Render(*s.W), firstDiff(b.Bytes(), want))
		}
	case "enc-env":
		var b bytes.Buffer
		e := refcodec.Envelope{Name: []byte("m"), Type: 1, SeqID: int32(no), Body: *s.W}
		if err := binary.Default.EncodeEnveloped(wire.Envelope{Name: "m", Type: wire.Call, SeqID: int32(no), Value: bridge.ToWire(*s.W)}, &b); err != nil {
			return ev.Errf("pool/enc-env/error", "step %d: EncodeEnveloped failed: %v", no, err)
		}
		if want := refcodec.EncodeStrict(e); !bytes.Equal(b.Bytes(), want) {
			return ev.Errf("pool/enc-env/bytes", "step %d: EncodeEnveloped differs from the spec bytes at offset %d", no, firstDiff(b.Bytes(), want))
		}
	case "stream-write":
		var b bytes.Buffer
		sw := binary.Default.Writer(&b)
		err := bridge.StreamWrite(sw, *s.W)
		sw.Close()
		if err != nil {
			return ev.Errf("pool/stream-write/error", "step %d: stream writer failed: %v", no, err)
		}
		if want := refcodec.Encode(*s.W); !bytes.Equal(b.Bytes(), want) {
			return ev.Errf("pool/stream-write/bytes", "step %d: stream writer output for %s differs from the spec bytes at offset %d", no, wm.Render(*s.W), firstDiff(b.Bytes(), want))
		}
	case "stream-read":
		sr := binary.Default.Reader(chunkio.New(refcodec.Encode(*s.W), s.Plan))
		got, err := bridge.StreamRead(sr, s.W.K)
		sr.Close()
		if err != nil {
			return ev.Errf("pool/stream-read/error", "step %d: stream reader failed on a valid encoding (%s): %v", no, s.Plan.Class(), err)
		}
		if !wm.Equal(got, *s.W) {
			return ev.Errf("pool/stream-read/value", "step %d: stream reader yields %s, want %s", no, wm.Render(got), wm.Render(*s.W))
		}
	case "stream-skip":
		sr := binary.Default.Reader(chunkio.New(refcodec.Encode(*s.W), s.Plan))
		got, err := streamReadSkipping(sr, s.Skip)
		sr.Close()
		if err != nil {
			return ev.Errf("pool/stream-skip/error", "step %d: stream reader failed while reading/skipping a valid encoding (%s): %v", no, s.Plan.Class(), err)
		}
		if want := skipModel(*s.W, s.Skip); !wm.Equal(got, want) {
			return ev.Errf("pool/stream-skip/value", "step %d: stream reader (%s) yields %s, want %s", no, s.Plan.Class(), wm.Render(got), wm.Render(want))
		}
	case "decode-force":
		v, err := binary.Default.Decode(bytes.NewReader(refcodec.Encode(*s.W)), wire.Type(s.W.K))
		if err != nil {
			return ev.Errf("pool/decode/error", "step %d: Decode failed on a valid encoding: %v", no, err)
		}
		got, err := bridge.FromWire(v)
		if err != nil {
			return ev.Errf("pool/decode/force-error", "step %d: forcing failed: %v", no, err)
		}
		if !wm.Equal(got, *s.W) {
			return ev.Errf("pool/decode/value", "step %d: Decode yields %s, want %s", no, wm.Render(got), wm.Render(*s.W))
		}
	case "decode-keep":
		var v wire.Value
		var err error
		switch s.Env {
		case "":
			v, err = binary.Default.Decode(bytes.NewReader(refcodec.Encode(*s.W)), wire.Type(s.W.K))
		default:
			e := refcodec.Envelope{Name: []byte("kept"), Type: 2, SeqID: int32(no), Body: *s.W}
			in := refcodec.EncodeStrict(e)
			if s.Env == refcodec.FrameLegacy {
				in = refcodec.EncodeLegacy(e)
			}
			var env wire.Envelope
			env, err = binary.Default.DecodeEnveloped(bytes.NewReader(in))
			v = env.Value
			if err == nil && (env.Name != "kept" || env.SeqID != int32(no) || env.Type != wire.Reply) {
				return ev.Errf("pool/decode-keep/header", "step %d: DecodeEnveloped header (%q,%d,%d)", no, env.Name, env.Type, env.SeqID)
			}
		}
		if err != nil {
			return ev.Errf("pool/decode-keep/error", "step %d: decoding a valid encoding failed: %v", no, err)
		}
		m.kept = append(m.kept, &kept{v: v, model: *s.W, open: true})
	case "force":
		k := m.kept[s.Idx]
		got, err := walk(k.v, true, false, s.Eph)
		if err != nil {
			return ev.Errf("pool/force/error", "step %d: forcing kept value #%d failed: %v", no, s.Idx, err)
		}
		if !wm.Equal(got, k.model) {
			return ev.Errf("pool/force/value", "step %d: kept value #%d forces to %s, it was decoded from %s", no, s.Idx, wm.Render(got), wm.Render(k.model))
		}
	case "close":
		k := m.kept[s.Idx]
		got, err := walk(k.v, true, true, true) // ForEach then Close, as documented
		k.open = false
		k.v = wire.Value{}
		if err != nil {
			return ev.Errf("pool/close/error", "step %d: last iteration of kept value #%d failed: %v", no, s.Idx, err)
		}
		if !wm.Equal(got, k.model) {
			return ev.Errf("pool/close/value", "step %d: kept value #%d forces to %s on its last iteration, it was decoded from %s", no, s.Idx, wm.Render(got), wm.Render(k.model))
		}
	case "evaluate":
		k := m.kept[s.Idx]
		err := wire.EvaluateValue(k.v) // iterates and closes everything
		k.open = false
		k.v = wire.Value{}
		if err != nil {
			return ev.Errf("pool/evaluate/error", "step %d: EvaluateValue of kept value #%d failed: %v", no, s.Idx, err)
		}
	case "drop":
		k := m.kept[s.Idx]
		k.open = false
		k.v = wire.Value{} // never closed: the garbage collector owns it now
	case "gc":
		for i := 0; i < s.N; i++ {
			runtime.GC()
		}
	default:
		return ev.Errf("harness/pool-step", "unknown step %q", s.Act)
	}
	return m.invariant(s.Act, no)
}

// checkPool replays a script.
func checkPool(c PoolCase) error {
	drainPools()
	m := &machine{}
	for i, s := range c.Steps {
		if (s.Act == "force" || s.Act == "close" || s.Act == "evaluate" || s.Act == "drop") && (s.Idx < 0 || s.Idx >= len(m.kept) || !m.kept[s.Idx].open) {
			return ev.Errf("harness/pool-script", "step %d (%s) refers to kept value #%d which is not open: illegal history", i, s.Act, s.Idx)
		}
		if err := m.step(i, s); err != nil {
			return err
		}
	}
	return nil
}

const maxOpenKept = 6

func TestPoolStateMachine(t *testing.T) {
	rapid.Check(t, func(t *rapid.T) {
		drainPools()
		m := &machine{}
		var script []Step
		record := func(failed bool) {
			kinds := map[string]bool{}
			released := false
			for _, s := range script {
				kinds[s.Act] = true
				if s.Act == "close" || s.Act == "evaluate" {
					released = true
				}
			}
			cls := []string{"unit:pool", fmt.Sprintf("steps:%s", stepBucket(len(script))), fmt.Sprintf("released-a-container:%v", released)}
			for k := range kinds {
				cls = append(cls, "act:"+k)
			}
			c := PoolCase{Steps: script}
			d := ev.DigestJSON(c)
			nontriv := len(script) >= 4 && len(kinds) >= 2
			ev.Case(d, nontriv, cls...)
			if nontriv && !failed {
				ev.KeepSample("pool", d, func() interface{} {
					var acts []string
					for _, s := range script {
						a := s.Act
						if s.W != nil {
							a += "(" + clipStr(wm.Render(*s.W), 60) + ")"
						} else if s.Act != "gc" {
							a += fmt.Sprintf("(#%d)", s.Idx)
						}
						acts = append(acts, a)
					}
					return map[string]interface{}{"steps": acts}
				})
			}
		}
		do := func(t *rapid.T, s Step) {
			no := len(script)
			script = append(script, s)
			err := ev.Guard(func() error { return m.step(no, s) })
			if err != nil {
				record(true)
				ev.Report(t, "pool", PoolCase{Steps: script}, err)
			}
		}
		val := func(t *rapid.T, k wm.Kind) *wm.W {
			w := wm.Gen(t, k, wm.GenOpts{MaxDepth: rapid.IntRange(1, 3).Draw(t, "d"), MaxLen: 4}, "w")
			return &w
		}
		// containers at the root or directly under structs are what the pools serve
		lazyVal := func(t *rapid.T) *wm.W {
			k := rapid.SampledFrom([]wm.Kind{wm.KList, wm.KSet, wm.KMap, wm.KStruct, wm.KStruct}).Draw(t, "root")
			return val(t, k)
		}
		pick := func(t *rapid.T) int {
			is := m.openIdx()
			if len(is) == 0 {
				t.Skip("nothing kept")
			}
			return rapid.SampledFrom(is).Draw(t, "idx")
		}
		t.Repeat(map[string]func(*rapid.T){
			"encode": func(t *rapid.T) {
				do(t, Step{Act: "encode", W: val(t, wm.GenRootKind().Draw(t, "root"))})
			},
			"enc-env": func(t *rapid.T) { do(t, Step{Act: "enc-env", W: val(t, wm.KStruct)}) },
			"stream-write": func(t *rapid.T) {
				do(t, Step{Act: "stream-write", W: val(t, wm.GenRootKind().Draw(t, "root"))})
			},
			"stream-read": func(t *rapid.T) {
				do(t, Step{Act: "stream-read", W: val(t, wm.GenRootKind().Draw(t, "root")), Plan: chunkio.GenPlan(t, "plan")})
			},
			"stream-skip": func(t *rapid.T) {
				do(t, Step{Act: "stream-skip", W: val(t, wm.KStruct), Plan: chunkio.GenPlan(t, "plan"), Skip: rapid.Uint64().Draw(t, "skip")})
			},
			"decode-force": func(t *rapid.T) { do(t, Step{Act: "decode-force", W: lazyVal(t)}) },
			"decode-keep": func(t *rapid.T) {
				if len(m.openIdx()) >= maxOpenKept {
					t.Skip("enough kept")
				}
				env := rapid.SampledFrom([]string{"", "", "", refcodec.FrameStrict, refcodec.FrameLegacy}).Draw(t, "env")
				if env != "" {
					do(t, Step{Act: "decode-keep", W: val(t, wm.KStruct), Env: env})
					return
				}
				do(t, Step{Act: "decode-keep", W: lazyVal(t)})
			},
			"decode-keep2": func(t *rapid.T) { // twice as likely: kept values are the point
				if len(m.openIdx()) >= maxOpenKept {
					t.Skip("enough kept")
				}
				do(t, Step{Act: "decode-keep", W: lazyVal(t)})
			},
			"force": func(t *rapid.T) {
				do(t, Step{Act: "force", Idx: pick(t), Eph: rapid.Bool().Draw(t, "close_ephemeral")})
			},
			"close":    func(t *rapid.T) { do(t, Step{Act: "close", Idx: pick(t)}) },
			"close2":   func(t *rapid.T) { do(t, Step{Act: "close", Idx: pick(t)}) },
			"evaluate": func(t *rapid.T) { do(t, Step{Act: "evaluate", Idx: pick(t)}) },
			"drop":     func(t *rapid.T) { do(t, Step{Act: "drop", Idx: pick(t)}) },
			"gc":       func(t *rapid.T) { do(t, Step{Act: "gc", N: rapid.IntRange(1, 2).Draw(t, "n")}) },
		})
		record(false)
	})
}

func stepBucket(n int) string {
	switch {
	case n < 4:
		return "<4"
	case n <= 10:
		return "4-10"
	case n <= 30:
		return "11-30"
	}
	return ">30"
}

func clipStr(s string, n int) string {
	if len(s) > n {
		return s[:n] + "…"
	}
	return s
}
