//go:build verif

package c18

import (
	"bytes"
	"errors"
	"fmt"
	"runtime"
	"testing"

	"go.uber.org/thriftrw/protocol/binary"
	"go.uber.org/thriftrw/wire"
	"pgregory.net/rapid"
	"verif/internal/bridge"
	"verif/internal/chunkio"
	"verif/internal/ev"
	"verif/internal/refcodec"
	wm "verif/internal/wiremodel"
)

// Unit "pool": a SEQUENTIAL stateful test of the five sync.Pools behind the
// codec. No goroutines: a double Put or a missed reset shows up as a kept lazy
// value whose content changes under the feet of its owner, or as a fresh
// encode/decode that yields another operation's data.
//
// Lifetime rules respected by the generator (wire.ValueList / MapItemList docs):
// a lazy container may be iterated any number of times until Close; after Close
// (or wire.EvaluateValue, which closes) it is never touched again. "Persistent"
// containers are the ones a decoded value holds on to (reachable through structs
// only); containers nested inside another container are created afresh by every
// ForEach of the outer one ("ephemeral") and are closed -- or, legally, simply
// dropped -- inside the callback.

// drainPools empties the sync.Pools (two collections: primary -> victim ->
// gone), so that a script starts from the same pool state in the rapid run and
// in a replay, whatever earlier cases left behind.
func drainPools() {
	runtime.GC()
	runtime.GC()
}

// Step is one action of the script.
type Step struct {
	Act  string       `json:"act"`
	W    *wm.W        `json:"w,omitempty"`
	Plan chunkio.Plan `json:"plan,omitempty"`
	Idx  int          `json:"idx,omitempty"`  // which kept value (index into the list of all values ever kept)
	Eph  bool         `json:"eph,omitempty"`  // force: close ephemeral inner containers (true) or drop them (false)
	N    int          `json:"n,omitempty"`    // gc: how many collections
	Env  string       `json:"env,omitempty"`  // decode-keep: "" plain Decode, strict/legacy DecodeEnveloped
	Skip uint64       `json:"skip,omitempty"` // stream-skip: which fields of the root struct are skipped
	// Big: the value is withBig(W, Big), a struct that also holds a binary longer than 1 MiB
	Big *Big `json:"big,omitempty"`
	// decode-bad: the input is spoiled (Decode accepts it, forcing fails); Mode says what is done with it:
	// "evaluate" (wire.EvaluateValue), "iterate" (ForEach then Close of everything, like generated readers),
	// "keep" (kept open: every later iteration of it must fail again and disturb nothing)
	Bad  *Poison `json:"bad,omitempty"`
	Mode string  `json:"mode,omitempty"`
	// partial: the consumer's callback gives up (returns an error) after Stop elements; with Close the
	// persistent containers are closed afterwards (the value is finished), otherwise it stays open
	Stop  int  `json:"stop,omitempty"`
	Close bool `json:"close,omitempty"`
	// serve: a request with framing Env (strict / legacy / bare) and body W is read and answered (serve_test.go)
	Serve *Serve `json:"serve,omitempty"`
}

// value is the value the step works on.
func (s Step) value() wm.W { return withBig(*s.W, s.Big) }

// PoolCase is one script.
type PoolCase struct {
	Steps []Step `json:"steps"`
}

type kept struct {
	v     wire.Value
	model wm.W
	open  bool
	bad   bool // decoded from a spoiled input: iterating it to the end must fail
}

// held is a result an earlier step obtained (binaries not copied): it belongs to
// the caller and must not change whatever runs afterwards.
type held struct {
	step  int
	got   wm.W
	model wm.W
}

type machine struct {
	kept    []*kept
	held    []held
	writers []*openWriter // stream writers borrowed by writer-open (Idx of writer-write / writer-close)
}

func (m *machine) openWriters() []int {
	var is []int
	for i, w := range m.writers {
		if w.open {
			is = append(is, i)
		}
	}
	return is
}

// writersIntact: what has reached the buffer of a writer that is still open is
// a prefix of what was written through it -- nobody else writes there.
func (m *machine) writersIntact(when string) error {
	for i, w := range m.writers {
		if w.open && !bytes.HasPrefix(w.want, w.buf.Bytes()) {
			return ev.Errf("pool/open-writer/foreign-bytes", "%s: the buffer of open stream writer #%d holds %x…, which is not a prefix of what was written through it (%x…): first difference at offset %d", when, i, clip(w.buf.Bytes(), 48), clip(w.want, 48), firstDiff(w.buf.Bytes(), w.want))
		}
	}
	return nil
}

// closeWriter closes open writer #i; now its buffer holds exactly what was written.
func (m *machine) closeWriter(no, i int) error {
	w := m.writers[i]
	w.open = false
	if err := w.sw.Close(); err != nil {
		return ev.Errf("pool/writer-close/error", "step %d: closing stream writer #%d failed: %v", no, i, err)
	}
	if !bytes.Equal(w.buf.Bytes(), w.want) {
		return ev.Errf("pool/writer-close/bytes", "step %d: stream writer #%d was held open while other steps ran; its output (%d bytes) differs from the spec bytes of the values written through it (%d bytes) at offset %d", no, i, w.buf.Len(), len(w.want), firstDiff(w.buf.Bytes(), w.want))
	}
	return nil
}

// finish closes the writers the script left open (a borrowed writer has to be closed).
func (m *machine) finish(no int) error {
	for _, i := range m.openWriters() {
		if err := m.closeWriter(no, i); err != nil {
			return err
		}
	}
	return m.heldIntact("at the end of the script")
}

// hold remembers the result of a step: every big one, and the first few others.
func (m *machine) hold(no int, big bool, got, model wm.W) {
	if big || len(m.held) < 8 {
		m.held = append(m.held, held{no, got, model})
	}
}

func (m *machine) openIdx() []int {
	var is []int
	for i, k := range m.kept {
		if k.open {
			is = append(is, i)
		}
	}
	return is
}

// invariant: every still-open kept value forces to its model.
func (m *machine) invariant(after string, stepNo int) error {
	for i, k := range m.kept {
		if !k.open {
			continue
		}
		got, err := (&walker{closeE: true, budget: -1}).walk(k.v, true)
		if k.bad {
			if err == nil {
				return ev.Errf("pool/invariant/error-missed", "after step %d (%s): kept value #%d was decoded from a spoiled input and cannot be iterated to the end, yet forcing it now succeeds (%s)", stepNo, after, i, wm.Render(got))
			}
			continue
		}
		if err != nil {
			return ev.Errf("pool/invariant/force-error", "after step %d (%s): forcing kept value #%d failed: %v (model %s)", stepNo, after, i, err, wm.Render(k.model))
		}
		if !wm.Equal(got, k.model) {
			return ev.Errf("pool/invariant/kept-value-changed", "after step %d (%s): kept value #%d now forces to %s, it was decoded from %s", stepNo, after, i, wm.Render(got), wm.Render(k.model))
		}
	}
	return m.heldIntact(fmt.Sprintf("after step %d (%s)", stepNo, after))
}

// heldIntact: results returned by earlier steps are what they were.
func (m *machine) heldIntact(when string) error {
	for _, h := range m.held {
		if !wm.Equal(h.got, h.model) {
			return ev.Errf("pool/held-result-changed", "%s: the result step %d returned was right then and now reads %s, want %s", when, h.step, wm.Render(h.got), wm.Render(h.model))
		}
	}
	return nil
}

func (m *machine) step(no int, s Step) error {
	var val wm.W
	if s.W != nil {
		val = s.value()
	}
	switch s.Act {
	case "encode":
		var b bytes.Buffer
		if err := binary.Default.Encode(bridge.ToWire(val), &b); err != nil {
			return ev.Errf("pool/encode/error", "step %d: Encode failed: %v", no, err)
		}
		if want := refcodec.Encode(val); !bytes.Equal(b.Bytes(), want) {
			return ev.Errf("pool/encode/bytes", "step %d: Encode(%s) differs from the spec bytes at offset %d", no, wm.Render(val), firstDiff(b.Bytes(), want))
		}
	case "enc-env":
		var b bytes.Buffer
		e := refcodec.Envelope{Name: []byte("m"), Type: 1, SeqID: int32(no), Body: val}
		if err := binary.Default.EncodeEnveloped(wire.Envelope{Name: "m", Type: wire.Call, SeqID: int32(no), Value: bridge.ToWire(val)}, &b); err != nil {
			return ev.Errf("pool/enc-env/error", "step %d: EncodeEnveloped failed: %v", no, err)
		}
		if want := refcodec.EncodeStrict(e); !bytes.Equal(b.Bytes(), want) {
			return ev.Errf("pool/enc-env/bytes", "step %d: EncodeEnveloped differs from the spec bytes at offset %d", no, firstDiff(b.Bytes(), want))
		}
	case "stream-write":
		var b bytes.Buffer
		sw := binary.Default.Writer(&b)
		err := bridge.StreamWrite(sw, val)
		sw.Close()
		if err != nil {
			return ev.Errf("pool/stream-write/error", "step %d: stream writer failed: %v", no, err)
		}
		if want := refcodec.Encode(val); !bytes.Equal(b.Bytes(), want) {
			return ev.Errf("pool/stream-write/bytes", "step %d: stream writer output for %s differs from the spec bytes at offset %d", no, wm.Render(val), firstDiff(b.Bytes(), want))
		}
	case "stream-read":
		sr := binary.Default.Reader(chunkio.New(refcodec.Encode(val), s.Plan))
		got, err := bridge.StreamRead(sr, val.K)
		sr.Close()
		if err != nil {
			return ev.Errf("pool/stream-read/error", "step %d: stream reader failed on a valid encoding (%s): %v", no, s.Plan.Class(), err)
		}
		if !wm.Equal(got, val) {
			return ev.Errf("pool/stream-read/value", "step %d: stream reader yields %s, want %s", no, wm.Render(got), wm.Render(val))
		}
		m.hold(no, s.Big != nil, got, val)
	case "stream-skip":
		sr := binary.Default.Reader(chunkio.New(refcodec.Encode(val), s.Plan))
		got, err := streamReadSkipping(sr, s.Skip)
		sr.Close()
		if err != nil {
			return ev.Errf("pool/stream-skip/error", "step %d: stream reader failed while reading/skipping a valid encoding (%s): %v", no, s.Plan.Class(), err)
		}
		if want := skipModel(val, s.Skip); !wm.Equal(got, want) {
			return ev.Errf("pool/stream-skip/value", "step %d: stream reader (%s) yields %s, want %s", no, s.Plan.Class(), wm.Render(got), wm.Render(want))
		}
	case "decode-force":
		v, err := binary.Default.Decode(bytes.NewReader(refcodec.Encode(val)), wire.Type(val.K))
		if err != nil {
			return ev.Errf("pool/decode/error", "step %d: Decode failed on a valid encoding: %v", no, err)
		}
		got, err := forceAll(v)
		if err != nil {
			return ev.Errf("pool/decode/force-error", "step %d: forcing failed: %v", no, err)
		}
		if !wm.Equal(got, val) {
			return ev.Errf("pool/decode/value", "step %d: Decode yields %s, want %s", no, wm.Render(got), wm.Render(val))
		}
		m.hold(no, s.Big != nil, got, val)
	case "decode-bad":
		enc, ok, perr := poisonEncoding(val, s.Bad)
		if perr != nil || !ok {
			return ev.Errf("harness/pool-poison", "step %d: cannot spoil %s: ok=%v err=%v", no, wm.Render(val), ok, perr)
		}
		v, err := binary.Default.Decode(bytes.NewReader(enc), wire.Type(val.K))
		if err != nil {
			return ev.Errf("harness/pool-poison", "step %d: Decode already rejects the spoiled input (%v): the bool byte is not beneath a container", no, err)
		}
		switch s.Mode {
		case "evaluate":
			if err := wire.EvaluateValue(v); err == nil {
				return ev.Errf("pool/decode-bad/error-missed", "step %d: EvaluateValue succeeds on an input the reference decoder rejects (%s with a bool byte %#x)", no, wm.Render(val), s.Bad.Byte)
			}
		case "iterate":
			if got, err := forceAll(v); err == nil {
				return ev.Errf("pool/decode-bad/error-missed", "step %d: iterating every container succeeds on an input the reference decoder rejects (%s with a bool byte %#x): got %s", no, wm.Render(val), s.Bad.Byte, wm.Render(got))
			}
		default:
			m.kept = append(m.kept, &kept{v: v, model: val, open: true, bad: true})
		}
	case "decode-keep":
		var v wire.Value
		var err error
		switch s.Env {
		case "":
			v, err = binary.Default.Decode(bytes.NewReader(refcodec.Encode(val)), wire.Type(val.K))
		default:
			e := refcodec.Envelope{Name: []byte("kept"), Type: 2, SeqID: int32(no), Body: val}
			in := refcodec.EncodeStrict(e)
			if s.Env == refcodec.FrameLegacy {
				in = refcodec.EncodeLegacy(e)
			}
			var env wire.Envelope
			env, err = binary.Default.DecodeEnveloped(bytes.NewReader(in))
			v = env.Value
			if err == nil && (env.Name != "kept" || env.SeqID != int32(no) || env.Type != wire.Reply) {
				return ev.Errf("pool/decode-keep/header", "step %d: DecodeEnveloped header (%q,%d,%d)", no, env.Name, env.Type, env.SeqID)
			}
		}
		if err != nil {
			return ev.Errf("pool/decode-keep/error", "step %d: decoding a valid encoding failed: %v", no, err)
		}
		m.kept = append(m.kept, &kept{v: v, model: val, open: true})
	case "force":
		k := m.kept[s.Idx]
		got, err := (&walker{closeE: s.Eph, budget: -1}).walk(k.v, true)
		if k.bad {
			if err == nil {
				return ev.Errf("pool/force/error-missed", "step %d: kept value #%d (spoiled input) forces without an error to %s", no, s.Idx, wm.Render(got))
			}
			break
		}
		if err != nil {
			return ev.Errf("pool/force/error", "step %d: forcing kept value #%d failed: %v", no, s.Idx, err)
		}
		if !wm.Equal(got, k.model) {
			return ev.Errf("pool/force/value", "step %d: kept value #%d forces to %s, it was decoded from %s", no, s.Idx, wm.Render(got), wm.Render(k.model))
		}
	case "partial":
		// the consumer gives up after s.Stop elements: ForEach must hand its error back, and
		// the containers are as usable (or, with Close, as finished) as after a full iteration
		k := m.kept[s.Idx]
		got, err := (&walker{closeP: s.Close, closeE: s.Eph, budget: s.Stop}).walk(k.v, true)
		if s.Close {
			k.open = false
			k.v = wire.Value{}
		}
		switch {
		case k.bad && err == nil:
			return ev.Errf("pool/partial/error-missed", "step %d: kept value #%d (spoiled input) was iterated to the end without an error: %s", no, s.Idx, wm.Render(got))
		case k.bad:
		case err == nil:
			if !wm.Equal(got, k.model) { // fewer than Stop elements: a full iteration
				return ev.Errf("pool/partial/value", "step %d: kept value #%d forces to %s, it was decoded from %s", no, s.Idx, wm.Render(got), wm.Render(k.model))
			}
		case !errors.Is(err, errStop):
			return ev.Errf("pool/partial/error", "step %d: iterating kept value #%d until the callback gives up after %d elements fails with another error: %v", no, s.Idx, s.Stop, err)
		}
	case "close":
		k := m.kept[s.Idx]
		got, err := forceAll(k.v) // ForEach then Close, as documented
		k.open = false
		k.v = wire.Value{}
		if k.bad {
			if err == nil {
				return ev.Errf("pool/close/error-missed", "step %d: kept value #%d (spoiled input) was iterated to the end without an error: %s", no, s.Idx, wm.Render(got))
			}
			break
		}
		if err != nil {
			return ev.Errf("pool/close/error", "step %d: last iteration of kept value #%d failed: %v", no, s.Idx, err)
		}
		if !wm.Equal(got, k.model) {
			return ev.Errf("pool/close/value", "step %d: kept value #%d forces to %s on its last iteration, it was decoded from %s", no, s.Idx, wm.Render(got), wm.Render(k.model))
		}
	case "evaluate":
		k := m.kept[s.Idx]
		err := wire.EvaluateValue(k.v) // iterates and closes everything
		k.open = false
		k.v = wire.Value{}
		if k.bad {
			if err == nil {
				return ev.Errf("pool/evaluate/error-missed", "step %d: EvaluateValue of kept value #%d (spoiled input) reports no error", no, s.Idx)
			}
			break
		}
		if err != nil {
			return ev.Errf("pool/evaluate/error", "step %d: EvaluateValue of kept value #%d failed: %v", no, s.Idx, err)
		}
	case "serve":
		e := refcodec.Envelope{Name: []byte("served"), Type: 1, SeqID: int32(no), Body: val}
		name, seq := "served", int32(no)
		var in []byte
		switch s.Env {
		case refcodec.FrameStrict:
			in = refcodec.EncodeStrict(e)
		case refcodec.FrameLegacy:
			in = refcodec.EncodeLegacy(e)
		default:
			in, name, seq = refcodec.Encode(val), "", 0
		}
		if s.Serve == nil || s.Serve.Resp == nil {
			return ev.Errf("harness/pool-step", "step %d: serve without a response", no)
		}
		if s.Serve.Mismatch && s.Env != refcodec.FrameBare {
			// the server expects another kind of call than the envelope announces: an error, and
			// nothing else - the readers that were borrowed must not be handed back twice
			if _, _, _, merr := serveOnce(in, s.Plan, 4, s.Serve, nil, 0); merr == nil {
				return ev.Errf("pool/serve/mismatch-accepted", "step %d: a %s request of type Call was accepted by a server expecting type OneWay", no, s.Env)
			}
			break
		}
		h, req, out, err := serveOnce(in, s.Plan, 1, s.Serve, nil, 0)
		if err != nil {
			return ev.Errf("pool/serve/error", "step %d: serving a %s request (%s): %v", no, s.Env, s.Serve, err)
		}
		if want := hdr(s.Env, name, 1, seq); h != want {
			return ev.Errf("pool/serve/header", "step %d: the responder of a %s request stands for %s, want %s", no, s.Env, h, want)
		}
		if !wm.Equal(req, val) {
			return ev.Errf("pool/serve/request", "step %d: the %s request (%s) reads as %s, want %s", no, s.Env, s.Serve.Via, wm.Render(req), wm.Render(val))
		}
		if s.Serve.Respond != respondWriteFail {
			if want := serveWant(s.Env, []byte(name), seq, s.Serve); !bytes.Equal(out, want) {
				return ev.Errf("pool/serve/response", "step %d: the response to a %s request (%s) differs from the spec bytes at offset %d: got %x… want %x…", no, s.Env, s.Serve, firstDiff(out, want), clip(out, 48), clip(want, 48))
			}
		}
	case "writer-open":
		b := &bytes.Buffer{}
		m.writers = append(m.writers, &openWriter{sw: binary.Default.Writer(b), buf: b, open: true})
	case "writer-write":
		w := m.writers[s.Idx]
		if err := bridge.StreamWrite(w.sw, val); err != nil {
			return ev.Errf("pool/writer-write/error", "step %d: writing %s through open stream writer #%d failed: %v", no, wm.Render(val), s.Idx, err)
		}
		w.want = refcodec.Append(w.want, val)
	case "writer-close":
		if err := m.closeWriter(no, s.Idx); err != nil {
			return err
		}
	case "drop":
		k := m.kept[s.Idx]
		k.open = false
		k.v = wire.Value{} // never closed: the garbage collector owns it now
	case "gc":
		for i := 0; i < s.N; i++ {
			runtime.GC()
		}
	default:
		return ev.Errf("harness/pool-step", "unknown step %q", s.Act)
	}
	if err := m.writersIntact(fmt.Sprintf("after step %d (%s)", no, s.Act)); err != nil {
		return err
	}
	return m.invariant(s.Act, no)
}

// checkPool replays a script.
func checkPool(c PoolCase) error {
	drainPools()
	m := &machine{}
	for i, s := range c.Steps {
		if (s.Act == "force" || s.Act == "partial" || s.Act == "close" || s.Act == "evaluate" || s.Act == "drop") && (s.Idx < 0 || s.Idx >= len(m.kept) || !m.kept[s.Idx].open) {
			return ev.Errf("harness/pool-script", "step %d (%s) refers to kept value #%d which is not open: illegal history", i, s.Act, s.Idx)
		}
		if (s.Act == "writer-write" || s.Act == "writer-close") && (s.Idx < 0 || s.Idx >= len(m.writers) || !m.writers[s.Idx].open) {
			return ev.Errf("harness/pool-script", "step %d (%s) refers to stream writer #%d which is not open: illegal history", i, s.Act, s.Idx)
		}
		if err := m.step(i, s); err != nil {
			return err
		}
	}
	return m.finish(len(c.Steps))
}

const (
	maxOpenKept    = 6
	maxOpenWriters = 3
)

func TestPoolStateMachine(t *testing.T) {
	rapid.Check(t, func(t *rapid.T) {
		drainPools()
		m := &machine{}
		var script []Step
		record := func(failed bool) {
			kinds := map[string]bool{}
			released := false
			nBig, nBad, nOpenW := 0, 0, 0
			for _, s := range script {
				kinds[s.Act] = true
				if s.Act == "close" || s.Act == "evaluate" {
					released = true
				}
				if s.Big != nil {
					nBig++
				}
				if s.Act == "decode-bad" {
					nBad++
					kinds["decode-bad:"+s.Mode] = true
				}
				if s.Act == "partial" && s.Close {
					kinds["partial:close"] = true
				}
				if s.Act == "serve" {
					kinds["serve:"+s.Env+"/"+s.Serve.String()] = true
				}
				switch s.Act {
				case "writer-open":
					if nOpenW++; nOpenW >= 2 {
						kinds["writers-open-together"] = true
					}
				case "writer-close":
					nOpenW--
				}
			}
			cls := []string{"unit:pool", fmt.Sprintf("steps:%s", stepBucket(len(script))), fmt.Sprintf("released-a-container:%v", released),
				fmt.Sprintf("big-binaries:%d", nBig), fmt.Sprintf("bad-inputs:%s", countBucket(nBad))}
			for k := range kinds {
				cls = append(cls, "act:"+k)
			}
			c := PoolCase{Steps: script}
			d := ev.DigestJSON(c)
			nontriv := len(script) >= 4 && len(kinds) >= 2
			ev.Case(d, nontriv, cls...)
			if nontriv && !failed {
				ev.KeepSample("pool", d, func() interface{} {
					var acts []string
					for _, s := range script {
						a := s.Act
						if s.W != nil {
							a += "(" + clipStr(wm.Render(*s.W), 60) + s.Big.String() + ")"
						} else if s.Act != "gc" {
							a += fmt.Sprintf("(#%d)", s.Idx)
						}
						acts = append(acts, a)
					}
					return map[string]interface{}{"steps": acts}
				})
			}
		}
		do := func(t *rapid.T, s Step) {
			no := len(script)
			script = append(script, s)
			err := ev.Guard(func() error { return m.step(no, s) })
			if err != nil {
				record(true)
				ev.Report(t, "pool", PoolCase{Steps: script}, err)
			}
		}
		val := func(t *rapid.T, k wm.Kind) *wm.W {
			w := wm.Gen(t, k, wm.GenOpts{MaxDepth: rapid.IntRange(1, 3).Draw(t, "d"), MaxLen: 4}, "w")
			return &w
		}
		// containers at the root or directly under structs are what the pools serve
		lazyVal := func(t *rapid.T) *wm.W {
			k := rapid.SampledFrom([]wm.Kind{wm.KList, wm.KSet, wm.KMap, wm.KStruct, wm.KStruct}).Draw(t, "root")
			return val(t, k)
		}
		// big binaries: one script in eight may carry up to three of them (memory, time)
		bigBudget, bigBase, nthBig := 0, byte(0), 0
		if rare(t, "big_script", 3) {
			bigBudget, bigBase = maxBigPerCase, rapid.Byte().Draw(t, "big_fill")
		}
		big := func(t *rapid.T) *Big {
			if bigBudget <= 0 || rapid.IntRange(0, 1).Draw(t, "big") != 0 {
				return nil
			}
			b := genBig(t, "v", bigBase, nthBig, bigBudget)
			nthBig++
			bigBudget -= b.weight()
			return b
		}
		planFor := func(t *rapid.T, b *Big) chunkio.Plan {
			p := chunkio.GenPlan(t, "plan")
			if b != nil {
				p = bigPlan(t, p, "plan")
			}
			return p
		}
		pick := func(t *rapid.T) int {
			is := m.openIdx()
			if len(is) == 0 {
				t.Skip("nothing kept")
			}
			return rapid.SampledFrom(is).Draw(t, "idx")
		}
		pickWriter := func(t *rapid.T) int {
			is := m.openWriters()
			if len(is) == 0 {
				t.Skip("no open writer")
			}
			return rapid.SampledFrom(is).Draw(t, "widx")
		}
		serve := func(t *rapid.T) {
			env := rapid.SampledFrom([]string{refcodec.FrameStrict, refcodec.FrameLegacy, refcodec.FrameBare}).Draw(t, "framing")
			do(t, Step{Act: "serve", W: val(t, wm.KStruct), Env: env, Plan: chunkio.GenPlan(t, "plan"), Serve: genServe(t, "serve")})
		}
		t.Repeat(map[string]func(*rapid.T){
			"encode": func(t *rapid.T) {
				do(t, Step{Act: "encode", W: val(t, wm.GenRootKind().Draw(t, "root"))})
			},
			"enc-env": func(t *rapid.T) { do(t, Step{Act: "enc-env", W: val(t, wm.KStruct)}) },
			"stream-write": func(t *rapid.T) {
				do(t, Step{Act: "stream-write", W: val(t, wm.GenRootKind().Draw(t, "root"))})
			},
			"stream-read": func(t *rapid.T) {
				b := big(t)
				do(t, Step{Act: "stream-read", W: val(t, wm.GenRootKind().Draw(t, "root")), Big: b, Plan: planFor(t, b)})
			},
			"stream-skip": func(t *rapid.T) {
				do(t, Step{Act: "stream-skip", W: val(t, wm.KStruct), Plan: chunkio.GenPlan(t, "plan"), Skip: rapid.Uint64().Draw(t, "skip")})
			},
			"decode-force": func(t *rapid.T) { do(t, Step{Act: "decode-force", W: lazyVal(t), Big: big(t)}) },
			"decode-bad": func(t *rapid.T) {
				mode := rapid.SampledFrom([]string{"evaluate", "iterate", "keep"}).Draw(t, "mode")
				if mode == "keep" && len(m.openIdx()) >= maxOpenKept {
					mode = "iterate"
				}
				do(t, Step{Act: "decode-bad", W: genPoisonable(t, false, "w"), Bad: genPoison(t, "w"), Mode: mode})
			},
			"partial": func(t *rapid.T) {
				do(t, Step{Act: "partial", Idx: pick(t), Stop: rapid.IntRange(0, 5).Draw(t, "stop"), Eph: rapid.Bool().Draw(t, "close_ephemeral"), Close: rapid.IntRange(0, 2).Draw(t, "close") == 0})
			},
			"decode-keep": func(t *rapid.T) {
				if len(m.openIdx()) >= maxOpenKept {
					t.Skip("enough kept")
				}
				env := rapid.SampledFrom([]string{"", "", "", refcodec.FrameStrict, refcodec.FrameLegacy}).Draw(t, "env")
				if env != "" {
					do(t, Step{Act: "decode-keep", W: val(t, wm.KStruct), Env: env})
					return
				}
				do(t, Step{Act: "decode-keep", W: lazyVal(t), Big: big(t)})
			},
			"decode-keep2": func(t *rapid.T) { // twice as likely: kept values are the point
				if len(m.openIdx()) >= maxOpenKept {
					t.Skip("enough kept")
				}
				do(t, Step{Act: "decode-keep", W: lazyVal(t)})
			},
			"force": func(t *rapid.T) {
				do(t, Step{Act: "force", Idx: pick(t), Eph: rapid.Bool().Draw(t, "close_ephemeral")})
			},
			"close":    func(t *rapid.T) { do(t, Step{Act: "close", Idx: pick(t)}) },
			"close2":   func(t *rapid.T) { do(t, Step{Act: "close", Idx: pick(t)}) },
			"evaluate": func(t *rapid.T) { do(t, Step{Act: "evaluate", Idx: pick(t)}) },
			"drop":     func(t *rapid.T) { do(t, Step{Act: "drop", Idx: pick(t)}) },
			"gc":       func(t *rapid.T) { do(t, Step{Act: "gc", N: rapid.IntRange(1, 2).Draw(t, "n")}) },
			"serve":    serve,
			"serve2":   serve,
			"writer-open": func(t *rapid.T) {
				if len(m.openWriters()) >= maxOpenWriters {
					t.Skip("enough writers")
				}
				do(t, Step{Act: "writer-open"})
			},
			"writer-write": func(t *rapid.T) {
				do(t, Step{Act: "writer-write", Idx: pickWriter(t), W: val(t, wm.GenRootKind().Draw(t, "root"))})
			},
			"writer-write2": func(t *rapid.T) {
				do(t, Step{Act: "writer-write", Idx: pickWriter(t), W: val(t, wm.GenRootKind().Draw(t, "root"))})
			},
			"writer-close": func(t *rapid.T) { do(t, Step{Act: "writer-close", Idx: pickWriter(t)}) },
		})
		if err := ev.Guard(func() error { return m.finish(len(script)) }); err != nil {
			record(true)
			ev.Report(t, "pool", PoolCase{Steps: script}, err)
		}
		record(false)
	})
}

func stepBucket(n int) string {
	switch {
	case n < 4:
		return "<4"
	case n <= 10:
		return "4-10"
	case n <= 30:
		return "11-30"
	}
	return ">30"
}

func clipStr(s string, n int) string {
	if len(s) > n {
		return s[:n] + "…"
	}
	return s
}
