//go:build verif

package c18

import (
	"bytes"
	"context"
	"errors"
	"fmt"
	"io"

	"go.uber.org/thriftrw/protocol/binary"
	"go.uber.org/thriftrw/protocol/stream"
	"go.uber.org/thriftrw/wire"
	"pgregory.net/rapid"
	"verif/internal/bridge"
	"verif/internal/chunkio"
	"verif/internal/refcodec"
	wm "verif/internal/wiremodel"
)

// A "serve" is what a request handler does with the shared protocol object:
// read a request that may carry a strict envelope, a legacy (version 0)
// envelope or none (ReadRequest over an io.Reader, or DecodeRequest over an
// io.ReaderAt), then answer through the responder it was handed: value based
// (EncodeResponse) or streaming (WriteResponse with an Enveloper), the
// Enveloper succeeding or giving up part-way. Every responder borrows pooled
// writers of its own.

const (
	viaRead   = "read"   // Protocol.ReadRequest (stream reader, body reader)
	viaDecode = "decode" // Protocol.DecodeRequest (random access)

	respondEncode    = "encode"     // responder.EncodeResponse(value, type, w)
	respondWrite     = "write"      // responder.WriteResponse(type, w, enveloper)
	respondWriteFail = "write-fail" // the same, the Enveloper's Encode fails after FailAt fields
)

// Serve says how the request is read and how it is answered.
type Serve struct {
	Via     string `json:"via"`
	Respond string `json:"respond"`
	RType   int8   `json:"rtype"`             // 2 = Reply, 3 = Exception
	Resp    *wm.W  `json:"resp"`              // the response body, a struct
	FailAt  int    `json:"fail_at,omitempty"` // write-fail: fields written before the Enveloper gives up
	// Mismatch: the caller expects a oneway request (type 4) while the envelope says Call: reading
	// the request must fail for enveloped framings (and must leave the protocol object intact)
	Mismatch bool `json:"mismatch,omitempty"`
}

func (s *Serve) String() string {
	if s == nil {
		return ""
	}
	return fmt.Sprintf("%s/%s", s.Via, s.Respond)
}

var errServe = errors.New("c18: the response body gives up here")

// respBody is the stream.Enveloper (and the value) a handler answers with.
type respBody struct {
	w      wm.W
	et     wire.EnvelopeType
	failAt int // < 0: never
	y      *yielder
}

func (b *respBody) MethodName() string              { return "c18" }
func (b *respBody) EnvelopeType() wire.EnvelopeType { return b.et }
func (b *respBody) Encode(sw stream.Writer) error {
	b.y.tick()
	if b.failAt < 0 {
		return bridge.StreamWrite(sw, b.w)
	}
	if err := sw.WriteStructBegin(); err != nil {
		return err
	}
	for i, f := range b.w.Fields {
		if i >= b.failAt {
			break
		}
		if err := sw.WriteFieldBegin(stream.FieldHeader{ID: f.ID, Type: wire.Type(f.V.K)}); err != nil {
			return err
		}
		if err := bridge.StreamWrite(sw, f.V); err != nil {
			return err
		}
		if err := sw.WriteFieldEnd(); err != nil {
			return err
		}
	}
	return errServe
}

// responder is what both kinds of responders of the binary protocol offer.
type responder interface {
	EncodeResponse(v wire.Value, t wire.EnvelopeType, w io.Writer) error
	WriteResponse(et wire.EnvelopeType, w io.Writer, ev stream.Enveloper) error
}

// serveWant is the spec encoding of the response to a request with the given framing.
func serveWant(framing string, name []byte, seq int32, sv *Serve) []byte {
	e := refcodec.Envelope{Name: name, Type: sv.RType, SeqID: seq, Body: *sv.Resp}
	switch framing {
	case refcodec.FrameStrict:
		return refcodec.EncodeStrict(e)
	case refcodec.FrameLegacy:
		return refcodec.EncodeLegacy(e)
	}
	return refcodec.Encode(*sv.Resp)
}

// serveOnce reads the request and answers it. It returns the rendered header
// (framing the responder stands for, name, type, sequence id), the request body
// and the response bytes (nil for write-fail: a broken response is not compared).
func serveOnce(in []byte, plan chunkio.Plan, et int8, sv *Serve, y *yielder, sizeHint int) (h string, req wm.W, out []byte, err error) {
	var rsp interface{}
	switch sv.Via {
	case viaDecode:
		v, r, derr := binary.Default.DecodeRequest(wire.EnvelopeType(et), yReaderAt{bytes.NewReader(in), y})
		if derr != nil {
			return "", wm.W{}, nil, fmt.Errorf("DecodeRequest: %w", derr)
		}
		rsp = r
		if req, err = forceAll(v); err != nil {
			return "", wm.W{}, nil, fmt.Errorf("forcing the request: %w", err)
		}
	default:
		body := &yBody{y: y}
		r, rerr := binary.Default.ReadRequest(context.Background(), wire.EnvelopeType(et), planReader(in, plan, y), body)
		if rerr != nil {
			return "", wm.W{}, nil, fmt.Errorf("ReadRequest: %w", rerr)
		}
		rsp, req = r, body.w
	}
	f, n, s := classify(rsp)
	h = hdr(f, n, et, s)
	r, ok := rsp.(responder)
	if !ok {
		return h, req, nil, fmt.Errorf("the responder %T does not offer EncodeResponse and WriteResponse", rsp)
	}
	var b bytes.Buffer
	b.Grow(sizeHint)
	w := yWriter{&b, y}
	rt := wire.EnvelopeType(sv.RType)
	switch sv.Respond {
	case respondEncode:
		if err := r.EncodeResponse(bridge.ToWire(*sv.Resp), rt, w); err != nil {
			return h, req, nil, fmt.Errorf("EncodeResponse: %w", err)
		}
	case respondWrite:
		if err := r.WriteResponse(rt, w, &respBody{w: *sv.Resp, et: rt, failAt: -1, y: y}); err != nil {
			return h, req, nil, fmt.Errorf("WriteResponse: %w", err)
		}
	case respondWriteFail:
		if err := r.WriteResponse(rt, w, &respBody{w: *sv.Resp, et: rt, failAt: sv.FailAt, y: y}); err == nil {
			return h, req, nil, errors.New("WriteResponse reports success although the Enveloper's Encode failed")
		}
		return h, req, nil, nil
	default:
		return h, req, nil, fmt.Errorf("harness: unknown way to respond %q", sv.Respond)
	}
	return h, req, b.Bytes(), nil
}

func genServe(t *rapid.T, label string) *Serve {
	sv := &Serve{
		Via:     rapid.SampledFrom([]string{viaRead, viaRead, viaDecode}).Draw(t, label+"_via"),
		Respond: rapid.SampledFrom([]string{respondEncode, respondWrite, respondWrite, respondWriteFail}).Draw(t, label+"_respond"),
		RType:   rapid.SampledFrom([]int8{2, 2, 3}).Draw(t, label+"_rtype"),
	}
	w := wm.Gen(t, wm.KStruct, wm.GenOpts{MaxDepth: rapid.IntRange(1, 2).Draw(t, label+"_rd"), MaxLen: 4}, label+"_resp")
	sv.Resp = &w
	if sv.Respond == respondWriteFail {
		sv.FailAt = rapid.IntRange(0, 3).Draw(t, label+"_failat")
	}
	sv.Mismatch = rapid.IntRange(0, 5).Draw(t, label+"_mismatch") == 0
	return sv
}

// ---------------------------------------------------------------- writers held open (unit pool)

// openWriter is a stream writer a step borrowed and has not closed yet. Whatever
// reaches its buffer must be a prefix of what was written through it (the
// writer may buffer); after Close the two are equal.
type openWriter struct {
	sw   stream.Writer
	buf  *bytes.Buffer
	want []byte
	open bool
}
