// C20: thriftbreak flags exactly the documented breaking changes.
//
// Every case is a pair of versions of a multi-file Thrift program built by a
// constructive generator (base program + edit script), committed as HEAD~ and
// HEAD of a scratch git repository made with the git CLI; the real thriftbreak
// binary is run on it in both output modes and the multiset of
// (file, kind, subject names) is compared with the one known by construction.
package c20

import (
	"encoding/json"
	"fmt"
	"os"
	"path/filepath"
	"sort"
	"testing"

	"pgregory.net/rapid"
	"verif/internal/ev"
)

func TestMain(m *testing.M) { ev.Main(m, "C20") }

// scratchRoot returns the directory scratch repositories are created in.
func scratchRoot(t *testing.T) string {
	if s := os.Getenv("VERIF_SCRATCH"); s != "" {
		if abs, err := filepath.Abs(s); err == nil {
			if err := os.MkdirAll(abs, 0o755); err == nil {
				d, err := os.MkdirTemp(abs, "c20-")
				if err == nil {
					t.Cleanup(func() { os.RemoveAll(d) })
					return d
				}
			}
		}
	}
	return t.TempDir()
}

func nontrivial(c Case) bool {
	b, k := isBreaking(c.Edits)
	return b >= 1 || k >= 2
}

func classes(unit string, c Case) []string {
	cls := []string{"unit:" + unit, "mode:readable", "mode:json"}
	seen := map[string]bool{}
	for _, e := range c.Edits {
		if !seen[e] {
			seen[e] = true
			cls = append(cls, "edit:"+e)
		}
	}
	if len(c.Edits) == 0 {
		cls = append(cls, "edit:none(identical versions)")
	}
	b, _ := isBreaking(c.Edits)
	switch {
	case len(c.Edits) == 0:
	case b == 0:
		cls = append(cls, "script:compatible-only")
	case b == len(c.Edits):
		cls = append(cls, "script:breaking-only")
	default:
		cls = append(cls, "script:mixed")
	}
	switch {
	case c.BaseFiles == 1:
		cls = append(cls, "files:1")
	case c.BaseFiles <= 3:
		cls = append(cls, "files:2-3")
	default:
		cls = append(cls, "files:4+")
	}
	nested := false
	for _, f := range c.Old {
		if filepath.Dir(f.Path) != "." {
			nested = true
		}
	}
	if nested {
		cls = append(cls, "layout:nested-dirs")
	} else {
		cls = append(cls, "layout:flat")
	}
	switch n := len(c.Expected); {
	case n == 0:
		cls = append(cls, "expected:0")
	case n == 1:
		cls = append(cls, "expected:1")
	case n <= 3:
		cls = append(cls, "expected:2-3")
	default:
		cls = append(cls, "expected:4+")
	}
	ks := map[string]bool{}
	for _, d := range c.Expected {
		ks[d.Kind] = true
	}
	var kk []string
	for k := range ks {
		kk = append(kk, k)
	}
	sort.Strings(kk)
	for _, k := range kk {
		cls = append(cls, "expect-kind:"+k)
	}
	if c.OldAlt != nil {
		cls = append(cls, "reordered-rendering:yes")
	} else {
		cls = append(cls, "reordered-rendering:no")
	}
	return cls
}

func sampleOf(c Case) interface{} {
	var oldP, newP []string
	for _, f := range c.Old {
		oldP = append(oldP, f.Path)
	}
	for _, f := range c.New {
		newP = append(newP, f.Path)
	}
	bytes := 0
	for _, f := range c.New {
		bytes += len(f.Text)
	}
	return map[string]interface{}{"old_files": oldP, "new_files": newP, "new_bytes": bytes, "edits": c.Edits, "expected": whats(c.Expected), "reordered_rendering": c.OldAlt != nil}
}

func runCase(t ev.TB, root, unit string, c Case) {
	d := ev.DigestJSON(c)
	nt := nontrivial(c)
	ev.Case(d, nt, classes(unit, c)...)
	if nt {
		ev.KeepSample(unit, d, func() interface{} { return sampleOf(c) })
	}
	err := ev.Guard(func() error { return checkCase(root, c) })
	if e, ok := err.(*envError); ok {
		t.Fatalf("%v", e)
		return
	}
	ev.Report(t, unit, c, err)
}

// TestEditScripts: random base programs x random edit scripts.
func TestEditScripts(t *testing.T) {
	root := scratchRoot(t)
	rapid.Check(t, func(rt *rapid.T) {
		runCase(rt, root, "edit-scripts", genCase(rt, false))
	})
}

// TestRenameLike: the script deletes a file and adds a file with fresh names
// but similar text (both edits are compatible ones; nothing is moved), plus a
// few random edits.
func TestRenameLike(t *testing.T) {
	root := scratchRoot(t)
	rapid.Check(t, func(rt *rapid.T) {
		runCase(rt, root, "rename-like", genCase(rt, true))
	})
}

// TestFixedPairs: hand-written pairs, one per documented kind and per
// compatible kind, so that every kind is exercised even in a tiny run.
func TestFixedPairs(t *testing.T) {
	root := scratchRoot(t)
	for i, c := range fixedPairs() {
		c := c
		d := ev.DigestJSON(c)
		ev.Case(d, nontrivial(c), classes("fixed-pairs", c)...)
		ev.KeepSample("fixed-pairs", d, func() interface{} { return sampleOf(c) })
		err := ev.Guard(func() error { return checkCase(root, c) })
		if e, ok := err.(*envError); ok {
			t.Fatalf("pair %d: %v", i, e)
		}
		ev.Report(t, "fixed-pairs", c, err)
	}
	ev.Note("fixed-pairs", fmt.Sprintf("%d hand-written pairs", len(fixedPairs())))
}

// TestDeleteAndAdd: the smallest histories in which the second commit deletes
// one Thrift file and adds one file (a Thrift file with unrelated content / a
// non-Thrift file) while a method is removed in a third, untouched-by-name file.
func TestDeleteAndAdd(t *testing.T) {
	root := scratchRoot(t)
	for i, c := range deleteAndAddPairs() {
		c := c
		d := ev.DigestJSON(c)
		ev.Case(d, nontrivial(c), classes("delete-and-add", c)...)
		ev.KeepSample("delete-and-add", d, func() interface{} { return sampleOf(c) })
		err := ev.Guard(func() error { return checkCase(root, c) })
		if e, ok := err.(*envError); ok {
			t.Fatalf("pair %d: %v", i, e)
		}
		ev.Report(t, "delete-and-add", c, err)
	}
}

func replayOne(t *testing.T, f *ev.Failure) bool {
	switch f.Unit {
	case "edit-scripts", "rename-like", "fixed-pairs", "delete-and-add":
		var c Case
		if err := json.Unmarshal(f.Case, &c); err != nil {
			t.Fatal(err)
		}
		err := ev.Guard(func() error { return checkCase(scratchRoot(t), c) })
		if e, ok := err.(*envError); ok {
			t.Fatalf("%v", e)
		}
		ev.Report(t, f.Unit, c, err)
		return true
	}
	return false
}

func TestReplay(t *testing.T)  { ev.RunReplay(t, replayOne) }
func TestRegress(t *testing.T) { ev.RunRegress(t, replayOne) }
