// C20: thriftbreak flags exactly the documented breaking changes.
//
// Every case is a pair of versions of a multi-file Thrift program built by a
// constructive generator (base program + edit script), committed as HEAD~ and
// HEAD of a scratch git repository made with the git CLI; the real thriftbreak
// binary is run on it in both output modes and the multiset of
// (file, kind, subject names) is compared with the one known by construction.
package c20

import (
	"encoding/json"
	"fmt"
	"os"
	"path/filepath"
	"sort"
	"testing"

	"pgregory.net/rapid"
	"verif/internal/ev"
)

func TestMain(m *testing.M) { ev.Main(m, "C20") }

// scratchRoot returns the directory scratch repositories are created in.
func scratchRoot(t *testing.T) string {
	if s := os.Getenv("VERIF_SCRATCH"); s != "" {
		if abs, err := filepath.Abs(s); err == nil {
			if err := os.MkdirAll(abs, 0o755); err == nil {
				d, err := os.MkdirTemp(abs, "c20-")
				if err == nil {
					t.Cleanup(func() { os.RemoveAll(d) })
					return d
				}
			}
		}
	}
	return t.TempDir()
}

func nontrivial(c Case) bool {
	b, k := isBreaking(c.Edits)
	return b >= 1 || k >= 2
}

func classes(unit string, c Case) []string {
	cls := []string{"unit:" + unit, "mode:readable", "mode:json"}
	seen := map[string]bool{}
	for _, e := range c.Edits {
		if !seen[e] {
			seen[e] = true
			cls = append(cls, "edit:"+e)
		}
	}
	if len(c.Edits) == 0 {
		cls = append(cls, "edit:none(identical versions)")
	}
	b, _ := isBreaking(c.Edits)
	switch {
	case len(c.Edits) == 0:
	case b == 0:
		cls = append(cls, "script:compatible-only")
	case b == len(c.Edits):
		cls = append(cls, "script:breaking-only")
	default:
		cls = append(cls, "script:mixed")
	}
	switch {
	case c.BaseFiles == 1:
		cls = append(cls, "files:1")
	case c.BaseFiles <= 3:
		cls = append(cls, "files:2-3")
	default:
		cls = append(cls, "files:4+")
	}
	nested := false
	for _, f := range c.Old {
		if filepath.Dir(f.Path) != "." {
			nested = true
		}
	}
	if nested {
		cls = append(cls, "layout:nested-dirs")
	} else {
		cls = append(cls, "layout:flat")
	}
	switch n := len(c.Expected); {
	case n == 0:
		cls = append(cls, "expected:0")
	case n == 1:
		cls = append(cls, "expected:1")
	case n <= 3:
		cls = append(cls, "expected:2-3")
	default:
		cls = append(cls, "expected:4+")
	}
	ks := map[string]bool{}
	for _, d := range c.Expected {
		ks[d.Kind] = true
	}
	var kk []string
	for k := range ks {
		kk = append(kk, k)
	}
	sort.Strings(kk)
	for _, k := range kk {
		cls = append(cls, "expect-kind:"+k)
	}
	cls = append(cls, gitClasses(c)...)
	if c.OldAlt != nil {
		cls = append(cls, "reordered-rendering:yes")
	} else {
		cls = append(cls, "reordered-rendering:no")
	}
	return cls
}

// gitClasses names what the commits record about files besides contents.
func gitClasses(c Case) []string {
	in := func(l []string, p string) bool {
		for _, q := range l {
			if q == p {
				return true
			}
		}
		return false
	}
	var cls []string
	add := func(s string) {
		if !in(cls, s) {
			cls = append(cls, s)
		}
	}
	diagFile := map[string]bool{}
	for _, d := range c.Expected {
		diagFile[d.File] = true
	}
	for _, f := range c.Old {
		x0, x1 := in(c.Exec[0], f.Path), in(c.Exec[1], f.Path)
		nt, inNew := textOf(c.New, f.Path)
		switch {
		case x0 && !inNew:
			add("git-mode:100755-file-deleted")
		case x0 && x1:
			add("git-mode:100755-in-both-commits")
		case x0:
			add("git-mode:100755-to-100644")
		case x1 && inNew:
			add("git-mode:100644-to-100755")
		}
		if inNew && x0 != x1 && nt == f.Text {
			add("git-mode:only-the-mode-changes")
		}
		if x0 && diagFile[f.Path] {
			add("git-mode:100755-in-HEAD~-on-a-file-with-diagnostics")
		}
	}
	for _, f := range c.New {
		if _, inOld := textOf(c.Old, f.Path); !inOld && in(c.Exec[1], f.Path) {
			add("git-mode:100755-file-added")
		}
	}
	if len(cls) == 0 {
		add("git-mode:100644-everywhere")
	}
	if c.Packed {
		add("git-storage:packed")
	} else {
		add("git-storage:loose")
	}
	return cls
}

func sampleOf(c Case) interface{} {
	var oldP, newP []string
	for _, f := range c.Old {
		oldP = append(oldP, f.Path)
	}
	for _, f := range c.New {
		newP = append(newP, f.Path)
	}
	bytes := 0
	for _, f := range c.New {
		bytes += len(f.Text)
	}
	return map[string]interface{}{"old_files": oldP, "new_files": newP, "new_bytes": bytes, "edits": c.Edits, "expected": whats(c.Expected), "reordered_rendering": c.OldAlt != nil, "exec_in_old": c.Exec[0], "exec_in_new": c.Exec[1], "packed": c.Packed}
}

func runCase(t ev.TB, root, unit string, c Case) {
	d := ev.DigestJSON(c)
	nt := nontrivial(c)
	ev.Case(d, nt, classes(unit, c)...)
	if nt {
		ev.KeepSample(unit, d, func() interface{} { return sampleOf(c) })
	}
	err := ev.Guard(func() error { return checkCase(root, c) })
	if e, ok := err.(*envError); ok {
		t.Fatalf("%v", e)
		return
	}
	ev.Report(t, unit, c, err)
}

// TestEditScripts: random base programs x random edit scripts.
func TestEditScripts(t *testing.T) {
	root := scratchRoot(t)
	rapid.Check(t, func(rt *rapid.T) {
		runCase(rt, root, "edit-scripts", genCase(rt, false))
	})
}

// TestRenameLike: the script deletes a file and adds a file with fresh names
// but similar text (both edits are compatible ones; nothing is moved), plus a
// few random edits.
func TestRenameLike(t *testing.T) {
	root := scratchRoot(t)
	rapid.Check(t, func(rt *rapid.T) {
		runCase(rt, root, "rename-like", genCase(rt, true))
	})
}

// TestFixedPairs: hand-written pairs, one per documented kind and per
// compatible kind, so that every kind is exercised even in a tiny run.
func TestFixedPairs(t *testing.T) {
	root := scratchRoot(t)
	// every pair with plain modes, and with every file carrying the
	// executable bit in HEAD~ only, in HEAD only, in both (the last one in a
	// packed repository)
	variants := []string{"100644", "100755-in-HEAD~", "100755-in-HEAD", "100755-in-both+packed"}
	for i, c0 := range fixedPairs() {
		for vi, variant := range variants {
			c := c0
			var all [2][]string
			for k, v := range [][]FileText{c.Old, c.New} {
				for _, f := range v {
					all[k] = append(all[k], f.Path)
				}
				all[k] = append(all[k], otherFile)
			}
			switch vi {
			case 1:
				c.Exec[0] = all[0]
			case 2:
				c.Exec[1] = all[1]
			case 3:
				c.Exec, c.Packed = all, true
			}
			d := ev.DigestJSON(c)
			ev.Case(d, nontrivial(c), classes("fixed-pairs", c)...)
			ev.KeepSample("fixed-pairs", d, func() interface{} { return sampleOf(c) })
			err := ev.Guard(func() error { return checkCase(root, c) })
			if e, ok := err.(*envError); ok {
				t.Fatalf("pair %d (%s): %v", i, variant, e)
			}
			ev.Report(t, "fixed-pairs", c, err)
		}
	}
	ev.Note("fixed-pairs", fmt.Sprintf("%d hand-written pairs x %d file-mode variants %v", len(fixedPairs()), len(variants), variants))
}

// TestDeleteAndAdd: the smallest histories in which the second commit deletes
// one Thrift file and adds one file (a Thrift file with unrelated content / a
// non-Thrift file) while a method is removed in a third, untouched-by-name file.
func TestDeleteAndAdd(t *testing.T) {
	root := scratchRoot(t)
	for i, c := range deleteAndAddPairs() {
		c := c
		d := ev.DigestJSON(c)
		ev.Case(d, nontrivial(c), classes("delete-and-add", c)...)
		ev.KeepSample("delete-and-add", d, func() interface{} { return sampleOf(c) })
		err := ev.Guard(func() error { return checkCase(root, c) })
		if e, ok := err.(*envError); ok {
			t.Fatalf("pair %d: %v", i, e)
		}
		ev.Report(t, "delete-and-add", c, err)
	}
}

func replayOne(t *testing.T, f *ev.Failure) bool {
	switch f.Unit {
	case "edit-scripts", "rename-like", "fixed-pairs", "delete-and-add":
		var c Case
		if err := json.Unmarshal(f.Case, &c); err != nil {
			t.Fatal(err)
		}
		err := ev.Guard(func() error { return checkCase(scratchRoot(t), c) })
		if e, ok := err.(*envError); ok {
			t.Fatalf("%v", e)
		}
		ev.Report(t, f.Unit, c, err)
		return true
	}
	return false
}

func TestReplay(t *testing.T)  { ev.RunReplay(t, replayOne) }
func TestRegress(t *testing.T) { ev.RunRegress(t, replayOne) }
