package c20

import "sort"

func ft(kv ...string) []FileText {
	var out []FileText
	for i := 0; i+1 < len(kv); i += 2 {
		out = append(out, FileText{Path: kv[i], Text: kv[i+1]})
	}
	sort.Slice(out, func(i, j int) bool { return out[i].Path < out[j].Path })
	return out
}

func dg(file, kind string, subjects ...string) Diag {
	return Diag{File: file, Kind: kind, Subjects: subjects}
}

// fixedPairs are small hand-written before/after pairs: each documented
// breaking kind alone in a nested file, every compatible kind, a deleted file
// with services, same-named definitions in two files, identical versions.
func fixedPairs() []Case {
	common := `
enum Color {
  RED = 1,
  GREEN = 2
}

struct Item {
  1: required string id
  2: optional Color color
}

exception Oops {
  1: optional string why
}
`
	api := `include "../../common.thrift"

struct Item {
  1: optional i32 count
  2: optional common.Item inner
  4: required list<string> tags
}

struct Spare {
  1: required i64 x
}

struct Limits {
  1: optional i32 burst
  2: optional i32 rate = 10
  3: optional string zone = "default"
}

service Api {
  void ping()
  common.Item get(1: string id) throws (1: common.Oops err)
  oneway void fire(1: i32 n)
}

service Old {
  void gone()
}
`
	other := `include "./v1/api.thrift"

union Choice {
  1: optional api.Item a
  2: optional string b
}

service Admin {
  api.Item find(1: Choice c)
}
`
	base := func() []FileText {
		return ft("common.thrift", common, "idl/v1/api.thrift", api, "idl/other.thrift", other)
	}
	with := func(path, text string) []FileText {
		v := base()
		for i := range v {
			if v[i].Path == path {
				v[i].Text = text
			}
		}
		return v
	}
	repl := func(s, old, new string) string {
		i := indexOf(s, old)
		if i < 0 {
			panic("fixed pair: " + old + " not found")
		}
		return s[:i] + new + s[i+len(old):]
	}
	var cs []Case
	add := func(newV []FileText, edits []string, exp ...Diag) {
		cs = append(cs, Case{Old: base(), New: newV, Edits: edits, Expected: exp, BaseFiles: 3, Other: [2]string{"service Quux {}\n", "service Quuz {}\n"}})
	}

	add(base(), nil)
	add(with("idl/v1/api.thrift", repl(api, "service Old {\n  void gone()\n}\n", "")), []string{eRemoveService},
		dg("idl/v1/api.thrift", kDelService, "Old"))
	add(with("idl/v1/api.thrift", repl(api, "  void ping()\n", "")), []string{eRemoveMethod},
		dg("idl/v1/api.thrift", kDelMethod, "ping", "Api"))
	add(with("idl/v1/api.thrift", repl(repl(api, "  void ping()\n", ""), "  oneway void fire(1: i32 n)\n", "")), []string{eRemoveMethod, eRemoveMethod},
		dg("idl/v1/api.thrift", kDelMethod, "ping", "Api"), dg("idl/v1/api.thrift", kDelMethod, "fire", "Api"))
	add(with("idl/v1/api.thrift", repl(api, "  1: optional i32 count\n", "  1: optional i32 count\n  9: required bool fresh\n")), []string{eAddRequired},
		dg("idl/v1/api.thrift", kAddReq, "fresh", "Item"))
	add(with("idl/v1/api.thrift", repl(api, "1: optional i32 count", "1: required i32 count")), []string{eOptToReq},
		dg("idl/v1/api.thrift", kOptToReq, "count", "Item"))
	// the optional field carried a default value in the old version
	add(with("idl/v1/api.thrift", repl(api, "2: optional i32 rate = 10", "2: required i32 rate")), []string{eOptToReqDefault},
		dg("idl/v1/api.thrift", kOptToReq, "rate", "Limits"))
	add(with("idl/v1/api.thrift", repl(repl(api, "1: optional i32 burst", "1: required i32 burst"), "3: optional string zone = \"default\"", "3: required string zone")), []string{eOptToReq, eOptToReqDefault},
		dg("idl/v1/api.thrift", kOptToReq, "burst", "Limits"), dg("idl/v1/api.thrift", kOptToReq, "zone", "Limits"))
	add(with("idl/v1/api.thrift", repl(api, "2: optional common.Item inner", "2: optional Spare inner")), []string{eChangeType},
		dg("idl/v1/api.thrift", kTypeChange, "inner", "Item"))
	add(with("idl/v1/api.thrift", repl(api, "4: required list<string> tags", "4: required list<binary> tags")), []string{eChangeType},
		dg("idl/v1/api.thrift", kTypeChange, "tags", "Item"))
	// the same-named struct in the other file is the one edited
	add(with("common.thrift", repl(common, "2: optional Color color", "2: required i32 color")), []string{eOptToReq, eChangeType},
		dg("common.thrift", kOptToReq, "color", "Item"), dg("common.thrift", kTypeChange, "color", "Item"))
	// exception and union fields
	add(with("common.thrift", repl(common, "1: optional string why", "1: required string why\n  2: required i32 code")), []string{eOptToReq, eAddRequired},
		dg("common.thrift", kAddReq, "code", "Oops"), dg("common.thrift", kOptToReq, "why", "Oops"))
	add(with("idl/other.thrift", repl(other, "2: optional string b", "2: optional binary b")), []string{eChangeType},
		dg("idl/other.thrift", kTypeChange, "b", "Choice"))

	// a leaf file with a service is deleted
	var noOther []FileText
	for _, f := range base() {
		if f.Path != "idl/other.thrift" {
			noOther = append(noOther, f)
		}
	}
	add(noOther, []string{eDeleteFile}, dg("idl/other.thrift", kDelService, "Admin"))

	// every compatible kind at once
	api2 := repl(api, "struct Spare {\n  1: required i64 x\n}\n", "")
	api2 = repl(api2, "  1: optional i32 count\n", "  7: optional map<string, Brand> brands\n  1: optional i32 count\n")
	api2 = repl(api2, "4: required list<string> tags", "4: optional list<string> tags")
	api2 = repl(api2, "  void ping()\n", "  void ping()\n  Brand brand(1: required extra.Extra e)\n")
	api2 = repl(api2, "include \"../../common.thrift\"\n", "include \"../../common.thrift\"\ninclude \"../../x/extra.thrift\"\n")
	api2 += "\nstruct Brand {\n  1: required string name\n  2: required Size size\n}\n\nenum Size {\n  S = 0\n  L = 1\n}\n\ntypedef list<Brand> Brands\n\nconst i32 LIMIT = 10\n\nservice Fresh {\n  Brands all()\n}\n"
	extra := "struct Extra {\n  1: required string must\n}\n\nservice ExtraSvc {\n  void hello()\n}\n"
	common2 := "\nexception Oops {\n  1: optional string why\n}\n\nstruct Item {\n  2: optional Color color\n  1: required string id\n}\n\nenum Color {\n  RED = 1,\n  GREEN = 2\n}\n"
	other2 := repl(other, "include \"./v1/api.thrift\"\n", "include \"./v1/api.thrift\"\ninclude \"../common.thrift\"\n")
	add(ft("common.thrift", common2, "idl/v1/api.thrift", api2, "idl/other.thrift", other2, "x/extra.thrift", extra),
		[]string{eDeleteStruct, eAddOptional, eReqToOpt, eAddMethod, eAddInclude, eAddStruct, eAddEnum, eAddTypedef, eAddConst, eAddService, eAddFile, eReorder})
	return cs
}

func indexOf(s, sub string) int {
	for i := 0; i+len(sub) <= len(s); i++ {
		if s[i:i+len(sub)] == sub {
			return i
		}
	}
	return -1
}

// deleteAndAddPairs: a.thrift is deleted, a file is added, keep.thrift loses a method.
func deleteAndAddPairs() []Case {
	a := "struct A {\n  1: optional string q\n}\n"
	keep := "service Keep {\n  void m()\n  void gone()\n}\n"
	keep2 := "service Keep {\n  void m()\n}\n"
	b := "enum B {\n  X = 1\n}\n"
	exp := []Diag{dg("keep.thrift", kDelMethod, "gone", "Keep")}
	return []Case{
		{Old: ft("a.thrift", a, "keep.thrift", keep), New: ft("b.thrift", b, "keep.thrift", keep2), Edits: []string{eDeleteFile, eAddFile, eRemoveMethod}, Expected: exp, BaseFiles: 2},
		{Old: ft("a.thrift", a, "keep.thrift", keep), New: ft("keep.thrift", keep2), Other: [2]string{"", "package main\n"}, Edits: []string{eDeleteFile, eRemoveMethod}, Expected: exp, BaseFiles: 2},
		{Old: ft("a.thrift", a, "keep.thrift", keep), New: ft("b.thrift", b, "keep.thrift", keep), Edits: []string{eDeleteFile, eAddFile}, BaseFiles: 2},
	}
}
