package c20

import (
	"fmt"
	"path"
	"sort"
	"strings"

	"pgregory.net/rapid"
)

// Edit kinds. The first five are the documented breaking changes, the rest
// are the compatible ones named by the property.
const (
	eRemoveService = "remove-service"
	eRemoveMethod  = "remove-method"
	eAddRequired   = "add-required-field"
	eOptToReq      = "optional-to-required"
	eChangeType    = "change-field-type"
	// optional -> required on a field that carried a default value in the base
	// (the default goes away with the edit: thriftrw compiles `required` with a
	// default as not required); reported like any optional -> required
	eOptToReqDefault = "optional-with-default-to-required"

	eAddOptional   = "add-optional-field"
	eAddMethod     = "add-method"
	eAddService    = "add-service"
	eAddStruct     = "add-struct"
	eAddEnum       = "add-enum"
	eAddConst      = "add-constant"
	eAddTypedef    = "add-typedef"
	eAddFile       = "add-file"
	eReorder       = "reorder"
	eReqToOpt      = "required-to-optional"
	eDeleteStruct  = "delete-struct"
	eDeleteFile    = "delete-file"
	eAddInclude    = "add-include"
	eRemoveInclude = "remove-include"
	eLookalike     = "add-lookalike-file" // only in the rename-like unit
)

var breakingEdits = map[string]bool{eRemoveService: true, eRemoveMethod: true, eAddRequired: true, eOptToReq: true, eChangeType: true, eOptToReqDefault: true}

var allEdits = []string{
	eRemoveService, eRemoveMethod, eAddRequired, eOptToReq, eChangeType,
	eRemoveService, eRemoveMethod, eAddRequired, eOptToReq, eChangeType,
	eOptToReqDefault, eOptToReqDefault,
	eAddOptional, eAddMethod, eAddService, eAddStruct, eAddEnum, eAddConst, eAddTypedef, eAddFile,
	eReorder, eReqToOpt, eDeleteStruct, eDeleteFile, eAddInclude, eRemoveInclude,
}

var compatibleEdits = []string{
	eAddOptional, eAddMethod, eAddService, eAddStruct, eAddEnum, eAddConst, eAddTypedef, eAddFile,
	eReorder, eReqToOpt, eDeleteStruct, eDeleteFile, eAddInclude, eRemoveInclude,
}

var (
	dirPool     = []string{"", "", "a", "a/b", "idl", "idl/v1", "x/y/z", "svc"}
	fileWords   = []string{"common", "types", "api", "model", "base", "shared", "users", "orders"}
	structWords = []string{"Item", "User", "Order", "Point", "Info"}
	svcWords    = []string{"Api", "Admin", "Store"}
	prims       = []string{"bool", "byte", "i16", "i32", "i64", "double", "string", "binary"}
	keyPrims    = []string{"string", "i32", "i64"}
)

type gen struct {
	t        *rapid.T
	p        *program
	expected []Diag
	edits    []string
}

func (g *gen) intn(lo, hi int, label string) int {
	return rapid.IntRange(lo, hi).Draw(g.t, label)
}

// uni draws a roughly uniform number in [0,n). rapid's integer generators
// favour small values heavily (IntRange(0,99) is below 10 in 40% of the
// draws), which is wanted for sizes but not for choices, so choices are made
// from a mixed 64-bit draw; the label salts the mix so that the most likely
// raw values do not select the same alternative everywhere.
func (g *gen) uni(n int, label string) int {
	u := rapid.Uint64().Draw(g.t, label)
	for _, c := range []byte(label) {
		u = (u ^ uint64(c)) * 0x100000001b3
	}
	u ^= u >> 30
	u *= 0xbf58476d1ce4e5b9
	u ^= u >> 27
	u *= 0x94d049bb133111eb
	u ^= u >> 31
	return int(u % uint64(n))
}

func (g *gen) chance(pct int, label string) bool {
	return g.uni(100, label) < pct
}

func pick[T any](g *gen, xs []T, label string) T {
	return xs[g.uni(len(xs), label)]
}

func (g *gen) perm(n int, label string) []int {
	o := identity(n, "")
	if n < 2 {
		return o
	}
	return rapid.Permutation(o).Draw(g.t, label)
}

func (g *gen) expect(f *file, kind string, subjects ...string) {
	g.expected = append(g.expected, Diag{File: f.Path, Kind: kind, Subjects: subjects})
}

// ---------------------------------------------------------------- types

// visible lists the definitions a definition of file f with sequence number
// below maxSeq may refer to: same file or a file earlier in the include order.
func (g *gen) visible(f *file, maxSeq int, kinds ...string) []*def {
	var out []*def
	fp := g.p.pos(f)
	for i, h := range g.p.Files {
		if i > fp {
			break
		}
		for _, d := range h.Defs {
			if d.seq >= maxSeq {
				continue
			}
			for _, k := range kinds {
				if d.Kind == k {
					out = append(out, d)
				}
			}
		}
	}
	return out
}

func (g *gen) named(f *file, d *def) *typ {
	f.addInclude(d.file)
	return &typ{K: "named", Def: d}
}

func (g *gen) genKeyType(f *file, maxSeq int) *typ {
	if enums := g.visible(f, maxSeq, "enum"); len(enums) > 0 && g.chance(20, "key_enum") {
		return g.named(f, pick(g, enums, "key_enum_i"))
	}
	return &typ{K: "prim", Prim: pick(g, keyPrims, "key_prim")}
}

func (g *gen) genType(f *file, maxSeq int, depth int) *typ {
	cands := g.visible(f, maxSeq, "struct", "union", "enum", "typedef")
	r := g.uni(100, "type_kind")
	switch {
	case r < 30 && len(cands) > 0:
		return g.named(f, pick(g, cands, "type_named"))
	case r < 50 && depth > 0:
		switch g.uni(3, "container") {
		case 0:
			return &typ{K: "list", Elem: g.genType(f, maxSeq, depth-1)}
		case 1:
			return &typ{K: "set", Elem: g.genKeyType(f, maxSeq)}
		default:
			return &typ{K: "map", Key: g.genKeyType(f, maxSeq), Elem: g.genType(f, maxSeq, depth-1)}
		}
	}
	return &typ{K: "prim", Prim: pick(g, prims, "prim")}
}

func defaultFor(t *typ, n int) string {
	if t.K != "prim" {
		return ""
	}
	switch t.Prim {
	case "i32", "i64", "i16":
		return fmt.Sprint(n)
	case "string":
		return fmt.Sprintf("\"v%d\"", n)
	case "bool":
		return "true"
	case "double":
		return fmt.Sprintf("%d.5", n)
	}
	return ""
}

// ---------------------------------------------------------------- definitions

func (g *gen) newField(f *file, owner *def, id int, orig bool) *field {
	fl := &field{ID: id, Name: g.p.fresh("f"), orig: orig}
	fl.T = g.genType(f, owner.seq, 2)
	fl.Req = "optional"
	if owner.Kind != "union" && g.chance(45, "required") {
		fl.Req = "required"
	}
	if orig && owner.Kind != "union" && g.chance(20, "default") {
		if dv := defaultFor(fl.T, g.p.next); dv != "" {
			fl.Default, fl.frozen = dv, true
		}
	}
	return fl
}

func (g *gen) newDef(f *file, kind, name string, orig bool) *def {
	d := &def{Kind: kind, Name: name, file: f, seq: g.p.nextSeq(), orig: orig}
	f.Defs = append(f.Defs, d)
	return d
}

func (g *gen) typeName(f *file, prefix string, words []string, orig bool) string {
	if orig && g.chance(25, "word_name") {
		if w := pick(g, words, "word"); !f.hasDef(w) {
			return w
		}
	}
	return g.p.fresh(prefix)
}

func (g *gen) addStructLike(f *file, kind string, orig bool) *def {
	prefix := map[string]string{"struct": "S", "exception": "Ex", "union": "U"}[kind]
	words := structWords
	if kind != "struct" {
		words = nil
	}
	name := g.p.fresh(prefix)
	if words != nil {
		name = g.typeName(f, prefix, words, orig)
	}
	d := g.newDef(f, kind, name, orig)
	id := 0
	for i, n := 0, g.intn(0, 5, "nfields"); i < n; i++ {
		id += g.intn(1, 3, "id_gap")
		d.Fields = append(d.Fields, g.newField(f, d, id, orig))
	}
	return d
}

func (g *gen) addEnum(f *file, orig bool) *def {
	d := g.newDef(f, "enum", g.p.fresh("E"), orig)
	v := g.intn(0, 3, "enum_start")
	for i, n := 0, g.intn(1, 4, "nitems"); i < n; i++ {
		d.Items = append(d.Items, fmt.Sprintf("%s_I%d = %d", strings.ToUpper(d.Name), i, v))
		v += g.intn(1, 3, "enum_gap")
	}
	return d
}

func (g *gen) addTypedef(f *file, orig bool) *def {
	d := g.newDef(f, "typedef", g.p.fresh("Td"), orig)
	d.T = g.genType(f, d.seq, 2)
	return d
}

func (g *gen) addConst(f *file, orig bool) *def {
	d := g.newDef(f, "const", g.p.fresh("C"), orig)
	n := g.p.next
	switch g.uni(6, "const_kind") {
	case 0:
		d.T, d.Value = &typ{K: "prim", Prim: "i32"}, fmt.Sprint(n)
	case 1:
		d.T, d.Value = &typ{K: "prim", Prim: "string"}, fmt.Sprintf("\"c%d\"", n)
	case 2:
		d.T, d.Value = &typ{K: "list", Elem: &typ{K: "prim", Prim: "string"}}, fmt.Sprintf("[\"a%d\", \"b\"]", n)
	case 3:
		d.T, d.Value = &typ{K: "map", Key: &typ{K: "prim", Prim: "string"}, Elem: &typ{K: "prim", Prim: "i64"}}, fmt.Sprintf("{\"k%d\": %d}", n, n)
	case 4:
		d.T, d.Value = &typ{K: "prim", Prim: "bool"}, "true"
	default:
		d.T, d.Value = &typ{K: "prim", Prim: "double"}, fmt.Sprintf("%d.25", n)
	}
	return d
}

func (g *gen) newMethod(f *file, svc *def, orig bool) *method {
	m := &method{Name: g.p.fresh("m"), orig: orig}
	for i, n := 0, g.intn(0, 3, "nargs"); i < n; i++ {
		a := &field{ID: i + 1, Name: g.p.fresh("a"), T: g.genType(f, svc.seq, 1)}
		switch g.uni(6, "arg_req") {
		case 0:
			a.Req = "optional"
		case 1:
			a.Req = "required"
		}
		m.Args = append(m.Args, a)
	}
	if g.chance(10, "oneway") {
		m.Oneway = true
		return m
	}
	if !g.chance(30, "void") {
		m.Ret = g.genType(f, svc.seq, 1)
	}
	if exs := g.visible(f, svc.seq, "exception"); len(exs) > 0 {
		for i, n := 0, g.intn(0, 2, "nthrows"); i < n; i++ {
			m.Throws = append(m.Throws, &field{ID: i + 1, Name: g.p.fresh("e"), T: g.named(f, pick(g, exs, "throws"))})
		}
	}
	return m
}

func (g *gen) addService(f *file, orig bool) *def {
	d := g.newDef(f, "service", g.typeName(f, "Svc", svcWords, orig), orig)
	for i, n := 0, g.intn(0, 4, "nmethods"); i < n; i++ {
		d.Methods = append(d.Methods, g.newMethod(f, d, orig))
	}
	return d
}

func (g *gen) addRandomDef(f *file, orig bool) *def {
	r := g.uni(100, "def_kind")
	switch {
	case r < 35:
		return g.addStructLike(f, "struct", orig)
	case r < 43:
		return g.addStructLike(f, "exception", orig)
	case r < 49:
		return g.addStructLike(f, "union", orig)
	case r < 61:
		return g.addEnum(f, orig)
	case r < 69:
		return g.addTypedef(f, orig)
	case r < 77:
		return g.addConst(f, orig)
	}
	return g.addService(f, orig)
}

// newFile creates an empty file and inserts it at position at of the include order.
func (g *gen) newFile(at int, orig bool) *file {
	dir := pick(g, dirPool, "dir")
	name := g.p.fresh(pick(g, fileWords, "file_word")+"_") + ".thrift"
	f := &file{Path: path.Join(dir, name), orig: orig, Sep: pick(g, []string{"", ",", ";"}, "sep"), DotSlash: g.chance(60, "dotslash")}
	if g.chance(30, "hdr_comment") {
		f.Header = append(f.Header, "// "+name+": definitions "+g.p.fresh("rev"))
	}
	if g.chance(25, "hdr_ns") {
		f.Header = append(f.Header, "namespace "+pick(g, []string{"py", "java", "rb"}, "ns_lang")+" "+g.p.fresh("pkg.v"))
	}
	g.p.Files = append(g.p.Files, nil)
	copy(g.p.Files[at+1:], g.p.Files[at:])
	g.p.Files[at] = f
	return f
}

func (g *gen) genBase() {
	g.p = &program{}
	for i, n := 0, g.intn(1, 5, "nfiles"); i < n; i++ {
		f := g.newFile(len(g.p.Files), true)
		for j, m := 0, g.intn(1, 5, "ndefs"); j < m; j++ {
			g.addRandomDef(f, true)
		}
		// an include that nothing uses
		if i > 0 && g.chance(15, "spare_include") {
			f.addInclude(g.p.Files[g.uni(i, "spare_include_i")])
		}
	}
}

// ---------------------------------------------------------------- edits

func (g *gen) defsOf(pred func(*def) bool) []*def {
	var out []*def
	for _, f := range g.p.Files {
		for _, d := range f.Defs {
			if pred(d) {
				out = append(out, d)
			}
		}
	}
	return out
}

func freeID(d *def, start int) int {
	id := start
	for {
		used := false
		for _, fl := range d.Fields {
			if fl.ID == id {
				used = true
			}
		}
		if !used {
			return id
		}
		id++
	}
}

type fieldAt struct {
	d  *def
	fl *field
}

func (g *gen) fieldsOf(pred func(*def, *field) bool) []fieldAt {
	var out []fieldAt
	for _, d := range g.defsOf(func(d *def) bool { return d.structLike() }) {
		for _, fl := range d.Fields {
			if pred(d, fl) {
				out = append(out, fieldAt{d, fl})
			}
		}
	}
	return out
}

// apply tries one edit of the given kind; false means "nothing to apply it to".
func (g *gen) apply(kind string) bool {
	p := g.p
	switch kind {
	case eRemoveService:
		c := g.defsOf(func(d *def) bool { return d.Kind == "service" && !d.hasDiag })
		if len(c) == 0 {
			return false
		}
		s := pick(g, c, "svc")
		if len(s.file.Defs) == 1 {
			return false // files are never left empty
		}
		s.file.removeDef(s)
		if s.orig {
			g.expect(s.file, kDelService, s.Name)
		}
	case eRemoveMethod:
		c := g.defsOf(func(d *def) bool { return d.Kind == "service" && len(d.Methods) > 0 })
		if len(c) == 0 {
			return false
		}
		s := pick(g, c, "svc")
		i := g.uni(len(s.Methods), "method")
		m := s.Methods[i]
		s.Methods = append(append([]*method{}, s.Methods[:i]...), s.Methods[i+1:]...)
		if s.orig && m.orig {
			g.expect(s.file, kDelMethod, m.Name, s.Name)
			s.hasDiag, s.file.hasDiag = true, true
		}
	case eAddRequired, eAddOptional:
		c := g.defsOf(func(d *def) bool {
			return d.structLike() && (kind == eAddOptional || d.Kind != "union")
		})
		if len(c) == 0 {
			return false
		}
		d := pick(g, c, "struct")
		fl := &field{ID: freeID(d, g.intn(1, 40, "new_id")), Name: p.fresh("f"), Req: "optional"}
		fl.T = g.genType(d.file, d.seq, 2)
		if kind == eAddRequired {
			fl.Req = "required"
			if d.orig {
				g.expect(d.file, kAddReq, fl.Name, d.Name)
				d.hasDiag, d.file.hasDiag = true, true
			}
		}
		at := g.uni(len(d.Fields)+1, "field_pos")
		d.Fields = append(d.Fields, nil)
		copy(d.Fields[at+1:], d.Fields[at:])
		d.Fields[at] = fl
	case eOptToReq:
		c := g.fieldsOf(func(d *def, fl *field) bool {
			return d.Kind != "union" && fl.orig && !fl.reqEdited && !fl.frozen && fl.Req == "optional"
		})
		if len(c) == 0 {
			return false
		}
		x := pick(g, c, "field")
		x.fl.Req, x.fl.reqEdited = "required", true
		g.expect(x.d.file, kOptToReq, x.fl.Name, x.d.Name)
		x.d.hasDiag, x.d.file.hasDiag = true, true
	case eOptToReqDefault:
		c := g.fieldsOf(func(d *def, fl *field) bool {
			return d.Kind != "union" && fl.orig && !fl.reqEdited && fl.frozen && fl.Default != "" && fl.Req == "optional"
		})
		if len(c) == 0 {
			return false
		}
		x := pick(g, c, "field")
		x.fl.Req, x.fl.Default, x.fl.reqEdited = "required", "", true // stays frozen for type edits
		g.expect(x.d.file, kOptToReq, x.fl.Name, x.d.Name)
		x.d.hasDiag, x.d.file.hasDiag = true, true
	case eReqToOpt:
		c := g.fieldsOf(func(d *def, fl *field) bool {
			return fl.orig && !fl.reqEdited && !fl.frozen && fl.Req == "required"
		})
		if len(c) == 0 {
			return false
		}
		x := pick(g, c, "field")
		x.fl.Req, x.fl.reqEdited = "optional", true
	case eChangeType:
		c := g.fieldsOf(func(d *def, fl *field) bool { return fl.orig && !fl.typeEdited && !fl.frozen })
		if len(c) == 0 {
			return false
		}
		x := pick(g, c, "field")
		old := x.fl.T.tname()
		var nt *typ
		for try := 0; try < 4; try++ {
			nt = g.genType(x.d.file, x.d.seq, 2)
			if nt.tname() != old {
				break
			}
			nt = nil
		}
		if nt == nil {
			nt = &typ{K: "prim", Prim: "i64"}
			if old == "i64" {
				nt.Prim = "string"
			}
		}
		x.fl.T, x.fl.typeEdited = nt, true
		g.expect(x.d.file, kTypeChange, x.fl.Name, x.d.Name)
		x.d.hasDiag, x.d.file.hasDiag = true, true
	case eAddMethod:
		c := g.defsOf(func(d *def) bool { return d.Kind == "service" })
		if len(c) == 0 {
			return false
		}
		s := pick(g, c, "svc")
		s.Methods = append(s.Methods, g.newMethod(s.file, s, false))
	case eAddService:
		g.addService(pick(g, p.Files, "file"), false)
	case eAddStruct:
		g.addStructLike(pick(g, p.Files, "file"), pick(g, []string{"struct", "struct", "exception", "union"}, "struct_kind"), false)
	case eAddEnum:
		g.addEnum(pick(g, p.Files, "file"), false)
	case eAddConst:
		g.addConst(pick(g, p.Files, "file"), false)
	case eAddTypedef:
		g.addTypedef(pick(g, p.Files, "file"), false)
	case eAddFile:
		f := g.newFile(g.uni(len(p.Files)+1, "file_pos"), false)
		for j, m := 0, g.intn(1, 4, "ndefs"); j < m; j++ {
			g.addRandomDef(f, false)
		}
	case eReorder:
		f := pick(g, p.Files, "file")
		switch g.uni(3, "reorder_what") {
		case 0:
			o := g.perm(len(f.Defs), "defs_order")
			nd := make([]*def, len(f.Defs))
			for i, j := range o {
				nd[i] = f.Defs[j]
			}
			f.Defs = nd
		case 1:
			d := pick(g, f.Defs, "def")
			switch {
			case d.structLike():
				o := g.perm(len(d.Fields), "fields_order")
				nf := make([]*field, len(d.Fields))
				for i, j := range o {
					nf[i] = d.Fields[j]
				}
				d.Fields = nf
			case d.Kind == "service":
				o := g.perm(len(d.Methods), "methods_order")
				nm := make([]*method, len(d.Methods))
				for i, j := range o {
					nm[i] = d.Methods[j]
				}
				d.Methods = nm
			}
		default:
			o := g.perm(len(f.Includes), "includes_order")
			ni := make([]*file, len(f.Includes))
			for i, j := range o {
				ni[i] = f.Includes[j]
			}
			f.Includes = ni
		}
	case eDeleteStruct:
		c := g.defsOf(func(d *def) bool {
			return d.structLike() && d.orig && !d.hasDiag && len(d.file.Defs) > 1 && !p.referenced(d)
		})
		if len(c) == 0 {
			return false
		}
		d := pick(g, c, "struct")
		d.file.removeDef(d)
	case eDeleteFile:
		var c []*file
		for _, f := range p.Files {
			if f.orig && !f.hasDiag && len(p.Files) > 1 && !p.fileReferenced(f) {
				c = append(c, f)
			}
		}
		if len(c) == 0 {
			return false
		}
		g.deleteFile(pick(g, c, "file"))
	case eAddInclude:
		var c [][2]*file
		for i, f := range p.Files {
			for _, h := range p.Files[:i] {
				if !f.includes(h) {
					c = append(c, [2]*file{f, h})
				}
			}
		}
		if len(c) == 0 {
			return false
		}
		x := pick(g, c, "pair")
		x[0].addInclude(x[1])
	case eRemoveInclude:
		var c [][2]*file
		for _, f := range p.Files {
			for _, h := range f.Includes {
				if !f.usesFile(h) {
					c = append(c, [2]*file{f, h})
				}
			}
		}
		if len(c) == 0 {
			return false
		}
		x := pick(g, c, "pair")
		var inc []*file
		for _, h := range x[0].Includes {
			if h != x[1] {
				inc = append(inc, h)
			}
		}
		x[0].Includes = inc
	default:
		panic("edit kind " + kind)
	}
	g.edits = append(g.edits, kind)
	return true
}

func (g *gen) deleteFile(f *file) {
	for _, d := range f.Defs {
		if d.Kind == "service" && d.orig {
			g.expect(f, kDelService, d.Name)
		}
	}
	g.p.removeFile(f)
}

// lookalike deletes the last file of the include order (nothing can refer to
// it) and adds a new file, under a new name, whose definitions are copies
// with fresh top-level names: a deletion plus an addition, nothing moved.
func (g *gen) lookalike() {
	p := g.p
	f := p.Files[len(p.Files)-1]
	dir := path.Dir(f.Path)
	if g.chance(40, "lookalike_dir") {
		dir = pick(g, dirPool, "dir")
	}
	nf := &file{Path: path.Join(dir, p.fresh(pick(g, fileWords, "file_word")+"_")+".thrift"), Header: f.Header, Sep: f.Sep, DotSlash: f.DotSlash, Includes: append([]*file{}, f.Includes...)}
	remap := map[*def]*def{}
	for _, d := range f.Defs {
		nd := &def{Kind: d.Kind, Name: p.fresh(map[string]string{"struct": "S", "exception": "Ex", "union": "U", "enum": "E", "typedef": "Td", "const": "C", "service": "Svc"}[d.Kind]),
			Items: d.Items, Value: d.Value, file: nf, seq: p.nextSeq()}
		remap[d] = nd
		nf.Defs = append(nf.Defs, nd)
	}
	var cp func(t *typ) *typ
	cp = func(t *typ) *typ {
		if t == nil {
			return nil
		}
		n := &typ{K: t.K, Prim: t.Prim, Def: t.Def, Key: cp(t.Key), Elem: cp(t.Elem)}
		if r, ok := remap[t.Def]; ok {
			n.Def = r
		}
		return n
	}
	cpf := func(fs []*field) []*field {
		var out []*field
		for _, fl := range fs {
			out = append(out, &field{ID: fl.ID, Name: fl.Name, Req: fl.Req, T: cp(fl.T), Default: fl.Default, frozen: true})
		}
		return out
	}
	for _, d := range f.Defs {
		nd := remap[d]
		nd.Fields = cpf(d.Fields)
		nd.T = cp(d.T)
		for _, m := range d.Methods {
			nd.Methods = append(nd.Methods, &method{Name: m.Name, Oneway: m.Oneway, Ret: cp(m.Ret), Args: cpf(m.Args), Throws: cpf(m.Throws)})
		}
	}
	g.deleteFile(f)
	p.Files = append(p.Files, nf)
	g.edits = append(g.edits, eDeleteFile, eLookalike)
}

// ---------------------------------------------------------------- whole cases

func isBreaking(edits []string) (breaking, compatible int) {
	for _, e := range edits {
		if breakingEdits[e] {
			breaking++
		} else {
			compatible++
		}
	}
	return
}

// similarity estimates go-git's rename score between two texts: bytes on
// identical lines over the size of the larger file.
func similarity(a, b string) float64 {
	if len(a) == 0 || len(b) == 0 {
		return 1
	}
	cnt := map[string]int{}
	for _, l := range strings.SplitAfter(a, "\n") {
		cnt[l]++
	}
	common := 0
	for _, l := range strings.SplitAfter(b, "\n") {
		if cnt[l] > 0 {
			cnt[l]--
			common += len(l)
		}
	}
	m := len(a)
	if len(b) > m {
		m = len(b)
	}
	return float64(common) / float64(m)
}

func textOf(v []FileText, p string) (string, bool) {
	for _, f := range v {
		if f.Path == p {
			return f.Text, true
		}
	}
	return "", false
}

// keepApart makes sure no added file resembles a deleted one closely enough
// for a "this is a rename" heuristic: such pairs belong to the rename-like
// unit only. Added files are padded with unique comment lines.
func keepApart(oldV, newV []FileText, tag string) {
	for i := range newV {
		if _, had := textOf(oldV, newV[i].Path); had {
			continue
		}
		for _, o := range oldV {
			if _, still := textOf(newV, o.Path); still {
				continue
			}
			for n := 0; similarity(o.Text, newV[i].Text) >= 0.35; n++ {
				newV[i].Text = fmt.Sprintf("// %s %s: new in this revision, padding line %d of the header comment\n", tag, newV[i].Path, n) + newV[i].Text
			}
		}
	}
}

// Case is everything needed to replay: both versions in full, the alternative
// (reordered) renderings if drawn, and the expected diagnostics.
type Case struct {
	Old      []FileText `json:"old"`
	New      []FileText `json:"new"`
	OldAlt   []FileText `json:"old_alt,omitempty"` // same programs, definitions/fields/methods/includes in another order
	NewAlt   []FileText `json:"new_alt,omitempty"`
	Other    [2]string  `json:"other"` // contents of a non-Thrift file in the two commits ("" = absent)
	Edits    []string   `json:"edits"`
	Expected []Diag     `json:"expected"`
	// RenameLike: a deleted file and an added file have similar text (fresh
	// names, nothing moved) — only generated by the rename-like unit.
	RenameLike bool `json:"rename_like,omitempty"`
	BaseFiles  int  `json:"base_files"`
	// What git records about a file besides its contents. Exec[0] / Exec[1]:
	// paths (Thrift files or the other file) committed with the executable
	// bit (tree mode 100755 instead of 100644) in HEAD~ / HEAD; a path that is
	// in one list only changes its mode between the commits. Packed: objects
	// and refs are packed (git gc) before thriftbreak runs.
	Exec   [2][]string `json:"exec,omitempty"`
	Packed bool        `json:"packed,omitempty"`
}

// genGitAttrs draws the file modes and the storage form of the repository.
func (g *gen) genGitAttrs(c *Case) {
	var paths []string
	seen := map[string]bool{}
	for _, v := range [][]FileText{c.Old, c.New} {
		for _, f := range v {
			if !seen[f.Path] {
				seen[f.Path] = true
				paths = append(paths, f.Path)
			}
		}
	}
	paths = append(paths, otherFile)
	// half of the cases keep plain 100644 everywhere
	if g.chance(50, "modes_varied") {
		for _, p := range paths {
			switch g.uni(8, "mode_"+p) {
			case 0, 1:
				c.Exec[0], c.Exec[1] = append(c.Exec[0], p), append(c.Exec[1], p)
			case 2:
				c.Exec[0] = append(c.Exec[0], p)
			case 3:
				c.Exec[1] = append(c.Exec[1], p)
			}
		}
	}
	c.Packed = g.chance(20, "packed")
}

func genCase(t *rapid.T, renameLike bool) Case {
	g := &gen{t: t}
	g.genBase()
	c := Case{BaseFiles: len(g.p.Files), RenameLike: renameLike}
	c.Old = renderProgram(g.p, identity)
	alt := g.chance(30, "alt")
	if alt {
		c.OldAlt = renderProgram(g.p, g.perm)
	}
	before := snapshot(g.p)

	var want int
	switch r := g.uni(100, "script_len"); {
	case r < 4:
		want = 0
	case r < 14:
		want = 1
	default:
		want = 2 + g.uni(6, "script_len_n")
	}
	pool := allEdits
	if g.chance(15, "only_compatible") {
		pool = compatibleEdits
	}
	target := want
	if renameLike {
		g.lookalike() // counts as two edits
		target = 2 + g.uni(4, "script_len_n")
	}
	for tries := 0; len(g.edits) < target && tries < 4*target+4; tries++ {
		g.apply(pick(g, pool, "edit"))
	}

	c.New = renderProgram(g.p, identity)
	if alt {
		c.NewAlt = renderProgram(g.p, g.perm)
	}
	if !renameLike {
		keepApart(c.Old, c.New, "A")
		if alt {
			keepApart(c.OldAlt, c.NewAlt, "B")
		}
	}
	switch g.uni(10, "other_file") {
	case 0, 1, 2:
		c.Other = [2]string{"service Quux {}\n", "service Quuz {}\n"}
	case 3, 4, 5:
		c.Other = [2]string{"notes\n", "notes\n"}
	case 6:
		c.Other = [2]string{"", "service Quux {}\n"} // a non-Thrift file is added
	case 7:
		c.Other = [2]string{"service Quux {}\n", ""} // a non-Thrift file is deleted
	}
	g.genGitAttrs(&c)
	c.Edits = append([]string{}, g.edits...)
	c.Expected = append([]Diag{}, g.expected...)
	sort.Slice(c.Expected, func(i, j int) bool { return c.Expected[i].key() < c.Expected[j].key() })

	// harness self-check: the expectations accumulated edit by edit are the
	// documented rules applied to (base model, edited model).
	var inc []string
	for _, d := range c.Expected {
		inc = append(inc, d.key())
	}
	sort.Strings(inc)
	if ref := modelDiff(before, snapshot(g.p)); strings.Join(inc, "\n") != strings.Join(ref, "\n") {
		panic(fmt.Sprintf("c20 harness bug: expectations by construction differ from the model diff\nby construction:\n%s\nmodel diff:\n%s\nedits: %v", strings.Join(inc, "\n"), strings.Join(ref, "\n"), c.Edits))
	}
	return c
}
