package c20

import (
	"fmt"
	"path"
	"sort"
	"strings"
)

// ---------------------------------------------------------------- model of a multi-file Thrift program

// typ is a type expression as written in a field, argument, typedef...
type typ struct {
	K    string // prim | named | list | set | map
	Prim string
	Def  *def // named
	Key  *typ
	Elem *typ
}

// render writes the type as it must appear inside file from.
func (t *typ) render(from *file) string {
	switch t.K {
	case "prim":
		return t.Prim
	case "named":
		if t.Def.file == from {
			return t.Def.Name
		}
		return from.includeName(t.Def.file) + "." + t.Def.Name
	case "list":
		return "list<" + t.Elem.render(from) + ">"
	case "set":
		return "set<" + t.Elem.render(from) + ">"
	case "map":
		return "map<" + t.Key.render(from) + ", " + t.Elem.render(from) + ">"
	}
	panic("typ kind " + t.K)
}

// tname is the unqualified declared name: two type expressions are "the same
// declared type name" for the linter iff their tnames are equal.
func (t *typ) tname() string {
	switch t.K {
	case "prim":
		return t.Prim
	case "named":
		return t.Def.Name
	case "list":
		return "list<" + t.Elem.tname() + ">"
	case "set":
		return "set<" + t.Elem.tname() + ">"
	case "map":
		return "map<" + t.Key.tname() + ", " + t.Elem.tname() + ">"
	}
	panic("typ kind " + t.K)
}

func (t *typ) eachNamed(f func(*def)) {
	if t == nil {
		return
	}
	switch t.K {
	case "named":
		f(t.Def)
	case "list", "set":
		t.Elem.eachNamed(f)
	case "map":
		t.Key.eachNamed(f)
		t.Elem.eachNamed(f)
	}
}

type field struct {
	ID      int
	Name    string
	Req     string // "required" | "optional" | "" (arguments only)
	T       *typ
	Default string

	orig       bool // present in the base version
	reqEdited  bool
	typeEdited bool
	frozen     bool // carries (carried) a default value: never edited, except optional-with-default -> required (default dropped)
}

type method struct {
	Name   string
	Oneway bool
	Ret    *typ // nil = void
	Args   []*field
	Throws []*field
	orig   bool
}

type def struct {
	Kind    string // struct | exception | union | enum | typedef | const | service
	Name    string
	Fields  []*field  // struct-likes
	Items   []string  // enum: "NAME = n"
	T       *typ      // typedef target / const type
	Value   string    // const value
	Methods []*method // service

	file    *file
	seq     int
	orig    bool
	hasDiag bool // an expected diagnostic names this definition
}

func (d *def) structLike() bool {
	return d.Kind == "struct" || d.Kind == "exception" || d.Kind == "union"
}

func (d *def) eachType(f func(*typ)) {
	for _, fl := range d.Fields {
		f(fl.T)
	}
	if d.T != nil {
		f(d.T)
	}
	for _, m := range d.Methods {
		if m.Ret != nil {
			f(m.Ret)
		}
		for _, a := range m.Args {
			f(a.T)
		}
		for _, a := range m.Throws {
			f(a.T)
		}
	}
}

type file struct {
	Path     string // repo-relative, slash separated
	Includes []*file
	Defs     []*def
	Header   []string // comment / namespace lines
	Sep      string   // field separator style: "", ",", ";"
	DotSlash bool     // write ./ in front of includes that do not start with ../

	orig    bool
	hasDiag bool // an expected diagnostic (other than a service deletion) is attributed to this file
}

func (f *file) base() string { return path.Base(f.Path) }

// includeName is the prefix under which definitions of g are visible in f.
func (f *file) includeName(g *file) string {
	return strings.TrimSuffix(g.base(), ".thrift")
}

func (f *file) includes(g *file) bool {
	for _, x := range f.Includes {
		if x == g {
			return true
		}
	}
	return false
}

func (f *file) addInclude(g *file) {
	if g != f && !f.includes(g) {
		f.Includes = append(f.Includes, g)
	}
}

func (f *file) hasDef(name string) bool {
	for _, d := range f.Defs {
		if d.Name == name {
			return true
		}
	}
	return false
}

// usesFile reports whether any definition of f refers to a definition of g.
func (f *file) usesFile(g *file) bool {
	used := false
	for _, d := range f.Defs {
		d.eachType(func(t *typ) {
			t.eachNamed(func(e *def) {
				if e.file == g {
					used = true
				}
			})
		})
	}
	return used
}

// program is the whole repository. Files is kept in a topological order: a
// file may include only files that come before it.
type program struct {
	Files []*file
	next  int // counter behind every generated identifier
	seq   int
}

func (p *program) pos(f *file) int {
	for i, x := range p.Files {
		if x == f {
			return i
		}
	}
	return -1
}

func (p *program) fresh(prefix string) string {
	p.next++
	return fmt.Sprintf("%s%d", prefix, p.next)
}

func (p *program) nextSeq() int {
	p.seq++
	return p.seq
}

func (p *program) baseTaken(b string) bool {
	for _, f := range p.Files {
		if f.base() == b {
			return true
		}
	}
	return false
}

// referenced reports whether any definition anywhere refers to d.
func (p *program) referenced(d *def) bool {
	found := false
	for _, f := range p.Files {
		for _, e := range f.Defs {
			if e == d {
				// self references do not keep a definition alive
				continue
			}
			e.eachType(func(t *typ) {
				t.eachNamed(func(x *def) {
					if x == d {
						found = true
					}
				})
			})
		}
	}
	return found
}

// fileReferenced reports whether a file other than f refers to a definition of f.
func (p *program) fileReferenced(f *file) bool {
	for _, g := range p.Files {
		if g != f && g.usesFile(f) {
			return true
		}
	}
	return false
}

func (p *program) removeFile(f *file) {
	var out []*file
	for _, g := range p.Files {
		if g == f {
			continue
		}
		var inc []*file
		for _, x := range g.Includes {
			if x != f {
				inc = append(inc, x)
			}
		}
		g.Includes = inc
		out = append(out, g)
	}
	p.Files = out
}

func (f *file) removeDef(d *def) {
	var out []*def
	for _, e := range f.Defs {
		if e != d {
			out = append(out, e)
		}
	}
	f.Defs = out
}

// ---------------------------------------------------------------- rendering

// orderFn returns a permutation of 0..n-1; identity for the plain rendering,
// drawn for the reordered ("alt") rendering.
type orderFn func(n int, label string) []int

func identity(n int, _ string) []int {
	o := make([]int, n)
	for i := range o {
		o[i] = i
	}
	return o
}

func relInclude(from, to *file) string {
	fd := strings.Split(path.Dir(from.Path), "/")
	td := strings.Split(path.Dir(to.Path), "/")
	if fd[0] == "." {
		fd = nil
	}
	if td[0] == "." {
		td = nil
	}
	i := 0
	for i < len(fd) && i < len(td) && fd[i] == td[i] {
		i++
	}
	var parts []string
	for j := i; j < len(fd); j++ {
		parts = append(parts, "..")
	}
	parts = append(parts, td[i:]...)
	parts = append(parts, to.base())
	r := strings.Join(parts, "/")
	if from.DotSlash && !strings.HasPrefix(r, "../") {
		r = "./" + r
	}
	return r
}

func renderField(sb *strings.Builder, from *file, fl *field) {
	fmt.Fprintf(sb, "%d: ", fl.ID)
	if fl.Req != "" {
		sb.WriteString(fl.Req + " ")
	}
	sb.WriteString(fl.T.render(from) + " " + fl.Name)
	if fl.Default != "" {
		sb.WriteString(" = " + fl.Default)
	}
}

func renderFile(f *file, ord orderFn) string {
	var sb strings.Builder
	for _, h := range f.Header {
		sb.WriteString(h + "\n")
	}
	for _, i := range ord(len(f.Includes), "inc") {
		fmt.Fprintf(&sb, "include \"%s\"\n", relInclude(f, f.Includes[i]))
	}
	for _, i := range ord(len(f.Defs), "defs") {
		d := f.Defs[i]
		sb.WriteString("\n")
		switch d.Kind {
		case "struct", "exception", "union":
			fmt.Fprintf(&sb, "%s %s {\n", d.Kind, d.Name)
			for _, j := range ord(len(d.Fields), "fields") {
				sb.WriteString("  ")
				renderField(&sb, f, d.Fields[j])
				sb.WriteString(f.Sep + "\n")
			}
			sb.WriteString("}\n")
		case "enum":
			fmt.Fprintf(&sb, "enum %s {\n", d.Name)
			for _, j := range ord(len(d.Items), "items") {
				sb.WriteString("  " + d.Items[j] + f.Sep + "\n")
			}
			sb.WriteString("}\n")
		case "typedef":
			fmt.Fprintf(&sb, "typedef %s %s\n", d.T.render(f), d.Name)
		case "const":
			fmt.Fprintf(&sb, "const %s %s = %s\n", d.T.render(f), d.Name, d.Value)
		case "service":
			fmt.Fprintf(&sb, "service %s {\n", d.Name)
			for _, j := range ord(len(d.Methods), "methods") {
				m := d.Methods[j]
				sb.WriteString("  ")
				if m.Oneway {
					sb.WriteString("oneway ")
				}
				if m.Ret == nil {
					sb.WriteString("void")
				} else {
					sb.WriteString(m.Ret.render(f))
				}
				sb.WriteString(" " + m.Name + "(")
				for k, a := range m.Args {
					if k > 0 {
						sb.WriteString(", ")
					}
					renderField(&sb, f, a)
				}
				sb.WriteString(")")
				if len(m.Throws) > 0 {
					sb.WriteString(" throws (")
					for k, a := range m.Throws {
						if k > 0 {
							sb.WriteString(", ")
						}
						renderField(&sb, f, a)
					}
					sb.WriteString(")")
				}
				sb.WriteString(f.Sep + "\n")
			}
			sb.WriteString("}\n")
		default:
			panic("def kind " + d.Kind)
		}
	}
	return sb.String()
}

// FileText is one committed file.
type FileText struct {
	Path string `json:"path"`
	Text string `json:"text"`
}

func renderProgram(p *program, ord orderFn) []FileText {
	var out []FileText
	for _, f := range p.Files {
		out = append(out, FileText{Path: f.Path, Text: renderFile(f, ord)})
	}
	sort.Slice(out, func(i, j int) bool { return out[i].Path < out[j].Path })
	return out
}

// ---------------------------------------------------------------- diagnostics

// The five documented kinds.
const (
	kDelService = "delete-service"       // subjects: service
	kDelMethod  = "remove-method"        // subjects: method, service
	kAddReq     = "add-required-field"   // subjects: field, struct
	kOptToReq   = "optional-to-required" // subjects: field, struct
	kTypeChange = "change-field-type"    // subjects: field, struct
)

// Diag is one diagnostic, expected or reported.
type Diag struct {
	File     string   `json:"file"` // repo-relative path of the file the change was made in
	Kind     string   `json:"kind"`
	Subjects []string `json:"subjects"`
}

func (d Diag) what() string { return d.Kind + "(" + strings.Join(d.Subjects, ",") + ")" }
func (d Diag) key() string  { return d.File + " :: " + d.what() }

// ---------------------------------------------------------------- model-level snapshot (harness self-check)

type snapField struct {
	Req   bool
	TName string
	Name  string
}

type snapFile struct {
	Services map[string]map[string]bool
	Structs  map[string]map[int]snapField
}

func snapshot(p *program) map[string]snapFile {
	out := map[string]snapFile{}
	for _, f := range p.Files {
		sf := snapFile{Services: map[string]map[string]bool{}, Structs: map[string]map[int]snapField{}}
		for _, d := range f.Defs {
			switch {
			case d.Kind == "service":
				ms := map[string]bool{}
				for _, m := range d.Methods {
					ms[m.Name] = true
				}
				sf.Services[d.Name] = ms
			case d.structLike():
				fs := map[int]snapField{}
				for _, fl := range d.Fields {
					fs[fl.ID] = snapField{Req: fl.Req == "required", TName: fl.T.tname(), Name: fl.Name}
				}
				sf.Structs[d.Name] = fs
			}
		}
		out[f.Path] = sf
	}
	return out
}

// modelDiff states the documented rules once more, on the snapshots: it is
// only used to cross-check the expectations accumulated edit by edit.
func modelDiff(from, to map[string]snapFile) []string {
	var out []string
	for p, bf := range from {
		nf, alive := to[p]
		for s, ms := range bf.Services {
			nms, ok := nf.Services[s]
			if !alive || !ok {
				out = append(out, Diag{File: p, Kind: kDelService, Subjects: []string{s}}.key())
				continue
			}
			for m := range ms {
				if !nms[m] {
					out = append(out, Diag{File: p, Kind: kDelMethod, Subjects: []string{m, s}}.key())
				}
			}
		}
		if !alive {
			continue
		}
		for s, bfs := range bf.Structs {
			nfs, ok := nf.Structs[s]
			if !ok {
				continue
			}
			for id, nfl := range nfs {
				b, had := bfs[id]
				switch {
				case !had && nfl.Req:
					out = append(out, Diag{File: p, Kind: kAddReq, Subjects: []string{nfl.Name, s}}.key())
				case had:
					if !b.Req && nfl.Req {
						out = append(out, Diag{File: p, Kind: kOptToReq, Subjects: []string{nfl.Name, s}}.key())
					}
					if b.TName != nfl.TName {
						out = append(out, Diag{File: p, Kind: kTypeChange, Subjects: []string{nfl.Name, s}}.key())
					}
				}
			}
		}
	}
	sort.Strings(out)
	return out
}
