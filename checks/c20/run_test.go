package c20

import (
	"bytes"
	"context"
	"encoding/json"
	"errors"
	"fmt"
	"io"
	"os"
	"os/exec"
	"path"
	"path/filepath"
	"regexp"
	"sort"
	"strings"
	"time"

	"go.uber.org/thriftrw/compile"
	"verif/internal/bins"
	"verif/internal/ev"
)

// envError is a failure of the harness or its environment (git missing, disk
// full, generator produced an invalid program): never a verdict.
type envError struct{ msg string }

func (e *envError) Error() string { return "environment: " + e.msg }

func envErrf(format string, args ...interface{}) error {
	return &envError{msg: fmt.Sprintf(format, args...)}
}

// ---------------------------------------------------------------- precondition: both versions are valid Thrift

type memFS map[string]string

const virtRoot = "/c20virt"

func (m memFS) Read(filename string) ([]byte, error) {
	s, ok := m[filename]
	if !ok {
		return nil, fmt.Errorf("no such file %q", filename)
	}
	return []byte(s), nil
}

func (m memFS) Abs(p string) (string, error) {
	if path.IsAbs(p) {
		return path.Clean(p), nil
	}
	return path.Join(virtRoot, p), nil
}

func validVersion(v []FileText) error {
	fs := memFS{}
	for _, f := range v {
		fs[path.Join(virtRoot, f.Path)] = f.Text
	}
	seen := map[string]bool{}
	for _, f := range v {
		if seen[path.Base(f.Path)] {
			return fmt.Errorf("duplicate basename %s", f.Path)
		}
		seen[path.Base(f.Path)] = true
		if _, err := compile.Compile(f.Path, compile.Filesystem(fs)); err != nil {
			return fmt.Errorf("%s does not compile: %v\n%s", f.Path, err, f.Text)
		}
	}
	return nil
}

// ---------------------------------------------------------------- scratch repository

func gitEnv(home string) []string {
	var env []string
	for _, kv := range os.Environ() {
		if strings.HasPrefix(kv, "GIT_") || strings.HasPrefix(kv, "HOME=") || strings.HasPrefix(kv, "XDG_CONFIG_HOME=") {
			continue
		}
		env = append(env, kv)
	}
	return append(env,
		"HOME="+home, "XDG_CONFIG_HOME="+filepath.Join(home, ".config"),
		"GIT_CONFIG_GLOBAL=/dev/null", "GIT_CONFIG_NOSYSTEM=1", "GIT_TERMINAL_PROMPT=0",
		"GIT_AUTHOR_DATE=2024-01-01T00:00:00Z", "GIT_COMMITTER_DATE=2024-01-01T00:00:00Z", "LC_ALL=C")
}

func git(repo string, args ...string) error {
	ctx, cancel := context.WithTimeout(context.Background(), 2*time.Minute)
	defer cancel()
	cmd := exec.CommandContext(ctx, "git", args...)
	cmd.Dir = repo
	cmd.Env = gitEnv(filepath.Dir(repo))
	if out, err := cmd.CombinedOutput(); err != nil {
		return envErrf("git %s: %v\n%s", strings.Join(args, " "), err, out)
	}
	return nil
}

const otherFile = "somefile.go" // a non-Thrift file that carries Thrift-looking text

// commitVersion makes the work tree equal to v (plus the other file) and commits.
func commitVersion(repo string, v []FileText, other, msg string, execPaths []string) error {
	isExec := map[string]bool{}
	for _, p := range execPaths {
		isExec[p] = true
	}
	entries, err := os.ReadDir(repo)
	if err != nil {
		return envErrf("%v", err)
	}
	for _, e := range entries {
		if e.Name() == ".git" {
			continue
		}
		if err := os.RemoveAll(filepath.Join(repo, e.Name())); err != nil {
			return envErrf("%v", err)
		}
	}
	files := v
	if other != "" {
		files = append(append([]FileText{}, v...), FileText{Path: otherFile, Text: other})
	}
	for _, f := range files {
		p := filepath.Join(repo, filepath.FromSlash(f.Path))
		if err := os.MkdirAll(filepath.Dir(p), 0o755); err != nil {
			return envErrf("%v", err)
		}
		mode := os.FileMode(0o644)
		if isExec[f.Path] {
			mode = 0o755 // recorded by git as tree mode 100755 (core.fileMode)
		}
		if err := os.WriteFile(p, []byte(f.Text), mode); err != nil {
			return envErrf("%v", err)
		}
		if err := os.Chmod(p, mode); err != nil { // whatever the umask is
			return envErrf("%v", err)
		}
	}
	if err := git(repo, "add", "-A"); err != nil {
		return err
	}
	return git(repo, "commit", "-q", "--allow-empty", "-m", msg)
}

func newRepo(root string) (string, error) {
	repo, err := os.MkdirTemp(root, "c20-repo-")
	if err != nil {
		return "", envErrf("%v", err)
	}
	for _, args := range [][]string{
		{"-c", "init.defaultBranch=main", "init", "-q"},
		{"config", "user.name", "verif"},
		{"config", "user.email", "verif@example.invalid"},
		{"config", "core.fileMode", "true"},
	} {
		if err := git(repo, args...); err != nil {
			os.RemoveAll(repo)
			return "", err
		}
	}
	return repo, nil
}

// checkModes makes sure (harness sanity, not a verdict) that HEAD~ and HEAD
// record the executable bit exactly for the paths of c.Exec they contain.
func checkModes(repo string, c Case, versions [2][]FileText) error {
	for i, rev := range []string{"HEAD~", "HEAD"} {
		cmd := exec.Command("git", "ls-tree", "-r", rev)
		cmd.Dir = repo
		cmd.Env = gitEnv(filepath.Dir(repo))
		out, err := cmd.Output()
		if err != nil {
			return envErrf("git ls-tree %s: %v", rev, err)
		}
		var got []string
		for _, line := range strings.Split(strings.TrimSpace(string(out)), "\n") {
			// <mode> SP <type> SP <hash> TAB <path>
			if tab := strings.IndexByte(line, '\t'); tab > 0 && strings.HasPrefix(line, "100755 ") {
				got = append(got, line[tab+1:])
			}
		}
		var want []string
		for _, p := range c.Exec[i] {
			_, in := textOf(versions[i], p)
			if in || (p == otherFile && c.Other[i] != "") {
				want = append(want, p)
			}
		}
		sort.Strings(got)
		sort.Strings(want)
		if strings.Join(got, "\n") != strings.Join(want, "\n") {
			return envErrf("%s records the executable bit for %v, the case wants %v", rev, got, want)
		}
	}
	return nil
}

// ---------------------------------------------------------------- running thriftbreak

type runResult struct {
	Stdout, Stderr string
	Exit           int
}

func thriftbreak(cwd string, args ...string) (runResult, error) {
	bin, err := bins.Path("thriftbreak", "go.uber.org/thriftrw/cmd/thriftbreak")
	if err != nil {
		return runResult{}, envErrf("%v", err)
	}
	for attempt := 0; ; attempt++ {
		ctx, cancel := context.WithTimeout(context.Background(), 3*time.Minute)
		cmd := exec.CommandContext(ctx, bin, args...)
		cmd.Dir = cwd
		var so, se bytes.Buffer
		cmd.Stdout, cmd.Stderr = &so, &se
		err = cmd.Run()
		timedOut := ctx.Err() != nil
		cancel()
		if timedOut {
			if attempt < 2 {
				continue
			}
			return runResult{}, envErrf("thriftbreak %v did not finish within 3 minutes (3 attempts)", args)
		}
		res := runResult{Stdout: so.String(), Stderr: se.String()}
		var ee *exec.ExitError
		switch {
		case err == nil:
		case errors.As(err, &ee):
			res.Exit = ee.ExitCode()
		default:
			return runResult{}, envErrf("cannot run thriftbreak: %v", err)
		}
		return res, nil
	}
}

// ---------------------------------------------------------------- parsing the two output modes

var quoted = regexp.MustCompile(`"([^"]*)"`)

// parseMessage classifies a message into one of the five documented kinds and
// extracts the subject names (field/struct, method/service, service).
func parseMessage(msg string) (kind string, subjects []string, ok bool) {
	var qs []string
	for _, m := range quoted.FindAllStringSubmatch(msg, -1) {
		qs = append(qs, m[1])
	}
	need := 2
	switch {
	case strings.Contains(msg, "deleting service"):
		kind, need = kDelService, 1
	case strings.Contains(msg, "removing method"):
		kind = kDelMethod
	case strings.Contains(msg, "adding a required field"):
		kind = kAddReq
	case strings.Contains(msg, "changing an optional field"):
		kind = kOptToReq
	case strings.Contains(msg, "changing type of field"):
		kind = kTypeChange // followed by the old and new type names, which are not compared
	default:
		return "", nil, false
	}
	if len(qs) < need {
		return "", nil, false
	}
	return kind, qs[:need], true
}

type reported struct {
	File string
	Diag
	Raw string
}

func parseReadable(out string) ([]reported, error) {
	var res []reported
	if out == "" {
		return nil, nil
	}
	if !strings.HasSuffix(out, "\n") {
		return nil, fmt.Errorf("output does not end in a newline: %q", clipS(out, 300))
	}
	for _, line := range strings.Split(strings.TrimSuffix(out, "\n"), "\n") {
		i := strings.Index(line, ":")
		if i <= 0 {
			return nil, fmt.Errorf("line without a file prefix: %q", line)
		}
		k, s, ok := parseMessage(line[i+1:])
		if !ok {
			return nil, fmt.Errorf("unrecognised diagnostic: %q", line)
		}
		res = append(res, reported{File: line[:i], Diag: Diag{Kind: k, Subjects: s}, Raw: line})
	}
	return res, nil
}

func parseJSON(out string) ([]reported, error) {
	var res []reported
	dec := json.NewDecoder(strings.NewReader(out))
	for {
		var o struct {
			FilePath *string
			Message  *string
		}
		err := dec.Decode(&o)
		if err == io.EOF {
			return res, nil
		}
		if err != nil {
			return nil, fmt.Errorf("stdout is not a sequence of JSON objects: %v in %q", err, clipS(out, 300))
		}
		if o.FilePath == nil || o.Message == nil {
			return nil, fmt.Errorf("JSON object without FilePath/Message in %q", clipS(out, 300))
		}
		k, s, ok := parseMessage(*o.Message)
		if !ok {
			return nil, fmt.Errorf("unrecognised diagnostic: %q", *o.Message)
		}
		res = append(res, reported{File: *o.FilePath, Diag: Diag{Kind: k, Subjects: s}, Raw: *o.FilePath + ":" + *o.Message})
	}
}

func clipS(s string, n int) string {
	if len(s) > n {
		return s[:n] + "…"
	}
	return s
}

// ---------------------------------------------------------------- the oracle

// canonFile maps a reported file (repo-relative path or bare file name: the
// tool documents both) to the repo-relative path; basenames are unique.
func canonFile(paths []string, got string) string {
	got = filepath.ToSlash(got)
	for _, p := range paths {
		if p == got {
			return p
		}
	}
	for _, p := range paths {
		if path.Base(p) == got {
			return p
		}
	}
	return "?" + got
}

func checkRun(c Case, where, mode string, res runResult) error {
	var rep []reported
	var err error
	if mode == "json" {
		rep, err = parseJSON(res.Stdout)
	} else {
		rep, err = parseReadable(res.Stdout)
	}
	pre := mode + "/"
	if err != nil {
		return ev.Errf(pre+"output/unparseable", "%s: %v", where, err)
	}
	if res.Exit != 0 && len(rep) == 0 {
		key := pre + "exit/nonzero-without-diagnostics"
		switch del, add := deletedAndAdded(c); {
		case del && add && c.RenameLike:
			key += "/file-deleted-and-similar-file-added"
		case del && add:
			key += "/file-deleted-and-file-added"
		}
		return ev.Errf(key, "%s: exit status %d but no diagnostic on stdout (expected %d diagnostics: %v); stderr: %s", where, res.Exit, len(c.Expected), whats(c.Expected), clipS(res.Stderr, 400))
	}

	var paths []string
	seen := map[string]bool{}
	for _, v := range [][]FileText{c.Old, c.New} {
		for _, f := range v {
			if !seen[f.Path] {
				seen[f.Path] = true
				paths = append(paths, f.Path)
			}
		}
	}
	want := map[string]int{}
	wantWhat := map[string]int{}
	for _, d := range c.Expected {
		want[d.key()]++
		wantWhat[d.what()]++
	}
	got := map[string]int{}
	gotWhat := map[string]int{}
	raw := map[string]string{}
	kindOf := map[string]string{}
	for _, r := range rep {
		d := Diag{File: canonFile(paths, r.File), Kind: r.Kind, Subjects: r.Subjects}
		got[d.key()]++
		gotWhat[d.what()]++
		raw[d.key()] = r.Raw
		kindOf[d.key()] = d.Kind
	}
	var wantKeys []string
	for _, d := range c.Expected {
		wantKeys = append(wantKeys, d.key())
		kindOf[d.key()] = d.Kind
	}
	sort.Strings(wantKeys)
	for _, k := range wantKeys {
		if got[k] < want[k] {
			what := k[strings.Index(k, " :: ")+4:]
			if gotWhat[what] >= wantWhat[what] {
				return ev.Errf(pre+"attribution/"+kindOf[k], "%s: %s is reported, but not for the file it was made in (%s); stdout:\n%s", where, what, k, clipS(res.Stdout, 1500))
			}
			return ev.Errf(pre+"missing/"+kindOf[k], "%s: expected diagnostic not reported: %s (exit %d); stdout:\n%s\nstderr: %s", where, k, res.Exit, clipS(res.Stdout, 1500), clipS(res.Stderr, 300))
		}
	}
	var gotKeys []string
	for k := range got {
		gotKeys = append(gotKeys, k)
	}
	sort.Strings(gotKeys)
	for _, k := range gotKeys {
		if got[k] > want[k] {
			if want[k] > 0 {
				return ev.Errf(pre+"duplicate/"+kindOf[k], "%s: diagnostic reported %d times, expected %d: %q", where, got[k], want[k], raw[k])
			}
			return ev.Errf(pre+"spurious/"+kindOf[k], "%s: diagnostic for a change that was not made (edits: %v): %q", where, c.Edits, raw[k])
		}
	}
	if res.Exit == 0 && len(rep) > 0 {
		return ev.Errf(pre+"exit/zero-with-diagnostics", "%s: %d diagnostics but exit status 0", where, len(rep))
	}
	if res.Exit != 0 && len(c.Expected) == 0 {
		// unreachable (covered above), kept as the literal statement
		return ev.Errf(pre+"exit/nonzero-without-diagnostics", "%s: exit status %d", where, res.Exit)
	}
	return nil
}

// deletedAndAdded reports whether the second commit deletes a Thrift file and
// whether it adds any file (only used to classify a failure).
func deletedAndAdded(c Case) (deleted, added bool) {
	for _, f := range c.Old {
		if _, ok := textOf(c.New, f.Path); !ok {
			deleted = true
		}
	}
	for _, f := range c.New {
		if _, ok := textOf(c.Old, f.Path); !ok {
			added = true
		}
	}
	if c.Other[0] == "" && c.Other[1] != "" {
		added = true
	}
	return
}

func whats(ds []Diag) []string {
	var out []string
	for _, d := range ds {
		out = append(out, d.key())
	}
	return out
}

// checkCase builds the scratch repository under root, runs the real binary in
// both output modes (once from inside the repository, once through -C from
// elsewhere), and compares with the expectations; when the case carries the
// reordered renderings they are committed on top and checked the same way.
func checkCase(root string, c Case) error {
	for _, v := range [][]FileText{c.Old, c.New, c.OldAlt, c.NewAlt} {
		if v == nil {
			continue
		}
		if err := validVersion(v); err != nil {
			return envErrf("generator produced an invalid program: %v", err)
		}
	}
	repo, err := newRepo(root)
	if err != nil {
		return err
	}
	defer os.RemoveAll(repo)

	rounds := []struct {
		name     string
		old, new []FileText
	}{{"plain", c.Old, c.New}}
	if c.OldAlt != nil {
		rounds = append(rounds, struct {
			name     string
			old, new []FileText
		}{"reordered", c.OldAlt, c.NewAlt})
	}
	for i, r := range rounds {
		if err := commitVersion(repo, r.old, c.Other[0], "base "+r.name, c.Exec[0]); err != nil {
			return err
		}
		if err := commitVersion(repo, r.new, c.Other[1], "edit "+r.name, c.Exec[1]); err != nil {
			return err
		}
		if err := checkModes(repo, c, [2][]FileText{r.old, r.new}); err != nil {
			return err
		}
		if c.Packed {
			// loose objects and refs become a pack and packed-refs
			if err := git(repo, "gc", "-q"); err != nil {
				return err
			}
		}
		// two independent processes per round: Go randomises map iteration per
		// process, so each run walks services/types in its own order.
		type inv struct {
			mode, cwd string
			args      []string
		}
		invs := []inv{{"readable", repo, nil}, {"json", root, []string{"-C=" + repo, "--json"}}}
		if i%2 == 1 {
			invs = []inv{{"readable", root, []string{"-C", repo}}, {"json", repo, []string{"-json"}}}
		}
		for _, in := range invs {
			res, err := thriftbreak(in.cwd, in.args...)
			if err != nil {
				return err
			}
			if err := checkRun(c, r.name+" rendering, "+in.mode+" output", in.mode, res); err != nil {
				return err
			}
		}
	}
	return nil
}
