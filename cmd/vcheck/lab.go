package main

import (
	"encoding/json"
	"fmt"
	"os"
	"os/exec"
	"path/filepath"
	"strconv"
)

// labInfo summarises a built lab for the evidence file.
type labInfo struct {
	Kind     string
	Dir      string
	Bin      string
	Programs int
	Usable   int
	Skipped  []map[string]string
}

func buildLabgen(tmp string) (string, error) {
	out := filepath.Join(tmp, "labgen")
	if _, err := os.Stat(out); err == nil {
		return out, nil
	}
	cmd := exec.Command("go", "build", "-tags", "verif", "-o", out, "./harness/labgen")
	cmd.Dir = root
	if b, err := cmd.CombinedOutput(); err != nil {
		return "", fmt.Errorf("building labgen failed (does /repo build?): %v\n%s", err, b)
	}
	return out, nil
}

// buildLab generates the lab of the given kind and compiles its driver test binary.
func buildLab(kind string, programs int, seed int64, tmp string, replay string, env []string) (*labInfo, error) {
	lg, err := buildLabgen(tmp)
	if err != nil {
		return nil, err
	}
	dir := filepath.Join(tmp, "lab-"+kind)
	args := []string{"-out", dir, "-kind", kind, "-seed", strconv.FormatInt(seed, 10), "-programs", strconv.Itoa(programs)}
	if replay != "" {
		args = append(args, "-replay", replay)
	}
	cmd := exec.Command(lg, args...)
	cmd.Dir = root
	cmd.Env = append(os.Environ(), env...)
	if b, err := cmd.CombinedOutput(); err != nil {
		return nil, fmt.Errorf("labgen failed: %v\n%s", err, b)
	}
	info := &labInfo{Kind: kind, Dir: dir, Bin: filepath.Join(tmp, "lab-"+kind+".test")}
	if b, err := os.ReadFile(filepath.Join(dir, "manifest.json")); err == nil {
		var es []struct {
			ID       string `json:"id"`
			GenErr   string `json:"gen_err"`
			BuildErr string `json:"build_err"`
		}
		if json.Unmarshal(b, &es) == nil {
			info.Programs = len(es)
			for _, e := range es {
				if e.GenErr == "" && e.BuildErr == "" {
					info.Usable++
				} else {
					why := e.GenErr
					if why == "" {
						why = "generated Go does not build: " + e.BuildErr
					}
					if len(why) > 300 {
						why = why[:300] + "…"
					}
					info.Skipped = append(info.Skipped, map[string]string{"program": e.ID, "reason": why})
				}
			}
		}
	}
	if info.Usable == 0 {
		return info, fmt.Errorf("no program of the lab could be generated and built (%d tried)", info.Programs)
	}
	tc := exec.Command("go", "test", "-c", "-tags", "verif", "-vet=off", "-o", info.Bin, "./drv")
	tc.Dir = dir
	if b, err := tc.CombinedOutput(); err != nil {
		return info, fmt.Errorf("building the lab driver failed: %v\n%s", err, b)
	}
	return info, nil
}

func replayLab(plan Plan, u Unit, path, tmp string) int {
	info, err := buildLab(u.Lab.Kind, 1, 1, tmp, path, u.Env)
	if err != nil {
		fmt.Fprintf(os.Stderr, "vcheck: replay lab: %v\n", err)
		// a program that no longer generates / builds is itself worth reporting
		fmt.Printf("VIOLATION property=%s replay=%s\n", plan.ID, path)
		return 1
	}
	run := exec.Command(info.Bin, "-test.run", "^TestReplay$", "-test.v", "-test.timeout", "10m")
	run.Dir = tmp
	run.Env = append(os.Environ(), "VERIF_REPLAY="+path, "VERIF_SCRATCH="+tmp, "VERIF_PROPERTY="+plan.ID)
	run.Env = append(run.Env, u.Env...)
	o, err := run.CombinedOutput()
	os.Stdout.Write(o)
	if err != nil {
		fmt.Printf("VIOLATION property=%s replay=%s\n", plan.ID, path)
		return 1
	}
	fmt.Printf("%s replay passed: %s\n", plan.ID, path)
	return 0
}

// regressLabs re-runs every saved case under regress/<id>/ of a lab property.
func regressLabs(plan Plan, tmp string) []shardResult {
	var labUnit *Unit
	for i := range plan.Units {
		if plan.Units[i].Lab != nil {
			labUnit = &plan.Units[i]
			break
		}
	}
	if labUnit == nil {
		return nil
	}
	files, _ := filepath.Glob(filepath.Join(root, "regress", plan.ID, "*.json"))
	labUnits := map[string]bool{}
	for _, u := range plan.Units {
		if u.Lab != nil {
			labUnits[u.Name] = true
		}
	}
	var out []shardResult
	for i, f := range files {
		// only cases recorded by a lab unit are replayed in a lab
		if b, err := os.ReadFile(f); err == nil {
			var fl struct {
				Unit string `json:"unit"`
			}
			if json.Unmarshal(b, &fl) != nil || !labUnits[fl.Unit] {
				continue
			}
		}
		sub := filepath.Join(tmp, fmt.Sprintf("regress-%d", i))
		os.MkdirAll(sub, 0o755)
		res := shardResult{unit: Unit{Name: "regress:" + filepath.Base(f)}}
		info, err := buildLab(labUnit.Lab.Kind, 1, 1, sub, f, labUnit.Env)
		if err != nil {
			res.exit = 1
			res.log = []byte("regress lab for " + f + ": " + err.Error() + "\nfatal error: lab of a saved case no longer builds")
			out = append(out, res)
			continue
		}
		statsPath := filepath.Join(sub, "stats.json")
		run := exec.Command(info.Bin, "-test.run", "^TestReplay$", "-test.v", "-test.timeout", "10m")
		run.Dir = sub
		run.Env = append(os.Environ(), "VERIF_REPLAY="+f, "VERIF_SCRATCH="+sub, "VERIF_PROPERTY="+plan.ID, "VERIF_STATS="+statsPath)
		run.Env = append(run.Env, labUnit.Env...)
		o, err := run.CombinedOutput()
		res.log = o
		if err != nil {
			res.exit = 1
			res.failures = []string{f}
		}
		out = append(out, res)
	}
	return out
}
