package main

func replayLab(plan Plan, u Unit, path, tmp string) int {
	fatal2("lab replay not implemented yet")
	return 2
}
