// vcheck is the orchestrator behind bin/check: it builds the check binaries of
// one property from /repo's current working tree (build tag "verif"), runs the
// units of the chosen tier sharded over processes with seeds derived from
// VERIF_SEED, merges their statistics into /verif/evidence/<id>.json, prints
// KNOWN-FINDING / VIOLATION lines and sets the exit code (0 held, 1 violation,
// 2 could not evaluate).
package main

import (
	"bufio"
	"bytes"
	"crypto/sha256"
	"encoding/hex"
	"encoding/json"
	"flag"
	"fmt"
	"os"
	"os/exec"
	"path/filepath"
	"regexp"
	"runtime"
	"sort"
	"strconv"
	"strings"
	"sync"
	"syscall"
	"time"

	"verif/internal/ev"
)

func fatal2(format string, args ...interface{}) {
	fmt.Fprintf(os.Stderr, "vcheck: "+format+"\n", args...)
	os.Exit(2)
}

type shardResult struct {
	unit     Unit
	shard    int
	exit     int
	killed   bool
	log      []byte
	stats    *ev.Stats
	passed   int // rapid "OK, passed N"
	wall     time.Duration
	failures []string
}

var labSummaries map[string]*labInfo

var (
	root    = "/verif"
	repo    = "/repo"
	tierIdx = 0
)

func main() {
	tier := flag.String("tier", envOr("VERIF_TIER", "quick"), "quick|thorough")
	replay := flag.String("replay", "", "replay file")
	keep := flag.Bool("keep", false, "keep the temp dir")
	onlyUnit := flag.String("unit", "", "run only units whose name matches this regexp (development aid; evidence is still written)")
	flag.Usage = func() { fmt.Fprintln(os.Stderr, "usage: vcheck [--tier quick|thorough] [--replay FILE] <Cnn>") }
	// allow flags after the id
	args := os.Args[1:]
	var id string
	var rest []string
	for _, a := range args {
		if id == "" && !strings.HasPrefix(a, "-") && regexp.MustCompile(`^C\d+$`).MatchString(a) {
			id = a
			continue
		}
		rest = append(rest, a)
	}
	flag.CommandLine.Parse(rest)
	if id == "" {
		flag.Usage()
		os.Exit(2)
	}
	if r := os.Getenv("VERIF_ROOT"); r != "" {
		root = r
	}
	if r := os.Getenv("VERIF_REPO"); r != "" {
		repo = r
	}
	if *tier == "thorough" {
		tierIdx = 1
	} else {
		*tier = "quick"
	}
	seed := int64(1)
	if s := os.Getenv("VERIF_SEED"); s != "" {
		if v, err := strconv.ParseInt(s, 10, 64); err == nil {
			seed = v
		}
	}
	plan, ok := plans[id]
	if !ok {
		fatal2("no check registered for %s", id)
	}
	plan.ID = id

	os.Setenv("GOFLAGS", "-mod=mod")
	os.Setenv("GOPROXY", "off")
	os.Setenv("GOSUMDB", "off")
	os.Setenv("GOTOOLCHAIN", "local")
	os.Setenv("VERIF_ROOT", root)
	os.Setenv("VERIF_REPO", repo)
	os.Setenv("VERIF_TIER", *tier)

	tmpBase := os.Getenv("VERIF_TMP")
	if tmpBase == "" {
		tmpBase = os.TempDir()
	}
	tmp, err := os.MkdirTemp(tmpBase, "vcheck-"+id+"-")
	if err != nil {
		fatal2("mktemp: %v", err)
	}
	if !*keep {
		defer os.RemoveAll(tmp)
	} else {
		fmt.Fprintln(os.Stderr, "vcheck: keeping", tmp)
	}
	// Make sure cleanup happens on our explicit exits too.
	exit := func(code int) {
		if !*keep {
			os.RemoveAll(tmp)
		}
		os.Exit(code)
	}

	if *replay != "" {
		exit(doReplay(plan, *replay, tmp))
	}

	start := time.Now()
	var unitRe *regexp.Regexp
	if *onlyUnit != "" {
		unitRe = regexp.MustCompile(*onlyUnit)
	}

	// 1. builds
	bins := map[string]string{}
	envExtra := []string{}
	for _, pb := range plan.Prebuild {
		out := filepath.Join(tmp, pb.Name)
		args := []string{"build", "-tags", "verif", "-o", out}
		args = append(args, pb.Pkg)
		cmd := exec.Command("go", args...)
		cmd.Dir = pb.Dir
		if cmd.Dir == "" {
			cmd.Dir = root
		}
		if b, err := cmd.CombinedOutput(); err != nil {
			fatal2x(exit, "prebuild %s failed: %v\n%s", pb.Name, err, b)
		}
		envExtra = append(envExtra, "VERIF_BIN_"+strings.ToUpper(pb.Name)+"="+out)
	}
	var units []Unit
	for _, u := range plan.Units {
		if u.Shards[tierIdx] == 0 {
			continue
		}
		if unitRe != nil && !unitRe.MatchString(u.Name) {
			continue
		}
		units = append(units, u)
	}
	// saved cases of repaired defects are re-run by every run
	if files, _ := filepath.Glob(filepath.Join(root, "regress", id, "*.json")); len(files) > 0 && unitRe == nil {
		seen := map[string]bool{}
		for _, u := range plan.Units {
			if u.Lab != nil || u.Fuzz != "" || seen[u.Pkg] {
				continue
			}
			seen[u.Pkg] = true
			var labNames []string
			for _, lu := range plan.Units {
				if lu.Lab != nil {
					labNames = append(labNames, lu.Name)
				}
			}
			env := append([]string{"VERIF_REGRESS_SKIP_UNITS=" + strings.Join(labNames, ",")}, u.Env...)
			units = append(units, Unit{Name: "regress:" + u.Pkg, Pkg: u.Pkg, Run: "^TestRegress$", Shards: [2]int{1, 1}, Race: u.Race, Env: env})
		}
	}
	if len(units) == 0 {
		fatal2x(exit, "no units to run for %s tier %s", id, *tier)
	}
	labs := map[string]*labInfo{}
	for _, u := range units {
		if u.Lab == nil {
			continue
		}
		if _, ok := labs[u.Lab.Kind]; ok {
			continue
		}
		info, err := buildLab(u.Lab.Kind, u.Lab.Programs[tierIdx], seed, tmp, "", u.Env)
		if err != nil {
			fatal2x(exit, "lab %s: %v", u.Lab.Kind, err)
		}
		labs[u.Lab.Kind] = info
		bins["lab:"+u.Lab.Kind+"|false"] = info.Bin
	}
	labSummaries = labs
	for _, u := range units {
		if u.Lab != nil {
			continue
		}
		key := u.Pkg + "|" + strconv.FormatBool(u.Race)
		if _, ok := bins[key]; ok {
			continue
		}
		out := filepath.Join(tmp, "t"+strconv.Itoa(len(bins))+".test")
		args := []string{"test", "-c", "-tags", "verif", "-vet=off", "-o", out}
		if u.Race {
			args = append(args, "-race")
		}
		args = append(args, u.Pkg)
		cmd := exec.Command("go", args...)
		cmd.Dir = root
		if b, err := cmd.CombinedOutput(); err != nil {
			fatal2x(exit, "building %s failed (does /repo build?): %v\n%s", u.Pkg, err, b)
		}
		bins[key] = out
	}

	// 2. run shards
	type job struct {
		u     Unit
		shard int
	}
	var jobs []job
	for _, u := range units {
		for s := 0; s < u.Shards[tierIdx]; s++ {
			jobs = append(jobs, job{u, s})
		}
	}
	par := runtime.NumCPU()
	if p := os.Getenv("VERIF_PAR"); p != "" {
		if v, err := strconv.Atoi(p); err == nil && v > 0 {
			par = v
		}
	}
	results := make([]shardResult, len(jobs))
	var wg sync.WaitGroup
	sem := make(chan struct{}, par)
	var acquire sync.Mutex
	for i, j := range jobs {
		wg.Add(1)
		go func(i int, j job) {
			defer wg.Done()
			w := j.u.Weight
			if w <= 0 {
				w = 1
			}
			if w > par {
				w = par
			}
			// one goroutine acquires at a time: two weighted units each holding part of
			// what they need while waiting for the rest would block each other for good
			acquire.Lock()
			for k := 0; k < w; k++ {
				sem <- struct{}{}
			}
			acquire.Unlock()
			defer func() {
				for k := 0; k < w; k++ {
					<-sem
				}
			}()
			bin := bins[j.u.Pkg+"|"+strconv.FormatBool(j.u.Race)]
			if j.u.Lab != nil {
				bin = bins["lab:"+j.u.Lab.Kind+"|false"]
			}
			results[i] = runShard(plan, j.u, j.shard, seed, bin, tmp, envExtra)
		}(i, j)
	}
	wg.Wait()

	// saved cases of lab properties: each embeds its program, so each gets its own one-program lab
	if unitRe == nil {
		results = append(results, regressLabs(plan, tmp)...)
	}

	// 3. merge
	code := merge(plan, *tier, seed, results, time.Since(start))
	exit(code)
}

func fatal2x(exit func(int), format string, args ...interface{}) {
	fmt.Fprintf(os.Stderr, "vcheck: "+format+"\n", args...)
	exit(2)
}

func envOr(k, d string) string {
	if v := os.Getenv(k); v != "" {
		return v
	}
	return d
}

// rapidSeed derives a non-zero seed (0 means "random" to rapid).
func rapidSeed(seed int64, prop string, unit string, shard int) uint64 {
	h := sha256.Sum256([]byte(fmt.Sprintf("%d|%s|%s|%d", seed, prop, unit, shard)))
	v := uint64(h[0])<<24 | uint64(h[1])<<16 | uint64(h[2])<<8 | uint64(h[3])
	return 1 + v%2147483645
}

var passedRe = regexp.MustCompile(`OK, passed (\d+) tests`)

func runShard(plan Plan, u Unit, shard int, seed int64, bin, tmp string, envExtra []string) shardResult {
	res := shardResult{unit: u, shard: shard}
	tag := fmt.Sprintf("%s-%d", sanitize(u.Name), shard)
	wd := filepath.Join(tmp, "wd-"+tag)
	os.MkdirAll(wd, 0o755)
	statsPath := filepath.Join(tmp, "stats-"+tag+".json")
	to := u.Timeout[tierIdx]
	if to == 0 {
		to = 20 * time.Minute
		if tierIdx == 1 {
			to = 60 * time.Minute
		}
	}
	args := []string{"-test.run", u.Run, "-test.v", "-test.timeout", (to + time.Minute).String(), "-test.count=1"}
	rs := rapidSeed(seed, plan.ID, u.Name, shard)
	if u.Rapid {
		args = append(args, "-rapid.checks="+strconv.Itoa(u.Checks[tierIdx]), "-rapid.seed="+strconv.FormatUint(rs, 10), "-rapid.nofailfile", "-rapid.shrinktime=45s")
	}
	if u.Fuzz != "" {
		ft := u.FuzzTime[tierIdx]
		args = []string{"-test.run", "^$", "-test.fuzz", "^" + u.Fuzz + "$", "-test.fuzztime", ft.String(), "-test.fuzzcachedir", filepath.Join(wd, "fuzzcache"), "-test.parallel", strconv.Itoa(max(1, u.Weight)), "-test.timeout", (ft + 10*time.Minute).String()}
	}
	args = append(args, u.Args...)
	cmd := exec.Command(bin, args...)
	cmd.Dir = wd
	if u.Fuzz != "" {
		// native fuzzing wants the package's testdata next to it for seeds and writes crashers there
		os.MkdirAll(filepath.Join(wd, "testdata", "fuzz", u.Fuzz), 0o755)
		src := filepath.Join(root, strings.TrimPrefix(u.Pkg, "./"), "corpus", u.Fuzz)
		if ents, err := os.ReadDir(src); err == nil {
			for _, e := range ents {
				if b, err := os.ReadFile(filepath.Join(src, e.Name())); err == nil {
					os.WriteFile(filepath.Join(wd, "testdata", "fuzz", u.Fuzz, e.Name()), b, 0o644)
				}
			}
		}
	}
	cmd.Env = append(os.Environ(),
		"VERIF_STATS="+statsPath,
		"VERIF_SEED="+strconv.FormatInt(seed, 10),
		"VERIF_RSEED="+strconv.FormatUint(rs, 10),
		"VERIF_SHARD="+strconv.Itoa(shard),
		"VERIF_NSHARDS="+strconv.Itoa(u.Shards[tierIdx]),
		"VERIF_UNIT="+u.Name,
		"VERIF_PKG="+u.Pkg,
		"VERIF_SCRATCH="+wd,
		"VERIF_REPLAY_DIR="+filepath.Join(root, "replays", plan.ID),
		"VERIF_PROPERTY="+plan.ID,
	)
	cmd.Env = append(cmd.Env, envExtra...)
	cmd.Env = append(cmd.Env, u.Env...)
	var out bytes.Buffer
	cmd.Stdout = &out
	cmd.Stderr = &out
	cmd.SysProcAttr = &syscall.SysProcAttr{Setpgid: true}
	t0 := time.Now()
	if err := cmd.Start(); err != nil {
		res.exit = 2
		res.log = []byte(err.Error())
		return res
	}
	done := make(chan error, 1)
	go func() { done <- cmd.Wait() }()
	var err error
	select {
	case err = <-done:
	case <-time.After(to + 2*time.Minute):
		syscall.Kill(-cmd.Process.Pid, syscall.SIGKILL)
		err = <-done
		res.killed = true
	}
	res.wall = time.Since(t0)
	res.log = out.Bytes()
	if err != nil {
		if ee, ok := err.(*exec.ExitError); ok {
			res.exit = ee.ExitCode()
			if ws, ok := ee.Sys().(syscall.WaitStatus); ok && ws.Signaled() {
				res.killed = true
			}
		} else {
			res.exit = 2
		}
	}
	if b, err := os.ReadFile(statsPath); err == nil {
		var st ev.Stats
		if json.Unmarshal(b, &st) == nil {
			res.stats = &st
		}
	}
	for _, m := range passedRe.FindAllSubmatch(res.log, -1) {
		n, _ := strconv.Atoi(string(m[1]))
		res.passed += n
	}
	sc := bufio.NewScanner(bytes.NewReader(res.log))
	sc.Buffer(make([]byte, 1<<20), 16<<20)
	for sc.Scan() {
		line := sc.Text()
		if strings.HasPrefix(line, "VERIF-FAIL ") {
			f := strings.Fields(line)
			if len(f) >= 2 {
				res.failures = append(res.failures, f[1])
			}
		}
	}
	// native fuzz crashers
	if u.Fuzz != "" && res.exit != 0 {
		dir := filepath.Join(wd, "testdata", "fuzz", u.Fuzz)
		if ents, err := os.ReadDir(dir); err == nil {
			seedNames := map[string]bool{}
			src := filepath.Join(root, strings.TrimPrefix(u.Pkg, "./"), "corpus", u.Fuzz)
			if se, err := os.ReadDir(src); err == nil {
				for _, e := range se {
					seedNames[e.Name()] = true
				}
			}
			for _, e := range ents {
				if seedNames[e.Name()] {
					continue
				}
				b, _ := os.ReadFile(filepath.Join(dir, e.Name()))
				rd := filepath.Join(root, "replays", plan.ID)
				os.MkdirAll(rd, 0o755)
				raw, _ := json.Marshal(map[string]string{"go_fuzz_corpus_file": string(b)})
				f := ev.Failure{Property: plan.ID, Unit: "fuzz:" + u.Fuzz, Key: "fuzz/" + u.Fuzz, Msg: tail(res.log, 4000), Case: raw}
				fb, _ := json.MarshalIndent(f, "", " ")
				p := filepath.Join(rd, "fuzz-"+u.Fuzz+"-"+e.Name()+".json")
				os.WriteFile(p, fb, 0o644)
				res.failures = append(res.failures, p)
			}
		}
	}
	return res
}

func tail(b []byte, n int) string {
	if len(b) > n {
		b = b[len(b)-n:]
	}
	return string(b)
}

func sanitize(s string) string {
	var sb strings.Builder
	for _, r := range s {
		if (r >= 'a' && r <= 'z') || (r >= 'A' && r <= 'Z') || (r >= '0' && r <= '9') || r == '-' || r == '_' {
			sb.WriteRune(r)
		} else {
			sb.WriteByte('_')
		}
	}
	return sb.String()
}

var envFailRe = regexp.MustCompile(`(?i)cannot allocate memory|no space left on device|out of memory|too many open files|resource temporarily unavailable`)

func merge(plan Plan, tier string, seed int64, results []shardResult, wall time.Duration) int {
	classes := map[string]int64{}
	knownHits := map[string]int64{}
	notes := map[string]string{}
	exhaustive := map[string]bool{}
	distinct := map[uint64]struct{}{}
	var evals int64
	var samples []ev.Sample
	perUnitSamples := map[string]int{}
	var failures []string
	envFailure := false
	var unitReports []map[string]interface{}
	shortRuns := 0

	for _, r := range results {
		ur := map[string]interface{}{"unit": r.unit.Name, "shard": r.shard, "exit": r.exit, "wall_s": round1(r.wall.Seconds())}
		if r.unit.Rapid {
			ur["rapid_checks_requested"] = r.unit.Checks[tierIdx]
			ur["rapid_checks_passed"] = r.passed
			if r.exit == 0 && r.passed < r.unit.Checks[tierIdx]*r.unit.rapidTests() {
				shortRuns++
				ur["short"] = true
			}
		}
		if r.stats != nil {
			evals += r.stats.Evaluations
			ur["evaluations"] = r.stats.Evaluations
			for _, d := range r.stats.Nontrivial {
				distinct[d] = struct{}{}
			}
			for k, v := range r.stats.Classes {
				classes[k] += v
			}
			for k, v := range r.stats.KnownHits {
				knownHits[k] += v
			}
			for k, v := range r.stats.Notes {
				notes[k] = v
			}
			for k, v := range r.stats.Exhaustive {
				exhaustive[k] = v
			}
			for _, s := range r.stats.Samples {
				if perUnitSamples[s.Unit] < 3 {
					perUnitSamples[s.Unit]++
					samples = append(samples, s)
				}
			}
		}
		failures = append(failures, r.failures...)
		if r.exit != 0 && len(r.failures) == 0 {
			// A failing shard that recorded no case: either the check binary died
			// (fatal error in the code under test => violation, log kept as the
			// replay artefact) or the environment failed (=> exit 2).
			if r.killed && !bytes.Contains(r.log, []byte("fatal error:")) || envFailRe.Match(r.log) && !bytes.Contains(r.log, []byte("--- FAIL")) {
				envFailure = true
				fmt.Fprintf(os.Stderr, "vcheck: unit %s shard %d could not be evaluated (exit %d, killed=%v):\n%s\n", r.unit.Name, r.shard, r.exit, r.killed, tail(r.log, 3000))
			} else {
				rd := filepath.Join(root, "replays", plan.ID)
				os.MkdirAll(rd, 0o755)
				sum := sha256.Sum256(r.log)
				p := filepath.Join(rd, fmt.Sprintf("crash-%s-%s.log", sanitize(r.unit.Name), hex.EncodeToString(sum[:5])))
				os.WriteFile(p, r.log, 0o644)
				failures = append(failures, p)
			}
		}
		unitReports = append(unitReports, ur)
	}

	// render
	sort.Strings(failures)
	failures = uniq(failures)
	for k, v := range knownHits {
		fmt.Printf("KNOWN-FINDING: property=%s %s (seen %d times in this run)\n", plan.ID, k, v)
	}
	shown := 0
	for _, f := range failures {
		if shown >= 5 {
			break
		}
		fmt.Printf("VIOLATION property=%s replay=%s\n", plan.ID, f)
		if b, err := os.ReadFile(f); err == nil && strings.HasSuffix(f, ".json") {
			var fl ev.Failure
			if json.Unmarshal(b, &fl) == nil {
				fmt.Printf("  unit=%s key=%s\n  %s\n", fl.Unit, fl.Key, firstLines(fl.Msg, 12))
			}
		}
		shown++
	}

	var smp []interface{}
	for _, s := range samples {
		smp = append(smp, map[string]interface{}{"unit": s.Unit, "case": s.Case})
	}
	coverage := map[string]interface{}{
		"evaluations":         evals,
		"distinct_nontrivial": len(distinct),
		"rule":                plan.Rule,
		"samples":             smp,
		"classes":             classes,
		"known_findings_hit":  knownHits,
		"units":               unitReports,
		"short_runs":          shortRuns,
	}
	if len(notes) > 0 {
		coverage["notes"] = notes
	}
	if len(labSummaries) > 0 {
		progs, usable := 0, 0
		var skipped []map[string]string
		for _, l := range labSummaries {
			progs += l.Programs
			usable += l.Usable
			skipped = append(skipped, l.Skipped...)
		}
		coverage["programs"] = usable
		coverage["programs_generated"] = progs
		coverage["skipped_programs"] = skipped
	}
	if len(exhaustive) > 0 {
		coverage["exhaustive_subspaces"] = exhaustive
		all := true
		for _, v := range exhaustive {
			all = all && v
		}
		_ = all
	}
	evd := map[string]interface{}{
		"property_id": plan.ID,
		"tier":        tier,
		"seed":        seed,
		"level":       plan.Level,
		"coverage":    coverage,
		"assumptions": plan.Assumptions,
		"wall_s":      round1(wall.Seconds()),
		"violations":  len(failures),
	}
	b, _ := json.MarshalIndent(evd, "", " ")
	os.MkdirAll(filepath.Join(root, "evidence"), 0o755)
	if err := os.WriteFile(filepath.Join(root, "evidence", plan.ID+".json"), b, 0o644); err != nil {
		fmt.Fprintln(os.Stderr, "vcheck: writing evidence:", err)
		return 2
	}
	fmt.Printf("%s tier=%s seed=%d evaluations=%d distinct_nontrivial=%d violations=%d known=%d wall=%.1fs\n",
		plan.ID, tier, seed, evals, len(distinct), len(failures), len(knownHits), wall.Seconds())
	if len(failures) > 0 {
		return 1
	}
	if envFailure {
		return 2
	}
	if evals == 0 {
		fmt.Fprintln(os.Stderr, "vcheck: no case was evaluated")
		return 2
	}
	return 0
}

func firstLines(s string, n int) string {
	lines := strings.Split(s, "\n")
	if len(lines) > n {
		lines = append(lines[:n], "…")
	}
	return strings.Join(lines, "\n  ")
}

func uniq(s []string) []string {
	var out []string
	for i, x := range s {
		if i == 0 || x != s[i-1] {
			out = append(out, x)
		}
	}
	return out
}

func round1(f float64) float64 { return float64(int(f*10+0.5)) / 10 }

func doReplay(plan Plan, path, tmp string) int {
	b, err := os.ReadFile(path)
	if err != nil {
		fatal2("replay: %v", err)
	}
	var f ev.Failure
	if err := json.Unmarshal(b, &f); err != nil {
		fmt.Fprintf(os.Stderr, "vcheck: %s is not a replayable case file (crash logs are kept for reading only)\n", path)
		return 2
	}
	var unit *Unit
	for i := range plan.Units {
		u := plan.Units[i]
		if u.Name == f.Unit || strings.HasPrefix(f.Unit, u.Name) || contains(u.ReplayUnits, f.Unit) {
			unit = &plan.Units[i]
			break
		}
	}
	if unit == nil {
		if len(plan.Units) == 0 {
			fatal2("replay: no units")
		}
		unit = &plan.Units[0]
	}
	abs, _ := filepath.Abs(path)
	if unit.Lab != nil {
		return replayLab(plan, *unit, abs, tmp)
	}
	out := filepath.Join(tmp, "replay.test")
	args := []string{"test", "-c", "-tags", "verif", "-vet=off", "-o", out}
	if unit.Race {
		args = append(args, "-race")
	}
	args = append(args, unit.Pkg)
	cmd := exec.Command("go", args...)
	cmd.Dir = root
	if b, err := cmd.CombinedOutput(); err != nil {
		fatal2("building %s failed: %v\n%s", unit.Pkg, err, b)
	}
	var envExtra []string
	for _, pb := range plan.Prebuild {
		o := filepath.Join(tmp, pb.Name)
		c := exec.Command("go", "build", "-tags", "verif", "-o", o, pb.Pkg)
		c.Dir = root
		if b, err := c.CombinedOutput(); err != nil {
			fatal2("prebuild %s failed: %v\n%s", pb.Name, err, b)
		}
		envExtra = append(envExtra, "VERIF_BIN_"+strings.ToUpper(pb.Name)+"="+o)
	}
	run := exec.Command(out, "-test.run", "^TestReplay$", "-test.v", "-test.timeout", "10m")
	run.Dir = tmp
	run.Env = append(os.Environ(), "VERIF_REPLAY="+abs, "VERIF_SCRATCH="+tmp)
	run.Env = append(run.Env, envExtra...)
	run.Env = append(run.Env, unit.Env...)
	o, err := run.CombinedOutput()
	os.Stdout.Write(o)
	if err != nil {
		fmt.Printf("VIOLATION property=%s replay=%s\n", plan.ID, path)
		return 1
	}
	fmt.Printf("%s replay passed: %s\n", plan.ID, path)
	return 0
}

func contains(s []string, x string) bool {
	for _, y := range s {
		if y == x {
			return true
		}
	}
	return false
}

func max(a, b int) int {
	if a > b {
		return a
	}
	return b
}
