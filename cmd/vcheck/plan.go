package main

import "time"

// Prebuild is a helper binary built from the working tree before units run;
// its path is exported as VERIF_BIN_<NAME>.
type Prebuild struct {
	Name string
	Pkg  string
	Dir  string
}

// LabSpec marks a unit whose test binary is built inside a generated lab
// module (see internal/genlab) instead of a package of /verif.
type LabSpec struct {
	Kind     string // which driver property set
	Programs [2]int // number of generated programs (quick, thorough)
}

// Unit is one test selection run as one or more sharded processes.
type Unit struct {
	Name        string
	Pkg         string // package path relative to /verif
	Run         string // -test.run regexp
	Rapid       bool   // pass -rapid.* flags
	RapidTests  int    // number of rapid.Check calls selected by Run (default 1)
	Shards      [2]int // quick, thorough (0 = unit not in that tier)
	Checks      [2]int // rapid checks per shard
	Race        bool
	Weight      int // CPU slots one shard occupies (default 1)
	Env         []string
	Args        []string
	Timeout     [2]time.Duration
	Fuzz        string // native fuzz target name (thorough only)
	FuzzTime    [2]time.Duration
	ReplayUnits []string // ev unit names replayed through this unit's package
	Lab         *LabSpec
}

func (u Unit) rapidTests() int {
	if u.RapidTests > 0 {
		return u.RapidTests
	}
	return 1
}

// Plan is everything vcheck knows about one property.
type Plan struct {
	ID          string
	Level       string
	Rule        string
	Assumptions []string
	Prebuild    []Prebuild
	Units       []Unit
}

var plans = map[string]Plan{
	"C02": {
		Level: "exploration",
		Rule: "cases are wire-value trees: (a) four finite spaces of small shapes walked completely, (b) rapid-generated trees to depth 6 with boundary scalars, raw double bit patterns and occasional >1MiB binaries, each under a drawn read segmentation. " +
			"Oracle: bytes == independent reference encoder for both writers; both readers invert exactly and consume exactly. " +
			"Non-trivial: the tree has a struct or container with at least one child. Distinct: SHA-256 of (reference encoding, root kind).",
		Assumptions: []string{
			"internal/refcodec is a correct statement of the Thrift binary protocol (written from the spec, self-inverse checked on every case)",
			"internal/bridge converts W <-> wire.Value and drives the stream API as its interface documents",
		},
		Units: []Unit{
			{Name: "small", Pkg: "./checks/c02", Run: "^TestSmallExhaustive$", Shards: [2]int{1, 1}},
			{Name: "random", Pkg: "./checks/c02", Run: "^TestRandom$", Rapid: true, Shards: [2]int{8, 16}, Checks: [2]int{4000, 40000}},
		},
	},
}
