package main

import "time"

// Prebuild is a helper binary built from the working tree before units run;
// its path is exported as VERIF_BIN_<NAME>.
type Prebuild struct {
	Name string
	Pkg  string
	Dir  string
}

// LabSpec marks a unit whose test binary is built inside a generated lab
// module (see internal/genlab) instead of a package of /verif.
type LabSpec struct {
	Kind     string // which driver property set
	Programs [2]int // number of generated programs (quick, thorough)
}

// Unit is one test selection run as one or more sharded processes.
type Unit struct {
	Name        string
	Pkg         string // package path relative to /verif
	Run         string // -test.run regexp
	Rapid       bool   // pass -rapid.* flags
	RapidTests  int    // number of rapid.Check calls selected by Run (default 1)
	Shards      [2]int // quick, thorough (0 = unit not in that tier)
	Checks      [2]int // rapid checks per shard
	Race        bool
	Weight      int // CPU slots one shard occupies (default 1)
	Env         []string
	Args        []string
	Timeout     [2]time.Duration
	Fuzz        string // native fuzz target name (thorough only)
	FuzzTime    [2]time.Duration
	ReplayUnits []string // ev unit names replayed through this unit's package
	Lab         *LabSpec
}

func (u Unit) rapidTests() int {
	if u.RapidTests > 0 {
		return u.RapidTests
	}
	return 1
}

// Plan is everything vcheck knows about one property.
type Plan struct {
	ID          string
	Level       string
	Rule        string
	Assumptions []string
	Prebuild    []Prebuild
	Units       []Unit
}

var plans = map[string]Plan{
	"C02": {
		Level: "exploration",
		Rule: "cases are wire-value trees: (a) four finite spaces of small shapes walked completely, (b) rapid-generated trees to depth 6 with boundary scalars, raw double bit patterns and occasional >1MiB binaries, each under a drawn read segmentation. " +
			"Oracle: bytes == independent reference encoder for both writers; both readers invert exactly and consume exactly. " +
			"Non-trivial: the tree has a struct or container with at least one child. Distinct: SHA-256 of (reference encoding, root kind). Also: the value the random-access decoder returns is itself encoded twice with an unrelated message decoded in between (the encoder does not own the value), must give the spec bytes both times and must still read back equal afterwards (keys reencode/*).",
		Assumptions: []string{
			"internal/refcodec is a correct statement of the Thrift binary protocol (written from the spec, self-inverse checked on every case)",
			"internal/bridge converts W <-> wire.Value and drives the stream API as its interface documents",
		},
		Units: []Unit{
			{Name: "small", Pkg: "./checks/c02", Run: "^TestSmallExhaustive$", Shards: [2]int{1, 1}},
			{Name: "random", Pkg: "./checks/c02", Run: "^TestRandom$", Rapid: true, Shards: [2]int{8, 16}, Checks: [2]int{4000, 12000}},
		},
	},
	"C03": {
		Level: "exploration",
		Rule: "cases are (bytes, requested wire type, read segmentation and concrete source types): the random-access decoder reads from a drawn io.ReaderAt (*bytes.Reader, *strings.Reader, *io.SectionReader, or a plain one that reports io.EOF together with the last bytes of the input or only on the next call; never short reads), the streaming reader and Skip from the drawn segmentation with and without Seek and, in two cases of five, from *bytes.Buffer, *bytes.Reader, *strings.Reader, *bufio.Reader or *io.SectionReader; inputs: uniform random bytes; grammar-aware mutations (length/count edits incl. -1, -2^31, 2^31-1, true+-1; type-byte swaps; bool bytes; field ids; truncation; bit flips; insert/delete) of reference encodings of random trees; every prefix of valid encodings; deep-nesting probes in child processes. " +
			"Oracle: no panic, no hang (20s watchdog, re-tried), decode+force success => re-encoding == consumed prefix (both readers) and Skip consumes exactly the same (seekable and non-seekable). " +
			"Non-trivial: the input decodes to a tree with a non-empty container, or a length/count/type byte was edited. Distinct: SHA-256 of (input, type). Also: wire.EvaluateValue must accept exactly the inputs whose lazily decoded containers can all be read element by element (key ra/evaluate-disagrees); unit big-binaries: valid structs of 1-3 binaries around the 1 MiB threshold of the streaming reader (symbolic cases, input rebuilt on replay).",
		Assumptions: []string{
			"internal/bridge's schema-less stream walker is a legitimate caller of stream.Reader (it rejects unknown type codes itself)",
			"bytes consumed = the position the owner of the source observes afterwards (Seek(0, current), bytes.Buffer.Len, bufio: handed out, not read ahead)",
			"a 20 s watchdog (x3 retries) on <=64 KiB inputs stands in for 'never hangs'",
			"deep-nesting probe: a child process dying with 'stack overflow' is the observation; depths 2^12..2^22",
		},
		Units: []Unit{
			{Name: "random-bytes", Pkg: "./checks/c03", Run: "^TestRandomBytes$", Rapid: true, Shards: [2]int{4, 8}, Checks: [2]int{20000, 80000}},
			{Name: "mutated", Pkg: "./checks/c03", Run: "^TestMutated$", Rapid: true, Shards: [2]int{8, 16}, Checks: [2]int{20000, 60000}},
			{Name: "truncate-all", Pkg: "./checks/c03", Run: "^TestTruncateEverywhere$", Rapid: true, Shards: [2]int{2, 8}, Checks: [2]int{500, 3000}},
			{Name: "big-binaries", Pkg: "./checks/c03", Run: "^TestBigBinaries$", Rapid: true, Shards: [2]int{2, 4}, Checks: [2]int{30, 200}},
			{Name: "deep-nesting", Pkg: "./checks/c03", Run: "^TestDeepNesting$", Shards: [2]int{1, 1}, Weight: 4},
			{Name: "fuzz", Pkg: "./checks/c03", Fuzz: "FuzzReadValue", Shards: [2]int{0, 1}, FuzzTime: [2]time.Duration{0, 120 * time.Second}, Weight: 16},
		},
	},
	"C12": {
		Level: "exploration",
		Rule: "cases: (a) envelopes (name 1..2^16 bytes incl. non-UTF-8 and ':'-multiplexed, type 0..127, seqid at int32 boundaries, random struct body) under a drawn segmentation; (b) requests in the three framings with matching / wrong message type, two drawn segmentations (often with a 1-byte first read) and a reply to send back; (c) arbitrary / truncated / header-scrambled / body-mutated request bytes; (d) a complete grid of first-read sizes; (e) histories of 1..6 requests served through the one shared protocol object, each step drawing its API (DecodeRequest, ReadRequest, Protocol.Reader + ReadEnvelopeBegin), framing, seekable / non-seekable segmentation and a handler that knows a drawn subset of the body's field ids and skips (stream.Reader.Skip) the others; (f) internal/envelope server and client, alone or behind 1..3 stacked multiplexers (levels often sharing the service name), with method names that contain ':', equal the service name or start with \"<service>:\". " +
			"Oracle: writers == reference envelope bytes; readers invert; DecodeRequest and ReadRequest classify as sent, agree with each other, ReadRequest is segmentation-independent and accepts whatever DecodeRequest accepts; replies parse (reference decoder) as the request's framing with echoed name/seqid; every step of a history gives the outcome of the stateless model (known fields of the body, framing, echo) whatever was served before it; the multiplexed client's request carries one \"<service>:\" prefix per level and the service's handler receives exactly the method name the client was given. " +
			"Non-trivial: non-empty body, or wrong-type envelope, or (for byte cases) accepted by at least one API, or (histories) >= 2 steps with at least one skipped field. Distinct: SHA-256 of the request/envelope bytes (+expected type).",
		Assumptions: []string{
			"internal/refcodec envelope/legacy-envelope layout is a correct reading of the Thrift spec",
			"'accepts' for DecodeRequest includes forcing the lazily decoded body",
			"internal/envelope, internal/multiplex are reached through the verif-tagged re-export package go.uber.org/thriftrw/verifhook",
			"a request handler that reads the fields it knows and calls Skip on the others (what generated Decode methods do) must obtain exactly those fields; service names contain no ':' (the multiplex handler splits at the first one)",
		},
		Units: []Unit{
			{Name: "envelope", Pkg: "./checks/c12", Run: "^TestEnvelopeRoundTrip$", Rapid: true, Shards: [2]int{4, 8}, Checks: [2]int{8000, 40000}},
			{Name: "request", Pkg: "./checks/c12", Run: "^TestRequests$", Rapid: true, Shards: [2]int{6, 12}, Checks: [2]int{8000, 30000}},
			{Name: "request-bytes", Pkg: "./checks/c12", Run: "^TestRequestBytes$", Rapid: true, Shards: [2]int{4, 12}, Checks: [2]int{8000, 30000}},
			{Name: "first-read-grid", Pkg: "./checks/c12", Run: "^TestFirstReadGrid$", Shards: [2]int{1, 1}},
			{Name: "request-history", Pkg: "./checks/c12", Run: "^TestRequestHistory$", Rapid: true, Shards: [2]int{4, 12}, Checks: [2]int{1500, 12000}},
			{Name: "server-client", Pkg: "./checks/c12", Run: "^TestServerClient$", Rapid: true, Shards: [2]int{2, 8}, Checks: [2]int{6000, 25000}},
		},
	},
	"C13": {
		Level: "exploration",
		Rule: "cases are (decoding API, message <=96 bytes): a complete grid placing 2^16, 2^20, 2^24, 2^28, 2^31-1 at every position where the format carries a length or count (binary length; list/set count x 11 element kinds; map count x 8 key/value kinds; nested positions; top-level containers; strict and legacy envelope name length; frame length; the same bodies behind an envelope) x every API x concrete source types (streaming APIs: a plain non-seekable reader, *bytes.Buffer, *bytes.Reader, *bufio.Reader; random-access APIs: *bytes.Reader and a plain io.ReaderAt reporting io.EOF together with the last bytes); every container/binary field of the repository's generated plugin-API types and of freshly generated programs (top level and one struct level down; containers also announcing other element types: fixed-width ones and binary, for maps key / value / both) x {FromWire(Decode), Decode(stream)} x source types (headers announcing the declared element type with a count above 2^20 over the default source only: known finding K1 makes each cost gigabytes); long payloads: every binary-length position (fields, container elements, envelope names, frame; every string / binary field of the generated types) with a real payload of 1 MiB, 1 MiB+1, 1 MiB+4096 bytes that declares 2^29 or 2^31-1 and ends there; plus rapid-generated mutated short messages over a drawn source type (also *strings.Reader, *io.SectionReader). " +
			"Each call runs in a child process (RLIMIT_AS 6 GiB); oracle: runtime.MemStats.TotalAlloc delta <= 24 MiB + 64*N, CPU <= 2 s (re-measured alone twice; a child stops itself after 6 s of CPU in one case, and after 4 such stops the rest of its batch is not measured: the run has failed), child not killed. " +
			"Non-trivial: the message carries a declared length >= 2^16 or is a mutation. Distinct: SHA-256 of (API, message, source type, padding).",
		Assumptions: []string{
			"TotalAlloc delta around one call in an otherwise idle child is the allocation caused by the call",
			"24 MiB + 64 N is a generous reading of 'a fixed constant plus a small multiple of N' (covers the documented 1 MiB binary threshold and 10 MiB frame fast path)",
			"the streaming body walker used for ReadRequest / ReadEnvelopeBegin (internal/bridge) allocates only per element actually read",
			"copying the message into the concrete source (*bytes.Buffer, *strings.Reader) is part of the measured call: N bytes, inside the 64 N term",
			"the source types are the standard library's usual ones; a reader type of the user's own with further optional interfaces is not covered",
		},
		Units: []Unit{
			{Name: "grid", Pkg: "./checks/c13", Run: "^TestGrid$", Shards: [2]int{8, 8}, Weight: 2},
			{Name: "gen-grid", Pkg: "./checks/c13", Run: "^TestGenGrid$", Shards: [2]int{4, 4}, Weight: 2},
			{Name: "mutated", Pkg: "./checks/c13", Run: "^TestMutated$", Rapid: true, Shards: [2]int{4, 16}, Checks: [2]int{600, 4000}, Weight: 2},
			{Name: "c13-gen", Run: "^TestC13Gen$", Shards: [2]int{6, 12}, Weight: 2, Lab: &LabSpec{Kind: "value", Programs: [2]int{6, 30}}},
		},
	},
	"C07": {
		Level: "exploration",
		Rule: "cases are (multi-file program, resolution order): programs from the constructive generator (forward/backward/cross-file references, typedef chains incl. chains through a struct that refers back, diamond and cyclic includes, constants/defaults of every type, service inheritance; definitions shuffled in each file) x (a) a drawn order for every map the compiler iterates (includes, types, constants, services of every module) through compile.CompileWithLinkOrder plus 3 plain Compile repetitions, (b) ALL permutations of each small module's types (<=6), constants, services, includes (<=4), (c) the same for deliberately invalidated programs. " +
			"Oracle: canonical dump of the compiled Module graph == dump computed from the model's by-construction bindings (typedef target and root, field ids/types/requiredness, evaluated constants and defaults, enum values, service parents, shared include identity), and identical dumps / identical success-or-failure across all orders. " +
			"Non-trivial: the program has a typedef chain, a cross-file typedef, a typedef-struct cycle or a diamond include (or is invalidated). Distinct: SHA-256 of (program JSON, orders). Programs also contain reference cycles across two files that include each other (typedef in one, target struct in the other, default on the back reference), mutually recursive struct pairs with a {} default closing the cycle, back-reference defaults given through a constant; unit known-shapes re-observes the two hand-kept K4 programs under every type link order.",
		Assumptions: []string{
			"compile.CompileWithLinkOrder (verif hook) only chooses one of the orders Go's map iteration could produce: it pre-links in the chosen order and then runs the unmodified link pass; its agreement with plain Compile is itself checked (natural repetitions)",
			"internal/idlmodel reference semantics (scoping by construction, constant casting rules as documented in compile/constant_value.go)",
			"dotted local names next to include-qualified names are not generated",
		},
		Units: []Unit{
			{Name: "orders", Pkg: "./checks/c07", Run: "^TestOrders$", Rapid: true, Shards: [2]int{6, 12}, Checks: [2]int{600, 8000}},
			{Name: "all-orders", Pkg: "./checks/c07", Run: "^TestAllOrders$", Rapid: true, Shards: [2]int{6, 16}, Checks: [2]int{50, 500}},
			{Name: "invalid", Pkg: "./checks/c07", Run: "^TestInvalid$", Rapid: true, Shards: [2]int{4, 8}, Checks: [2]int{500, 6000}},
			{Name: "known-shapes", Pkg: "./checks/c07", Run: "^TestKnownShapes$", Shards: [2]int{1, 1}},
		},
	},
	"C09": {
		Level: "exploration",
		Rule: "cases are single-file programs whose numeric literals (decimal, hex, signed) are drawn at and next to 0, +-1, +-2^7, +-2^15, +-2^31, 2^32, +-2^63 in every numeric position (explicit / implicit enum values, explicit / implicit-negative field ids, i8/i16/i32/i64 constants and defaults, enum defaults by value), strict and non-strict, with injected duplicate ids / names / items and constant / service cycles of length 1..3; plus well-formed multi-file programs from the constructive generator. " +
			"Oracle (two-directional): a source violating range / uniqueness / acyclicity must be rejected; an accepted source must carry exactly the numbers written (read from FieldSpec.ID, EnumItem.Value, linked constants and defaults); clearly valid sources must be accepted. " +
			"Non-trivial: a literal within 1 of a type boundary, or a violation present. Distinct: SHA-256 of the source text and mode.",
		Assumptions: []string{
			"'clearly valid' = no violation and only constructs thriftrw documents it accepts (explicit ids >= 1 ...); other violation-free sources may be rejected without alarm",
			"compile runs in-process: a fatal stack overflow in the compiler kills the shard and is reported from its log",
		},
		Units: []Unit{
			{Name: "numeric", Pkg: "./checks/c09", Run: "^TestNumeric$", Rapid: true, Shards: [2]int{8, 16}, Checks: [2]int{15000, 50000}},
			{Name: "safe-programs", Pkg: "./checks/c09", Run: "^TestSafePrograms$", Rapid: true, Shards: [2]int{4, 8}, Checks: [2]int{2500, 10000}},
		},
	},
	"C20": {
		Level: "exploration",
		Rule: "cases are (base multi-file Thrift program, edit script) committed as HEAD~ and HEAD of a scratch git repository: 1-5 files in nested directories with includes along a DAG; 0-7 edits drawn from 5 breaking kinds (remove service, remove method, add required field to an existing struct, optional->required on fields without a default and on fields whose old version carried a default value (the default is dropped with the edit), change a field's declared type name) and 14 compatible kinds (add optional field / method / service / struct / enum / constant / typedef / file / include, reorder, required->optional, delete struct, delete file, remove include); 15+3 enumerated pairs (the 15 each under four file-mode variants). What git records about a file besides its contents varies too: in half of the random cases every path (Thrift files, the non-Thrift file) carries the executable bit (tree mode 100755) in both commits, in HEAD~ only, in HEAD only (a mode change with or without a change of contents) or in neither; a fifth of the repositories are packed (git gc) before the run. The real thriftbreak binary is run in readable and --json mode (and again on reordered renderings). " +
			"Oracle: multiset of (file, kind, subject names) parsed from the output == the multiset known by construction from the edit script; exit status != 0 iff non-empty. " +
			"Non-trivial: >=1 breaking edit or >=2 compatible edits. Distinct: SHA-256 of the JSON case (all file texts of both versions).",
		Assumptions: []string{
			"the five message phrases and %q-quoted names are the tool's interface; a file attribution is correct if it is the repo-relative path or the base name",
			"ambiguous edits (a name moved between files, required field added with a default, renames) are not generated",
			"a Thrift file is a regular git blob (mode 100644 or 100755); symbolic links (to files or directories) and submodules are not committed: internal/git reads blobs by their tree path and does not follow links, and the statement speaks of files",
			"a field declared `required` together with a default value is compiled as not required by thriftrw; edits that end in (or start from) that shape are not generated because the statement does not say whether they count as 'required'",
		},
		Prebuild: []Prebuild{{Name: "thriftbreak", Pkg: "go.uber.org/thriftrw/cmd/thriftbreak"}},
		Units: []Unit{
			{Name: "edit-scripts", Pkg: "./checks/c20", Run: "^TestEditScripts$", Rapid: true, Shards: [2]int{12, 16}, Checks: [2]int{150, 2000}},
			{Name: "rename-like", Pkg: "./checks/c20", Run: "^TestRenameLike$", Rapid: true, Shards: [2]int{2, 4}, Checks: [2]int{60, 300}},
			{Name: "fixed-pairs", Pkg: "./checks/c20", Run: "^TestFixedPairs$", Shards: [2]int{1, 1}},
			{Name: "delete-and-add", Pkg: "./checks/c20", Run: "^TestDeleteAndAdd$", Shards: [2]int{1, 1}},
		},
	},
	"C08": {
		Level: "exploration",
		Rule: "cases are file sets fed to compile.Compile and, when that succeeds, gen.Generate, in child processes: arbitrary bytes; token-level mutations (delete / duplicate / swap / keyword<->identifier / hostile literals / token copied from elsewhere / raw bytes) of rendered generated programs; valid generated programs; structurally built programs around 18 kinds of reference cycle or dangling reference (typedef, typedef through containers, constant, constant<->struct default, struct default naming its own type, default chains, required-struct cycles, union self-reference, service extends, include loops, self include, deep typedef chains ...) of length 1..4, with a complete grid over (kind, length). " +
			"Oracle: every input ends in value or error: a recovered panic, a child killed by a fatal error (stack limit 64 MiB) or a batch exceeding 4 minutes (re-run alone twice) is a violation. " +
			"Non-trivial: structural inputs (cycle or dangling reference), or inputs that got past the parser. Distinct: SHA-256 of the file set. Structural shapes live in shape.thrift (not main.thrift, which the generator refuses), cycles run through every container position (element, set member, map key, map value, nested), and one shape is a generated program of up to four files that all define one shared type name. Ceilings are CPU time of the child since its last progress report (150 s, then 300 s alone, twice); wall time alone only yields 'inconclusive'.",
		Assumptions: []string{
			"debug.SetMaxStack(64 MiB) in the child: inputs are a few KiB, legitimate recursion is shallow",
			"a 4 minute ceiling per batch of 250 inputs (normal: seconds) stands in for 'terminates'",
		},
		Units: []Unit{
			{Name: "inputs", Pkg: "./checks/c08", Run: "^TestInputs$", Rapid: true, Shards: [2]int{12, 16}, Checks: [2]int{200, 4000}},
			{Name: "structural-grid", Pkg: "./checks/c08", Run: "^TestStructuralGrid$", Shards: [2]int{1, 1}},
		},
	},
	"C11": {
		Level: "exploration",
		Rule: "cases are documents: (roundtrip, walk) AST models drawn from the full grammar (every header, definition, type, constant and annotation form, docstrings: single-line, starred and bare blocks, and docstrings without any body - /***/, /** */, /**\\n*/, blank lines, gutter-only and whitespace-only lines, CRLF - on definitions, enum items, fields, parameters and functions, 0 / 1 / >=2 newlines above the node, orphaned ones in front of a node's own docstring, between any two tokens >=2 newlines above what follows, and at the end of the document) printed by an independent printer with randomised layout (blanks incl. CR and newlines after any token, #, //, /* */ comments, optional separators, both quote styles with every escape, hex / signed ints, doubles with exponents) that records the true (line, column) of each node's first token; (totality) random bytes, ASCII / token soup and token-level mutations of printed documents; plus a fixed grid of minimal reproductions and a complete grid (docgrid) of 23 degenerate docstrings x 12 documentable node kinds x 4 placements. " +
			"Oracle: parsed tree == model in structure, names, literal values, docstrings and positions (ast.Pos, Info.Pos, Line/Column); ast.Walk == own traversal (each node once, true parents); Parse returns exactly one of program / non-empty error list with positions inside the document, never panics. " +
			"Non-trivial: >=3 definitions and >=1 of {escape in a literal, comment between tokens, keyword followed by newline, docstring}; totality: non-empty input. Distinct: SHA-256 of the document text.",
		Assumptions: []string{
			"the generator emits only syntax that thrift.y / lex.rl accept (read from those files); 'true position' = first token of the node's production",
			"input classes of open known findings are excluded by construction in the random units (C11_AVOID) and counted; the fixed grid re-observes them on every run",
			"the content of a docstring without body (only markers, blanks, newlines and lines holding the gutter ' *') is the empty string (ParseDocstring's documented rule: the text between the markers without gutters and indentation); all gutter lines of one docstring are indented alike (the documented form); the four-byte text /**/ is a comment, never generated as a docstring (N1)",
		},
		Units: []Unit{
			{Name: "roundtrip", Pkg: "./checks/c11", Run: "^TestRoundTrip$", Rapid: true, Shards: [2]int{6, 16}, Checks: [2]int{20000, 100000}, Env: []string{"C11_AVOID=K2,N1"}},
			{Name: "walk", Pkg: "./checks/c11", Run: "^TestWalk$", Rapid: true, Shards: [2]int{4, 8}, Checks: [2]int{16000, 100000}, Env: []string{"C11_AVOID=K2,N1"}},
			{Name: "totality", Pkg: "./checks/c11", Run: "^TestTotality$", Rapid: true, Shards: [2]int{6, 16}, Checks: [2]int{25000, 150000}, Env: []string{"C11_AVOID=K2,N1"}},
			{Name: "repros", Pkg: "./checks/c11", Run: "^TestRepros$", Shards: [2]int{1, 1}},
			{Name: "docgrid", Pkg: "./checks/c11", Run: "^TestDocGrid$", Shards: [2]int{1, 1}},
			{Name: "fuzz", Pkg: "./checks/c11", Fuzz: "FuzzParse", Shards: [2]int{0, 1}, FuzzTime: [2]time.Duration{0, 120 * time.Second}, Weight: 16, Env: []string{"C11_AVOID=K2,N1"}},
		},
	},
	"C16": {
		Level: "fault_enumeration",
		Rule: "cases are script sets for 1-3 scripted fake plugins (own framing / envelopes via internal/refcodec) run by the real thriftrw binary: per protocol step (handshake, generate, goodbye) x fault kind (ok, wrong name, wrong API version, feature missing, missing field, exception envelope, wrong envelope type, garbage frame, raw garbage, truncation at every byte offset of the reply frame, oversized length prefix, exit before read / after read / after reply, a flood of junk instead of the reply) x flood modifier (a complete reply followed by 1 B .. 1 MiB of junk in one write - below and above the 64 KiB pipe buffer, four patterns - then exit) x write mode (whole, bytewise, drawn segments with pauses) x advertised feature list of a conforming handshake ([SERVICE_GENERATOR], empty, only values the host does not know such as [2] / [0] / [7,9], those next to SERVICE_GENERATOR, repetitions) x exit status x linger x the rest of the command line (plain; valid --output-file; generator flags; runs failing for reasons of their own: --output-file without .go, no / two / missing input files, unknown flag, input that does not compile, thrift root that is no ancestor, no package prefix, plugin not on the PATH, --version, --help, input that does not generate, unwritable --out; before or after the --plugin flags). Complete grids: truncation (210), fault (198), command line (270), pairs (4356, thorough); random scripts; the public plugin.Main driven over a segmented byte stream. " +
			"Oracle (history checking): each plugin's event trace is accepted by the protocol automaton; generate only after a conforming handshake whose feature list contains SERVICE_GENERATOR; exactly one goodbye to every conforming plugin still reading; every started plugin saw EOF (or was released from a blocked write by the host closing its pipe) and exited before the host; the host terminates; host exit status != 0 iff some plugin failed, and then stderr names it (the exit status is not judged when the command line itself makes the run fail; the life-cycle clauses are). " +
			"Non-trivial: >=1 deviation or >=2 plugins. Distinct: SHA-256 of the script set.",
		Assumptions: []string{
			"which fault kinds make a plugin 'failed' is fixed by harness/fplab.IsFailure (everything except ok, feature-missing, segmented writes, linger, exit-after-goodbye-reply)",
			"a handshake advertising unknown feature values (alone or next to SERVICE_GENERATOR) is a conforming handshake, not a failure; only the 'only after' direction of the gate is asserted (whether generate is sent to an advertising plugin is C17's business)",
			"one O_APPEND event log gives the global order of plugin events and the host-exit marker; 60 s ceiling (x2) for hangs, cut short when from 10 s on every thread of the host's process group sleeps for 5 s without CPU time or new events (blocked for good)",
			"junk on stdout where a reply is due (handshake, generate, instead of goodbye) makes the plugin a failed plugin; junk after a conforming goodbye reply is left open by the statement: either exit status is accepted, termination and reaping are still required",
		},
		Prebuild: []Prebuild{{Name: "thriftrw", Pkg: "go.uber.org/thriftrw"}, {Name: "fakeplugin", Pkg: "verif/harness/fakeplugin"}, {Name: "libplugin", Pkg: "verif/harness/libplugin"}},
		Units: []Unit{
			{Name: "truncation-grid", Pkg: "./checks/c16", Run: "^TestTruncationGrid$", Shards: [2]int{2, 2}},
			{Name: "fault-grid", Pkg: "./checks/c16", Run: "^TestFaultGrid$", Shards: [2]int{2, 2}},
			{Name: "cli-grid", Pkg: "./checks/c16", Run: "^TestCLIGrid$", Shards: [2]int{1, 1}},
			{Name: "pair-grid", Pkg: "./checks/c16", Run: "^TestPairGrid$", Shards: [2]int{0, 8}},
			{Name: "random", Pkg: "./checks/c16", Run: "^TestRandomScripts$", Rapid: true, Shards: [2]int{10, 16}, Checks: [2]int{40, 250}},
			{Name: "lib", Pkg: "./checks/c16", Run: "^TestLibPlugin$", Rapid: true, Shards: [2]int{2, 4}, Checks: [2]int{150, 2000}},
		},
	},
	"C17": {
		Level: "fault_enumeration",
		Rule: "cases are sandboxes (Thrift sources in a layout, output dir fresh or pre-populated, 0-3 scripted plugins returning files - plugins of different names, or several instances of one plugin started with different arguments) run through the real thriftrw binary with the whole sandbox snapshotted (path, mode, SHA-256) before and after. Complete grids: 11 plugin path shapes x {independent; equal to a core path with bytes of its own / exactly the core-generated bytes / those bytes with one byte changed; equal to another plugin's path with bytes of its own / identical bytes; equal to the path of a second instance of the same plugin, likewise} x pre-population (176); k-th of n modules fails x 5 failure kinds (500); failing plugin i of n x 22 handshake/generate failure kinds (264); 18 thrift-root / out-dir layouts incl. sibling directories and files that differ in letter case only, below and beside the root (648); plus random combinations (a quarter with one or two path components of a drawn layout re-spelled in another case; a third of the later plugins being a further instance of an earlier one). " +
			"Oracle: nothing outside the output dir changes; exit != 0 => snapshot unchanged; same destination from two sources (core / plugin process, whatever the plugins' names) => error, whatever the two contents are; exit 0 => exactly the predicted files exist with the predicted contents. " +
			"Non-trivial: a plugin path that is not a plain relative path, or a case that must fail. Distinct: SHA-256 of the case JSON.",
		Assumptions: []string{
			"lexical cleaning is the meaning of 'the same path' (no symlinks in the sandbox; the file system is case-sensitive, names differing in case are different paths); two processes of one plugin executable are two sources, one process returning two spellings of one destination is not exercised; only handshake- and generate-phase plugin failures are injected (as the statement lists); write-phase I/O errors are outside the statement (see DESIGN.md)",
			"the bytes the core generator produces for a path are learnt from a preliminary run of the same command line without plugins in a sandbox at the same absolute path; if that run fails the plugin returns a fixed text instead (the case then must fail anyway)",
		},
		Prebuild: []Prebuild{{Name: "thriftrw", Pkg: "go.uber.org/thriftrw"}, {Name: "fakeplugin", Pkg: "verif/harness/fakeplugin"}},
		Units: []Unit{
			{Name: "path-grid", Pkg: "./checks/c17", Run: "^TestPathGrid$", Shards: [2]int{1, 1}},
			{Name: "module-failure-grid", Pkg: "./checks/c17", Run: "^TestModuleFailureGrid$", Shards: [2]int{3, 3}},
			{Name: "plugin-failure-grid", Pkg: "./checks/c17", Run: "^TestPluginFailureGrid$", Shards: [2]int{2, 2}},
			{Name: "layout-grid", Pkg: "./checks/c17", Run: "^TestLayoutGrid$", Shards: [2]int{3, 3}},
			{Name: "random", Pkg: "./checks/c17", Run: "^TestRandom$", Rapid: true, Shards: [2]int{7, 16}, Checks: [2]int{40, 200}},
		},
	},
	"C01": {
		Level: "exploration",
		Rule: "cases are (generated program, named type, value): programs from the constructive generator (1-3 files; all base types; nested containers incl. unhashable keys and slice-annotated sets; typedef chains; enums; structs / unions / exceptions incl. recursive ones; defaults and constants of every literal form; services with inheritance; go.* annotations) generated with drawn option sets (zap on/off, strict enum text, single output file, no-recurse, no-embed-idl) by the working tree's compile+gen into a scratch module; for every struct, union, exception, typedef, enum, args and result type, schema-directed values (absent / present optionals, empty / non-empty containers, boundary numbers, raw double bits, unknown enum values), re-ordered on the wire for the deserializers and delivered under a drawn read segmentation. " +
			"Oracle: bytes of x.Encode(stream) and of Encode(x.ToWire()) decode under the independent reference codec to the value with declared defaults filled; x.Decode(stream) and x.FromWire(Decode()) of a reference encoding read back (by reflection) as that value. " +
			"Schema-violating Go values (required reference field nil, union with 0 / 2 members, nil struct element in a list / slice-set / map value / unhashable map key; planted at any depth of a valid value) must be refused by Encode and by Encode(ToWire()); every constant and Default_ constructor of the lab (complete walk) must equal the model's evaluation of the IDL literal cast to its type; Get/IsSet accessors on drawn values and nil receivers return value / declared default / zero. " +
			"Non-trivial: the type has >=2 fields or is a container typedef, and the value contains a container, nested struct or filled default (invalid-value, static and default-bearing accessor cases always count). Distinct: SHA-256 of (program, type, canonical value[, violation]). Every fourth lab program is compiled in non-strict mode (fields without requiredness, negative field ids in structs); empty required lists are handed to the serializers as nil slices half of the time; a documented generated symbol that is missing is a violation (missing/<kind>).",
		Assumptions: []string{
			"harness/drv converts wire trees <-> Go values by reflection following the documented Go type mapping and idlmodel.GoName; a mismatch surfaces as a driver error (key driver/*), never as silence",
			"idlmodel reference semantics for defaults (Fill / Eval)",
			"programs whose generated Go does not build are skipped here (counted under skipped_programs) and reported by C06",
		},
		Units: []Unit{
			{Name: "c01-values", Run: "^TestC01$", Rapid: true, Shards: [2]int{8, 16}, Checks: [2]int{1500, 10000}, Lab: &LabSpec{Kind: "value", Programs: [2]int{24, 160}}},
			{Name: "c01-invalid", Run: "^TestC01Invalid$", Rapid: true, Shards: [2]int{4, 8}, Checks: [2]int{1500, 10000}, Lab: &LabSpec{Kind: "value", Programs: [2]int{24, 160}}},
			{Name: "c01-accessors", Run: "^TestC01Accessors$", Rapid: true, Shards: [2]int{3, 6}, Checks: [2]int{1500, 10000}, Lab: &LabSpec{Kind: "value", Programs: [2]int{24, 160}}},
			{Name: "c01-static", Run: "^TestC01Static$", Shards: [2]int{1, 1}, Lab: &LabSpec{Kind: "value", Programs: [2]int{24, 160}}},
		},
	},
	"C06": {
		Level: "exploration",
		Rule: "cases are (multi-file program, CLI option set): (safe pool) programs whose identifiers cannot clash after Go name mapping, over every type constructor, typedef chains, defaults and constants of every literal form (incl. defaults on typedef'd types, cross-file enum defaults, struct / union / container literals), recursive types, services with inheritance across files, go.name / go.label / go.tag / go.type / go.redact / go.nolog annotations (also on parameters and exceptions); (hostile pool) the same with identifiers and file names drawn from Go keywords, initialisms, SCREAMING_CASE, generated method / helper names, names colliding after case mapping, std / runtime package names, cyclic includes, repeated exception types; x option sets {no-zap, enum-text-marshal-strict, no-recurse, output-file, no-embed-idl}. Programs are generated by the working tree's compile+gen and built with go build (plus go vet in the thorough tier) in a scratch module. " +
			"Oracle: safe => accepted and the emitted Go builds; hostile => rejected with an error (and nothing written) or the emitted Go builds. " +
			"Non-trivial: the program instantiates a shape class absent from the repository fixtures (listed in the class histogram) or comes from the hostile pool. Distinct: SHA-256 of (program JSON, options). Programs also contain: one shared type name defined by every file (struct / enum / typedef / exception, also named like a native type: String, I32, ...) with a struct per file naming every visible one in containers and a function throwing all same-named exceptions; files named like local variables of the generated code or like packages it imports (v, err, fmt, init, strings, ...); constants in same-type families and of named types with one-word ALL-CAPS / lower / Title names.",
		Assumptions: []string{
			"the safe pool makes Go-name clashes impossible by construction (distinct stems, no reserved words, no generated-method names); a function throwing one exception type twice counts as not representable in Go (hostile pool)",
			"go vet diagnostics are recorded, only build errors count",
			"the hidden --generate-plugin-api output is not built (it imports thriftrw internals)",
		},
		Units: []Unit{
			{Name: "safe", Pkg: "./checks/c06", Run: "^TestSafe$", Shards: [2]int{5, 10}, Weight: 2},
			{Name: "hostile", Pkg: "./checks/c06", Run: "^TestHostile$", Shards: [2]int{4, 8}, Weight: 2},
		},
	},
	"C04": {
		Level: "exploration",
		Rule: "cases are (generated type, byte string, three read segmentations): reference encodings of valid values in shuffled wire order, encodings under an evolved writer schema (dropped / unknown / retyped fields at any depth, retyped container elements, changed union arity), grammar-aware mutations of valid encodings, and random bytes, for every struct-like type (incl. args / result structs) of freshly generated programs; plus Go values, valid or with one planted schema violation, for the serializer half. " +
			"Oracle (differential): Decode(stream) gives the same outcome and value under every segmentation; whatever FromWire(Decode(b)) accepts, Decode(stream) accepts with an equal value (by reflection read-back and by re-encoding); Encode(stream) and Encode(ToWire()) both fail or both succeed with encodings of equal values. " +
			"Non-trivial: evolved or mutated input accepted by at least one path; or a schema-violating Go value. Distinct: SHA-256 of (program, type, input).",
		Assumptions: []string{
			"the streaming path may accept more than the value path (it does not validate skipped fields): that direction is not asserted",
			"inputs declaring a container count above 2^16 are excluded by construction (known finding K1 of C13 would kill the lab process) and counted",
			"harness/drv reflection mapping",
		},
		Units: []Unit{
			{Name: "c04", Run: "^TestC04$", Rapid: true, Shards: [2]int{10, 16}, Checks: [2]int{3000, 15000}, Lab: &LabSpec{Kind: "value", Programs: [2]int{16, 120}}},
			{Name: "c04-encode", Run: "^TestC04Encode$", Rapid: true, Shards: [2]int{4, 8}, Checks: [2]int{1500, 10000}, Lab: &LabSpec{Kind: "value", Programs: [2]int{16, 120}}},
			// the two decoding paths on messages with one very long unknown field (shared with C05; both must accept, with equal values)
			{Name: "c05-big", Run: "^TestC05Big$", Shards: [2]int{1, 2}, Lab: &LabSpec{Kind: "value", Programs: [2]int{16, 120}}},
		},
	},
	"C05": {
		Level: "exploration",
		Rule: "cases are (reader type R from a freshly generated program, wire tree written under an evolved schema): a valid value of R edited at random nodes of any depth by the inverse evolution steps (field removed: optional or required; unknown field of arbitrary shape injected at any boundary; known id carrying another wire kind; container with another element / key / value type; extra known member added, changing union arity), shuffled, delivered under a drawn segmentation to both decoding paths. " +
			"Oracle: both paths return exactly what the reference projection (idlmodel.Project) computes from the wire tree: error iff a required-without-default field is missing or mistyped or a union does not end with exactly one member at any depth; otherwise the projected value with unknown / retyped fields ignored and defaults filled. " +
			"Non-trivial: at least one edit applied. Distinct: SHA-256 of (program, type, wire encoding).",
		Assumptions: []string{
			"a container whose element types differ from the declared ones decodes to nil without error (seen for a required field, not a member for union arity); nil and empty containers are not distinguished when comparing",
			"which occurrence of a duplicated field wins is not asserted (duplicates of known fields are not generated)",
			"harness/drv reflection mapping; idlmodel.Project",
		},
		Units: []Unit{
			{Name: "c05", Run: "^TestC05$", Rapid: true, Shards: [2]int{14, 16}, Checks: [2]int{3000, 15000}, Lab: &LabSpec{Kind: "value", Programs: [2]int{16, 120}}},
			{Name: "c05-big", Run: "^TestC05Big$", Shards: [2]int{1, 2}, Lab: &LabSpec{Kind: "value", Programs: [2]int{16, 120}}},
		},
	},
	"C14": {
		Level: "exploration",
		Rule: "cases are triples (v, v in another wire order, v with one perturbation: leaf change, presence flip, length change, list swap, at top level or nested) of NaN-free duplicate-free logical values of every named type of freshly generated programs; all three Go values are obtained by decoding reference encodings through the generated code (value path and streaming path mixed); plus pairs of arbitrary wire values for wire.ValuesAreEqual. " +
			"Oracle: generated Equals == wire.ValuesAreEqual of the wire forms == independent structural comparison of the logical values (doubles by ==, sets / maps as multisets, lists ordered), in both argument orders; reflexive; nil receiver / argument never panics. " +
			"Non-trivial: the value has an unordered container with >=2 elements or the perturbation is nested. Distinct: SHA-256 of (program, type, v, perturbed v).",
		Assumptions: []string{
			"harness/drv reflection mapping; wiremodel.SemEqual as the structural comparison",
		},
		Units: []Unit{
			{Name: "c14", Run: "^TestC14$", Rapid: true, Shards: [2]int{10, 16}, Checks: [2]int{3000, 15000}, Lab: &LabSpec{Kind: "value", Programs: [2]int{16, 120}}},
			{Name: "wire-pairs", Pkg: "./checks/c14", Run: "^TestWirePairs$", Rapid: true, Shards: [2]int{4, 8}, Checks: [2]int{16000, 60000}},
		},
	},
	"C15": {
		Level: "exploration",
		Rule: "cases are (generated type, value, value differing only in go.redact field values, value differing only in go.nolog fields) over programs generated with one field in two carrying go.redact and one in four go.nolog, on fields of every type, in structs, unions, exceptions and function argument / result structs, reached through lists, sets, maps and typedefs; both annotations written bare half of the time and otherwise with a value (empty, true / 1 / TRUE / T, pii, yes, secret, credentials, on, gdpr, 'email address'); typedefs, structs, unions, exceptions, enums and base / container type expressions carry annotations of other tools (validate.format, owner, pii, ...; slice-annotated sets too), so that the type of a redacted / no-log field often has annotations of its own; string / binary leaves of redacted fields carry unique markers; zap generation on and off. " +
			"Oracle: String(), Error() and the zap JSON (arrays compared as multisets) are identical for values that differ only in redacted field values; zap JSON is identical for values that differ only in no-log fields; no marker (raw, base64, decimal bytes) occurs in any output; every other set top-level field appears (Go name in String(), label key in zap) and no-log keys are absent. " +
			"Non-trivial: a redacted field sits at nesting depth >=1 below the printed value. Distinct: SHA-256 of (program, type, value, alternative value).",
		Assumptions: []string{
			"zapcore JSON encoder as the log sink; presence of redacted fields (not their value) is allowed to show",
			"go.redact and go.nolog work by presence, whatever value they are written with (statement: 'fields annotated go.redact / go.nolog'; gen/field.go shouldRedact and gen/zap.go zapOptOut test `_, ok := Annotations[key]`; CHANGELOG and doc comments only show the bare form). Values a boolean parser reads as false (false, 0, f, no, off) are not generated: on the unchanged tree they redact too, but a reader may take them for 'not annotated'",
			"harness/drv reflection mapping",
		},
		Units: []Unit{
			{Name: "c15", Run: "^TestC15$", Rapid: true, Shards: [2]int{14, 16}, Checks: [2]int{2400, 12000}, Lab: &LabSpec{Kind: "redact", Programs: [2]int{16, 120}}},
		},
	},
	"C10": {
		Level: "exploration",
		Rule: "cases are (Thrift sources, option set, schedule): programs from the constructive generator (files renamed to contested names in two thirds of them) and a raw-text collision generator (3-8 includes named like packages the generated code imports - fmt, fmt2, bytes, wire, stream, zapcore, ptr, strconv, errors ... -, Go keywords, same base name in different directories, repeated definition names across files, helper-name collisions, constants of map / set / struct type, services in several files); a complete grid of 10 hand-written programs x 13 option sets; x schedules: R fresh processes of the real CLI (own map hash seed each), in-process repetitions, distinct resolution orders through compile.CompileWithLinkOrder. " +
			"Oracle (metamorphic): identical success/failure, identical set of output paths, identical bytes of every file, identical GenerateServiceRequest after canonical renumbering of module / service ids, across all runs of the same sources and options. " +
			"Non-trivial: >=3 includes or an alias / helper collision. Distinct: SHA-256 of the case JSON. The in-process plugin answers with nothing, three files, or one file under two spellings of its path with different contents (refused on every run).",
		Assumptions: []string{
			"error texts are never compared; the plugin request is captured by an in-process ServiceGenerator passed through gen.Options.Plugin",
			"map-order dependence is sampled (each process / repetition draws new hash seeds); the link-order hook forces distinct resolution orders deterministically",
		},
		Prebuild: []Prebuild{{Name: "thriftrw", Pkg: "go.uber.org/thriftrw"}},
		Units: []Unit{
			{Name: "cli", Pkg: "./checks/c10", Run: "^TestCLI$", Rapid: true, Shards: [2]int{10, 12}, Checks: [2]int{20, 200}},
			{Name: "inproc", Pkg: "./checks/c10", Run: "^TestInProcess$", Rapid: true, Shards: [2]int{5, 4}, Checks: [2]int{30, 300}},
			{Name: "fixed", Pkg: "./checks/c10", Run: "^TestFixed$", Shards: [2]int{1, 4}, Weight: 4},
		},
	},
	"C19": {
		Level: "exploration",
		Rule: "cases are (program with services, option set {recurse, no-recurse} x {zap, no-zap}): services whose parameters / returns / exceptions range over required and optional primitives, enums, binary, nested containers, unhashable keys, slice-annotated sets, typedefs of each, structs, cross-file references, services extending services across files, go.name on parameters and exceptions; arguments with default values of every literal form (numbers, hex, int for double / bool, strings, enum items by name and by value, list / set / map / struct literals) under any declared requiredness (optional, unspecified, required); one enum in two and one struct / union / exception / typedef in three renamed with (go.name = \"...\"), enums also named directly and as list / set element, map key, map value and list-of-list element in signatures; programs of 1-5 files, one in two of those with >= 3 files having three or four files of ONE base name in different directories (a/types, b/types, c/types; including each other, services extending services of same-named files). An in-process ServiceGenerator captures every GenerateServiceRequest and returns probe files rendered with plugin.GoFileFromTemplate / formatType / import: one per module inside the generated package (root services), and one per request in a package of its own that covers EVERY service of the request (roots and ancestors) and therefore imports all their packages in a single rendering; the lab is then built. The helpers of every function are exercised at run time by the reflection driver (success value, each declared exception, undeclared exception types and plain errors). " +
			"Oracle: request self-consistency against the model (ids resolve, parent chains acyclic and as declared, root services == services of the generated files, Go names, import paths, directories, function / argument / exception lists); the probe assignments '*<formatted type> = &args.Field' and 'func(<formatted type>, error) ... = Helper.WrapResponse' type-check only for identical types, so the build decides identity (an import name given to two packages, or one Go refuses, fails the build too: keys probe/import-name/*); WrapResponse / UnwrapResponse map values and declared exceptions to the result struct and back without loss and refuse undeclared errors; IsException agrees. " +
			"Non-trivial: program with >=2 functions (request/probes); any exception / undeclared-error case or a non-scalar return (helpers). Distinct: SHA-256 of (program, options) resp. of the helper case.",
		Assumptions: []string{
			"pointer / func assignability in Go holds only for identical types, so a successful build of the probe proves type identity",
			"programs the generator rejects are C06's business and skipped here (counted)",
			"an argument with a default value is not a required one whatever it declares (compile.FieldSpec.Required = declared required AND no default), so its primitive / enum type is *T in the args struct and in Helper.Args; the go.name of a definition is the name of its Go type wherever it is mentioned",
		},
		Units: []Unit{
			{Name: "request+probes", Pkg: "./checks/c19", Run: "^TestRequestAndProbes$", Shards: [2]int{6, 12}, Weight: 2},
			{Name: "c19-helpers", Run: "^TestC19Helpers$", Rapid: true, Shards: [2]int{6, 12}, Checks: [2]int{2000, 15000}, Lab: &LabSpec{Kind: "service", Programs: [2]int{16, 100}}},
		},
	},
	"C18": {
		Level: "exploration",
		Rule: "cases are (operation list, schedule parameters): K in 2..64 operations drawn from 15 kinds (Encode, Decode+force, Decode+EvaluateValue, stream write / read / skip under drawn segmentations, envelope encode / decode, ReadRequest, DecodeRequest, serve = ReadRequest or DecodeRequest of a strict / legacy / un-enveloped request followed by the returned responder's EncodeResponse, WriteResponse, or WriteResponse with an Enveloper that fails part-way, and ToWire / Encode / FromWire / Decode of the generated plugin-API types) on pairwise distinct values, run concurrently after a sequential baseline, under GOMAXPROCS in {1,2,16}, with drawn yields inside the codec's I/O callbacks, forced GCs (emptying the sync.Pools) and 1..8 repetitions. In a third of the cases some decoding operations get a bad input that Decode accepts and whose forcing fails part-way (a bool byte 2..255 beneath a list / set / map key / map value, also nested so that the failure surfaces inside the ForEach callback of an outer container; for generated types a struct beneath a list or map without a required field): they must fail alone and in company, and disturb nobody. In one case of 32, two or three extra operations (mostly decoders: stream read, generated Decode, ReadRequest, Decode, envelopes) carry a binary or string of 1 MiB+1 .. 1.5 MiB (distinct fills; as a field, list / set element, map key / value, or two in one value). At the end of the case every result returned earlier (baseline and last repetition; generated values re-rendered) is compared with the model again. " +
			"A sequential state machine over pool reuse (decode-keep / force / partial = the consumer's callback gives up after n elements, then keeps or closes the value / close / evaluate / drop / GC / decode-bad = spoiled input then EvaluateValue, ForEach+Close of everything, or kept open; one script in 8 with up to three big binaries through stream-read / decode-force / decode-keep, results held without copying until the end of the script; serve steps as in the codec unit; up to three stream writers held open across steps, written through and closed later); K concurrent Sends with distinct payloads on one frame client against a delayed, segmented echo server (synchronous and buffered pipes); frame reader / writer under segmentation and sharing; MultiServiceGenerator / MultiHandle / concurrent.Range fan-out over 1..8 in-process plugins. The whole binary runs under the race detector. " +
			"Oracle: every concurrent result equals its sequential baseline (which equals the reference codec); an operation on a bad input fails (error, no panic) alone and concurrently; results do not change after they were returned; every still-open lazy value equals its model after every step (a spoiled one keeps failing); a response equals the reference encoding in the request's framing (name and sequence id of the request); the buffer of an open stream writer is a prefix of what was written through it and equals it after Close; each Send receives the response to its own request; merged plugin output == union, conflicts and failures reported; no data race. " +
			"Non-trivial: K >= 4 operations of >= 2 kinds (codec), >= 4 steps of >= 2 kinds (pool), K >= 4 senders, >= 2 frames, >= 2 generators. Distinct: SHA-256 of the case JSON.",
		Assumptions: []string{
			"the harness does not own the Go scheduler: interleavings are sampled; the race detector reports unsynchronised access pairs without needing the bad interleaving",
			"a failing shard without a recorded case (race report, fatal 'concurrent map writes') is a violation with the shard log as artefact",
			"sync.Pool under -race drops puts at random, so pool-reuse failures are likely, not certain, per case",
			"bad inputs are those the reference decoder rejects and binary.Default.Decode accepts (lazily validated bool bytes; missing required fields of generated structs beneath containers); 'fails' means a non-nil error, texts are not compared",
			"binaries above the stream reader's 1 MiB threshold are bounded to 3 per case (1.5 MiB each) and run once in the concurrent phase: memory stays below ~64 MiB of live heap per process",
		},
		Units: []Unit{
			{Name: "codec", Pkg: "./checks/c18", Run: "^TestConcurrentCodec$", Rapid: true, Race: true, Shards: [2]int{6, 16}, Checks: [2]int{400, 5000}},
			{Name: "pool", Pkg: "./checks/c18", Run: "^TestPoolStateMachine$", Rapid: true, Race: true, Shards: [2]int{4, 16}, Checks: [2]int{400, 5000}},
			{Name: "frame-client", Pkg: "./checks/c18", Run: "^TestFrameClient$", Rapid: true, Race: true, Shards: [2]int{3, 8}, Checks: [2]int{300, 3000}},
			{Name: "frame-stream", Pkg: "./checks/c18", Run: "^TestFrameStream$", Rapid: true, Race: true, Shards: [2]int{1, 4}, Checks: [2]int{400, 3000}},
			{Name: "multi", Pkg: "./checks/c18", Run: "^TestMultiGenerator$", Rapid: true, Race: true, Shards: [2]int{2, 8}, Checks: [2]int{400, 3000}},
		},
	},
}
