module verif

go 1.23

toolchain go1.23.5

require (
	go.uber.org/thriftrw v0.0.0
	go.uber.org/zap v1.9.1
	pgregory.net/rapid v1.3.0
)

require (
	github.com/anmitsu/go-shlex v0.0.0-20200514113438-38f4b401e2be // indirect
	github.com/fatih/structtag v1.2.0 // indirect
	go.uber.org/atomic v1.3.2 // indirect
	go.uber.org/multierr v1.1.0 // indirect
	golang.org/x/tools v0.21.1-0.20240531212143-b6235391adb3 // indirect
)

replace go.uber.org/thriftrw => /repo
