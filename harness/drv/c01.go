package drv

import (
	"bytes"
	"encoding/json"
	"fmt"
	"os"
	"reflect"
	"testing"

	"go.uber.org/thriftrw/protocol/binary"
	"go.uber.org/thriftrw/protocol/stream"
	"go.uber.org/thriftrw/wire"
	"pgregory.net/rapid"
	"verif/internal/chunkio"
	"verif/internal/ev"
	im "verif/internal/idlmodel"
	"verif/internal/refcodec"
	wm "verif/internal/wiremodel"
)

// Main is the TestMain of every lab.
func Main(m *testing.M) {
	prop := os.Getenv("VERIF_PROPERTY")
	if prop == "" {
		prop = "C01"
	}
	ev.Main(m, prop)
}

// Codec is the method set every generated named type offers through a pointer.
type Codec interface {
	ToWire() (wire.Value, error)
	FromWire(wire.Value) error
	Encode(stream.Writer) error
	Decode(stream.Reader) error
}

// CaseHeader identifies the program and type a case is about; it embeds the
// program so that a replay can rebuild a one-program lab.
type CaseHeader struct {
	ProgID  string      `json:"prog_id"`
	Target  string      `json:"target"`
	Program *im.Program `json:"program"`
	Opts    Opts        `json:"opts"`
}

func header(t *Target) CaseHeader {
	return CaseHeader{ProgID: t.Prog.ID, Target: t.Key, Program: t.Prog.Schema, Opts: t.Prog.Opts}
}

// findTarget resolves a header against the registry (replay labs register the
// embedded program under the same id).
func findTarget(h CaseHeader) *Target {
	for _, t := range Targets() {
		if t.Prog.ID == h.ProgID && t.Key == h.Target {
			return t
		}
	}
	for _, t := range Targets() { // replay lab: single program, possibly another id
		if t.Key == h.Target {
			return t
		}
	}
	return nil
}

// Kind is the wire kind of the target's values.
func (t *Target) Kind() wm.Kind {
	if t.Def == nil {
		return wm.KStruct
	}
	return t.Prog.Schema.WireKind(t.Ty)
}

// Fill applies default filling for the target.
func (t *Target) Fill(w wm.W) wm.W {
	if t.Def == nil {
		return t.Prog.Schema.FillFields(t.Fields, w)
	}
	return t.Prog.Schema.Fill(t.Ty, w)
}

// New builds a pointer to a fresh Go value of the target holding w.
func (t *Target) New(w wm.W) (ptr reflect.Value, err error) {
	defer func() {
		if r := recover(); r != nil {
			err = fmt.Errorf("building %s: %v", t.Key, r)
		}
	}()
	ptr = reflect.New(t.RT)
	if t.Def == nil {
		buildFields(t.Prog.Schema, ptr.Elem(), t.Fields, w)
		return ptr, nil
	}
	ptr.Elem().Set(build(t.Prog.Schema, t.RT, t.Ty, w))
	return ptr, nil
}

// ReadBack reads the Go value behind ptr.
func (t *Target) ReadBack(ptr reflect.Value) (w wm.W, err error) {
	defer func() {
		if r := recover(); r != nil {
			err = fmt.Errorf("reading %s: %v", t.Key, r)
		}
	}()
	if t.Def == nil {
		return readFields(t.Prog.Schema, ptr.Elem(), t.Fields), nil
	}
	w, _ = read(t.Prog.Schema, ptr.Elem(), t.Ty)
	return w, nil
}

// GenValue draws a valid value for the target.
func (t *Target) GenValue(rt *rapid.T, o im.ValOpts, label string) wm.W {
	if t.Def == nil {
		return t.Prog.Schema.GenFields(rt, t.Fields, t.Union, t.Void, o, label)
	}
	return t.Prog.Schema.GenValue(rt, t.Ty, o, label)
}

// Shuffle returns w with struct fields, set elements and map entries permuted
// (the same Thrift value in another wire order).
func Shuffle(t *rapid.T, w wm.W, label string) wm.W {
	out := w
	switch w.K {
	case wm.KStruct:
		out.Fields = make([]wm.Field, len(w.Fields))
		for i, f := range w.Fields {
			out.Fields[i] = wm.Field{ID: f.ID, V: Shuffle(t, f.V, label)}
		}
		if len(out.Fields) > 1 {
			out.Fields = rapid.Permutation(out.Fields).Draw(t, label+"_pf")
		}
	case wm.KList:
		out.Elems = make([]wm.W, len(w.Elems))
		for i, e := range w.Elems {
			out.Elems[i] = Shuffle(t, e, label)
		}
	case wm.KSet:
		out.Elems = make([]wm.W, len(w.Elems))
		for i, e := range w.Elems {
			out.Elems[i] = Shuffle(t, e, label)
		}
		if len(out.Elems) > 1 {
			out.Elems = rapid.Permutation(out.Elems).Draw(t, label+"_ps")
		}
	case wm.KMap:
		out.Pairs = make([]wm.Pair, len(w.Pairs))
		for i, p := range w.Pairs {
			out.Pairs[i] = wm.Pair{K: Shuffle(t, p.K, label), V: Shuffle(t, p.V, label)}
		}
		if len(out.Pairs) > 1 {
			out.Pairs = rapid.Permutation(out.Pairs).Draw(t, label+"_pm")
		}
	}
	return out
}

// ---------------------------------------------------------------- C01 (a) (b): valid values

// C01Case is one valid value of one generated type.
type C01Case struct {
	CaseHeader
	W     wm.W         `json:"w"`      // the logical value
	WWire wm.W         `json:"w_wire"` // the same value in a shuffled wire order (input of the deserializers)
	Plan  chunkio.Plan `json:"plan"`
	// NilEmpty: empty required lists are handed to the serializers as nil slices
	NilEmpty bool `json:"nil_empty,omitempty"`
	// BigN > 0: the first two string / binary leaves of W (outside set elements and map keys) are grown
	// to BigN and BigN+3 bytes of different text before use (kept out of the JSON), and the wire order
	// is the declared one. Two values past the stream reader's 1 MiB threshold in one message.
	BigN int `json:"big_n,omitempty"`
}

// growBinaries returns w with its first len(fills) string / binary leaves outside set elements and
// map keys replaced by n+i bytes of fills[i], and how many it replaced.
func growBinaries(w wm.W, n int, fills string, done *int) wm.W {
	if *done >= len(fills) {
		return w
	}
	out := w
	switch w.K {
	case wm.KBinary:
		out = wm.Binary(bytes.Repeat([]byte{fills[*done]}, n+3**done))
		*done++
	case wm.KStruct:
		out.Fields = append([]wm.Field{}, w.Fields...)
		for i, f := range w.Fields {
			out.Fields[i] = wm.Field{ID: f.ID, V: growBinaries(f.V, n, fills, done)}
		}
	case wm.KList:
		out.Elems = append([]wm.W{}, w.Elems...)
		for i, e := range w.Elems {
			out.Elems[i] = growBinaries(e, n, fills, done)
		}
	case wm.KMap:
		out.Pairs = append([]wm.Pair{}, w.Pairs...)
		for i, pr := range w.Pairs {
			out.Pairs[i] = wm.Pair{K: pr.K, V: growBinaries(pr.V, n, fills, done)}
		}
	}
	return out
}

func encodeBoth(c Codec) (streamBytes, valueBytes []byte, streamErr, valueErr error) {
	var sb bytes.Buffer
	sw := binary.Default.Writer(&sb)
	streamErr = c.Encode(sw)
	sw.Close()
	streamBytes = sb.Bytes()
	v, err := c.ToWire()
	if err != nil {
		valueErr = err
		return
	}
	var vb bytes.Buffer
	valueErr = binary.Default.Encode(v, &vb)
	valueBytes = vb.Bytes()
	return
}

func checkC01(c C01Case) error {
	t := findTarget(c.CaseHeader)
	if t == nil {
		return fmt.Errorf("target %s/%s not in this lab", c.ProgID, c.Target)
	}
	if c.BigN > 0 {
		k := 0
		c.W = growBinaries(c.W, c.BigN, "xy", &k)
		c.WWire = c.W
	}
	kind := t.Kind()
	want := t.Fill(c.W)
	cls := t.Class()

	// (a) both serializers
	NilEmptyRequiredLists = c.NilEmpty
	ptr, err := t.New(c.W)
	NilEmptyRequiredLists = false
	if err != nil {
		return ev.Errf("driver/build", "%v", err)
	}
	codec, ok := ptr.Interface().(Codec)
	if !ok {
		return ev.Errf("driver/no-codec", "%s does not implement ToWire/FromWire/Encode/Decode", ptr.Type())
	}
	sb, vb, serr, verr := encodeBoth(codec)
	for _, r := range []struct {
		name string
		b    []byte
		err  error
	}{{"Encode", sb, serr}, {"ToWire", vb, verr}} {
		if r.err != nil {
			return ev.Errf("encode/"+r.name+"/error/"+cls, "%s failed on a valid value of %s: %v\nvalue: %s", r.name, t.Key, r.err, wm.Render(c.W))
		}
		got, n, derr := refcodec.Decode(kind, r.b)
		if derr != nil || n != len(r.b) {
			return ev.Errf("encode/"+r.name+"/malformed/"+cls, "%s of %s produced bytes the reference codec rejects (%v, consumed %d of %d)", r.name, t.Key, derr, n, len(r.b))
		}
		if !refcodec.CanonEqual(got, want) {
			return ev.Errf("encode/"+r.name+"/value/"+cls, "%s of %s encodes %s\nwant %s", r.name, t.Key, wm.Render(refcodec.Canon(got)), wm.Render(refcodec.Canon(want)))
		}
	}

	// (b) both deserializers on a reference encoding in another wire order
	enc := refcodec.Encode(c.WWire)
	p1 := reflect.New(t.RT)
	sr := binary.Default.Reader(chunkio.New(enc, c.Plan))
	derr := p1.Interface().(Codec).Decode(sr)
	sr.Close()
	if derr != nil {
		return ev.Errf("decode/Decode/error/"+cls, "Decode of %s failed on a reference encoding of a valid value: %v\nvalue: %s", t.Key, derr, wm.Render(c.WWire))
	}
	p2 := reflect.New(t.RT)
	wv, werr := binary.Default.Decode(bytes.NewReader(enc), wire.Type(kind))
	if werr == nil {
		werr = p2.Interface().(Codec).FromWire(wv)
	}
	if werr != nil {
		return ev.Errf("decode/FromWire/error/"+cls, "FromWire of %s failed on a reference encoding of a valid value: %v\nvalue: %s", t.Key, werr, wm.Render(c.WWire))
	}
	for _, r := range []struct {
		name string
		ptr  reflect.Value
	}{{"Decode", p1}, {"FromWire", p2}} {
		got, rerr := t.ReadBack(r.ptr)
		if rerr != nil {
			return ev.Errf("driver/read", "%v", rerr)
		}
		if !refcodec.CanonEqual(got, want) {
			return ev.Errf("decode/"+r.name+"/value/"+cls, "%s of %s yields %s\nwant %s", r.name, t.Key, wm.Render(refcodec.Canon(got)), wm.Render(refcodec.Canon(want)))
		}
	}
	return nil
}

// Class names the schema shape of a target for classifier keys.
func (t *Target) Class() string {
	if t.Def == nil {
		if t.Result {
			return "result"
		}
		return "args"
	}
	if t.Def.Kind == im.DTypedef {
		r := t.Prog.Schema.Root(t.Ty)
		if r.K == im.TRef {
			return "typedef-of-" + t.Prog.Schema.Lookup(*r.Ref).Kind
		}
		return "typedef-of-" + r.K
	}
	return t.Def.Kind
}

// nontrivialValue: the type has >=2 fields or is a container typedef, and the
// value contains a container, a nested struct or a filled default.
func nontrivialValue(t *Target, w, filled wm.W) bool {
	shape := len(t.FieldList()) >= 2 || (t.Def != nil && t.Def.Kind == im.DTypedef && t.Kind() >= wm.KStruct)
	if !shape {
		return false
	}
	if len(filled.Fields) > len(w.Fields) {
		return true
	}
	var has func(w wm.W, depth int) bool
	has = func(w wm.W, depth int) bool {
		if depth > 0 && (w.K == wm.KStruct || w.K == wm.KList || w.K == wm.KSet || w.K == wm.KMap) {
			return true
		}
		for _, f := range w.Fields {
			if has(f.V, depth+1) {
				return true
			}
		}
		return depth == 0 && (len(w.Elems) > 0 || len(w.Pairs) > 0)
	}
	return has(w, 0)
}

func drawTarget(t *rapid.T, filter func(*Target) bool) *Target {
	var ts []*Target
	for _, x := range Targets() {
		if filter == nil || filter(x) {
			ts = append(ts, x)
		}
	}
	if len(ts) == 0 {
		t.Skip("no target of the wanted shape in this lab")
	}
	return ts[rapid.IntRange(0, len(ts)-1).Draw(t, "target")]
}

// C01 is the rapid property over valid values.
func C01(t *testing.T) {
	if len(Targets()) == 0 {
		t.Fatalf("environment: the lab has no usable program")
	}
	rapid.Check(t, func(rt *rapid.T) {
		tg := drawTarget(rt, nil)
		w := tg.GenValue(rt, im.ValOpts{Depth: rapid.IntRange(1, 4).Draw(rt, "depth")}, "v")
		c := C01Case{CaseHeader: header(tg), W: w, WWire: Shuffle(rt, w, "shuf"), Plan: chunkio.GenPlan(rt, "plan"), NilEmpty: rapid.Bool().Draw(rt, "nil_empty")}
		filled := tg.Fill(w)
		big := "big-strings:0"
		if rapid.IntRange(0, 39).Draw(rt, "bigleaf") == 0 {
			k := 0
			growBinaries(w, 1, "xy", &k)
			if k > 0 {
				c.BigN, c.WWire = 1<<20+rapid.SampledFrom([]int{1, 7, 4096}).Draw(rt, "bigleaf_n"), wm.W{}
				big = fmt.Sprintf("big-strings:%d", k)
			}
		}
		d := ev.Digest([]byte(tg.Prog.SchemaJSON), []byte(tg.Key), refcodec.Encode(refcodec.Canon(w)), []byte(fmt.Sprint(c.BigN)))
		nontriv := nontrivialValue(tg, w, filled)
		ev.Case(d, nontriv, "unit:c01-values", "shape:"+tg.Class(), "opts:"+optsClass(tg.Prog.Opts), c.Plan.Class(), big)
		if nontriv {
			ev.KeepSample("c01-values", d, func() interface{} {
				return map[string]interface{}{"program": tg.Prog.Schema.Summary(), "type": tg.Key, "shape": tg.Class(), "value": wm.Render(w), "filled": wm.Render(filled)}
			})
		}
		ev.Report(rt, "c01-values", c, ev.Guard(func() error { return checkC01(c) }))
	})
}

func optsClass(o Opts) string {
	b, _ := json.Marshal(o)
	return string(b)
}

// ---------------------------------------------------------------- replay

var replayers = map[string]func(t *testing.T, f *ev.Failure){}

func init() {
	replayers["c01-values"] = func(t *testing.T, f *ev.Failure) {
		var c C01Case
		if err := json.Unmarshal(f.Case, &c); err != nil {
			t.Fatal(err)
		}
		ev.Report(t, f.Unit, c, ev.Guard(func() error { return checkC01(c) }))
	}
}

func replayOne(t *testing.T, f *ev.Failure) bool {
	r, ok := replayers[f.Unit]
	if !ok {
		return false
	}
	r(t, f)
	return true
}

// Replay / Regress are the lab's TestReplay / TestRegress.
func Replay(t *testing.T)  { ev.RunReplay(t, replayOne) }
func Regress(t *testing.T) { ev.RunRegress(t, replayOne) }
