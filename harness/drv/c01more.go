package drv

import (
	"bytes"
	"encoding/json"
	"fmt"
	"reflect"
	"sort"
	"strings"
	"testing"

	"go.uber.org/thriftrw/protocol/binary"
	"pgregory.net/rapid"
	"verif/internal/ev"
	im "verif/internal/idlmodel"
	"verif/internal/refcodec"
	wm "verif/internal/wiremodel"
)

// ---------------------------------------------------------------- C01 (c): schema-violating Go values

// site is one place of a Go value where a schema violation can be planted.
type site struct {
	Desc  string
	Apply func()
}

// collectSites walks a built Go value alongside its schema and lists the
// violations that can be planted: required reference field set to nil, union
// arity, nil struct element inside a container.
func collectSites(p *im.Program, rv reflect.Value, ty *im.Type, fields []*im.Field, union, allowEmpty bool, path string, out *[]site, depth int) {
	if depth > 6 {
		return
	}
	if ty != nil {
		root := p.Root(ty)
		switch root.K {
		case im.TList, im.TSet:
			if !rv.IsValid() || rv.Kind() != reflect.Slice && rv.Kind() != reflect.Map {
				return
			}
			if rv.Kind() == reflect.Slice {
				eroot := p.Root(root.Elem)
				for i := 0; i < rv.Len(); i++ {
					e := rv.Index(i)
					if e.Kind() == reflect.Ptr && eroot.K == im.TRef {
						ee := e
						*out = append(*out, site{Desc: fmt.Sprintf("%s[%d]=nil (nil element of %s)", path, i, root.K), Apply: func() { ee.Set(reflect.Zero(ee.Type())) }})
					}
					collectSites(p, e, root.Elem, nil, false, false, fmt.Sprintf("%s[%d]", path, i), out, depth+1)
				}
			}
			return
		case im.TMap:
			if !rv.IsValid() {
				return
			}
			vroot, kroot := p.Root(root.Val), p.Root(root.Key)
			if rv.Kind() == reflect.Map {
				if rv.Type().Elem().Kind() == reflect.Ptr && vroot.K == im.TRef {
					for _, k := range sortedMapKeys(rv) {
						kk, m := k, rv
						*out = append(*out, site{Desc: fmt.Sprintf("%s[%v]=nil (nil map value)", path, fmt.Sprint(k.Interface())), Apply: func() { m.SetMapIndex(kk, reflect.Zero(m.Type().Elem())) }})
					}
				}
			} else if rv.Kind() == reflect.Slice {
				for i := 0; i < rv.Len(); i++ {
					kf, vf := rv.Index(i).FieldByName("Key"), rv.Index(i).FieldByName("Value")
					if kf.Kind() == reflect.Ptr && kroot.K == im.TRef {
						kk := kf
						*out = append(*out, site{Desc: fmt.Sprintf("%s[%d].Key=nil (nil unhashable map key)", path, i), Apply: func() { kk.Set(reflect.Zero(kk.Type())) }})
					}
					if vf.Kind() == reflect.Ptr && vroot.K == im.TRef {
						vv := vf
						*out = append(*out, site{Desc: fmt.Sprintf("%s[%d].Value=nil (nil map value)", path, i), Apply: func() { vv.Set(reflect.Zero(vv.Type())) }})
					}
					collectSites(p, vf, root.Val, nil, false, false, fmt.Sprintf("%s[%d].Value", path, i), out, depth+1)
				}
			}
			return
		case im.TRef:
			d := p.Lookup(*root.Ref)
			if !d.IsStructLike() {
				return
			}
			fields, union = d.Fields, d.Kind == im.DUnion
		default:
			return
		}
	}
	// struct-like
	for rv.IsValid() && rv.Kind() == reflect.Ptr {
		if rv.IsNil() {
			return
		}
		rv = rv.Elem()
	}
	if !rv.IsValid() || rv.Kind() != reflect.Struct {
		return
	}
	var set []reflect.Value
	var unset []reflect.Value
	var unsetFields []*im.Field
	for _, f := range fields {
		fv := rv.FieldByName(GoFieldName(f))
		if !fv.IsValid() {
			continue
		}
		nilable := fv.Kind() == reflect.Ptr || fv.Kind() == reflect.Slice || fv.Kind() == reflect.Map
		if nilable && !fv.IsNil() {
			set = append(set, fv)
		} else if nilable {
			unset = append(unset, fv)
			unsetFields = append(unsetFields, f)
		}
		if f.Required() && nilable && p.WireKind(f.Type) != wm.KList && !fv.IsNil() {
			ff := fv
			*out = append(*out, site{Desc: fmt.Sprintf("%s.%s=nil (required field unset)", path, GoFieldName(f)), Apply: func() { ff.Set(reflect.Zero(ff.Type())) }})
		}
		if !nilable || !fv.IsNil() {
			collectSites(p, fv, f.Type, nil, false, false, path+"."+GoFieldName(f), out, depth+1)
		}
	}
	if union {
		if len(set) == 1 && !allowEmpty {
			s := set[0]
			*out = append(*out, site{Desc: path + ": union with no member set", Apply: func() { s.Set(reflect.Zero(s.Type())) }})
		}
		if len(set) == 1 && len(unset) > 0 {
			u, uf := unset[0], unsetFields[0]
			*out = append(*out, site{Desc: path + ": union with two members set", Apply: func() {
				u.Set(zeroValueOf(p, u.Type(), uf.Type))
			}})
		}
	}
}

// zeroValueOf builds a minimal non-nil value of a field type.
func zeroValueOf(p *im.Program, rt reflect.Type, ty *im.Type) reflect.Value {
	w := minimalValue(p, ty, 0)
	return build(p, rt, ty, w)
}

// minimalValue is the smallest valid wire value of a type.
func minimalValue(p *im.Program, ty *im.Type, depth int) wm.W {
	r := p.Root(ty)
	k := p.WireKind(ty)
	switch r.K {
	case im.TList, im.TSet:
		return wm.W{K: k, EK: p.WireKind(r.Elem)}
	case im.TMap:
		return wm.W{K: k, KK: p.WireKind(r.Key), VK: p.WireKind(r.Val)}
	case im.TRef:
		d := p.Lookup(*r.Ref)
		if d.Kind == im.DEnum {
			return wm.I32(0)
		}
		w := wm.Struct()
		if depth > 8 {
			return w
		}
		if d.Kind == im.DUnion && len(d.Fields) > 0 {
			f := d.Fields[0]
			for _, c := range d.Fields {
				if p.WireKind(c.Type) != wm.KStruct {
					f = c
					break
				}
			}
			w.Fields = append(w.Fields, wm.Field{ID: int16(f.ID), V: minimalValue(p, f.Type, depth+1)})
			return w
		}
		for _, f := range d.Fields {
			if f.Required() {
				w.Fields = append(w.Fields, wm.Field{ID: int16(f.ID), V: minimalValue(p, f.Type, depth+1)})
			}
		}
		return w
	}
	return wm.W{K: k}
}

// InvalidCase is a valid value plus the index of the violation to plant.
type InvalidCase struct {
	CaseHeader
	W    wm.W   `json:"w"`
	Site int    `json:"site"`
	Desc string `json:"desc"`
}

func sitesOf(t *Target, ptr reflect.Value) []site {
	var sites []site
	if t.Def == nil {
		collectSites(t.Prog.Schema, ptr, nil, t.Fields, t.Union, t.Void, t.shortName(), &sites, 0)
	} else {
		collectSites(t.Prog.Schema, ptr, t.Ty, nil, false, false, t.shortName(), &sites, 0)
	}
	return sites
}

func (t *Target) shortName() string {
	_, n := splitKey(t.Key)
	return n
}

func checkInvalid(c InvalidCase) error {
	t := findTarget(c.CaseHeader)
	if t == nil {
		return fmt.Errorf("target %s/%s not in this lab", c.ProgID, c.Target)
	}
	results := map[string]error{}
	var encodings = map[string][]byte{}
	// each entry point gets its own freshly built and violated value
	for _, entry := range []string{"Encode", "ToWire"} {
		ptr, err := t.New(c.W)
		if err != nil {
			return ev.Errf("driver/build", "%v", err)
		}
		sites := sitesOf(t, ptr)
		if c.Site >= len(sites) {
			return ev.Errf("driver/site", "site %d of %d no longer exists", c.Site, len(sites))
		}
		sites[c.Site].Apply()
		codec := ptr.Interface().(Codec)
		if entry == "Encode" {
			var sb bytes.Buffer
			sw := binary.Default.Writer(&sb)
			results[entry] = codec.Encode(sw)
			sw.Close()
			encodings[entry] = sb.Bytes()
		} else {
			v, err := codec.ToWire()
			if err == nil {
				var vb bytes.Buffer
				err = binary.Default.Encode(v, &vb)
				encodings[entry] = vb.Bytes()
			}
			results[entry] = err
		}
	}
	kind := violationKind(c.Desc)
	for _, entry := range []string{"Encode", "ToWire"} {
		if results[entry] == nil {
			detail := ""
			if got, n, err := refcodec.Decode(t.Kind(), encodings[entry]); err == nil && n == len(encodings[entry]) {
				detail = " and produced the well-formed encoding " + wm.Render(got)
			}
			return ev.Errf("invalid-accepted/"+entry+"/"+kind, "%s of %s returned no error for a schema-violating value (%s)%s", entry, t.Key, c.Desc, detail)
		}
	}
	return nil
}

func violationKind(desc string) string {
	switch {
	case bytes.Contains([]byte(desc), []byte("required field unset")):
		return "required-unset"
	case bytes.Contains([]byte(desc), []byte("no member")):
		return "union-empty"
	case bytes.Contains([]byte(desc), []byte("two members")):
		return "union-two"
	case bytes.Contains([]byte(desc), []byte("map key")):
		return "nil-map-key"
	case bytes.Contains([]byte(desc), []byte("map value")):
		return "nil-map-value"
	}
	return "nil-element"
}

// C01Invalid plants one violation into a valid value and requires every
// serializer entry point to refuse it.
func C01Invalid(t *testing.T) {
	rapid.Check(t, func(rt *rapid.T) {
		tg := drawTarget(rt, func(x *Target) bool { return x.StructLike() || x.Kind() >= wm.KStruct })
		w := tg.GenValue(rt, im.ValOpts{Depth: rapid.IntRange(1, 3).Draw(rt, "depth"), AllPresent: true}, "v")
		ptr, err := tg.New(w)
		if err != nil {
			rt.Fatalf("driver: %v", err)
		}
		sites := sitesOf(tg, ptr)
		if len(sites) == 0 {
			ev.Class("invalid:no-site-in-value")
			return
		}
		i := rapid.IntRange(0, len(sites)-1).Draw(rt, "site")
		c := InvalidCase{CaseHeader: header(tg), W: w, Site: i, Desc: sites[i].Desc}
		d := ev.Digest([]byte(tg.Prog.SchemaJSON), []byte(tg.Key), refcodec.Encode(refcodec.Canon(w)), []byte(c.Desc))
		ev.Case(d, true, "unit:c01-invalid", "violation:"+violationKind(c.Desc), "shape:"+tg.Class())
		ev.KeepSample("c01-invalid", d, func() interface{} {
			return map[string]interface{}{"type": tg.Key, "value": wm.Render(w), "violation": c.Desc}
		})
		ev.Report(rt, "c01-invalid", c, ev.Guard(func() error { return checkInvalid(c) }))
	})
}

// ---------------------------------------------------------------- C01 (d): constants, default constructors, accessors

// StaticCase names one constant / default constructor of a program.
type StaticCase struct {
	CaseHeader
	What string `json:"what"` // const | default
}

func checkStatic(c StaticCase) error {
	var p *Prog
	for _, x := range Programs() {
		if x.ID == c.ProgID {
			p = x
		}
	}
	if p == nil && len(Programs()) == 1 {
		p = Programs()[0]
	}
	if p == nil {
		return fmt.Errorf("program %s not in this lab", c.ProgID)
	}
	file, name := splitKey(c.Target)
	d := p.Schema.Lookup(im.Ref{File: file, Name: name})
	if strings.HasSuffix(c.Target, ":args") {
		// the arguments struct of a function ("file#Svc.fn:args"): an ordinary struct whose fields are the arguments
		fn := p.lookupFunc(strings.TrimSuffix(c.Target, ":args"))
		if fn == nil {
			return fmt.Errorf("function %s not in schema", c.Target)
		}
		d = &im.Def{Kind: im.DStruct, Name: name, Fields: fn.Args, File: file}
	}
	if d == nil {
		return fmt.Errorf("definition %s not in schema", c.Target)
	}
	if strings.HasPrefix(c.What, "missing:") {
		for _, m := range p.Missing {
			if strings.HasSuffix(m, "|"+c.Target+"|"+strings.SplitN(c.What, ":", 3)[2]) {
				return ev.Errf("missing/"+strings.SplitN(c.What, ":", 3)[1], "the generated package does not declare %s", strings.SplitN(c.What, ":", 3)[2])
			}
		}
		return nil
	}
	switch c.What {
	case "const":
		v, ok := p.Consts[c.Target]
		if !ok {
			return ev.Errf("driver/const-missing", "constant %s not in registry", c.Target)
		}
		want, err := p.Schema.Eval(d.Value, d.Type)
		if err != nil {
			return ev.Errf("driver/eval", "model cannot evaluate %s: %v", c.Target, err)
		}
		got, _, rerr := Read(p.Schema, reflect.ValueOf(v), d.Type)
		if rerr != nil {
			return ev.Errf("driver/read", "%v", rerr)
		}
		if !refcodec.CanonEqual(got, want) {
			return ev.Errf("constant/value/"+p.Schema.Root(d.Type).K, "generated constant %s = %s\nIDL literal cast to its type = %s", c.Target, wm.Render(refcodec.Canon(got)), wm.Render(refcodec.Canon(want)))
		}
	case "default":
		ctor, ok := p.Defaults[c.Target]
		if !ok {
			return ev.Errf("driver/default-missing", "Default_%s not in registry", name)
		}
		want := p.Schema.FillFields(d.Fields, wm.Struct())
		got := readFields(p.Schema, reflect.ValueOf(ctor()).Elem(), d.Fields)
		// a required primitive without default has no unset state in Go: it reads as its zero value
		{
			noUnset := map[int16]bool{}
			for _, f := range d.Fields {
				if f.Required() {
					switch p.Schema.WireKind(f.Type) {
					case wm.KBool, wm.KI8, wm.KI16, wm.KI32, wm.KI64, wm.KDouble:
						noUnset[int16(f.ID)] = true
					case wm.KBinary:
						if p.Schema.Root(f.Type).K == im.TString {
							noUnset[int16(f.ID)] = true
						}
					}
				}
			}
			var kept []wm.Field
			for _, gf := range got.Fields {
				if noUnset[gf.ID] && isZero(gf.V) {
					continue
				}
				kept = append(kept, gf)
			}
			got.Fields = kept
		}
		if !refcodec.CanonEqual(got, want) {
			return ev.Errf("default-ctor/value", "Default_%s() = %s\ndeclared defaults = %s", name, wm.Render(refcodec.Canon(got)), wm.Render(refcodec.Canon(want)))
		}
	}
	return nil
}

// C01Static walks every constant and default constructor of the lab (complete).
func C01Static(t *testing.T) {
	n := 0
	for _, p := range Programs() {
		var keys []string
		for k := range p.Consts {
			keys = append(keys, "const|"+k)
		}
		for k := range p.Defaults {
			keys = append(keys, "default|"+k)
		}
		sort.Strings(keys)
		for _, k := range keys {
			what, key := k[:bytes.IndexByte([]byte(k), '|')], k[bytes.IndexByte([]byte(k), '|')+1:]
			c := StaticCase{CaseHeader: CaseHeader{ProgID: p.ID, Target: key, Program: p.Schema, Opts: p.Opts}, What: what}
			d := ev.Digest([]byte(p.SchemaJSON), []byte(k))
			ev.Case(d, true, "unit:c01-static", "static:"+what)
			ev.KeepSample("c01-static", d, func() interface{} {
				return map[string]interface{}{"program": p.Schema.Summary(), "what": what, "name": key}
			})
			ev.ReportSoft(t, "c01-static", c, ev.Guard(func() error { return checkStatic(c) }))
			n++
		}
	}
	for _, p := range Programs() {
		for _, m := range p.Missing {
			parts := strings.SplitN(m, "|", 3)
			c := StaticCase{CaseHeader: CaseHeader{ProgID: p.ID, Target: parts[1], Program: p.Schema, Opts: p.Opts}, What: "missing:" + parts[0] + ":" + parts[2]}
			ev.Case(ev.Digest([]byte(p.SchemaJSON), []byte(m)), true, "unit:c01-static", "static:missing")
			ev.ReportSoft(t, "c01-static", c, ev.Errf("missing/"+parts[0], "the generated package does not declare %s, which the program requires (%s %s)", parts[2], parts[0], parts[1]))
			n++
		}
	}
	ev.Exhaustive("every constant and Default_ constructor of the lab's programs", true)
	ev.Note("c01-static", fmt.Sprintf("%d constants / default constructors", n))
}

// AccessorCase: a value and the accessors to call on it.
type AccessorCase struct {
	CaseHeader
	W   wm.W `json:"w"`
	Nil bool `json:"nil"` // call on a nil receiver
}

func checkAccessors(c AccessorCase) error {
	t := findTarget(c.CaseHeader)
	if t == nil {
		return fmt.Errorf("target %s/%s not in this lab", c.ProgID, c.Target)
	}
	p := t.Prog.Schema
	ptr, err := t.New(c.W)
	if err != nil {
		return ev.Errf("driver/build", "%v", err)
	}
	if c.Nil {
		ptr = reflect.Zero(ptr.Type())
	}
	present := map[int16]wm.W{}
	if !c.Nil {
		for _, f := range c.W.Fields {
			present[f.ID] = f.V
		}
	}
	for _, f := range t.FieldList() {
		gn := GoFieldName(f)
		m := ptr.MethodByName("Get" + gn)
		if !m.IsValid() {
			return ev.Errf("accessor/missing", "%s has no Get%s", ptr.Type(), gn)
		}
		out := m.Call(nil)[0]
		got, has, rerr := Read(p, out, f.Type)
		if rerr != nil {
			return ev.Errf("driver/read", "%v", rerr)
		}
		val, isSet := present[int16(f.ID)]
		recv := "value"
		if c.Nil {
			recv = "nil-receiver"
		}
		switch {
		case isSet:
			if !has && !emptyContainer(val) {
				return ev.Errf("accessor/get/set-field/"+recv, "Get%s() returned nothing although the field is set to %s", gn, wm.Render(val))
			}
			if has && !refcodec.CanonEqual(got, p.Fill(f.Type, val)) && !refcodec.CanonEqual(got, val) {
				return ev.Errf("accessor/get/set-field/"+recv, "Get%s() = %s, field holds %s", gn, wm.Render(got), wm.Render(val))
			}
		case f.Default != nil:
			want, everr := p.Eval(f.Default, f.Type)
			if everr != nil {
				return ev.Errf("driver/eval", "%v", everr)
			}
			if !has || !refcodec.CanonEqual(got, want) {
				return ev.Errf("accessor/get/default/"+recv, "Get%s() on an unset field = %s (present=%v), declared default %s", gn, wm.Render(got), has, wm.Render(want))
			}
		default:
			if has && !isZero(got) {
				return ev.Errf("accessor/get/zero/"+recv, "Get%s() on an unset field without default = %s, want the zero value", gn, wm.Render(got))
			}
		}
		if is := ptr.MethodByName("IsSet" + gn); is.IsValid() {
			b := is.Call(nil)[0].Bool()
			// a required primitive has no unset state and no IsSet; for everything else IsSet == non-nil
			if b != isSet {
				return ev.Errf("accessor/isset/"+recv, "IsSet%s() = %v, field set = %v", gn, b, isSet)
			}
		}
	}
	return nil
}

func emptyContainer(w wm.W) bool {
	return (w.K == wm.KList || w.K == wm.KSet || w.K == wm.KMap) && len(w.Elems)+len(w.Pairs) == 0
}

func isZero(w wm.W) bool {
	switch w.K {
	case wm.KBool:
		return !w.B
	case wm.KI8, wm.KI16, wm.KI32, wm.KI64:
		return w.I == 0
	case wm.KDouble:
		return w.F == 0
	case wm.KBinary:
		return len(w.Bin) == 0
	case wm.KList, wm.KSet, wm.KMap:
		return len(w.Elems)+len(w.Pairs) == 0
	}
	return false
}

// C01Accessors checks Get / IsSet on drawn values and on nil receivers.
func C01Accessors(t *testing.T) {
	rapid.Check(t, func(rt *rapid.T) {
		tg := drawTarget(rt, func(x *Target) bool { return x.StructLike() && (x.Def == nil || x.Def.IsStructLike()) })
		w := tg.GenValue(rt, im.ValOpts{Depth: 2}, "v")
		c := AccessorCase{CaseHeader: header(tg), W: w, Nil: rapid.IntRange(0, 4).Draw(rt, "nilrecv") == 0}
		d := ev.Digest([]byte(tg.Prog.SchemaJSON), []byte(tg.Key), refcodec.Encode(refcodec.Canon(w)), []byte(fmt.Sprint(c.Nil)))
		hasDefault := false
		for _, f := range tg.FieldList() {
			if f.Default != nil {
				hasDefault = true
			}
		}
		ev.Case(d, hasDefault || len(tg.FieldList()) >= 2, "unit:c01-accessors", fmt.Sprintf("nil-receiver:%v", c.Nil), fmt.Sprintf("has-default:%v", hasDefault))
		if hasDefault {
			ev.KeepSample("c01-accessors", d, func() interface{} {
				return map[string]interface{}{"type": tg.Key, "value": wm.Render(w), "nil_receiver": c.Nil}
			})
		}
		ev.Report(rt, "c01-accessors", c, ev.Guard(func() error { return checkAccessors(c) }))
	})
}

func init() {
	replayers["c01-invalid"] = func(t *testing.T, f *ev.Failure) {
		var c InvalidCase
		if err := json.Unmarshal(f.Case, &c); err != nil {
			t.Fatal(err)
		}
		ev.Report(t, f.Unit, c, ev.Guard(func() error { return checkInvalid(c) }))
	}
	replayers["c01-static"] = func(t *testing.T, f *ev.Failure) {
		var c StaticCase
		if err := json.Unmarshal(f.Case, &c); err != nil {
			t.Fatal(err)
		}
		ev.Report(t, f.Unit, c, ev.Guard(func() error { return checkStatic(c) }))
	}
	replayers["c01-accessors"] = func(t *testing.T, f *ev.Failure) {
		var c AccessorCase
		if err := json.Unmarshal(f.Case, &c); err != nil {
			t.Fatal(err)
		}
		ev.Report(t, f.Unit, c, ev.Guard(func() error { return checkAccessors(c) }))
	}
}
