package drv

import (
	"bytes"
	"encoding/json"
	"fmt"
	"reflect"
	"testing"

	"go.uber.org/thriftrw/protocol/binary"
	"go.uber.org/thriftrw/wire"
	"pgregory.net/rapid"
	"verif/internal/chunkio"
	"verif/internal/ev"
	im "verif/internal/idlmodel"
	"verif/internal/mutate"
	"verif/internal/refcodec"
	wm "verif/internal/wiremodel"
)

// ---------------------------------------------------------------- schema-aware tree evolution (C04, C05)

// Edit records one evolution step applied to a value (classification only).
type Edit struct {
	Kind string `json:"kind"`
	Path string `json:"path"`
}

// evolve walks w alongside its schema and applies drawn writer-schema
// differences: dropped fields, unknown fields of any shape, a known id carrying
// another wire kind, containers with another element type, union arity changes.
func evolve(rt *rapid.T, p *im.Program, ty *im.Type, fields []*im.Field, w wm.W, path string, depth int, edits *[]Edit) wm.W {
	if fields == nil && ty != nil {
		r := p.Root(ty)
		switch r.K {
		case im.TList, im.TSet:
			if w.K != p.WireKind(ty) {
				return w
			}
			if rapid.IntRange(0, 11).Draw(rt, "retype_elem") == 0 {
				*edits = append(*edits, Edit{"container-element-retyped", path})
				nk := otherKind(rt, w.EK)
				out := wm.W{K: w.K, EK: nk}
				for i := 0; i < rapid.IntRange(0, 2).Draw(rt, "retyped_n"); i++ {
					out.Elems = append(out.Elems, wm.Gen(rt, nk, wm.GenOpts{MaxDepth: 2, MaxLen: 2, SetLike: true}, "retyped_e"))
				}
				return out
			}
			out := w
			out.Elems = make([]wm.W, len(w.Elems))
			for i, e := range w.Elems {
				out.Elems[i] = evolve(rt, p, r.Elem, nil, e, fmt.Sprintf("%s[%d]", path, i), depth+1, edits)
			}
			return out
		case im.TMap:
			if w.K != wm.KMap {
				return w
			}
			if rapid.IntRange(0, 11).Draw(rt, "retype_map") == 0 {
				*edits = append(*edits, Edit{"container-element-retyped", path})
				out := wm.W{K: wm.KMap, KK: w.KK, VK: otherKind(rt, w.VK)}
				if rapid.Bool().Draw(rt, "retype_key") {
					out.KK = otherKind(rt, w.KK)
				}
				return out
			}
			out := w
			out.Pairs = make([]wm.Pair, len(w.Pairs))
			for i, pr := range w.Pairs {
				out.Pairs[i] = wm.Pair{K: pr.K, V: evolve(rt, p, r.Val, nil, pr.V, fmt.Sprintf("%s{%d}", path, i), depth+1, edits)}
			}
			return out
		case im.TRef:
			d := p.Lookup(*r.Ref)
			if !d.IsStructLike() || w.K != wm.KStruct {
				return w
			}
			fields = d.Fields
		default:
			return w
		}
	}
	if w.K != wm.KStruct {
		return w
	}
	byID := map[int16]*im.Field{}
	for _, f := range fields {
		byID[int16(f.ID)] = f
	}
	out := wm.Struct()
	for _, wf := range w.Fields {
		f := byID[wf.ID]
		fp := fmt.Sprintf("%s.%d", path, wf.ID)
		switch rapid.IntRange(0, 13).Draw(rt, "field_edit") {
		case 0: // field removed by the writer
			req := "optional"
			if f != nil && f.Required() {
				req = "required"
			}
			*edits = append(*edits, Edit{"field-removed/" + req, fp})
			continue
		case 1: // same id, another wire kind
			nk := otherKind(rt, wf.V.K)
			*edits = append(*edits, Edit{"field-retyped", fp})
			out.Fields = append(out.Fields, wm.Field{ID: wf.ID, V: wm.Gen(rt, nk, wm.GenOpts{MaxDepth: 2, MaxLen: 2, SetLike: true}, "retyped_f")})
			continue
		}
		v := wf.V
		if f != nil {
			v = evolve(rt, p, f.Type, nil, wf.V, fp, depth+1, edits)
		}
		out.Fields = append(out.Fields, wm.Field{ID: wf.ID, V: v})
	}
	// unknown fields injected at any boundary
	for i, n := 0, rapid.IntRange(0, 2).Draw(rt, "n_unknown"); i < n && depth < 6; i++ {
		if rapid.IntRange(0, 2).Draw(rt, "inject") != 0 {
			continue
		}
		id := int16(rapid.IntRange(-200, 32767).Draw(rt, "unknown_id"))
		if byID[id] != nil {
			continue
		}
		dup := false
		for _, x := range out.Fields {
			if x.ID == id {
				dup = true
			}
		}
		if dup {
			continue
		}
		k := wm.GenKind().Draw(rt, "unknown_kind")
		v := wm.Gen(rt, k, wm.GenOpts{MaxDepth: 3, MaxLen: 3, SetLike: true}, "unknown_v")
		if rapid.IntRange(0, 9).Draw(rt, "unknown_big") == 0 {
			// an unknown field far longer than any read-ahead or skip buffer (4 KiB, 32 KiB, 64 KiB)
			n := rapid.SampledFrom([]int{4095, 4097, 9000, 32769, 70000}).Draw(rt, "unknown_big_n")
			v = wm.Binary(bytes.Repeat([]byte{byte('a' + i)}, n))
			if rapid.Bool().Draw(rt, "unknown_big_list") {
				v = wm.List(wm.KBinary, v, wm.Binary([]byte("tail")))
			}
			k = v.K
		} else if rapid.IntRange(0, 11).Draw(rt, "unknown_deep") == 0 {
			// a newer writer's recursive type: a chain nested far deeper than anything the reader knows
			v = deepChain(rapid.SampledFrom([]int{40, 65, 100, 300}).Draw(rt, "unknown_depth"), rapid.IntRange(0, 2).Draw(rt, "unknown_chain"))
			k = v.K
		}
		pos := rapid.IntRange(0, len(out.Fields)).Draw(rt, "unknown_pos")
		nf := append([]wm.Field{}, out.Fields[:pos]...)
		nf = append(nf, wm.Field{ID: id, V: v})
		out.Fields = append(nf, out.Fields[pos:]...)
		cls := "scalar"
		if k >= wm.KStruct {
			cls = "nested"
		}
		*edits = append(*edits, Edit{"unknown-field/" + cls, fmt.Sprintf("%s.%d", path, id)})
	}
	// a field the writer has but this value did not carry: add a member (union arity, extra optional)
	if rapid.IntRange(0, 9).Draw(rt, "add_member") == 0 {
		for _, f := range fields {
			present := false
			for _, x := range out.Fields {
				if x.ID == int16(f.ID) {
					present = true
				}
			}
			if !present {
				out.Fields = append(out.Fields, wm.Field{ID: int16(f.ID), V: minimalValue(p, f.Type, 0)})
				*edits = append(*edits, Edit{"known-field-added", fmt.Sprintf("%s.%d", path, f.ID)})
				break
			}
		}
	}
	return out
}

func otherKind(rt *rapid.T, k wm.Kind) wm.Kind {
	for {
		nk := wm.GenKind().Draw(rt, "other_kind")
		if nk != k {
			return nk
		}
	}
}

// dropEmptyContainers removes fields holding empty containers (a Go nil slice /
// map cannot tell "unset" from "present and empty" once a retyped container
// has decoded to nil) at every depth.
func dropEmptyContainers(w wm.W) wm.W {
	out := w
	switch w.K {
	case wm.KStruct:
		out.Fields = nil
		for _, f := range w.Fields {
			if emptyContainer(f.V) {
				continue
			}
			out.Fields = append(out.Fields, wm.Field{ID: f.ID, V: dropEmptyContainers(f.V)})
		}
	case wm.KList, wm.KSet:
		out.Elems = make([]wm.W, len(w.Elems))
		for i, e := range w.Elems {
			out.Elems[i] = dropEmptyContainers(e)
		}
	case wm.KMap:
		out.Pairs = make([]wm.Pair, len(w.Pairs))
		for i, p := range w.Pairs {
			out.Pairs[i] = wm.Pair{K: dropEmptyContainers(p.K), V: dropEmptyContainers(p.V)}
		}
	}
	return out
}

// Project applies the reference projection for the target.
func (t *Target) Project(w wm.W) (wm.W, error) {
	if t.Def == nil {
		arity := im.ArityAny
		if t.Union {
			arity = im.ArityExactlyOne
			if t.Void {
				arity = im.ArityAtMostOne
			}
		}
		return t.Prog.Schema.ProjectFields(t.Fields, arity, w)
	}
	return t.Prog.Schema.Project(t.Ty, w)
}

// decodeBoth runs both deserializers of the target on enc.
// deepChain builds a value nested depth levels deep: structs in structs (0), lists in lists (1)
// or maps in structs in maps (2), with an i32 at the bottom.
func deepChain(depth, form int) wm.W {
	v := wm.I32(7)
	for i := 0; i < depth; i++ {
		switch form {
		case 1:
			v = wm.List(v.K, v)
		case 2:
			if i%2 == 0 {
				v = wm.Map(wm.KI32, v.K, wm.Pair{K: wm.I32(int32(i)), V: v})
			} else {
				v = wm.Struct(wm.Field{ID: 2, V: v})
			}
		default:
			v = wm.Struct(wm.Field{ID: 1, V: v}, wm.Field{ID: 2, V: wm.I32(int32(i))})
		}
	}
	return v
}

func decodeBoth(t *Target, enc []byte, plan chunkio.Plan) (sv, vv reflect.Value, serr, verr error) {
	return decodeBothFrom(t, enc, plan, false)
}

// decodeBothFrom: with bufSrc the streaming side reads from a *bytes.Buffer holding the whole
// message (a source type callers really use, and one a library may special-case), and the
// buffer's memory is overwritten once Decode has returned, as a caller reusing the buffer for
// the next message would: the decoded value must not depend on it any more.
func decodeBothFrom(t *Target, enc []byte, plan chunkio.Plan, bufSrc bool) (sv, vv reflect.Value, serr, verr error) {
	sv = reflect.New(t.RT)
	if bufSrc {
		mem := append([]byte{}, enc...)
		buf := bytes.NewBuffer(mem)
		sr := binary.Default.Reader(buf)
		serr = sv.Interface().(Codec).Decode(sr)
		sr.Close()
		for i := range mem {
			mem[i] ^= 0xa5
		}
	} else {
		sr := binary.Default.Reader(chunkio.New(enc, plan))
		serr = sv.Interface().(Codec).Decode(sr)
		sr.Close()
	}
	vv = reflect.New(t.RT)
	wv, err := binary.Default.Decode(bytes.NewReader(enc), wire.Type(t.Kind()))
	if err == nil {
		err = vv.Interface().(Codec).FromWire(wv)
	}
	verr = err
	return
}

// ---------------------------------------------------------------- C05

// C05Case is a writer-side wire tree for a reader type.
type C05Case struct {
	CaseHeader
	W     wm.W         `json:"w"`
	Edits []Edit       `json:"edits"`
	Plan  chunkio.Plan `json:"plan"`
	// BufferSource: the streaming side reads from a *bytes.Buffer that is overwritten afterwards
	BufferSource bool `json:"buffer_source,omitempty"`
}

func checkC05(c C05Case) error {
	t := findTarget(c.CaseHeader)
	if t == nil {
		return fmt.Errorf("target %s/%s not in this lab", c.ProgID, c.Target)
	}
	want, perr := t.Project(c.W)
	enc := refcodec.Encode(c.W)
	sv, vv, serr, verr := decodeBothFrom(t, enc, c.Plan, c.BufferSource)
	for _, r := range []struct {
		name string
		v    reflect.Value
		err  error
	}{{"Decode", sv, serr}, {"FromWire", vv, verr}} {
		if perr != nil {
			if r.err == nil {
				return ev.Errf("evolution/accepted-invalid/"+r.name+"/"+projClass(perr), "%s of %s accepted input that must be rejected (%v)\nwire: %s", r.name, t.Key, perr, wm.Render(c.W))
			}
			continue
		}
		if r.err != nil {
			return ev.Errf("evolution/rejected-valid/"+r.name+"/"+editClass(c.Edits), "%s of %s failed (%v) on well-formed input whose required fields are present\nwire: %s", r.name, t.Key, r.err, wm.Render(c.W))
		}
		got, rerr := t.ReadBack(r.v)
		if rerr != nil {
			return ev.Errf("driver/read", "%v", rerr)
		}
		if !refcodec.CanonEqual(dropEmptyContainers(got), dropEmptyContainers(want)) {
			return ev.Errf("evolution/value/"+r.name+"/"+editClass(c.Edits), "%s of %s read %s\nreference projection %s\nwire: %s", r.name, t.Key, wm.Render(refcodec.Canon(got)), wm.Render(refcodec.Canon(want)), wm.Render(c.W))
		}
	}
	return nil
}

func projClass(err error) string {
	s := err.Error()
	if bytes.Contains([]byte(s), []byte("union")) {
		return "union-arity"
	}
	return "required-missing"
}

func editClass(es []Edit) string {
	if len(es) == 0 {
		return "unedited"
	}
	return es[0].Kind
}

// C05 is the schema-evolution property.
func C05(t *testing.T) {
	rapid.Check(t, func(rt *rapid.T) {
		tg := drawTarget(rt, func(x *Target) bool { return x.StructLike() || x.Kind() >= wm.KStruct })
		base := tg.GenValue(rt, im.ValOpts{Depth: rapid.IntRange(1, 4).Draw(rt, "depth")}, "v")
		var edits []Edit
		var w wm.W
		if tg.Def == nil {
			w = evolve(rt, tg.Prog.Schema, nil, tg.Fields, base, "$", 0, &edits)
		} else {
			w = evolve(rt, tg.Prog.Schema, tg.Ty, nil, base, "$", 0, &edits)
		}
		w = Shuffle(rt, w, "shuf")
		c := C05Case{CaseHeader: header(tg), W: w, Edits: edits, Plan: chunkio.GenPlan(rt, "plan"), BufferSource: rapid.IntRange(0, 3).Draw(rt, "buffer_source") == 0}
		d := ev.Digest([]byte(tg.Prog.SchemaJSON), []byte(tg.Key), refcodec.Encode(w))
		cls := []string{"unit:c05", "shape:" + tg.Class()}
		nested := false
		for _, e := range edits {
			cls = append(cls, "edit:"+e.Kind)
			if len(e.Path) > 4 && bytes.Count([]byte(e.Path), []byte(".")) >= 2 {
				nested = true
			}
		}
		if _, perr := tg.Project(w); perr != nil {
			cls = append(cls, "expected:reject/"+projClass(perr))
		} else {
			cls = append(cls, "expected:accept")
		}
		nontriv := len(edits) > 0
		if nested {
			cls = append(cls, "edit-depth:nested")
		}
		ev.Case(d, nontriv, cls...)
		if nontriv {
			ev.KeepSample("c05", d, func() interface{} {
				return map[string]interface{}{"type": tg.Key, "wire": wm.Render(w), "edits": edits}
			})
		}
		ev.Report(rt, "c05", c, ev.Guard(func() error { return checkC05(c) }))
	})
}

// ---------------------------------------------------------------- C04

// C04Case is a byte string for a generated type under several segmentations.
type C04Case struct {
	CaseHeader
	Input []byte         `json:"input"`
	Plans []chunkio.Plan `json:"plans"`
	Src   string         `json:"src"`
	// BufferSource: the last plan's streaming side reads from a *bytes.Buffer that is overwritten afterwards
	BufferSource bool `json:"buffer_source,omitempty"`
	// Base / BigN stand for the input (kept out of the JSON): the reference encoding of Base with
	// its first string / binary leaf grown to BigN bytes
	Base *wm.W `json:"base,omitempty"`
	BigN int   `json:"big_n,omitempty"`
}

func checkC04(c C04Case, stat *string) error {
	t := findTarget(c.CaseHeader)
	if t == nil {
		return fmt.Errorf("target %s/%s not in this lab", c.ProgID, c.Target)
	}
	if c.BigN > 0 && c.Base != nil {
		big, _ := growFirstBinary(*c.Base, c.BigN)
		c.Input = refcodec.Encode(big)
	}
	type res struct {
		ok  bool
		w   wm.W
		enc []byte
		err error
	}
	read := func(v reflect.Value, err error) res {
		if err != nil {
			return res{err: err}
		}
		w, rerr := t.ReadBack(v)
		if rerr != nil {
			return res{err: fmt.Errorf("driver: %v", rerr)}
		}
		// re-encode through the value path of the decoded Go value as a second observation
		var b bytes.Buffer
		if wv, err := v.Interface().(Codec).ToWire(); err == nil {
			binary.Default.Encode(wv, &b)
		}
		return res{ok: true, w: w, enc: b.Bytes()}
	}
	var value res
	var streams []res
	for i, plan := range c.Plans {
		sv, vv, serr, verr := decodeBothFrom(t, c.Input, plan, c.BufferSource && i == len(c.Plans)-1)
		if i == 0 {
			value = read(vv, verr)
		}
		streams = append(streams, read(sv, serr))
	}
	*stat = fmt.Sprintf("value:%v/stream:%v", value.ok, streams[0].ok)
	for i := 1; i < len(streams); i++ {
		if streams[i].ok != streams[0].ok || (streams[i].ok && !refcodec.CanonEqual(streams[i].w, streams[0].w)) {
			return ev.Errf("stream/chunking-dependent", "Decode of %s depends on read segmentation: %s => ok=%v %s ; %s => ok=%v %s", t.Key, c.Plans[0].Class(), streams[0].ok, wm.Render(streams[0].w), c.Plans[i].Class(), streams[i].ok, wm.Render(streams[i].w))
		}
	}
	s := streams[0]
	if value.ok && !s.ok {
		return ev.Errf("stream-rejects-what-value-path-accepts/"+c.Src, "FromWire(Decode(b)) of %s succeeds but Decode(stream) fails: %v\nvalue path read %s", t.Key, s.err, wm.Render(value.w))
	}
	if value.ok && s.ok {
		if !refcodec.CanonEqual(value.w, s.w) {
			return ev.Errf("paths-disagree/value/"+c.Src, "%s: FromWire(Decode(b)) read %s\nDecode(stream) read %s", t.Key, wm.Render(refcodec.Canon(value.w)), wm.Render(refcodec.Canon(s.w)))
		}
		a, _, e1 := refcodec.Decode(t.Kind(), value.enc)
		b, _, e2 := refcodec.Decode(t.Kind(), s.enc)
		if (e1 == nil) != (e2 == nil) || (e1 == nil && !refcodec.CanonEqual(a, b)) {
			return ev.Errf("paths-disagree/reencoding/"+c.Src, "%s: re-encodings of the two decoded values differ", t.Key)
		}
	}
	return nil
}

// C04 feeds valid, evolved, mutated and random bytes to both decoding paths.
func C04(t *testing.T) {
	rapid.Check(t, func(rt *rapid.T) {
		tg := drawTarget(rt, func(x *Target) bool { return x.StructLike() || x.Kind() >= wm.KStruct })
		base := tg.GenValue(rt, im.ValOpts{Depth: rapid.IntRange(1, 3).Draw(rt, "depth")}, "v")
		c := C04Case{CaseHeader: header(tg)}
		switch rapid.IntRange(0, 9).Draw(rt, "src") {
		case 0:
			c.Input, c.Src = rapid.SliceOfN(rapid.Byte(), 0, 64).Draw(rt, "raw"), "random-bytes"
		case 1, 2:
			c.Input, c.Src = refcodec.Encode(Shuffle(rt, base, "shuf")), "valid"
		case 3, 4, 5:
			var edits []Edit
			var w wm.W
			if tg.Def == nil {
				w = evolve(rt, tg.Prog.Schema, nil, tg.Fields, base, "$", 0, &edits)
			} else {
				w = evolve(rt, tg.Prog.Schema, tg.Ty, nil, base, "$", 0, &edits)
			}
			c.Input, c.Src = refcodec.Encode(w), "evolved"
		default:
			c.Input, _ = mutate.Mutate(rt, base, "mut")
			c.Src = "mutated"
		}
		if len(c.Input) > 4096 {
			c.Input = c.Input[:4096]
		}
		if rapid.IntRange(0, 39).Draw(rt, "bigleaf") == 0 {
			// one string / binary of the value is longer than the streaming reader's 1 MiB threshold
			n := 1<<20 + rapid.SampledFrom([]int{1, 7, 4096}).Draw(rt, "bigleaf_n")
			if _, ok := growFirstBinary(base, n); ok {
				c.Input, c.Src, c.Base, c.BigN = nil, "valid-big-string", &base, n
			}
		}
		// Known finding K1 (C13): generated streaming decoders pre-size containers from the
		// declared count. Inputs declaring a count above 2^16 are kept out of this property
		// by construction (and counted) so that they do not take the lab process down.
		if c.BigN == 0 && refcodec.MaxDeclared(tg.Kind(), c.Input) > 1<<16 {
			ev.Class("excluded-by-construction:K1-declared-count>2^16")
			return
		}
		c.Plans = []chunkio.Plan{chunkio.GenPlan(rt, "plan0"), {Rest: 1}, chunkio.GenPlan(rt, "plan2")}
		c.BufferSource = rapid.IntRange(0, 2).Draw(rt, "buffer_source") == 0
		d := ev.Digest([]byte(tg.Prog.SchemaJSON), []byte(tg.Key), c.Input, []byte(fmt.Sprint(c.BigN)), refcodec.Encode(base))
		var stat string
		err := ev.Guard(func() error { return checkC04(c, &stat) })
		nontriv := c.Src != "valid" && c.Src != "random-bytes" && stat != "value:false/stream:false"

		ev.Case(d, nontriv, "unit:c04", "src:"+c.Src, "outcome:"+stat, "shape:"+tg.Class())
		if nontriv {
			ev.KeepSample("c04", d, func() interface{} {
				return map[string]interface{}{"type": tg.Key, "src": c.Src, "input_hex": fmt.Sprintf("%x", clipB(c.Input, 80)), "outcome": stat}
			})
		}
		ev.Report(rt, "c04", c, err)
	})
}

// growFirstBinary returns w with its first string / binary leaf outside set elements and map
// keys replaced by n bytes of text.
func growFirstBinary(w wm.W, n int) (wm.W, bool) {
	switch w.K {
	case wm.KBinary:
		return wm.Binary(bytes.Repeat([]byte("x"), n)), true
	case wm.KStruct:
		for i, f := range w.Fields {
			if v, ok := growFirstBinary(f.V, n); ok {
				out := w
				out.Fields = append([]wm.Field{}, w.Fields...)
				out.Fields[i] = wm.Field{ID: f.ID, V: v}
				return out, true
			}
		}
	case wm.KList:
		for i, e := range w.Elems {
			if v, ok := growFirstBinary(e, n); ok {
				out := w
				out.Elems = append([]wm.W{}, w.Elems...)
				out.Elems[i] = v
				return out, true
			}
		}
	case wm.KMap:
		for i, pr := range w.Pairs {
			if v, ok := growFirstBinary(pr.V, n); ok {
				out := w
				out.Pairs = append([]wm.Pair{}, w.Pairs...)
				out.Pairs[i] = wm.Pair{K: pr.K, V: v}
				return out, true
			}
		}
	}
	return w, false
}

func clipB(b []byte, n int) []byte {
	if len(b) > n {
		return b[:n]
	}
	return b
}

// C04Encode: for every Go value (valid or schema-violating) the two
// serializers both fail or both succeed with encodings of equal values.
func C04Encode(t *testing.T) {
	rapid.Check(t, func(rt *rapid.T) {
		tg := drawTarget(rt, func(x *Target) bool { return x.StructLike() || x.Kind() >= wm.KStruct })
		w := tg.GenValue(rt, im.ValOpts{Depth: rapid.IntRange(1, 3).Draw(rt, "depth"), AllPresent: rapid.Bool().Draw(rt, "allpresent")}, "v")
		c := InvalidCase{CaseHeader: header(tg), W: w, Site: -1}
		if ptr, err := tg.New(w); err == nil {
			if sites := sitesOf(tg, ptr); len(sites) > 0 && rapid.Bool().Draw(rt, "violate") {
				c.Site = rapid.IntRange(0, len(sites)-1).Draw(rt, "site")
				c.Desc = sites[c.Site].Desc
			}
		}
		d := ev.Digest([]byte(tg.Prog.SchemaJSON), []byte(tg.Key), refcodec.Encode(refcodec.Canon(w)), []byte(c.Desc))
		ev.Case(d, c.Site >= 0, "unit:c04-encode", fmt.Sprintf("violated:%v", c.Site >= 0))
		if c.Site >= 0 {
			ev.KeepSample("c04-encode", d, func() interface{} {
				return map[string]interface{}{"type": tg.Key, "value": wm.Render(w), "violation": c.Desc}
			})
		}
		ev.Report(rt, "c04-encode", c, ev.Guard(func() error { return checkC04Encode(c) }))
	})
}

func checkC04Encode(c InvalidCase) error {
	t := findTarget(c.CaseHeader)
	if t == nil {
		return fmt.Errorf("target %s/%s not in this lab", c.ProgID, c.Target)
	}
	mk := func() (Codec, error) {
		ptr, err := t.New(c.W)
		if err != nil {
			return nil, err
		}
		if c.Site >= 0 {
			sites := sitesOf(t, ptr)
			if c.Site >= len(sites) {
				return nil, fmt.Errorf("site %d missing", c.Site)
			}
			sites[c.Site].Apply()
		}
		return ptr.Interface().(Codec), nil
	}
	a, err := mk()
	if err != nil {
		return ev.Errf("driver/build", "%v", err)
	}
	sb, vb, serr, verr := encodeBoth(a)
	if (serr == nil) != (verr == nil) {
		return ev.Errf("serializers-disagree/outcome/"+violationKind(c.Desc), "%s: Encode(stream) error=%v but Encode(ToWire()) error=%v (%s)", t.Key, serr, verr, c.Desc)
	}
	if serr == nil {
		x, _, e1 := refcodec.Decode(t.Kind(), sb)
		y, _, e2 := refcodec.Decode(t.Kind(), vb)
		if e1 != nil || e2 != nil || !refcodec.CanonEqual(x, y) {
			return ev.Errf("serializers-disagree/value", "%s: the two serializers produced encodings of different values: %s vs %s", t.Key, wm.Render(x), wm.Render(y))
		}
	}
	return nil
}

// C05BigCase: the reference encoding of a minimal value of the target, plus one unknown field
// (id 32000) holding a list or set of Count one-byte elements. Stored symbolically.
type C05BigCase struct {
	CaseHeader
	Count   int    `json:"count"`
	Elem    string `json:"elem"` // bool | i8 | binary (a single unknown binary of Count bytes)
	Set     bool   `json:"set"`
	AtFront bool   `json:"at_front"`
}

func (c C05BigCase) input(t *Target) (plain, big []byte) {
	base := refcodec.Encode(minimalTarget(t))
	// a struct encoding ends with the stop byte: the unknown field goes before it, or first
	et := byte(wm.KBool)
	if c.Elem == "i8" {
		et = byte(wm.KI8)
	}
	kind := byte(wm.KList)
	if c.Set {
		kind = byte(wm.KSet)
	}
	f := []byte{kind, 0x7d, 0x00, et, byte(c.Count >> 24), byte(c.Count >> 16), byte(c.Count >> 8), byte(c.Count)}
	if c.Elem == "binary" {
		// one unknown binary of Count bytes instead of a collection
		f = []byte{byte(wm.KBinary), 0x7d, 0x00, byte(c.Count >> 24), byte(c.Count >> 16), byte(c.Count >> 8), byte(c.Count)}
	}
	f = append(f, make([]byte, c.Count)...) // false / 0 elements, or the binary's bytes
	if c.AtFront {
		return base, append(f, base...)
	}
	return base, append(append(append([]byte{}, base[:len(base)-1]...), f...), 0)
}

func minimalTarget(t *Target) wm.W {
	if t.Def == nil {
		w := wm.Struct()
		for _, f := range t.Fields {
			if f.Required() {
				w.Fields = append(w.Fields, wm.Field{ID: int16(f.ID), V: minimalValue(t.Prog.Schema, f.Type, 0)})
			}
		}
		return w
	}
	return minimalValue(t.Prog.Schema, t.Ty, 0)
}

func checkC05Big(c C05BigCase) error {
	t := findTarget(c.CaseHeader)
	if t == nil {
		return fmt.Errorf("target %s/%s not in this lab", c.ProgID, c.Target)
	}
	plain, big := c.input(t)
	ps, pv, pse, pve := decodeBoth(t, plain, chunkio.Plan{})
	if pse != nil || pve != nil {
		return nil // the minimal value is not decodable for this target (union arity etc.): not this unit's business
	}
	bs, bv, bse, bve := decodeBoth(t, big, chunkio.Plan{Rest: 4096})
	for _, r := range []struct {
		name     string
		got, ref reflect.Value
		err      error
	}{{"Decode", bs, ps, bse}, {"FromWire", bv, pv, bve}} {
		if r.err != nil && c.Elem == "binary" {
			return ev.Errf("evolution/rejected-valid/"+r.name+"/unknown-field/long-binary", "%s of %s rejects a message whose only difference from an accepted one is an unknown binary field of %d bytes: %v", r.name, t.Key, c.Count, r.err)
		}
		if r.err != nil {
			return ev.Errf("evolution/rejected-valid/"+r.name+"/unknown-field/long-collection", "%s of %s rejects a message whose only difference from an accepted one is an unknown field holding a %s of %d one-byte elements: %v", r.name, t.Key, map[bool]string{false: "list", true: "set"}[c.Set], c.Count, r.err)
		}
		a, e1 := t.ReadBack(r.got)
		b, e2 := t.ReadBack(r.ref)
		if e1 != nil || e2 != nil || !refcodec.CanonEqual(a, b) {
			return ev.Errf("evolution/value/"+r.name+"/unknown-field/long-collection", "%s of %s: the value changes when an unknown long collection is added", r.name, t.Key)
		}
	}
	return nil
}

// C05Big: unknown fields holding collections with more elements than any length threshold of the
// readers (2^16, 2^20 and one more, 2^21), and unknown binaries of 2^20+1 ... 2^26+1 bytes: a grid over a
// few struct-like targets of the lab.
func C05Big(t *testing.T) {
	n := 0
	for _, tg := range Targets() {
		if !tg.StructLike() || tg.IsUnion() {
			continue
		}
		n++
		if n > 4 {
			break
		}
		for _, count := range []int{1 << 16, 1<<20 - 1, 1 << 20, 1<<20 + 1, 1 << 21} {
			for i, elem := range []string{"bool", "i8"} {
				c := C05BigCase{CaseHeader: header(tg), Count: count, Elem: elem, Set: (count+i)%2 == 1, AtFront: i == 0}
				ev.Case(ev.Digest([]byte(tg.Prog.SchemaJSON), []byte(tg.Key), []byte(fmt.Sprint(count, elem))), true, "unit:c05-big", fmt.Sprintf("count:%d", count))
				ev.ReportSoft(t, "c05-big", c, ev.Guard(func() error { return checkC05Big(c) }))
			}
		}
		// a single unknown binary longer than any plausible length threshold (2^20, 2^24, 2^26)
		for i, count := range []int{1<<20 + 1, 1<<24 - 1, 1 << 24, 1<<24 + 1, 1<<26 + 1} {
			c := C05BigCase{CaseHeader: header(tg), Count: count, Elem: "binary", AtFront: i%2 == 0}
			ev.Case(ev.Digest([]byte(tg.Prog.SchemaJSON), []byte(tg.Key), []byte(fmt.Sprint(count, "binary"))), true, "unit:c05-big", fmt.Sprintf("binary-bytes:%d", count))
			ev.ReportSoft(t, "c05-big", c, ev.Guard(func() error { return checkC05Big(c) }))
		}
	}
}

func init() {
	replayers["c05-big"] = func(t *testing.T, f *ev.Failure) {
		var c C05BigCase
		if err := json.Unmarshal(f.Case, &c); err != nil {
			t.Fatal(err)
		}
		ev.Report(t, f.Unit, c, ev.Guard(func() error { return checkC05Big(c) }))
	}
	replayers["c05"] = func(t *testing.T, f *ev.Failure) {
		var c C05Case
		if err := json.Unmarshal(f.Case, &c); err != nil {
			t.Fatal(err)
		}
		ev.Report(t, f.Unit, c, ev.Guard(func() error { return checkC05(c) }))
	}
	replayers["c04"] = func(t *testing.T, f *ev.Failure) {
		var c C04Case
		if err := json.Unmarshal(f.Case, &c); err != nil {
			t.Fatal(err)
		}
		var s string
		ev.Report(t, f.Unit, c, ev.Guard(func() error { return checkC04(c, &s) }))
	}
	replayers["c04-encode"] = func(t *testing.T, f *ev.Failure) {
		var c InvalidCase
		if err := json.Unmarshal(f.Case, &c); err != nil {
			t.Fatal(err)
		}
		ev.Report(t, f.Unit, c, ev.Guard(func() error { return checkC04Encode(c) }))
	}
}
