package drv

import (
	"encoding/binary"
	"encoding/json"
	"fmt"
	"os"
	"reflect"
	"strconv"
	"strings"
	"testing"

	tbinary "go.uber.org/thriftrw/protocol/binary"
	"go.uber.org/thriftrw/wire"
	"verif/internal/allocprobe"
	"verif/internal/chunkio"
	"verif/internal/ev"
	im "verif/internal/idlmodel"
	wm "verif/internal/wiremodel"
)

// C13 inside labs: decoding cost of freshly generated deserializers is bounded
// by the input size. For every container / binary position reachable through
// at most one level of struct nesting in every generated struct-like type, a
// short message declares a huge length / count there.

var c13Hostile = []int64{1 << 16, 1 << 20, 1 << 24, 1 << 28, 1<<31 - 1}

func be32(v int64) []byte {
	var b [4]byte
	binary.BigEndian.PutUint32(b[:], uint32(v))
	return b[:]
}

func fhdr(k wm.Kind, id int) []byte { return []byte{byte(k), byte(uint16(id) >> 8), byte(id)} }

// Long payloads (see checks/c13): a binary that really is a little longer than
// the stream reader's 1 MiB threshold and declares far more.
var (
	c13LongPayloads = []int{1<<20 + 1}
	c13LongDeclared = []int64{1 << 29, 1<<31 - 1}
)

// c13Mismatch returns two element type codes other than e (fixed-width ones:
// the generated readers skip the elements of a container that announces
// another element type one by one).
func c13Mismatch(e wm.Kind) []wm.Kind {
	var out []wm.Kind
	for _, m := range []wm.Kind{wm.KI64, wm.KBool, wm.KI32} {
		if m != e && len(out) < 2 {
			out = append(out, m)
		}
	}
	return out
}

func bcat(bs ...[]byte) []byte {
	var out []byte
	for _, b := range bs {
		out = append(out, b...)
	}
	return out
}

// lengthPositions returns (position class, message prefix up to and including
// the hostile header) for the fields of a struct-shaped type. With long set,
// only the binary lengths, without any payload (the caller pads).
func lengthPositions(p *im.Program, fields []*im.Field, L int64, prefix []byte, depth int, long bool) [][2]interface{} {
	var out [][2]interface{}
	few := []byte{0, 0, 0, 1, 0, 0, 0, 0}
	for _, f := range fields {
		r := p.Root(f.Type)
		k := p.WireKind(f.Type)
		h := append(append([]byte{}, prefix...), fhdr(k, f.ID)...)
		if long {
			switch r.K {
			case im.TString, im.TBinary:
				out = append(out, [2]interface{}{"long-binary", bcat(h, be32(L))})
			case im.TRef:
				d := p.Lookup(*r.Ref)
				if d.IsStructLike() && depth < 1 {
					for _, np := range lengthPositions(p, d.Fields, L, h, depth+1, long) {
						out = append(out, [2]interface{}{"nested-" + np[0].(string), np[1]})
					}
				}
			}
			continue
		}
		switch r.K {
		case im.TList, im.TSet:
			name := "list-count"
			if r.K == im.TSet {
				name = "set-count"
			}
			e := p.WireKind(r.Elem)
			out = append(out, [2]interface{}{name, bcat(h, []byte{byte(e)}, be32(L), few)})
			for _, m := range c13Mismatch(e) {
				out = append(out, [2]interface{}{name + "-of-" + m.String(), bcat(h, []byte{byte(m)}, be32(L), few)})
			}
		case im.TMap:
			kk, vk := p.WireKind(r.Key), p.WireKind(r.Val)
			out = append(out, [2]interface{}{"map-count", bcat(h, []byte{byte(kk), byte(vk)}, be32(L), few)})
			k2, v2 := c13Mismatch(kk)[0], c13Mismatch(vk)[1]
			for _, kv := range [][2]wm.Kind{{k2, vk}, {k2, v2}} {
				out = append(out, [2]interface{}{"map-count-of-" + kv[0].String() + "," + kv[1].String(), bcat(h, []byte{byte(kv[0]), byte(kv[1])}, be32(L), few)})
			}
		case im.TString, im.TBinary:
			out = append(out, [2]interface{}{"binary-length", append(append(h, be32(L)...), []byte("abcd")...)})
		case im.TRef:
			d := p.Lookup(*r.Ref)
			if d.IsStructLike() && depth < 1 {
				for _, np := range lengthPositions(p, d.Fields, L, h, depth+1, long) {
					out = append(out, [2]interface{}{"nested-" + np[0].(string), np[1]})
				}
			}
		}
	}
	return out
}

// c13Srcs are the concrete source types each API is run over ("" = the
// historical one: *bytes.Reader for Decode, chunkio's plain reader for the stream).
func c13Srcs(api string) []string {
	if api == "gen/Decode/generated" {
		return []string{"", chunkio.SrcBytesBuffer, chunkio.SrcBytesReader}
	}
	return []string{""}
}

func c13Call(c allocprobe.Case) error {
	t := findTarget(CaseHeader{ProgID: c.Extra["prog"], Target: c.Extra["target"]})
	if t == nil {
		return fmt.Errorf("target %s/%s not in this lab", c.Extra["prog"], c.Extra["target"])
	}
	x := reflect.New(t.RT).Interface().(Codec)
	switch c.API {
	case "gen/FromWire/generated":
		v, err := tbinary.Default.Decode(chunkio.NewAt(c.Msg, chunkio.AtPlan{Src: c.Src, EagerEOF: true}), wire.Type(t.Kind()))
		if err != nil {
			return err
		}
		return x.FromWire(v)
	case "gen/Decode/generated":
		sr := tbinary.Default.Reader(chunkio.New(c.Msg, chunkio.Plan{Src: c.Src}))
		defer sr.Close()
		return x.Decode(sr)
	}
	return fmt.Errorf("unknown api %s", c.API)
}

// C13Child is the measuring child of the lab binary.
func C13Child(t *testing.T) {
	if !allocprobe.InChild() {
		t.Skip("child only")
	}
	if err := allocprobe.ChildLoop(c13Call); err != nil {
		t.Fatal(err)
	}
}

// C13Case is the replayable form: the probe case plus the program.
type C13Case struct {
	CaseHeader
	Probe allocprobe.Case `json:"probe"`
}

// C13Gen walks every length position of every struct-like type of the lab.
func C13Gen(t *testing.T) {
	shard, _ := strconv.Atoi(os.Getenv("VERIF_SHARD"))
	nshards, _ := strconv.Atoi(os.Getenv("VERIF_NSHARDS"))
	if nshards < 1 {
		nshards = 1
	}
	scratch := os.Getenv("VERIF_SCRATCH")
	if scratch == "" {
		scratch = t.TempDir()
	}
	var cases []allocprobe.Case
	var headers []CaseHeader
	n := 0
	for _, tg := range Targets() {
		if !tg.StructLike() || (tg.Def != nil && !tg.Def.IsStructLike()) {
			continue
		}
		add := func(c allocprobe.Case) {
			// matched element type and a big count: the open finding K1 (pre-sizing from the count, before the
			// source is touched again) makes each of these cost up to gigabytes; default source only
			k1 := strings.HasSuffix(c.Pos, "-count") && c.L > 1<<20
			for _, api := range []string{"gen/FromWire/generated", "gen/Decode/generated"} {
				for _, src := range c13Srcs(api) {
					if k1 && src != "" {
						continue
					}
					n++
					if n%nshards != shard {
						continue
					}
					c.API, c.Src = api, src
					c.Extra = map[string]string{"prog": tg.Prog.ID, "target": tg.Key}
					cases = append(cases, c)
					headers = append(headers, header(tg))
				}
			}
		}
		for _, L := range c13Hostile {
			for _, lp := range lengthPositions(tg.Prog.Schema, tg.FieldList(), L, nil, 0, false) {
				add(allocprobe.Case{Msg: lp[1].([]byte), Pos: "field/" + lp[0].(string), L: L})
			}
		}
		for _, L := range c13LongDeclared {
			for _, lp := range lengthPositions(tg.Prog.Schema, tg.FieldList(), L, nil, 0, true) {
				for _, np := range c13LongPayloads {
					h := lp[1].([]byte)
					add(allocprobe.Case{Msg: h, Pos: "field/" + lp[0].(string), L: L, PadAt: len(h), PadN: np, PadFill: 'x'})
				}
			}
		}
	}
	if len(cases) == 0 {
		t.Skip("no length position in this shard")
	}
	const batch = 400
	complete := true
	for i := 0; i < len(cases); i += batch {
		j := i + batch
		if j > len(cases) {
			j = len(cases)
		}
		res, err := allocprobe.Measure(cases[i:j], scratch, "^TestC13Child$")
		if err != nil {
			t.Fatalf("environment: %v", err)
		}
		for k, c := range cases[i:j] {
			r := res[k]
			if r.Status == "skipped" { // the batch had failed allocprobe.MaxCPUStops times already
				complete = false
				continue
			}
			d := ev.Digest([]byte(c.API), c.Msg, []byte(c.Extra["prog"]+c.Extra["target"]), []byte(fmt.Sprintf("%s|%d|%d", c.Src, c.PadAt, c.PadN)))
			src := c.Src
			if src == "" {
				src = "default"
			}
			ev.Case(d, true, "unit:c13-gen", "api:"+c.API, "pos:"+c.Pos, "status:"+firstWord(r.Status), "L:"+strconv.FormatInt(c.L, 10), "src:"+src, fmt.Sprintf("long-payload:%v", c.PadN > 0))
			ev.KeepSample("c13-gen", d, func() interface{} {
				return map[string]interface{}{"type": c.Extra["target"], "api": c.API, "src": c.Src, "pad_n": c.PadN, "pos": c.Pos, "L": c.L, "msg_hex": fmt.Sprintf("%x", c.Msg), "alloc_bytes": r.Alloc, "status": r.Status}
			})
			ev.ReportSoft(t, "c13-gen", C13Case{CaseHeader: headers[i+k], Probe: c}, allocprobe.Verdict(c, r))
		}
	}
	ev.Exhaustive("every binary / container field (top level and one struct level down) of every generated struct-like type of the lab x 5 hostile values (containers also announcing two other, fixed-width element types; binaries also with a real payload of 1 MiB+1 and 2^29 / 2^31-1 declared) x {FromWire(Decode), Decode(stream) over a plain reader, *bytes.Buffer, *bytes.Reader}", complete)
}

func firstWord(s string) string {
	for i := 0; i < len(s); i++ {
		if s[i] == ':' {
			return s[:i]
		}
	}
	return s
}

func init() {
	replayers["c13-gen"] = func(t *testing.T, f *ev.Failure) {
		var c C13Case
		if err := json.Unmarshal(f.Case, &c); err != nil {
			t.Fatal(err)
		}
		// the replay lab registers the program under the id in the header
		c.Probe.Extra["prog"] = c.ProgID
		res, err := allocprobe.Measure([]allocprobe.Case{c.Probe}, os.Getenv("VERIF_SCRATCH"), "^TestC13Child$")
		if err != nil {
			t.Fatalf("environment: %v", err)
		}
		ev.Report(t, f.Unit, c, allocprobe.Verdict(c.Probe, res[0]))
	}
}
