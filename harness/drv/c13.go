package drv

import (
	"bytes"
	"encoding/binary"
	"encoding/json"
	"fmt"
	"os"
	"reflect"
	"strconv"
	"testing"

	tbinary "go.uber.org/thriftrw/protocol/binary"
	"go.uber.org/thriftrw/wire"
	"verif/internal/allocprobe"
	"verif/internal/chunkio"
	"verif/internal/ev"
	im "verif/internal/idlmodel"
	wm "verif/internal/wiremodel"
)

// C13 inside labs: decoding cost of freshly generated deserializers is bounded
// by the input size. For every container / binary position reachable through
// at most one level of struct nesting in every generated struct-like type, a
// short message declares a huge length / count there.

var c13Hostile = []int64{1 << 16, 1 << 20, 1 << 24, 1 << 28, 1<<31 - 1}

func be32(v int64) []byte {
	var b [4]byte
	binary.BigEndian.PutUint32(b[:], uint32(v))
	return b[:]
}

func fhdr(k wm.Kind, id int) []byte { return []byte{byte(k), byte(uint16(id) >> 8), byte(id)} }

// lengthPositions returns (position class, message prefix up to and including
// the hostile header) for the fields of a struct-shaped type.
func lengthPositions(p *im.Program, fields []*im.Field, L int64, prefix []byte, depth int) [][2]interface{} {
	var out [][2]interface{}
	few := []byte{0, 0, 0, 1, 0, 0, 0, 0}
	for _, f := range fields {
		r := p.Root(f.Type)
		k := p.WireKind(f.Type)
		h := append(append([]byte{}, prefix...), fhdr(k, f.ID)...)
		switch r.K {
		case im.TList:
			out = append(out, [2]interface{}{"list-count", append(append(append(h, byte(p.WireKind(r.Elem))), be32(L)...), few...)})
		case im.TSet:
			out = append(out, [2]interface{}{"set-count", append(append(append(h, byte(p.WireKind(r.Elem))), be32(L)...), few...)})
		case im.TMap:
			out = append(out, [2]interface{}{"map-count", append(append(append(h, byte(p.WireKind(r.Key)), byte(p.WireKind(r.Val))), be32(L)...), few...)})
		case im.TString, im.TBinary:
			out = append(out, [2]interface{}{"binary-length", append(append(h, be32(L)...), []byte("abcd")...)})
		case im.TRef:
			d := p.Lookup(*r.Ref)
			if d.IsStructLike() && depth < 1 {
				for _, np := range lengthPositions(p, d.Fields, L, h, depth+1) {
					out = append(out, [2]interface{}{"nested-" + np[0].(string), np[1]})
				}
			}
		}
	}
	return out
}

func c13Call(c allocprobe.Case) error {
	t := findTarget(CaseHeader{ProgID: c.Extra["prog"], Target: c.Extra["target"]})
	if t == nil {
		return fmt.Errorf("target %s/%s not in this lab", c.Extra["prog"], c.Extra["target"])
	}
	x := reflect.New(t.RT).Interface().(Codec)
	switch c.API {
	case "gen/FromWire/generated":
		v, err := tbinary.Default.Decode(bytes.NewReader(c.Msg), wire.Type(t.Kind()))
		if err != nil {
			return err
		}
		return x.FromWire(v)
	case "gen/Decode/generated":
		sr := tbinary.Default.Reader(chunkio.New(c.Msg, chunkio.Plan{}))
		defer sr.Close()
		return x.Decode(sr)
	}
	return fmt.Errorf("unknown api %s", c.API)
}

// C13Child is the measuring child of the lab binary.
func C13Child(t *testing.T) {
	if !allocprobe.InChild() {
		t.Skip("child only")
	}
	if err := allocprobe.ChildLoop(c13Call); err != nil {
		t.Fatal(err)
	}
}

// C13Case is the replayable form: the probe case plus the program.
type C13Case struct {
	CaseHeader
	Probe allocprobe.Case `json:"probe"`
}

// C13Gen walks every length position of every struct-like type of the lab.
func C13Gen(t *testing.T) {
	shard, _ := strconv.Atoi(os.Getenv("VERIF_SHARD"))
	nshards, _ := strconv.Atoi(os.Getenv("VERIF_NSHARDS"))
	if nshards < 1 {
		nshards = 1
	}
	scratch := os.Getenv("VERIF_SCRATCH")
	if scratch == "" {
		scratch = t.TempDir()
	}
	var cases []allocprobe.Case
	var headers []CaseHeader
	n := 0
	for _, tg := range Targets() {
		if !tg.StructLike() || (tg.Def != nil && !tg.Def.IsStructLike()) {
			continue
		}
		for _, L := range c13Hostile {
			for _, lp := range lengthPositions(tg.Prog.Schema, tg.FieldList(), L, nil, 0) {
				for _, api := range []string{"gen/FromWire/generated", "gen/Decode/generated"} {
					n++
					if n%nshards != shard {
						continue
					}
					cases = append(cases, allocprobe.Case{API: api, Msg: lp[1].([]byte), Pos: "field/" + lp[0].(string), L: L,
						Extra: map[string]string{"prog": tg.Prog.ID, "target": tg.Key}})
					headers = append(headers, header(tg))
				}
			}
		}
	}
	if len(cases) == 0 {
		t.Skip("no length position in this shard")
	}
	const batch = 400
	for i := 0; i < len(cases); i += batch {
		j := i + batch
		if j > len(cases) {
			j = len(cases)
		}
		res, err := allocprobe.Measure(cases[i:j], scratch, "^TestC13Child$")
		if err != nil {
			t.Fatalf("environment: %v", err)
		}
		for k, c := range cases[i:j] {
			r := res[k]
			d := ev.Digest([]byte(c.API), c.Msg, []byte(c.Extra["prog"]+c.Extra["target"]))
			ev.Case(d, true, "unit:c13-gen", "api:"+c.API, "pos:"+c.Pos, "status:"+firstWord(r.Status), "L:"+strconv.FormatInt(c.L, 10))
			ev.KeepSample("c13-gen", d, func() interface{} {
				return map[string]interface{}{"type": c.Extra["target"], "api": c.API, "pos": c.Pos, "L": c.L, "msg_hex": fmt.Sprintf("%x", c.Msg), "alloc_bytes": r.Alloc, "status": r.Status}
			})
			ev.ReportSoft(t, "c13-gen", C13Case{CaseHeader: headers[i+k], Probe: c}, allocprobe.Verdict(c, r))
		}
	}
	ev.Exhaustive("every binary / container field (top level and one struct level down) of every generated struct-like type of the lab x 5 hostile values x {FromWire(Decode), Decode(stream)}", true)
}

func firstWord(s string) string {
	for i := 0; i < len(s); i++ {
		if s[i] == ':' {
			return s[:i]
		}
	}
	return s
}

func init() {
	replayers["c13-gen"] = func(t *testing.T, f *ev.Failure) {
		var c C13Case
		if err := json.Unmarshal(f.Case, &c); err != nil {
			t.Fatal(err)
		}
		// the replay lab registers the program under the id in the header
		c.Probe.Extra["prog"] = c.ProgID
		res, err := allocprobe.Measure([]allocprobe.Case{c.Probe}, os.Getenv("VERIF_SCRATCH"), "^TestC13Child$")
		if err != nil {
			t.Fatalf("environment: %v", err)
		}
		ev.Report(t, f.Unit, c, allocprobe.Verdict(c.Probe, res[0]))
	}
}
