package drv

import (
	"bytes"
	"encoding/base64"
	"encoding/json"
	"fmt"
	"reflect"
	"sort"
	"strings"
	"testing"

	"go.uber.org/thriftrw/wire"
	"go.uber.org/zap"
	"go.uber.org/zap/zapcore"
	"pgregory.net/rapid"
	"verif/internal/chunkio"
	"verif/internal/ev"
	im "verif/internal/idlmodel"
	"verif/internal/refcodec"
	wm "verif/internal/wiremodel"
)

// ---------------------------------------------------------------- C14: equality

// C14Case is a triple of logical values; all three are obtained by decoding
// reference encodings through the generated code.
type C14Case struct {
	CaseHeader
	V       wm.W   `json:"v"`
	VPerm   wm.W   `json:"v_perm"` // same value, other wire order
	VOther  wm.W   `json:"v_other"`
	Perturb string `json:"perturb"`
	Stream  bool   `json:"stream"` // decode through the streaming path instead of the value path
}

func decodeOne(t *Target, w wm.W, stream bool) (reflect.Value, error) {
	enc := refcodec.Encode(w)
	sv, vv, serr, verr := decodeBoth(t, enc, chunkio.Plan{})
	if stream {
		return sv, serr
	}
	return vv, verr
}

func callEquals(a, b reflect.Value) (res bool, err error) {
	defer func() {
		if r := recover(); r != nil {
			err = fmt.Errorf("Equals panicked: %v", r)
		}
	}()
	m := a.MethodByName("Equals")
	if !m.IsValid() {
		return false, fmt.Errorf("%s has no Equals", a.Type())
	}
	arg := b
	if m.Type().In(0).Kind() != reflect.Ptr {
		if b.IsNil() {
			return false, fmt.Errorf("skip")
		}
		arg = b.Elem()
	}
	return m.Call([]reflect.Value{arg})[0].Bool(), nil
}

func wireEqual(a, b reflect.Value) (bool, error) {
	wa, err := a.Interface().(Codec).ToWire()
	if err != nil {
		return false, err
	}
	wb, err := b.Interface().(Codec).ToWire()
	if err != nil {
		return false, err
	}
	return wire.ValuesAreEqual(wa, wb), nil
}

func checkC14(c C14Case) error {
	t := findTarget(c.CaseHeader)
	if t == nil {
		return fmt.Errorf("target %s/%s not in this lab", c.ProgID, c.Target)
	}
	x, err1 := decodeOne(t, c.V, c.Stream)
	y, err2 := decodeOne(t, c.VPerm, !c.Stream)
	z, err3 := decodeOne(t, c.VOther, c.Stream)
	if err1 != nil || err2 != nil || err3 != nil {
		return ev.Errf("driver/decode", "decoding reference encodings of valid values failed: %v / %v / %v", err1, err2, err3)
	}
	if !wm.DupFree(t.Fill(c.VOther)) || !wm.DupFree(t.Fill(c.V)) {
		return nil // a saved case from before the domain check covered default-filled duplicates
	}
	structural := func(a, b wm.W) bool { return wm.SemEqual(t.Fill(a), t.Fill(b)) }
	type pair struct {
		name string
		a, b reflect.Value
		want bool
	}
	pairs := []pair{
		{"x=x", x, x, true},
		{"x=y(permuted)", x, y, true},
		{"y=x(permuted)", y, x, true},
		{"x=z(" + c.Perturb + ")", x, z, structural(c.V, c.VOther)},
		{"z=x(" + c.Perturb + ")", z, x, structural(c.V, c.VOther)},
		{"y=z(" + c.Perturb + ")", y, z, structural(c.VPerm, c.VOther)},
	}
	for _, p := range pairs {
		got, err := callEquals(p.a, p.b)
		if err != nil {
			return ev.Errf("equals/panic", "%s: %v", p.name, err)
		}
		w, werr := wireEqual(p.a, p.b)
		if werr != nil {
			return ev.Errf("driver/towire", "%v", werr)
		}
		kind := "reflexive"
		switch {
		case strings.Contains(p.name, "permuted"):
			kind = "order-insensitivity"
		case strings.Contains(p.name, "("):
			kind = "perturbation/" + c.Perturb
		}
		if got != p.want {
			return ev.Errf("equals/generated-vs-structural/"+kind, "%s of %s: generated Equals = %v, structural comparison of the logical values = %v\nv  = %s\nv' = %s", p.name, t.Key, got, p.want, wm.Render(c.V), wm.Render(c.VOther))
		}
		if w != p.want {
			return ev.Errf("equals/wire-vs-structural/"+kind, "%s of %s: wire.ValuesAreEqual of the wire forms = %v, structural comparison = %v\nv  = %s\nv' = %s", p.name, t.Key, w, p.want, wm.Render(c.V), wm.Render(c.VOther))
		}
	}
	// nil handling (pointer receivers only)
	if m := x.MethodByName("Equals"); m.IsValid() && m.Type().In(0).Kind() == reflect.Ptr {
		nilv := reflect.Zero(x.Type())
		for _, p := range []struct {
			name string
			a, b reflect.Value
			want bool
		}{{"x.Equals(nil)", x, nilv, false}, {"nil.Equals(x)", nilv, x, false}, {"nil.Equals(nil)", nilv, nilv, true}} {
			got, err := callEquals(p.a, p.b)
			if err != nil {
				return ev.Errf("equals/nil-panic", "%s of %s: %v", p.name, t.Key, err)
			}
			if got != p.want {
				return ev.Errf("equals/nil-result", "%s of %s = %v", p.name, t.Key, got)
			}
		}
	}
	return nil
}

// perturb applies one change to w (valid for the same schema type).
func perturb(rt *rapid.T, t *Target, w wm.W) (wm.W, string) {
	p := t.Prog.Schema
	// collect edit points by walking value + schema
	type point struct {
		desc  string
		apply func() wm.W
	}
	var pts []point
	var walk func(ty *im.Type, fields []*im.Field, cur wm.W, rebuild func(wm.W) wm.W, depth int)
	walk = func(ty *im.Type, fields []*im.Field, cur wm.W, rebuild func(wm.W) wm.W, depth int) {
		if depth > 5 {
			return
		}
		nested := ""
		if depth > 0 {
			nested = "nested-"
		}
		if fields == nil && ty != nil {
			r := p.Root(ty)
			switch r.K {
			case im.TList, im.TSet:
				if len(cur.Elems) >= 2 && r.K == im.TList {
					pts = append(pts, point{nested + "list-swap", func() wm.W {
						n := cur
						n.Elems = append([]wm.W{}, cur.Elems...)
						n.Elems[0], n.Elems[len(n.Elems)-1] = n.Elems[len(n.Elems)-1], n.Elems[0]
						return rebuild(n)
					}})
				}
				if len(cur.Elems) >= 1 {
					pts = append(pts, point{nested + "length-change", func() wm.W {
						n := cur
						n.Elems = append([]wm.W{}, cur.Elems[:len(cur.Elems)-1]...)
						return rebuild(n)
					}})
				}
				for i := range cur.Elems {
					i := i
					walk(r.Elem, nil, cur.Elems[i], func(x wm.W) wm.W {
						n := cur
						n.Elems = append([]wm.W{}, cur.Elems...)
						n.Elems[i] = x
						return rebuild(n)
					}, depth+1)
				}
				return
			case im.TMap:
				if len(cur.Pairs) >= 1 {
					pts = append(pts, point{nested + "length-change", func() wm.W {
						n := cur
						n.Pairs = append([]wm.Pair{}, cur.Pairs[:len(cur.Pairs)-1]...)
						return rebuild(n)
					}})
					// same value under another key
					if kk := p.WireKind(r.Key); kk != wm.KStruct && kk != wm.KList && kk != wm.KSet && kk != wm.KMap {
						pts = append(pts, point{nested + "map-key-change", func() wm.W {
							n := cur
							n.Pairs = append([]wm.Pair{}, cur.Pairs...)
							n.Pairs[0] = wm.Pair{K: changeLeaf(cur.Pairs[0].K), V: cur.Pairs[0].V}
							return rebuild(n)
						}})
					}
				}
				for i := range cur.Pairs {
					i := i
					walk(r.Val, nil, cur.Pairs[i].V, func(x wm.W) wm.W {
						n := cur
						n.Pairs = append([]wm.Pair{}, cur.Pairs...)
						n.Pairs[i] = wm.Pair{K: cur.Pairs[i].K, V: x}
						return rebuild(n)
					}, depth+1)
				}
				return
			case im.TRef:
				d := p.Lookup(*r.Ref)
				if d.IsStructLike() {
					fields = d.Fields
					break
				}
				fallthrough
			default:
				// scalar leaf
				pts = append(pts, point{nested + "leaf-change", func() wm.W { return rebuild(changeLeaf(cur)) }})
				return
			}
		}
		if cur.K != wm.KStruct {
			return
		}
		union := ty == nil && depth == 0 && t.Union
		if ty != nil {
			if d := p.RootDef(ty); d != nil && d.Kind == im.DUnion {
				union = true
			}
		}
		present := map[int16]int{}
		for i, f := range cur.Fields {
			present[f.ID] = i
		}
		for _, f := range fields {
			f := f
			idx, ok := present[int16(f.ID)]
			if ok {
				if !f.Required() && !union {
					pts = append(pts, point{nested + "presence-flip", func() wm.W {
						n := wm.Struct()
						for _, x := range cur.Fields {
							if x.ID != int16(f.ID) {
								n.Fields = append(n.Fields, x)
							}
						}
						return rebuild(n)
					}})
				}
				walk(f.Type, nil, cur.Fields[idx].V, func(x wm.W) wm.W {
					n := wm.Struct()
					n.Fields = append([]wm.Field{}, cur.Fields...)
					n.Fields[idx] = wm.Field{ID: int16(f.ID), V: x}
					return rebuild(n)
				}, depth+1)
			} else if !union {
				pts = append(pts, point{nested + "presence-flip", func() wm.W {
					n := wm.Struct()
					n.Fields = append([]wm.Field{}, cur.Fields...)
					n.Fields = append(n.Fields, wm.Field{ID: int16(f.ID), V: minimalValue(p, f.Type, 0)})
					return rebuild(n)
				}})
			}
		}
	}
	id := func(x wm.W) wm.W { return x }
	if t.Def == nil {
		walk(nil, t.Fields, w, id, 0)
	} else {
		walk(t.Ty, nil, w, id, 0)
	}
	if len(pts) == 0 {
		return w, "none"
	}
	pt := pts[rapid.IntRange(0, len(pts)-1).Draw(rt, "perturb_at")]
	return pt.apply(), pt.desc
}

func changeLeaf(w wm.W) wm.W {
	n := w
	switch w.K {
	case wm.KBool:
		n.B = !w.B
	case wm.KI8:
		n.I = int64(int8(w.I + 1))
	case wm.KI16:
		n.I = int64(int16(w.I + 1))
	case wm.KI32:
		n.I = int64(int32(w.I + 1))
	case wm.KI64:
		n.I = w.I + 1
		if w.I == 1<<63-1 {
			n.I = 0
		}
	case wm.KDouble:
		if w.F == 0 || w.F == 0x8000000000000000 {
			// +0 <-> -0: equal as doubles, different bit patterns
			n.F = w.F ^ 0x8000000000000000
			return n
		}
		n.F = w.F ^ 0x0008000000000000
		if wm.HasNaN(n) {
			n.F = 0x3ff0000000000000
			if w.F == n.F {
				n.F = 0x4000000000000000
			}
		}
	case wm.KBinary:
		n.Bin = append(append([]byte{}, w.Bin...), 'x')
	}
	return n
}

// C14 is the equality property over generated types.
func C14(t *testing.T) {
	rapid.Check(t, func(rt *rapid.T) {
		tg := drawTarget(rt, nil)
		v := tg.GenValue(rt, im.ValOpts{Depth: rapid.IntRange(1, 4).Draw(rt, "depth"), NoNaN: true}, "v")
		other, how := perturb(rt, tg, v)
		if !wm.DupFree(other) || !wm.DupFree(tg.Fill(other)) {
			// the perturbation made two set elements / map keys equal — as written, or once the
			// defaults of absent fields are filled in (which decoding does): outside the domain
			other, how = v, "none"
		}
		c := C14Case{CaseHeader: header(tg), V: v, VPerm: Shuffle(rt, v, "shuf"), VOther: other, Perturb: how, Stream: rapid.Bool().Draw(rt, "stream")}
		d := ev.Digest([]byte(tg.Prog.SchemaJSON), []byte(tg.Key), refcodec.Encode(refcodec.Canon(v)), refcodec.Encode(refcodec.Canon(other)))
		nontriv := strings.HasPrefix(how, "nested-") || hasUnorderedPair(v)
		ev.Case(d, nontriv, "unit:c14", "perturb:"+how, "shape:"+tg.Class())
		if nontriv {
			ev.KeepSample("c14", d, func() interface{} {
				return map[string]interface{}{"type": tg.Key, "v": wm.Render(v), "perturbation": how, "v_other": wm.Render(other)}
			})
		}
		ev.Report(rt, "c14", c, ev.Guard(func() error { return checkC14(c) }))
	})
}

func hasUnorderedPair(w wm.W) bool {
	if (w.K == wm.KSet && len(w.Elems) >= 2) || (w.K == wm.KMap && len(w.Pairs) >= 2) {
		return true
	}
	for _, f := range w.Fields {
		if hasUnorderedPair(f.V) {
			return true
		}
	}
	for _, e := range w.Elems {
		if hasUnorderedPair(e) {
			return true
		}
	}
	for _, p := range w.Pairs {
		if hasUnorderedPair(p.V) {
			return true
		}
	}
	return false
}

// ---------------------------------------------------------------- C15: redaction

// C15Case: two values that differ only in the values of redacted fields (V,
// VRedactAlt) and one that differs only in no-log fields (VNoLogAlt).
type C15Case struct {
	CaseHeader
	V          wm.W     `json:"v"`
	VRedactAlt wm.W     `json:"v_redact_alt"`
	VNoLogAlt  wm.W     `json:"v_nolog_alt"`
	Markers    []string `json:"markers"` // payloads planted in redacted fields of V and VRedactAlt
	Depth      int      `json:"depth"`   // deepest nesting of a redacted field below the printed value
}

type outputs struct {
	str    string
	errStr string
	hasErr bool
	zap    string
	hasZap bool
}

func render(ptr reflect.Value) (o outputs, err error) {
	defer func() {
		if r := recover(); r != nil {
			err = fmt.Errorf("panic while printing: %v", r)
		}
	}()
	if s, ok := ptr.Interface().(fmt.Stringer); ok {
		o.str = s.String()
	}
	if e, ok := ptr.Interface().(error); ok {
		o.errStr, o.hasErr = e.Error(), true
	}
	if m, ok := ptr.Interface().(zapcore.ObjectMarshaler); ok {
		enc := zapcore.NewJSONEncoder(zapcore.EncoderConfig{})
		buf, zerr := enc.EncodeEntry(zapcore.Entry{}, []zapcore.Field{zap.Object("v", m)})
		if zerr != nil {
			return o, fmt.Errorf("zap encoding failed: %v", zerr)
		}
		o.zap, o.hasZap = buf.String(), true
	}
	return o, nil
}

// canonJSON parses and re-renders JSON with arrays sorted (sets and maps are
// logged in Go map order).
func canonJSON(s string) string {
	var v interface{}
	if err := json.Unmarshal([]byte(s), &v); err != nil {
		return "unparseable:" + s
	}
	var norm func(v interface{}) interface{}
	norm = func(v interface{}) interface{} {
		switch x := v.(type) {
		case map[string]interface{}:
			for k, e := range x {
				x[k] = norm(e)
			}
			return x
		case []interface{}:
			strs := make([]string, len(x))
			for i, e := range x {
				b, _ := json.Marshal(norm(e))
				strs[i] = string(b)
			}
			sort.Strings(strs)
			out := make([]interface{}, len(strs))
			for i, s := range strs {
				out[i] = json.RawMessage(s)
			}
			return out
		}
		return v
	}
	b, _ := json.Marshal(norm(v))
	return string(b)
}

func markerForms(m string) []string {
	forms := []string{m, base64.StdEncoding.EncodeToString([]byte(m))}
	var dec []string
	for _, c := range []byte(m) {
		dec = append(dec, fmt.Sprint(int(c)))
	}
	forms = append(forms, strings.Join(dec, " "), strings.Join(dec, ","))
	return forms
}

func checkC15(c C15Case) error {
	t := findTarget(c.CaseHeader)
	if t == nil {
		return fmt.Errorf("target %s/%s not in this lab", c.ProgID, c.Target)
	}
	mk := func(w wm.W) (outputs, error) {
		ptr, err := t.New(w)
		if err != nil {
			return outputs{}, err
		}
		return render(ptr)
	}
	a, err := mk(c.V)
	if err != nil {
		return ev.Errf("print/error", "%v", err)
	}
	b, err := mk(c.VRedactAlt)
	if err != nil {
		return ev.Errf("print/error", "%v", err)
	}
	n, err := mk(c.VNoLogAlt)
	if err != nil {
		return ev.Errf("print/error", "%v", err)
	}
	depth := "top-level"
	if c.Depth > 0 {
		depth = "nested"
	}
	// (a) non-interference of redacted values
	if a.str != b.str {
		return ev.Errf("leak/String/"+depth, "String() of %s depends on the value of a go.redact field:\n%s\n%s", t.Key, a.str, b.str)
	}
	if a.hasErr && a.errStr != b.errStr {
		return ev.Errf("leak/Error/"+depth, "Error() of %s depends on the value of a go.redact field:\n%s\n%s", t.Key, a.errStr, b.errStr)
	}
	if a.hasZap && canonJSON(a.zap) != canonJSON(b.zap) {
		return ev.Errf("leak/zap/"+depth, "zap output of %s depends on the value of a go.redact field:\n%s\n%s", t.Key, a.zap, b.zap)
	}
	// non-interference of no-log fields (zap only)
	if a.hasZap && canonJSON(a.zap) != canonJSON(n.zap) {
		return ev.Errf("nolog/zap/"+depth, "zap output of %s depends on a go.nolog field:\n%s\n%s", t.Key, a.zap, n.zap)
	}
	// (b) marker absence
	for _, m := range c.Markers {
		for _, form := range markerForms(m) {
			for name, out := range map[string]string{"String": a.str + b.str, "Error": a.errStr + b.errStr, "zap": a.zap + b.zap} {
				if form != "" && strings.Contains(out, form) {
					return ev.Errf("leak/marker/"+name+"/"+depth, "%s output of %s contains the payload %q of a go.redact field (as %q)", name, t.Key, m, form)
				}
			}
		}
	}
	// (c) every other set top-level field appears under its name / label
	fields := t.FieldList()
	if len(fields) > 0 {
		var obj map[string]map[string]json.RawMessage
		if a.hasZap {
			json.Unmarshal([]byte(a.zap), &obj)
		}
		present := map[int16]bool{}
		for _, f := range c.V.Fields {
			present[f.ID] = true
		}
		for _, f := range fields {
			if !present[int16(f.ID)] {
				continue
			}
			_, redact := f.Annots["go.redact"]
			_, nolog := f.Annots["go.nolog"]
			if !strings.Contains(a.str, GoFieldName(f)+": ") {
				return ev.Errf("missing/String", "String() of %s does not show the set field %s:\n%s", t.Key, GoFieldName(f), a.str)
			}
			if a.hasZap && !nolog && !redact {
				label := f.Name
				if l, ok := f.Annots["go.label"]; ok {
					label = l
				}
				if _, ok := obj["v"][label]; !ok {
					return ev.Errf("missing/zap", "zap output of %s has no key %q for the set field %s:\n%s", t.Key, label, f.Name, a.zap)
				}
			}
			if a.hasZap && nolog {
				label := f.Name
				if l, ok := f.Annots["go.label"]; ok {
					label = l
				}
				if _, ok := obj["v"][label]; ok {
					return ev.Errf("nolog/zap-key-present", "zap output of %s contains the go.nolog field %s:\n%s", t.Key, f.Name, a.zap)
				}
			}
		}
	}
	return nil
}

// rewriteAnnotated returns w with the value of every field carrying the
// annotation replaced (presence kept), and the deepest nesting level at which
// such a field was found (-1: none).
func rewriteAnnotated(rt *rapid.T, p *im.Program, ty *im.Type, fields []*im.Field, w wm.W, annot string, markers *[]string, label string, depth int) (wm.W, int) {
	deepest := -1
	if fields == nil && ty != nil {
		r := p.Root(ty)
		switch r.K {
		case im.TList, im.TSet:
			out := w
			out.Elems = make([]wm.W, len(w.Elems))
			for i, e := range w.Elems {
				var d int
				out.Elems[i], d = rewriteAnnotated(rt, p, r.Elem, nil, e, annot, markers, label, depth+1)
				if d > deepest {
					deepest = d
				}
			}
			return out, deepest
		case im.TMap:
			out := w
			out.Pairs = make([]wm.Pair, len(w.Pairs))
			for i, pr := range w.Pairs {
				v, d := rewriteAnnotated(rt, p, r.Val, nil, pr.V, annot, markers, label, depth+1)
				out.Pairs[i] = wm.Pair{K: pr.K, V: v}
				if d > deepest {
					deepest = d
				}
			}
			return out, deepest
		case im.TRef:
			d := p.Lookup(*r.Ref)
			if !d.IsStructLike() {
				return w, -1
			}
			fields = d.Fields
		default:
			return w, -1
		}
	}
	if w.K != wm.KStruct {
		return w, -1
	}
	byID := map[int16]*im.Field{}
	for _, f := range fields {
		byID[int16(f.ID)] = f
	}
	out := wm.Struct()
	for _, wf := range w.Fields {
		f := byID[wf.ID]
		if f == nil {
			out.Fields = append(out.Fields, wf)
			continue
		}
		if _, ok := f.Annots[annot]; ok {
			if typeHasAnnots(p, f.Type) {
				typeAnnotSeen[annot] = true
			}
			annotValueSeen[annot+"-written:"+flagValueClass(f.Annots[annot])] = true
			nv := p.GenValue(rt, f.Type, im.ValOpts{Depth: 2, NoNaN: true, Marker: markerFunc(rt, markers, label)}, label+"_alt")
			out.Fields = append(out.Fields, wm.Field{ID: wf.ID, V: nv})
			if depth > deepest {
				deepest = depth
			}
			continue
		}
		v, d := rewriteAnnotated(rt, p, f.Type, nil, wf.V, annot, markers, label, depth+1)
		if d > deepest {
			deepest = d
		}
		out.Fields = append(out.Fields, wm.Field{ID: wf.ID, V: v})
	}
	return out, deepest
}

// typeAnnotSeen notes, per annotation, that the value under construction has a
// field carrying it whose declared type has annotations of its own
// (bookkeeping for the evidence classes; reset by C15 per case).
var typeAnnotSeen = map[string]bool{}

// annotValueSeen notes how the annotation of the fields rewritten in the current case is
// written in the IDL (bookkeeping for the evidence classes; reset by C15 per case).
var annotValueSeen = map[string]bool{}

// flagValueClass classifies the spelling of a presence annotation.
func flagValueClass(v string) string {
	switch v {
	case "\x00":
		return "bare"
	case "":
		return "empty-value"
	case "true", "1", "TRUE", "T", "t", "True":
		return "boolean-true-literal"
	}
	return "other-word"
}

// typeHasAnnots: the declared type of a field is an annotated type expression
// or names an annotated definition.
func typeHasAnnots(p *im.Program, t *im.Type) bool {
	if t == nil {
		return false
	}
	if len(t.Annots) > 0 {
		return true
	}
	if t.K == im.TRef && t.Ref != nil {
		if d := p.Lookup(*t.Ref); d != nil && len(d.Annots) > 0 {
			return true
		}
	}
	return false
}

func markerFunc(rt *rapid.T, markers *[]string, label string) func(string) []byte {
	return func(kind string) []byte {
		m := "RDCT" + rapid.StringMatching(`[a-f0-9]{12}`).Draw(rt, label+"_marker") + "x"
		*markers = append(*markers, m)
		return []byte(m)
	}
}

// C15 is the redaction / no-log property.
func C15(t *testing.T) {
	rapid.Check(t, func(rt *rapid.T) {
		tg := drawTarget(rt, func(x *Target) bool { return x.StructLike() || x.Kind() >= wm.KStruct })
		p := tg.Prog.Schema
		base := tg.GenValue(rt, im.ValOpts{Depth: rapid.IntRange(1, 4).Draw(rt, "depth"), NoNaN: true, AllPresent: rapid.Bool().Draw(rt, "allpresent")}, "v")
		var markers []string
		var v, alt, nolog wm.W
		var depth int
		typeAnnotSeen = map[string]bool{}
		annotValueSeen = map[string]bool{}
		if tg.Def == nil {
			v, depth = rewriteAnnotated(rt, p, nil, tg.Fields, base, "go.redact", &markers, "r1", 0)
			alt, _ = rewriteAnnotated(rt, p, nil, tg.Fields, v, "go.redact", &markers, "r2", 0)
			nolog, _ = rewriteAnnotated(rt, p, nil, tg.Fields, v, "go.nolog", new([]string), "n1", 0)
		} else {
			v, depth = rewriteAnnotated(rt, p, tg.Ty, nil, base, "go.redact", &markers, "r1", 0)
			alt, _ = rewriteAnnotated(rt, p, tg.Ty, nil, v, "go.redact", &markers, "r2", 0)
			nolog, _ = rewriteAnnotated(rt, p, tg.Ty, nil, v, "go.nolog", new([]string), "n1", 0)
		}
		c := C15Case{CaseHeader: header(tg), V: v, VRedactAlt: alt, VNoLogAlt: nolog, Markers: markers, Depth: depth}
		d := ev.Digest([]byte(tg.Prog.SchemaJSON), []byte(tg.Key), refcodec.Encode(refcodec.Canon(v)), refcodec.Encode(refcodec.Canon(alt)))
		nontriv := depth >= 1
		cls := []string{"unit:c15", fmt.Sprintf("redacted-depth:%d", depth), fmt.Sprintf("zap:%v", !tg.Prog.Opts.NoZap), "shape:" + tg.Class()}
		if len(markers) > 0 {
			cls = append(cls, "markers:planted")
		}
		for _, a := range []string{"go.redact", "go.nolog"} {
			if typeAnnotSeen[a] {
				cls = append(cls, a+"-on-field-of-annotated-type")
			}
		}
		for k := range annotValueSeen {
			cls = append(cls, k)
		}
		sort.Strings(cls[4:])
		ev.Case(d, nontriv, cls...)
		if nontriv {
			ev.KeepSample("c15", d, func() interface{} {
				return map[string]interface{}{"type": tg.Key, "value": wm.Render(v), "redacted_depth": depth, "markers": len(markers)}
			})
		}
		ev.Report(rt, "c15", c, ev.Guard(func() error { return checkC15(c) }))
	})
}

func init() {
	replayers["c14"] = func(t *testing.T, f *ev.Failure) {
		var c C14Case
		if err := json.Unmarshal(f.Case, &c); err != nil {
			t.Fatal(err)
		}
		ev.Report(t, f.Unit, c, ev.Guard(func() error { return checkC14(c) }))
	}
	replayers["c15"] = func(t *testing.T, f *ev.Failure) {
		var c C15Case
		if err := json.Unmarshal(f.Case, &c); err != nil {
			t.Fatal(err)
		}
		ev.Report(t, f.Unit, c, ev.Guard(func() error { return checkC15(c) }))
	}
}

var _ = bytes.Equal
