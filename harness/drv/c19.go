package drv

import (
	"encoding/json"
	"errors"
	"fmt"
	"reflect"
	"sort"
	"testing"

	"pgregory.net/rapid"
	"verif/internal/ev"
	im "verif/internal/idlmodel"
	"verif/internal/refcodec"
	wm "verif/internal/wiremodel"
)

// HelperCase exercises the response helpers of one function.
type HelperCase struct {
	CaseHeader          // Target is "file#Svc.fn"
	Mode       string   `json:"mode"` // success | exception | undeclared | typed-nil
	Ret        wm.W     `json:"ret"`  // return value (mode success)
	ExcIndex   int      `json:"exc_index"`
	Exc        wm.W     `json:"exc"`
	Undeclared string   `json:"undeclared"` // key of an exception type the function does not declare ("" = errors.New)
	UndeclExc  wm.W     `json:"undecl_exc"`
	_          struct{} `json:"-"`
}

var errType = reflect.TypeOf((*error)(nil)).Elem()

func nilError() reflect.Value { return reflect.Zero(errType) }

func (p *Prog) funcTargets(k string) (args, result *Target, fn *im.Func) {
	fn = p.lookupFunc(k)
	for _, t := range Targets() {
		if t.Prog != p {
			continue
		}
		if t.Key == k+":args" {
			args = t
		}
		if t.Key == k+":result" {
			result = t
		}
	}
	return
}

func findProg(h CaseHeader) *Prog {
	for _, p := range Programs() {
		if p.ID == h.ProgID {
			return p
		}
	}
	if ps := Programs(); len(ps) == 1 {
		return ps[0]
	}
	return nil
}

func checkHelper(c HelperCase) (err error) {
	defer func() {
		if r := recover(); r != nil {
			err = ev.Errf("helper/panic/"+c.Mode, "helper panicked: %v", r)
		}
	}()
	p := findProg(c.CaseHeader)
	if p == nil {
		return fmt.Errorf("program %s not in this lab", c.ProgID)
	}
	_, result, fn := p.funcTargets(c.Target)
	h, ok := p.Helpers[c.Target]
	if !ok || fn == nil || result == nil {
		return fmt.Errorf("function %s not in registry", c.Target)
	}
	hv := reflect.ValueOf(h)
	wrap, unwrap, isExc := hv.FieldByName("WrapResponse"), hv.FieldByName("UnwrapResponse"), hv.FieldByName("IsException")
	if !wrap.IsValid() || !unwrap.IsValid() || !isExc.IsValid() {
		return ev.Errf("helper/missing", "%s: helper lacks WrapResponse / UnwrapResponse / IsException", c.Target)
	}
	void := fn.Ret == nil
	schema := p.Schema
	callWrap := func(ret reflect.Value, e reflect.Value) (reflect.Value, error) {
		var out []reflect.Value
		if void {
			out = wrap.Call([]reflect.Value{e})
		} else {
			out = wrap.Call([]reflect.Value{ret, e})
		}
		var werr error
		if !out[1].IsNil() {
			werr = out[1].Interface().(error)
		}
		return out[0], werr
	}
	zeroRet := reflect.Value{}
	if !void {
		zeroRet = reflect.Zero(wrap.Type().In(0))
	}
	excValue := func(f *im.Field, w wm.W) (reflect.Value, error) {
		// the exception field of the result struct is *Exc
		ft := result.RT
		sf, ok := ft.FieldByName(GoFieldName(f))
		if !ok {
			return reflect.Value{}, fmt.Errorf("result struct has no field %s", GoFieldName(f))
		}
		return build(schema, sf.Type, f.Type, w), nil
	}
	switch c.Mode {
	case "success":
		ret := zeroRet
		if !void {
			ret = build(schema, wrap.Type().In(0), fn.Ret, c.Ret)
		}
		res, werr := callWrap(ret, nilError())
		if werr != nil {
			return ev.Errf("helper/wrap/success-error", "%s: WrapResponse(value, nil) failed: %v", c.Target, werr)
		}
		got, rerr := result.ReadBack(res)
		if rerr != nil {
			return ev.Errf("driver/read", "%v", rerr)
		}
		want := wm.Struct()
		if !void {
			want.Fields = []wm.Field{{ID: 0, V: c.Ret}} // the helpers store the Go value as given; defaults are filled on the wire
		}
		if !refcodec.CanonEqual(dropEmptyContainers(got), dropEmptyContainers(want)) {
			return ev.Errf("helper/wrap/success-value", "%s: WrapResponse(value, nil) = %s, want %s", c.Target, wm.Render(got), wm.Render(want))
		}
		out := unwrap.Call([]reflect.Value{res})
		if e := out[len(out)-1]; !e.IsNil() {
			return ev.Errf("helper/unwrap/success-error", "%s: UnwrapResponse of a success result returned error %v", c.Target, e.Interface())
		}
		if !void {
			back, _, rerr := Read(schema, out[0], fn.Ret)
			if rerr != nil {
				return ev.Errf("driver/read", "%v", rerr)
			}
			if !refcodec.CanonEqual(back, c.Ret) && !refcodec.CanonEqual(back, schema.Fill(fn.Ret, c.Ret)) {
				return ev.Errf("helper/unwrap/success-value", "%s: UnwrapResponse(WrapResponse(v)) = %s, v = %s", c.Target, wm.Render(back), wm.Render(c.Ret))
			}
		}
	case "exception":
		f := fn.Throws[c.ExcIndex]
		ev2, berr := excValue(f, c.Exc)
		if berr != nil {
			return ev.Errf("driver/build", "%v", berr)
		}
		if !isExc.Call([]reflect.Value{ev2.Convert(errType)})[0].Bool() {
			return ev.Errf("helper/is-exception/declared", "%s: IsException is false for the declared exception %s", c.Target, f.Name)
		}
		res, werr := callWrap(zeroRet, ev2.Convert(errType))
		if werr != nil {
			return ev.Errf("helper/wrap/exception-error", "%s: WrapResponse refused the declared exception %s: %v", c.Target, f.Name, werr)
		}
		got, rerr := result.ReadBack(res)
		if rerr != nil {
			return ev.Errf("driver/read", "%v", rerr)
		}
		want := wm.Struct(wm.Field{ID: int16(f.ID), V: c.Exc})
		if !refcodec.CanonEqual(dropEmptyContainers(got), dropEmptyContainers(want)) {
			return ev.Errf("helper/wrap/exception-value", "%s: WrapResponse(_, %s) = %s, want %s", c.Target, f.Name, wm.Render(got), wm.Render(want))
		}
		out := unwrap.Call([]reflect.Value{res})
		e := out[len(out)-1]
		if e.IsNil() {
			return ev.Errf("helper/unwrap/exception-lost", "%s: UnwrapResponse of a result carrying exception %s returned no error", c.Target, f.Name)
		}
		if e.Elem().Pointer() != ev2.Pointer() {
			return ev.Errf("helper/unwrap/exception-identity", "%s: UnwrapResponse returned another error than the exception passed to WrapResponse", c.Target)
		}
	case "undeclared":
		var e reflect.Value
		if c.Undeclared == "" {
			e = reflect.ValueOf(errors.New("some other error")).Convert(errType)
		} else {
			rt, ok := p.Types[c.Undeclared]
			if !ok {
				return fmt.Errorf("exception %s not in registry", c.Undeclared)
			}
			file, name := splitKey(c.Undeclared)
			ty := &im.Type{K: im.TRef, Ref: &im.Ref{File: file, Name: name}}
			e = build(schema, reflect.PtrTo(rt), ty, c.UndeclExc).Convert(errType)
		}
		if isExc.Call([]reflect.Value{e})[0].Bool() {
			return ev.Errf("helper/is-exception/undeclared", "%s: IsException is true for an error the function does not declare (%s)", c.Target, c.Undeclared)
		}
		res, werr := callWrap(zeroRet, e)
		if werr == nil {
			got, _ := result.ReadBack(res)
			return ev.Errf("helper/wrap/undeclared-accepted", "%s: WrapResponse accepted an error the function does not declare (%s) and produced %s", c.Target, c.Undeclared, wm.Render(got))
		}
	}
	return nil
}

// C19Helpers checks WrapResponse / UnwrapResponse / IsException of every function.
func C19Helpers(t *testing.T) {
	type fnRef struct {
		p *Prog
		k string
	}
	var fns []fnRef
	for _, p := range Programs() {
		var ks []string
		for k := range p.Helpers {
			if _, ok := p.Results[k]; ok {
				ks = append(ks, k)
			}
		}
		sort.Strings(ks)
		for _, k := range ks {
			fns = append(fns, fnRef{p, k})
		}
	}
	if len(fns) == 0 {
		t.Fatalf("environment: the lab has no function with a result")
	}
	rapid.Check(t, func(rt *rapid.T) {
		fr := fns[rapid.IntRange(0, len(fns)-1).Draw(rt, "fn")]
		p := fr.p
		fn := p.lookupFunc(fr.k)
		c := HelperCase{CaseHeader: CaseHeader{ProgID: p.ID, Target: fr.k, Program: p.Schema, Opts: p.Opts}}
		modes := []string{"success", "undeclared"}
		if len(fn.Throws) > 0 {
			modes = append(modes, "exception", "exception")
		}
		c.Mode = rapid.SampledFrom(modes).Draw(rt, "mode")
		switch c.Mode {
		case "success":
			if fn.Ret != nil {
				c.Ret = p.Schema.GenValue(rt, fn.Ret, im.ValOpts{Depth: 2}, "ret")
			}
		case "exception":
			c.ExcIndex = rapid.IntRange(0, len(fn.Throws)-1).Draw(rt, "exc")
			c.Exc = p.Schema.GenValue(rt, fn.Throws[c.ExcIndex].Type, im.ValOpts{Depth: 2}, "excv")
		case "undeclared":
			// an exception type of the program that this function does not declare, or a plain error
			declared := map[string]bool{}
			for _, f := range fn.Throws {
				if d := p.Schema.RootDef(f.Type); d != nil {
					declared[d.File+"#"+d.Name] = true
				}
			}
			var others []string
			for k := range p.Types {
				file, name := splitKey(k)
				if d := p.Schema.Lookup(im.Ref{File: file, Name: name}); d != nil && d.Kind == im.DException && !declared[k] {
					others = append(others, k)
				}
			}
			sort.Strings(others)
			if len(others) > 0 && rapid.Bool().Draw(rt, "other_exception") {
				c.Undeclared = others[rapid.IntRange(0, len(others)-1).Draw(rt, "which")]
				file, name := splitKey(c.Undeclared)
				c.UndeclExc = p.Schema.GenValue(rt, &im.Type{K: im.TRef, Ref: &im.Ref{File: file, Name: name}}, im.ValOpts{Depth: 1}, "uexc")
			}
		}
		b, _ := json.Marshal(c)
		d := ev.Digest([]byte(p.SchemaJSON), b)
		retCls := "void"
		if fn.Ret != nil {
			retCls = p.Schema.Root(fn.Ret).K
		}
		nontriv := c.Mode != "success" || (fn.Ret != nil && p.Schema.WireKind(fn.Ret) >= wm.KBinary)
		ev.Case(d, nontriv, "unit:c19-helpers", "mode:"+c.Mode, "ret:"+retCls, fmt.Sprintf("throws:%d", len(fn.Throws)))
		if nontriv {
			ev.KeepSample("c19-helpers", d, func() interface{} {
				return map[string]interface{}{"function": fr.k, "mode": c.Mode, "ret": wm.Render(c.Ret), "undeclared": c.Undeclared}
			})
		}
		ev.Report(rt, "c19-helpers", c, ev.Guard(func() error { return checkHelper(c) }))
	})
}

func init() {
	replayers["c19-helpers"] = func(t *testing.T, f *ev.Failure) {
		var c HelperCase
		if err := json.Unmarshal(f.Case, &c); err != nil {
			t.Fatal(err)
		}
		ev.Report(t, f.Unit, c, ev.Guard(func() error { return checkHelper(c) }))
	}
}
