package drv

import (
	"fmt"
	"math"
	"reflect"
	"sort"

	im "verif/internal/idlmodel"
	wm "verif/internal/wiremodel"
)

// Build constructs a Go value of type rt (a generated type, or the Go type of
// a field) holding the wire tree w interpreted under schema type ty.
//
// The mapping is the documented one: optional primitives / enums are pointers,
// structs are pointers, binary is []byte, string is string, list<T> is []T,
// set<T> is map[T]struct{} (or []T when T is not hashable or go.type=slice),
// map<K,V> is map[K]V (or []struct{Key K; Value V} when K is not hashable),
// typedefs are named types of their target's representation.
func Build(p *im.Program, rt reflect.Type, ty *im.Type, w wm.W) (v reflect.Value, err error) {
	defer func() {
		if r := recover(); r != nil {
			err = fmt.Errorf("drv.Build(%s as %s): %v", rt, ty.K, r)
		}
	}()
	return build(p, rt, ty, w), nil
}

func build(p *im.Program, rt reflect.Type, ty *im.Type, w wm.W) reflect.Value {
	root := p.Root(ty)
	// pointer to a scalar (optional primitive) or to a struct
	if rt.Kind() == reflect.Ptr {
		inner := build(p, rt.Elem(), ty, w)
		ptr := reflect.New(rt.Elem())
		ptr.Elem().Set(inner)
		return ptr
	}
	out := reflect.New(rt).Elem()
	switch root.K {
	case im.TBool:
		out.SetBool(w.B)
	case im.TI8, im.TI16, im.TI32, im.TI64:
		out.SetInt(w.I)
	case im.TDouble:
		out.SetFloat(math.Float64frombits(w.F))
	case im.TString:
		out.SetString(string(w.Bin))
	case im.TBinary:
		b := make([]byte, len(w.Bin))
		copy(b, w.Bin)
		out.SetBytes(b)
	case im.TList:
		s := reflect.MakeSlice(rt, 0, len(w.Elems))
		for _, e := range w.Elems {
			s = reflect.Append(s, build(p, rt.Elem(), root.Elem, e))
		}
		out.Set(s)
	case im.TSet:
		if rt.Kind() == reflect.Map {
			m := reflect.MakeMapWithSize(rt, len(w.Elems))
			for _, e := range w.Elems {
				m.SetMapIndex(build(p, rt.Key(), root.Elem, e), reflect.Zero(rt.Elem()))
			}
			out.Set(m)
		} else {
			s := reflect.MakeSlice(rt, 0, len(w.Elems))
			for _, e := range w.Elems {
				s = reflect.Append(s, build(p, rt.Elem(), root.Elem, e))
			}
			out.Set(s)
		}
	case im.TMap:
		if rt.Kind() == reflect.Map {
			m := reflect.MakeMapWithSize(rt, len(w.Pairs))
			for _, pr := range w.Pairs {
				m.SetMapIndex(build(p, rt.Key(), root.Key, pr.K), build(p, rt.Elem(), root.Val, pr.V))
			}
			out.Set(m)
		} else {
			s := reflect.MakeSlice(rt, 0, len(w.Pairs))
			for _, pr := range w.Pairs {
				item := reflect.New(rt.Elem()).Elem()
				item.FieldByName("Key").Set(build(p, item.FieldByName("Key").Type(), root.Key, pr.K))
				item.FieldByName("Value").Set(build(p, item.FieldByName("Value").Type(), root.Val, pr.V))
				s = reflect.Append(s, item)
			}
			out.Set(s)
		}
	case im.TRef:
		d := p.Lookup(*root.Ref)
		if d.Kind == im.DEnum {
			out.SetInt(w.I)
			break
		}
		buildFields(p, out, d.Fields, w)
	}
	return out
}

// NilEmptyRequiredLists makes buildFields leave a required list field nil when
// its value is the empty list: by the documented Go mapping a nil slice is the
// empty list, and a required list field has no other "unset" state. Set only
// by the serializer half of C01 around a single build.
var NilEmptyRequiredLists bool

// buildFields fills the Go struct value out from w.
func buildFields(p *im.Program, out reflect.Value, fields []*im.Field, w wm.W) {
	byID := map[int16]wm.W{}
	for _, f := range w.Fields {
		byID[f.ID] = f.V
	}
	for _, f := range fields {
		v, ok := byID[int16(f.ID)]
		if !ok {
			continue
		}
		fv := out.FieldByName(GoFieldName(f))
		if !fv.IsValid() {
			panic(fmt.Sprintf("generated struct %s has no field %q (thrift field %q)", out.Type(), GoFieldName(f), f.Name))
		}
		if NilEmptyRequiredLists && f.Required() && v.K == wm.KList && len(v.Elems) == 0 {
			continue // nil slice == empty list
		}
		fv.Set(build(p, fv.Type(), f.Type, v))
	}
}

// BuildStruct builds a *T for a struct-shaped target from w.
func BuildStruct(t *Target, w wm.W) (v reflect.Value, err error) {
	defer func() {
		if r := recover(); r != nil {
			err = fmt.Errorf("drv.BuildStruct(%s): %v", t.Key, r)
		}
	}()
	ptr := reflect.New(t.RT)
	buildFields(t.Prog.Schema, ptr.Elem(), t.FieldList(), w)
	return ptr, nil
}

// GoFieldName is the Go name of a struct field.
func GoFieldName(f *im.Field) string { return im.GoNameOf(f.Name, f.Annots) }

// Read converts a Go value of schema type ty back into a wire tree. present is
// false for nil pointers / nil slices / nil maps (an unset optional field).
func Read(p *im.Program, rv reflect.Value, ty *im.Type) (w wm.W, present bool, err error) {
	defer func() {
		if r := recover(); r != nil {
			err = fmt.Errorf("drv.Read(%s as %s): %v", rv.Type(), ty.K, r)
		}
	}()
	w, present = read(p, rv, ty)
	return
}

func read(p *im.Program, rv reflect.Value, ty *im.Type) (wm.W, bool) {
	root := p.Root(ty)
	if rv.Kind() == reflect.Ptr {
		if rv.IsNil() {
			return wm.W{K: p.WireKind(ty)}, false
		}
		return read(p, rv.Elem(), ty)
	}
	k := p.WireKind(ty)
	switch root.K {
	case im.TBool:
		return wm.Bool(rv.Bool()), true
	case im.TI8, im.TI16, im.TI32, im.TI64:
		return wm.W{K: k, I: rv.Int()}, true
	case im.TDouble:
		return wm.DoubleBits(math.Float64bits(rv.Float())), true
	case im.TString:
		return wm.Binary([]byte(rv.String())), true
	case im.TBinary:
		if rv.IsNil() {
			return wm.Binary(nil), false
		}
		return wm.Binary(append([]byte{}, rv.Bytes()...)), true
	case im.TList:
		if rv.IsNil() {
			return wm.W{K: wm.KList, EK: p.WireKind(root.Elem)}, false
		}
		w := wm.W{K: wm.KList, EK: p.WireKind(root.Elem)}
		for i := 0; i < rv.Len(); i++ {
			e, _ := read(p, rv.Index(i), root.Elem)
			w.Elems = append(w.Elems, e)
		}
		return w, true
	case im.TSet:
		if rv.IsNil() {
			return wm.W{K: wm.KSet, EK: p.WireKind(root.Elem)}, false
		}
		w := wm.W{K: wm.KSet, EK: p.WireKind(root.Elem)}
		if rv.Kind() == reflect.Map {
			for _, key := range sortedMapKeys(rv) {
				e, _ := read(p, key, root.Elem)
				w.Elems = append(w.Elems, e)
			}
		} else {
			for i := 0; i < rv.Len(); i++ {
				e, _ := read(p, rv.Index(i), root.Elem)
				w.Elems = append(w.Elems, e)
			}
		}
		return w, true
	case im.TMap:
		if rv.IsNil() {
			return wm.W{K: wm.KMap, KK: p.WireKind(root.Key), VK: p.WireKind(root.Val)}, false
		}
		w := wm.W{K: wm.KMap, KK: p.WireKind(root.Key), VK: p.WireKind(root.Val)}
		if rv.Kind() == reflect.Map {
			for _, key := range sortedMapKeys(rv) {
				kk, _ := read(p, key, root.Key)
				vv, _ := read(p, rv.MapIndex(key), root.Val)
				w.Pairs = append(w.Pairs, wm.Pair{K: kk, V: vv})
			}
		} else {
			for i := 0; i < rv.Len(); i++ {
				kk, _ := read(p, rv.Index(i).FieldByName("Key"), root.Key)
				vv, _ := read(p, rv.Index(i).FieldByName("Value"), root.Val)
				w.Pairs = append(w.Pairs, wm.Pair{K: kk, V: vv})
			}
		}
		return w, true
	case im.TRef:
		d := p.Lookup(*root.Ref)
		if d.Kind == im.DEnum {
			return wm.I32(int32(rv.Int())), true
		}
		return readFields(p, rv, d.Fields), true
	}
	panic("unreachable")
}

func readFields(p *im.Program, rv reflect.Value, fields []*im.Field) wm.W {
	w := wm.Struct()
	for _, f := range fields {
		fv := rv.FieldByName(GoFieldName(f))
		if !fv.IsValid() {
			panic(fmt.Sprintf("generated struct %s has no field %q", rv.Type(), GoFieldName(f)))
		}
		v, ok := read(p, fv, f.Type)
		if ok {
			w.Fields = append(w.Fields, wm.Field{ID: int16(f.ID), V: v})
		}
	}
	return w
}

// ReadStruct reads a *T of a struct-shaped target.
func ReadStruct(t *Target, ptr reflect.Value) (w wm.W, err error) {
	defer func() {
		if r := recover(); r != nil {
			err = fmt.Errorf("drv.ReadStruct(%s): %v", t.Key, r)
		}
	}()
	return readFields(t.Prog.Schema, ptr.Elem(), t.FieldList()), nil
}

// sortedMapKeys orders map keys deterministically (by formatted value).
func sortedMapKeys(m reflect.Value) []reflect.Value {
	keys := m.MapKeys()
	sort.Slice(keys, func(i, j int) bool { return less(keys[i], keys[j]) })
	return keys
}

func less(a, b reflect.Value) bool {
	switch a.Kind() {
	case reflect.Bool:
		return !a.Bool() && b.Bool()
	case reflect.Int8, reflect.Int16, reflect.Int32, reflect.Int64, reflect.Int:
		return a.Int() < b.Int()
	case reflect.Float64:
		fa, fb := a.Float(), b.Float()
		if fa != fb {
			return fa < fb
		}
		return math.Float64bits(fa) < math.Float64bits(fb)
	case reflect.String:
		return a.String() < b.String()
	}
	return fmt.Sprint(a.Interface()) < fmt.Sprint(b.Interface())
}
