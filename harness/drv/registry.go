// Package drv is the reflection-based driver that runs value-level properties
// inside a lab (see internal/genlab): it knows every generated type of every
// program of the lab through the registry, builds Go values of those types
// from wire trees, reads them back, and calls the generated methods.
package drv

import (
	"encoding/json"
	"fmt"
	"reflect"
	"sort"
	"sync"

	im "verif/internal/idlmodel"
)

// Prog is one program of the lab.
type Prog struct {
	ID         string
	SchemaJSON string
	OptsJSON   string
	Types      map[string]reflect.Type
	Consts     map[string]interface{}
	Defaults   map[string]func() interface{}
	Args       map[string]reflect.Type
	Results    map[string]reflect.Type
	Helpers    map[string]interface{}
	// Missing lists "kind|key|GoName" of identifiers the model says the generated
	// package must declare but does not.
	Missing []string

	Schema *im.Program
	Opts   Opts
}

// Opts mirrors genlab.ProgOpts.
type Opts struct {
	NoZap                 bool   `json:"no_zap,omitempty"`
	EnumTextMarshalStrict bool   `json:"enum_text_marshal_strict,omitempty"`
	NoRecurse             bool   `json:"no_recurse,omitempty"`
	OutputFile            string `json:"output_file,omitempty"`
	NoEmbedIDL            bool   `json:"no_embed_idl,omitempty"`
}

var (
	regMu sync.Mutex
	progs = map[string]*Prog{}
)

// Register is called from the generated registry.
func Register(p *Prog) {
	p.Schema = &im.Program{}
	if err := json.Unmarshal([]byte(p.SchemaJSON), p.Schema); err != nil {
		panic(fmt.Sprintf("drv: bad schema for %s: %v", p.ID, err))
	}
	p.Schema.Index()
	json.Unmarshal([]byte(p.OptsJSON), &p.Opts)
	regMu.Lock()
	progs[p.ID] = p
	regMu.Unlock()
}

// Programs returns the registered programs sorted by id.
func Programs() []*Prog {
	var out []*Prog
	for _, p := range progs {
		out = append(out, p)
	}
	sort.Slice(out, func(i, j int) bool { return out[i].ID < out[j].ID })
	return out
}

// Target is one named generated type together with its schema type.
type Target struct {
	Prog *Prog
	Key  string // "file#Name" or "file#Svc.fn:args" / ":result"
	RT   reflect.Type
	// exactly one of Def (named definition) or Fields (args / result struct) is set
	Def    *im.Def
	Fields []*im.Field
	Union  bool // result structs behave like unions (at most / exactly one member)
	Result bool
	Void   bool // result of a void function
	Ty     *im.Type
}

// Targets lists every struct-like / typedef / enum / args / result type of the lab.
func Targets() []*Target {
	var out []*Target
	for _, p := range Programs() {
		var keys []string
		for k := range p.Types {
			keys = append(keys, k)
		}
		sort.Strings(keys)
		for _, k := range keys {
			file, name := splitKey(k)
			d := p.Schema.Lookup(im.Ref{File: file, Name: name})
			if d == nil {
				continue
			}
			out = append(out, &Target{Prog: p, Key: k, RT: p.Types[k], Def: d, Ty: &im.Type{K: im.TRef, Ref: &im.Ref{File: file, Name: name}}})
		}
		keys = keys[:0]
		for k := range p.Args {
			keys = append(keys, k)
		}
		sort.Strings(keys)
		for _, k := range keys {
			fn := p.lookupFunc(k)
			if fn == nil {
				continue
			}
			out = append(out, &Target{Prog: p, Key: k + ":args", RT: p.Args[k], Fields: fn.Args})
			if rt, ok := p.Results[k]; ok {
				fields := append([]*im.Field{}, fn.Throws...)
				if fn.Ret != nil {
					fields = append([]*im.Field{{ID: 0, Name: "success", Type: fn.Ret, Req: "optional"}}, fields...)
				}
				out = append(out, &Target{Prog: p, Key: k + ":result", RT: rt, Fields: fields, Union: true, Result: true, Void: fn.Ret == nil})
			}
		}
	}
	return out
}

func splitKey(k string) (string, string) {
	for i := len(k) - 1; i >= 0; i-- {
		if k[i] == '#' {
			return k[:i], k[i+1:]
		}
	}
	return "", k
}

// lookupFunc resolves "file#Svc.fn".
func (p *Prog) lookupFunc(k string) *im.Func {
	file, rest := splitKey(k)
	for i := len(rest) - 1; i >= 0; i-- {
		if rest[i] == '.' {
			d := p.Schema.Lookup(im.Ref{File: file, Name: rest[:i]})
			if d == nil {
				return nil
			}
			for _, fn := range d.Funcs {
				if fn.Name == rest[i+1:] {
					return fn
				}
			}
		}
	}
	return nil
}

// StructLike reports whether the target is a struct-shaped type.
func (t *Target) StructLike() bool { return t.Fields != nil || t.Def.IsStructLike() }

// FieldList returns the fields of a struct-shaped target.
func (t *Target) FieldList() []*im.Field {
	if t.Fields != nil || t.Def == nil {
		return t.Fields
	}
	return t.Def.Fields
}

// IsUnion reports union semantics (exactly one member; result structs: at most one when void).
func (t *Target) IsUnion() bool { return t.Union || (t.Def != nil && t.Def.Kind == im.DUnion) }
