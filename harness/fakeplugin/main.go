// fakeplugin is a scripted ThriftRW plugin used by checks C16 and C17. Invoked
// as thriftrw-plugin-<name> [--instance=<i>] it loads
// $FAKEPLUGIN_SCRIPT_DIR/<name>.json or <name>@<i>.json (an fplab.Script), serves the framed + enveloped + multiplexed plugin protocol on
// stdin/stdout with verif/internal/refcodec (never thriftrw's codec), and
// appends JSON events to $FAKEPLUGIN_LOG (shared, O_APPEND: the line order is
// the global order of events). It never writes to stderr.
package main

import (
	"encoding/json"
	"fmt"
	"io"
	"os"
	"os/signal"
	"path/filepath"
	"strings"
	"syscall"
	"time"

	"verif/harness/fplab"
	"verif/internal/refcodec"
	wm "verif/internal/wiremodel"
)

var (
	self    string // plugin name: what a conforming handshake reports
	id      string // fplab.Plugin.ID: name, or name@instance with --instance=<instance>
	logFile *os.File
	evN     int
	script  fplab.Script
)

func logEv(e fplab.Event) {
	if logFile == nil {
		return
	}
	evN++
	e.Plugin, e.Pid, e.N, e.T = id, os.Getpid(), evN, time.Now().UnixNano()
	b, _ := json.Marshal(e)
	logFile.Write(append(b, '\n')) // one write(2) on an O_APPEND descriptor
}

func exit() {
	logEv(fplab.Event{Ev: fplab.EvExit, Status: script.ExitStatus})
	os.Exit(script.ExitStatus)
}

func fatal(format string, args ...interface{}) {
	logEv(fplab.Event{Ev: fplab.EvError, Detail: fmt.Sprintf(format, args...)})
	os.Exit(97)
}

func main() {
	signal.Ignore(syscall.SIGPIPE)
	// stay silent whatever happens: the host forwards our stderr to its own,
	// which the oracle searches for plugin names
	if f, err := os.OpenFile(os.DevNull, os.O_WRONLY, 0); err == nil {
		syscall.Dup3(int(f.Fd()), 2, 0)
		f.Close()
	}
	defer func() {
		if r := recover(); r != nil {
			fatal("panic: %v", r)
		}
	}()
	self = strings.TrimPrefix(filepath.Base(os.Args[0]), "thriftrw-plugin-")
	id = self
	for _, a := range os.Args[1:] {
		if strings.HasPrefix(a, "--instance=") {
			id = self + "@" + strings.TrimPrefix(a, "--instance=")
		}
	}
	if p := os.Getenv("FAKEPLUGIN_LOG"); p != "" {
		f, err := os.OpenFile(p, os.O_WRONLY|os.O_APPEND|os.O_CREATE, 0o644)
		if err == nil {
			logFile = f
		}
	}
	logEv(fplab.Event{Ev: fplab.EvStart})
	b, err := os.ReadFile(filepath.Join(os.Getenv("FAKEPLUGIN_SCRIPT_DIR"), id+".json"))
	if err != nil {
		fatal("script: %v", err)
	}
	if err := json.Unmarshal(b, &script); err != nil {
		fatal("script: %v", err)
	}
	// never outlive a wedged host by much (the runner kills the process group
	// of a host that hits its ceiling, 240 s at most; this is for a runner
	// that died)
	go func() {
		time.Sleep(330 * time.Second)
		fatal("watchdog")
	}()
	serve()
}

func kindAt(step string) string { return fplab.Normalize(step, script.StepOf(step).Kind) }

func serve() {
	expect := fplab.StepHandshake
	for {
		if expect != "" && kindAt(expect) == fplab.KExitBeforeRead {
			logEv(fplab.Event{Ev: fplab.EvFault, Step: expect, Kind: fplab.KExitBeforeRead})
			exit()
		}
		payload, err := readFrame(os.Stdin)
		if err != nil {
			if err != io.EOF {
				logEv(fplab.Event{Ev: fplab.EvBadRequest, Detail: "partial frame: " + err.Error()})
			}
			logEv(fplab.Event{Ev: fplab.EvEOF})
			if script.LingerMs > 0 {
				time.Sleep(time.Duration(script.LingerMs) * time.Millisecond)
			}
			exit()
		}
		env, framing, n, err := refcodec.DecodeEnvelope(payload)
		switch {
		case err != nil:
			logEv(fplab.Event{Ev: fplab.EvBadRequest, Detail: "undecodable envelope: " + err.Error()})
			continue
		case framing != refcodec.FrameStrict || env.Type != fplab.TypeCall || n != len(payload):
			logEv(fplab.Event{Ev: fplab.EvBadRequest, Method: string(env.Name), Detail: fmt.Sprintf("framing=%s type=%d consumed %d of %d", framing, env.Type, n, len(payload))})
			continue
		}
		method := string(env.Name)
		step := ""
		switch method {
		case fplab.MethodHandshake:
			step, expect = fplab.StepHandshake, fplab.StepGenerate
		case fplab.MethodGenerate:
			step, expect = fplab.StepGenerate, fplab.StepGoodbye
			if !validGenerateRequest(env.Body) {
				logEv(fplab.Event{Ev: fplab.EvBadRequest, Method: method, Detail: "GenerateServiceRequest lacks a required field"})
			}
		case fplab.MethodGoodbye:
			step, expect = fplab.StepGoodbye, ""
		default:
			logEv(fplab.Event{Ev: fplab.EvBadRequest, Method: method, Detail: "unknown method"})
			e := refcodec.Envelope{Name: env.Name, Type: fplab.TypeException, SeqID: env.SeqID, Body: fplab.ExceptionBody("unknown method", 1)}
			writeAll(refcodec.Frame(refcodec.EncodeStrict(e)), &fplab.Step{})
			continue
		}
		logEv(fplab.Event{Ev: fplab.EvRequest, Method: method, Step: step})
		perform(step, method, env.SeqID)
	}
}

// validGenerateRequest checks the request wrapper {1: GenerateServiceRequest}
// and the five required fields of the request.
func validGenerateRequest(body wm.W) bool {
	for _, f := range body.Fields {
		if f.ID == 1 && f.V.K == wm.KStruct {
			have := map[int16]wm.Kind{}
			for _, g := range f.V.Fields {
				have[g.ID] = g.V.K
			}
			return have[1] == wm.KList && have[2] == wm.KMap && have[3] == wm.KMap && have[4] == wm.KBinary && have[5] == wm.KBinary
		}
	}
	return false
}

func perform(step, method string, seqid int32) {
	st := *script.StepOf(step)
	st.Kind = kindAt(step)
	if st.Kind != fplab.KOK {
		logEv(fplab.Event{Ev: fplab.EvFault, Step: step, Kind: st.Kind})
	}
	frame := fplab.ReplyFrame(self, step, &st, method, seqid)
	switch st.Kind {
	case fplab.KExitBeforeRead, fplab.KExitAfterRead:
		// (exit-before-read lands here when the host skipped the step the
		// plugin was waiting for: the request is read, nothing is sent)
		exit()
	case fplab.KFlood:
		flood(step, &st)
		exit()
	case fplab.KGarbageFrame:
		frame = refcodec.Frame(st.Bytes)
	case fplab.KGarbageRaw:
		writeAll(st.Bytes, &st)
		exit()
	case fplab.KTruncate:
		k := st.At
		if k > len(frame) {
			k = len(frame)
		}
		if k < 0 {
			k = 0
		}
		writeAll(frame[:k], &st)
		exit()
	case fplab.KOversize:
		f := append([]byte{byte(st.Prefix >> 24), byte(st.Prefix >> 16), byte(st.Prefix >> 8), byte(st.Prefix)}, frame[4:]...)
		writeAll(f, &st)
		exit()
	}
	err := writeAll(frame, &st)
	d := ""
	if err != nil {
		d = err.Error()
	}
	logEv(fplab.Event{Ev: fplab.EvReply, Step: step, Kind: st.Kind, Detail: d})
	if st.FloodsAfter(step) {
		logEv(fplab.Event{Ev: fplab.EvFault, Step: step, Kind: fplab.KReplyFlood})
		flood(step, &st)
		exit()
	}
	if st.Kind == fplab.KExitAfterReply {
		exit()
	}
}

// flood writes the junk of the step in one write: with more than a pipe
// buffer of it the call returns only when the host has read the junk or has
// closed its end (EPIPE; SIGPIPE is ignored).
func flood(step string, st *fplab.Step) {
	_, err := os.Stdout.Write(fplab.FloodBytes(st.FloodPat, st.Flood))
	d := ""
	if err != nil {
		d = err.Error()
	}
	logEv(fplab.Event{Ev: fplab.EvFlood, Step: step, Detail: d})
}

func writeAll(b []byte, st *fplab.Step) error {
	pause := func() {
		if st.DelayUs > 0 {
			time.Sleep(time.Duration(st.DelayUs) * time.Microsecond)
		}
	}
	switch st.Write {
	case fplab.WBytes:
		for i := range b {
			if _, err := os.Stdout.Write(b[i : i+1]); err != nil {
				return err
			}
			pause()
		}
		return nil
	case fplab.WSegments:
		i := 0
		for len(b) > 0 {
			n := 1
			if len(st.Segs) > 0 {
				n = st.Segs[i%len(st.Segs)]
				i++
			}
			if n < 1 {
				n = 1
			}
			if n > len(b) {
				n = len(b)
			}
			if _, err := os.Stdout.Write(b[:n]); err != nil {
				return err
			}
			b = b[n:]
			pause()
		}
		return nil
	}
	_, err := os.Stdout.Write(b)
	return err
}

func readFrame(r io.Reader) ([]byte, error) {
	var h [4]byte
	n, err := io.ReadFull(r, h[:])
	if err != nil {
		if n == 0 && err == io.EOF {
			return nil, io.EOF
		}
		return nil, fmt.Errorf("after %d prefix bytes: %v", n, err)
	}
	l := uint32(h[0])<<24 | uint32(h[1])<<16 | uint32(h[2])<<8 | uint32(h[3])
	if l > 64<<20 {
		return nil, fmt.Errorf("frame of %d bytes announced", l)
	}
	b := make([]byte, l)
	if m, err := io.ReadFull(r, b); err != nil {
		return nil, fmt.Errorf("after %d of %d payload bytes: %v", m, l, err)
	}
	return b, nil
}
