package fplab

import (
	"bufio"
	"bytes"
	"encoding/json"
	"fmt"
	"os"
	"os/exec"
	"path/filepath"
	"sort"
	"strconv"
	"strings"
	"syscall"
	"time"
)

// Run describes one execution of the thriftrw binary against fake plugins.
type Run struct {
	Thriftrw   string   // binary under test
	Fakeplugin string   // the fake plugin binary
	Work       string   // private, existing, empty directory for bin/, scripts/, logs (removed by the caller)
	Dir        string   // working directory of the host
	Args       []string // complete argument list (the caller adds --plugin flags)
	Plugins    []Plugin // installed as Work/bin/thriftrw-plugin-<name>
	Timeout    time.Duration
}

// QuiesceAfter is how long a host may run before the runner starts to look
// whether it is blocked for good (a run takes some 50 ms on an idle machine).
const QuiesceAfter = 10 * time.Second

// Obs is everything observed about one run.
type Obs struct {
	Exit      int // exit status, -1 if killed by a signal
	Signal    string
	TimedOut  bool
	Stdout    string
	Stderr    string
	Events    []Event // in log order, including the host-exit marker
	HostExit  int     // Seq of the host-exit marker
	Survivors []int   // plugin pids still alive when the host had returned
	Wall      time.Duration
	// TimedOut: the host did not return by itself and was killed, at the
	// ceiling or - Quiescent - earlier, once every thread of every process of
	// its process group had slept for five seconds without using CPU time and
	// without a new line in the event log: the run was blocked for good, not
	// slow. Blocked describes those processes.
	Quiescent bool
	Blocked   string
}

// Do runs the host once. The error is an environment problem, never a verdict.
func (r Run) Do() (*Obs, error) {
	bin := filepath.Join(r.Work, "bin")
	scripts := filepath.Join(r.Work, "scripts")
	logPath := filepath.Join(r.Work, "events.log")
	for _, d := range []string{bin, scripts} {
		if err := os.MkdirAll(d, 0o755); err != nil {
			return nil, err
		}
	}
	for _, p := range r.Plugins {
		if err := os.Symlink(r.Fakeplugin, filepath.Join(bin, "thriftrw-plugin-"+p.Name)); err != nil && !os.IsExist(err) {
			return nil, err
		}
		b, err := json.Marshal(p.Script)
		if err != nil {
			return nil, err
		}
		if err := os.WriteFile(filepath.Join(scripts, p.ID()+".json"), b, 0o644); err != nil {
			return nil, err
		}
	}
	if err := os.WriteFile(logPath, nil, 0o644); err != nil {
		return nil, err
	}
	stdout, err := os.Create(filepath.Join(r.Work, "stdout"))
	if err != nil {
		return nil, err
	}
	defer stdout.Close()
	stderr, err := os.Create(filepath.Join(r.Work, "stderr"))
	if err != nil {
		return nil, err
	}
	defer stderr.Close()

	cmd := exec.Command(r.Thriftrw, r.Args...)
	cmd.Dir = r.Dir
	// files, not pipes: Wait must return when the host exits even if an
	// orphaned plugin still holds the descriptors
	cmd.Stdout, cmd.Stderr = stdout, stderr
	cmd.Env = []string{
		"PATH=" + bin,
		"HOME=" + r.Work,
		"TMPDIR=" + r.Work,
		"FAKEPLUGIN_SCRIPT_DIR=" + scripts,
		"FAKEPLUGIN_LOG=" + logPath,
	}
	cmd.SysProcAttr = &syscall.SysProcAttr{Setpgid: true}
	to := r.Timeout
	if to == 0 {
		to = 60 * time.Second
	}
	t0 := time.Now()
	if err := cmd.Start(); err != nil {
		return nil, fmt.Errorf("starting %s: %v", r.Thriftrw, err)
	}
	pgid := cmd.Process.Pid
	done := make(chan error, 1)
	go func() { done <- cmd.Wait() }()
	o := &Obs{}
	var werr error
	// wait for the host; from QuiesceAfter on look whether the run is blocked
	// for good (see quiescent), and give up at the ceiling in any case
	ceiling := time.After(to)
	quiesce := time.After(QuiesceAfter)
wait:
	for {
		select {
		case werr = <-done:
			break wait
		case <-quiesce:
			if q, desc := quiescent(pgid, logPath, done); q {
				o.TimedOut, o.Quiescent, o.Blocked = true, true, desc
				syscall.Kill(-pgid, syscall.SIGKILL)
				werr = <-done
				break wait
			}
			quiesce = time.After(2 * time.Second)
		case <-ceiling:
			o.TimedOut = true
			o.Quiescent, o.Blocked = quiescent(pgid, logPath, done)
			syscall.Kill(-pgid, syscall.SIGKILL)
			werr = <-done
			break wait
		}
	}
	o.Wall = time.Since(t0)
	// the marker is appended after the host has been reaped: every event a
	// plugin logged before the host returned precedes it in the file
	if lf, err := os.OpenFile(logPath, os.O_WRONLY|os.O_APPEND, 0); err == nil {
		b, _ := json.Marshal(Event{Ev: EvHostExit, T: time.Now().UnixNano()})
		lf.Write(append(b, '\n'))
		lf.Close()
	}
	o.Exit = cmd.ProcessState.ExitCode()
	if ws, ok := cmd.ProcessState.Sys().(syscall.WaitStatus); ok && ws.Signaled() {
		o.Signal = ws.Signal().String()
	}
	_ = werr

	evs, err := ReadEvents(logPath)
	if err != nil {
		syscall.Kill(-pgid, syscall.SIGKILL)
		return nil, err
	}
	// which plugin processes outlived the host?
	seen := map[int]bool{}
	for _, e := range evs {
		if e.Ev == EvHostExit {
			break
		}
		if e.Ev == EvStart && !seen[e.Pid] {
			seen[e.Pid] = true
			if syscall.Kill(e.Pid, 0) == nil {
				o.Survivors = append(o.Survivors, e.Pid)
			}
		}
	}
	// never leave strays: the host and its plugins share the process group
	syscall.Kill(-pgid, syscall.SIGKILL)
	for _, pid := range o.Survivors {
		syscall.Kill(pid, syscall.SIGKILL)
	}
	for i := 0; i < 500; i++ {
		alive := false
		for _, pid := range o.Survivors {
			if syscall.Kill(pid, 0) == nil {
				alive = true
			}
		}
		if !alive && syscall.Kill(-pgid, 0) != nil {
			break
		}
		time.Sleep(10 * time.Millisecond)
	}
	// re-read: survivors may have logged more before they were killed
	if evs2, err := ReadEvents(logPath); err == nil {
		evs = evs2
	}
	o.Events = evs
	o.HostExit = -1
	for _, e := range evs {
		if e.Ev == EvHostExit {
			o.HostExit = e.Seq
		}
		if e.Ev == EvError {
			return nil, fmt.Errorf("fake plugin %s: %s", e.Plugin, e.Detail)
		}
	}
	if o.HostExit < 0 {
		return nil, fmt.Errorf("host-exit marker missing from the event log")
	}
	if b, err := os.ReadFile(stdout.Name()); err == nil {
		o.Stdout = string(b)
	}
	if b, err := os.ReadFile(stderr.Name()); err == nil {
		o.Stderr = string(b)
	}
	return o, nil
}

// procStat is what /proc/<pid>/task/<tid>/stat says about one thread.
type procStat struct {
	comm  string
	state byte
	pgrp  int
	ticks uint64 // utime + stime
}

func readStat(path string) (procStat, bool) {
	b, err := os.ReadFile(path)
	if err != nil {
		return procStat{}, false
	}
	s := string(b)
	l, r := strings.IndexByte(s, '('), strings.LastIndexByte(s, ')')
	if l < 0 || r < l {
		return procStat{}, false
	}
	f := strings.Fields(s[r+1:])
	// f[0] state, f[1] ppid, f[2] pgrp, ..., f[11] utime, f[12] stime
	if len(f) < 13 {
		return procStat{}, false
	}
	ps := procStat{comm: s[l+1 : r], state: f[0][0]}
	ps.pgrp, _ = strconv.Atoi(f[2])
	u, _ := strconv.ParseUint(f[11], 10, 64)
	v, _ := strconv.ParseUint(f[12], 10, 64)
	ps.ticks = u + v
	return ps, true
}

// groupSample looks at every thread of every process of the process group:
// the number of threads, whether all of them sleep (state S; zombies count
// as asleep), the CPU ticks used so far and a description of the processes.
func groupSample(pgid int) (threads int, asleep bool, ticks uint64, desc string) {
	asleep = true
	ents, _ := os.ReadDir("/proc")
	var parts []string
	for _, e := range ents {
		pid, err := strconv.Atoi(e.Name())
		if err != nil {
			continue
		}
		ps, ok := readStat(filepath.Join("/proc", e.Name(), "stat"))
		if !ok || ps.pgrp != pgid {
			continue
		}
		wchan, _ := os.ReadFile(filepath.Join("/proc", e.Name(), "wchan"))
		parts = append(parts, fmt.Sprintf("%s(pid %d, state %c, wchan %s)", ps.comm, pid, ps.state, strings.TrimSpace(string(wchan))))
		tasks, _ := os.ReadDir(filepath.Join("/proc", e.Name(), "task"))
		for _, t := range tasks {
			ts, ok := readStat(filepath.Join("/proc", e.Name(), "task", t.Name(), "stat"))
			if !ok {
				continue
			}
			threads++
			ticks += ts.ticks
			if ts.state != 'S' && ts.state != 'Z' {
				asleep = false
			}
		}
	}
	sort.Strings(parts)
	return threads, asleep, ticks, strings.Join(parts, " ")
}

// quiescent decides, for a host that has hit its ceiling, whether the run is
// blocked for good: during five seconds (20 samples) every thread of the
// process group is asleep, the group uses no CPU time (one tick of slack), the
// set of threads stays the same and the event log does not grow. The longest
// scripted pause of a fake plugin is far below that window, and the host has
// no timers; a loaded machine makes threads runnable, not sleeping.
func quiescent(pgid int, logPath string, done <-chan error) (bool, string) {
	size := func() int64 {
		if fi, err := os.Stat(logPath); err == nil {
			return fi.Size()
		}
		return -1
	}
	n0, asleep, t0, desc := groupSample(pgid)
	s0 := size()
	if n0 == 0 || !asleep {
		return false, desc
	}
	for i := 0; i < 20; i++ {
		time.Sleep(250 * time.Millisecond)
		if len(done) > 0 {
			return false, desc // the host returned after all
		}
		n, asleep, t, d := groupSample(pgid)
		if n != n0 || !asleep || t > t0+1 || size() != s0 {
			return false, d
		}
		desc = d
	}
	return true, desc
}

// ReadEvents parses an event log.
func ReadEvents(path string) ([]Event, error) {
	b, err := os.ReadFile(path)
	if err != nil {
		return nil, err
	}
	var evs []Event
	sc := bufio.NewScanner(bytes.NewReader(b))
	sc.Buffer(make([]byte, 1<<20), 1<<20)
	for sc.Scan() {
		if len(bytes.TrimSpace(sc.Bytes())) == 0 {
			continue
		}
		var e Event
		if err := json.Unmarshal(sc.Bytes(), &e); err != nil {
			return nil, fmt.Errorf("event log line %d: %v", len(evs), err)
		}
		e.Seq = len(evs)
		evs = append(evs, e)
	}
	return evs, nil
}

// Of returns the events of one plugin process (name = Plugin.ID), in order.
func Of(evs []Event, name string) []Event {
	var out []Event
	for _, e := range evs {
		if e.Plugin == name && e.Ev != EvHostExit {
			out = append(out, e)
		}
	}
	return out
}

// PluginArgs returns the --plugin flags for the plugins.
func PluginArgs(ps []Plugin) []string {
	var a []string
	for _, p := range ps {
		if p.Instance != "" {
			// the flag value is split like a shell command line
			a = append(a, "--plugin="+p.Name+" --instance="+p.Instance)
			continue
		}
		a = append(a, "--plugin="+p.Name)
	}
	return a
}
