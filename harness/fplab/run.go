package fplab

import (
	"bufio"
	"bytes"
	"encoding/json"
	"fmt"
	"os"
	"os/exec"
	"path/filepath"
	"syscall"
	"time"
)

// Run describes one execution of the thriftrw binary against fake plugins.
type Run struct {
	Thriftrw   string   // binary under test
	Fakeplugin string   // the fake plugin binary
	Work       string   // private, existing, empty directory for bin/, scripts/, logs (removed by the caller)
	Dir        string   // working directory of the host
	Args       []string // complete argument list (the caller adds --plugin flags)
	Plugins    []Plugin // installed as Work/bin/thriftrw-plugin-<name>
	Timeout    time.Duration
}

// Obs is everything observed about one run.
type Obs struct {
	Exit      int // exit status, -1 if killed by a signal
	Signal    string
	TimedOut  bool
	Stdout    string
	Stderr    string
	Events    []Event // in log order, including the host-exit marker
	HostExit  int     // Seq of the host-exit marker
	Survivors []int   // plugin pids still alive when the host had returned
	Wall      time.Duration
}

// Do runs the host once. The error is an environment problem, never a verdict.
func (r Run) Do() (*Obs, error) {
	bin := filepath.Join(r.Work, "bin")
	scripts := filepath.Join(r.Work, "scripts")
	logPath := filepath.Join(r.Work, "events.log")
	for _, d := range []string{bin, scripts} {
		if err := os.MkdirAll(d, 0o755); err != nil {
			return nil, err
		}
	}
	for _, p := range r.Plugins {
		if err := os.Symlink(r.Fakeplugin, filepath.Join(bin, "thriftrw-plugin-"+p.Name)); err != nil {
			return nil, err
		}
		b, err := json.Marshal(p.Script)
		if err != nil {
			return nil, err
		}
		if err := os.WriteFile(filepath.Join(scripts, p.Name+".json"), b, 0o644); err != nil {
			return nil, err
		}
	}
	if err := os.WriteFile(logPath, nil, 0o644); err != nil {
		return nil, err
	}
	stdout, err := os.Create(filepath.Join(r.Work, "stdout"))
	if err != nil {
		return nil, err
	}
	defer stdout.Close()
	stderr, err := os.Create(filepath.Join(r.Work, "stderr"))
	if err != nil {
		return nil, err
	}
	defer stderr.Close()

	cmd := exec.Command(r.Thriftrw, r.Args...)
	cmd.Dir = r.Dir
	// files, not pipes: Wait must return when the host exits even if an
	// orphaned plugin still holds the descriptors
	cmd.Stdout, cmd.Stderr = stdout, stderr
	cmd.Env = []string{
		"PATH=" + bin,
		"HOME=" + r.Work,
		"TMPDIR=" + r.Work,
		"FAKEPLUGIN_SCRIPT_DIR=" + scripts,
		"FAKEPLUGIN_LOG=" + logPath,
	}
	cmd.SysProcAttr = &syscall.SysProcAttr{Setpgid: true}
	to := r.Timeout
	if to == 0 {
		to = 60 * time.Second
	}
	t0 := time.Now()
	if err := cmd.Start(); err != nil {
		return nil, fmt.Errorf("starting %s: %v", r.Thriftrw, err)
	}
	pgid := cmd.Process.Pid
	done := make(chan error, 1)
	go func() { done <- cmd.Wait() }()
	o := &Obs{}
	var werr error
	select {
	case werr = <-done:
	case <-time.After(to):
		o.TimedOut = true
		syscall.Kill(-pgid, syscall.SIGKILL)
		werr = <-done
	}
	o.Wall = time.Since(t0)
	// the marker is appended after the host has been reaped: every event a
	// plugin logged before the host returned precedes it in the file
	if lf, err := os.OpenFile(logPath, os.O_WRONLY|os.O_APPEND, 0); err == nil {
		b, _ := json.Marshal(Event{Ev: EvHostExit, T: time.Now().UnixNano()})
		lf.Write(append(b, '\n'))
		lf.Close()
	}
	o.Exit = cmd.ProcessState.ExitCode()
	if ws, ok := cmd.ProcessState.Sys().(syscall.WaitStatus); ok && ws.Signaled() {
		o.Signal = ws.Signal().String()
	}
	_ = werr

	evs, err := ReadEvents(logPath)
	if err != nil {
		syscall.Kill(-pgid, syscall.SIGKILL)
		return nil, err
	}
	// which plugin processes outlived the host?
	seen := map[int]bool{}
	for _, e := range evs {
		if e.Ev == EvHostExit {
			break
		}
		if e.Ev == EvStart && !seen[e.Pid] {
			seen[e.Pid] = true
			if syscall.Kill(e.Pid, 0) == nil {
				o.Survivors = append(o.Survivors, e.Pid)
			}
		}
	}
	// never leave strays: the host and its plugins share the process group
	syscall.Kill(-pgid, syscall.SIGKILL)
	for _, pid := range o.Survivors {
		syscall.Kill(pid, syscall.SIGKILL)
	}
	for i := 0; i < 500; i++ {
		alive := false
		for _, pid := range o.Survivors {
			if syscall.Kill(pid, 0) == nil {
				alive = true
			}
		}
		if !alive && syscall.Kill(-pgid, 0) != nil {
			break
		}
		time.Sleep(10 * time.Millisecond)
	}
	// re-read: survivors may have logged more before they were killed
	if evs2, err := ReadEvents(logPath); err == nil {
		evs = evs2
	}
	o.Events = evs
	o.HostExit = -1
	for _, e := range evs {
		if e.Ev == EvHostExit {
			o.HostExit = e.Seq
		}
		if e.Ev == EvError {
			return nil, fmt.Errorf("fake plugin %s: %s", e.Plugin, e.Detail)
		}
	}
	if o.HostExit < 0 {
		return nil, fmt.Errorf("host-exit marker missing from the event log")
	}
	if b, err := os.ReadFile(stdout.Name()); err == nil {
		o.Stdout = string(b)
	}
	if b, err := os.ReadFile(stderr.Name()); err == nil {
		o.Stderr = string(b)
	}
	return o, nil
}

// ReadEvents parses an event log.
func ReadEvents(path string) ([]Event, error) {
	b, err := os.ReadFile(path)
	if err != nil {
		return nil, err
	}
	var evs []Event
	sc := bufio.NewScanner(bytes.NewReader(b))
	sc.Buffer(make([]byte, 1<<20), 1<<20)
	for sc.Scan() {
		if len(bytes.TrimSpace(sc.Bytes())) == 0 {
			continue
		}
		var e Event
		if err := json.Unmarshal(sc.Bytes(), &e); err != nil {
			return nil, fmt.Errorf("event log line %d: %v", len(evs), err)
		}
		e.Seq = len(evs)
		evs = append(evs, e)
	}
	return evs, nil
}

// Of returns the events of one plugin, in order.
func Of(evs []Event, name string) []Event {
	var out []Event
	for _, e := range evs {
		if e.Plugin == name && e.Ev != EvHostExit {
			out = append(out, e)
		}
	}
	return out
}

// PluginArgs returns the --plugin flags for the plugins.
func PluginArgs(ps []Plugin) []string {
	var a []string
	for _, p := range ps {
		a = append(a, "--plugin="+p.Name)
	}
	return a
}
