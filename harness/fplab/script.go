// Package fplab is the shared half of the scripted fake plugin
// (verif/harness/fakeplugin): the script and event-log formats, the reply
// builders (over verif/internal/refcodec, never thriftrw's codec), the model
// of what a correct host does with a script, and a runner that executes the
// real thriftrw binary against fake plugins inside a sandbox directory.
package fplab

import (
	"sort"

	"verif/internal/refcodec"
	wm "verif/internal/wiremodel"
)

// Protocol steps.
const (
	StepHandshake = "handshake"
	StepGenerate  = "generate"
	StepGoodbye   = "goodbye"
)

// Multiplexed method names of plugin/api.thrift.
const (
	MethodHandshake = "Plugin:handshake"
	MethodGoodbye   = "Plugin:goodbye"
	MethodGenerate  = "ServiceGenerator:generate"
)

// APIVersion is API_VERSION of plugin/api.thrift; FeatureServiceGenerator is
// Feature.SERVICE_GENERATOR.
const (
	APIVersion              = 4
	FeatureServiceGenerator = 1
)

// Envelope types.
const (
	TypeCall      = 1
	TypeReply     = 2
	TypeException = 3
	TypeOneWay    = 4
)

// Step kinds: what the fake plugin does at one protocol step.
const (
	KOK             = "ok"               // conforming reply
	KWrongName      = "wrong-name"       // handshake: another plugin name
	KWrongAPI       = "wrong-api"        // handshake: another API version
	KNoFeature      = "no-feature"       // handshake: SERVICE_GENERATOR not advertised (not a failure)
	KMissingField   = "missing-field"    // handshake: required field `name` absent
	KException      = "exception"        // Exception envelope carrying a TApplicationException
	KWrongType      = "wrong-type"       // envelope type other than Reply/Exception
	KGarbageFrame   = "garbage-frame"    // well-formed frame, payload is not an envelope; keeps serving
	KGarbageRaw     = "garbage-raw"      // unframed bytes, then exit
	KTruncate       = "truncate"         // first At bytes of the reply frame, then exit
	KOversize       = "oversize"         // length prefix larger than the payload that follows, then exit
	KExitBeforeRead = "exit-before-read" // exit before reading the request of this step
	KExitAfterRead  = "exit-after-read"  // read the request, exit without replying
	KExitAfterReply = "exit-after-reply" // conforming reply, then exit at once
	KFlood          = "flood"            // instead of the reply: Flood bytes of junk on stdout in one write, then exit
	// KReplyFlood is not a scripted kind but the name under which the fake
	// plugin logs the Flood modifier of a step whose kind replies in full: the
	// reply of the kind, then Flood bytes of junk in one write, then exit.
	KReplyFlood = "reply-then-flood"
)

// Junk patterns of a flood (Step.FloodPat). What matters is what a host that
// reads the junk as frames makes of it: zero bytes are a run of empty frames
// (the host consumes four bytes per request and leaves the rest in the pipe);
// 0xff and text announce a frame far longer than the junk (the host reads
// everything and then meets EOF); half-frame announces half of the junk (the
// host consumes that much and leaves the rest).
const (
	FloodZero      = "zero"
	FloodFF        = "ff"
	FloodText      = "text"
	FloodHalfFrame = "half-frame"
)

// FloodPats lists the junk patterns.
var FloodPats = []string{FloodZero, FloodFF, FloodText, FloodHalfFrame}

// PipeBuffer is the default capacity of a Linux pipe: a plugin with more
// unread output than this is blocked in write(2) until the host reads or
// closes the pipe.
const PipeBuffer = 64 << 10

// FloodBytes builds n bytes of junk of a pattern.
func FloodBytes(pat string, n int) []byte {
	if n < 0 {
		n = 0
	}
	b := make([]byte, n)
	switch pat {
	case FloodFF:
		for i := range b {
			b[i] = 0xff
		}
	case FloodText:
		const line = "debug: plugin report line, nobody is going to read this\n"
		for i := range b {
			b[i] = line[i%len(line)]
		}
	case FloodHalfFrame:
		for i := range b {
			b[i] = 0x5a
		}
		if n >= 4 {
			h := uint32(n / 2)
			b[0], b[1], b[2], b[3] = byte(h>>24), byte(h>>16), byte(h>>8), byte(h)
		}
	}
	return b
}

// Write modes of a reply.
const (
	WWhole    = "whole"
	WBytes    = "bytes"    // one byte per write
	WSegments = "segments" // sizes from Segs (cycled)
)

// Step scripts one protocol step.
type Step struct {
	Kind    string `json:"kind"`
	Write   string `json:"write,omitempty"`
	Segs    []int  `json:"segs,omitempty"`
	DelayUs int    `json:"delay_us,omitempty"` // pause between segments
	Name    string `json:"name,omitempty"`     // handshake: name to report (wrong-name)
	API     int32  `json:"api,omitempty"`      // handshake: version to report (wrong-api)
	LibVer  string `json:"libver,omitempty"`   // handshake: libraryVersion ("" = omit)
	// handshake: when FeatureList is set, Features is the advertised feature
	// list verbatim (empty, unknown values, duplicates, ...) instead of
	// [SERVICE_GENERATOR]; whether the plugin is a service generator then
	// depends on SERVICE_GENERATOR being a member. Not a failure either way.
	FeatureList bool              `json:"feature_list,omitempty"`
	Features    []int32           `json:"features,omitempty"`
	Files       map[string][]byte `json:"files,omitempty"`    // generate: files to return
	EnvType     int8              `json:"env_type,omitempty"` // wrong-type
	Bytes       []byte            `json:"bytes,omitempty"`    // garbage-frame / garbage-raw
	At          int               `json:"at,omitempty"`       // truncate
	Prefix      uint32            `json:"prefix,omitempty"`   // oversize
	Message     string            `json:"message,omitempty"`  // exception
	// Flood > 0: with kind flood, that many bytes of junk instead of the
	// reply; with a kind that replies in full, that many bytes of junk right
	// after the reply. Either way one write (no segmentation), then exit -
	// which with more than a pipe buffer of junk only happens once the host
	// has read it or closed the pipe. Ignored with the other kinds.
	Flood    int    `json:"flood,omitempty"`
	FloodPat string `json:"flood_pat,omitempty"`
}

// FloodsAfter reports whether the step (of the protocol step called step)
// dumps junk after a complete reply.
func (st Step) FloodsAfter(step string) bool {
	k := Normalize(step, st.Kind)
	return st.Flood > 0 && k != KFlood && RepliesInFull(k)
}

// Script is the whole behaviour of one fake plugin process.
type Script struct {
	Handshake  Step `json:"handshake"`
	Generate   Step `json:"generate"`
	Goodbye    Step `json:"goodbye"`
	ExitStatus int  `json:"exit_status,omitempty"` // status of every exit of the process
	LingerMs   int  `json:"linger_ms,omitempty"`   // sleep between stdin EOF and exit
}

// Plugin is a named script. Several plugins of one host run may carry the same
// Name: they are instances of one plugin executable started with different
// arguments (-p "doc --lang=en" -p "doc --lang=de"), told apart by Instance
// (passed as --instance=<Instance>; at most one of them may leave it empty).
// All of them answer the handshake with Name.
type Plugin struct {
	Name     string `json:"name"`
	Instance string `json:"instance,omitempty"`
	Script   Script `json:"script"`
}

// ID names the plugin process in the event log and selects its script file:
// Name, or Name@Instance.
func (p Plugin) ID() string {
	if p.Instance == "" {
		return p.Name
	}
	return p.Name + "@" + p.Instance
}

// StepOf returns the step called name.
func (s *Script) StepOf(name string) *Step {
	switch name {
	case StepHandshake:
		return &s.Handshake
	case StepGenerate:
		return &s.Generate
	}
	return &s.Goodbye
}

// Event is one line of the event log.
type Event struct {
	Plugin string `json:"plugin"` // Plugin.ID of the process
	Pid    int    `json:"pid"`
	N      int    `json:"n"` // per-process counter
	T      int64  `json:"t"` // unix nanoseconds (informational only)
	Ev     string `json:"ev"`
	Method string `json:"method,omitempty"`
	Step   string `json:"step,omitempty"`
	Kind   string `json:"kind,omitempty"`
	Status int    `json:"status,omitempty"`
	Detail string `json:"detail,omitempty"`
	Seq    int    `json:"-"` // line number in the shared log = global order
}

// Event names.
const (
	EvStart      = "start"
	EvRequest    = "request"       // a complete, well-formed request was read
	EvBadRequest = "bad-request"   // a frame that is not a strict Call envelope / unknown method
	EvFault      = "fault"         // a step kind other than ok is about to be executed
	EvReply      = "reply"         // a reply was written completely (Detail carries a write error)
	EvFlood      = "flood-written" // the junk of a flood was written or the write failed (Detail)
	EvEOF        = "stdin-eof"
	EvExit       = "exit"
	EvError      = "error"     // harness problem inside the fake plugin (no script, ...)
	EvHostExit   = "host-exit" // appended by the runner after the host returned
)

// ---------------------------------------------------------------- replies

func str(s string) wm.W { return wm.Binary([]byte(s)) }

// HandshakeBody builds Plugin_Handshake_Result{success: HandshakeResponse}.
func HandshakeBody(name string, api int32, features []int32, libver string, omitName bool) wm.W {
	var fs []wm.Field
	if !omitName {
		fs = append(fs, wm.Field{ID: 1, V: str(name)})
	}
	fs = append(fs, wm.Field{ID: 2, V: wm.I32(api)})
	fl := wm.W{K: wm.KList, EK: wm.KI32}
	for _, f := range features {
		fl.Elems = append(fl.Elems, wm.I32(f))
	}
	fs = append(fs, wm.Field{ID: 3, V: fl})
	if libver != "" {
		fs = append(fs, wm.Field{ID: 4, V: str(libver)})
	}
	return wm.Struct(wm.Field{ID: 0, V: wm.Struct(fs...)})
}

// GenerateBody builds ServiceGenerator_Generate_Result{success:
// GenerateServiceResponse{files}} with the map in sorted key order.
func GenerateBody(files map[string][]byte) wm.W {
	keys := make([]string, 0, len(files))
	for k := range files {
		keys = append(keys, k)
	}
	sort.Strings(keys)
	m := wm.W{K: wm.KMap, KK: wm.KBinary, VK: wm.KBinary}
	for _, k := range keys {
		m.Pairs = append(m.Pairs, wm.Pair{K: str(k), V: wm.Binary(files[k])})
	}
	return wm.Struct(wm.Field{ID: 0, V: wm.Struct(wm.Field{ID: 1, V: m})})
}

// ExceptionBody builds a TApplicationException.
func ExceptionBody(msg string, typ int32) wm.W {
	return wm.Struct(wm.Field{ID: 1, V: str(msg)}, wm.Field{ID: 2, V: wm.I32(typ)})
}

// MethodOf maps a step to its multiplexed method name.
func MethodOf(step string) string {
	switch step {
	case StepHandshake:
		return MethodHandshake
	case StepGenerate:
		return MethodGenerate
	}
	return MethodGoodbye
}

// Normalize maps the handshake-only kinds to ok at the other steps (the fake
// plugin does the same), and the empty kind to ok.
func Normalize(step, kind string) string {
	if kind == "" {
		return KOK
	}
	if step != StepHandshake {
		switch kind {
		case KWrongName, KWrongAPI, KNoFeature, KMissingField:
			return KOK
		}
	}
	return kind
}

// ReplyFrame is the complete conforming reply frame of a plugin called self at
// step (with the step's parameters applied: name/api/feature/missing-field
// deviations, exception, wrong envelope type). method and seqid echo the
// request.
func ReplyFrame(self, step string, st *Step, method string, seqid int32) []byte {
	env := refcodec.Envelope{Name: []byte(method), Type: TypeReply, SeqID: seqid}
	switch step {
	case StepHandshake:
		name, api, feats := self, int32(APIVersion), []int32{FeatureServiceGenerator}
		switch st.Kind {
		case KWrongName:
			name = st.Name
		case KWrongAPI:
			api = st.API
		case KNoFeature:
			feats = nil
		}
		if st.FeatureList && st.Kind != KNoFeature {
			feats = st.Features
		}
		env.Body = HandshakeBody(name, api, feats, st.LibVer, st.Kind == KMissingField)
	case StepGenerate:
		env.Body = GenerateBody(st.Files)
	default:
		env.Body = wm.Struct()
	}
	switch st.Kind {
	case KException:
		env.Type = TypeException
		env.Body = ExceptionBody(st.Message, 6)
	case KWrongType:
		env.Type = st.EnvType
	}
	return refcodec.Frame(refcodec.EncodeStrict(env))
}

// ---------------------------------------------------------------- model

// RepliesInFull reports whether the kind sends a complete, well-formed reply
// frame built by ReplyFrame.
func RepliesInFull(kind string) bool {
	switch kind {
	case KOK, KWrongName, KWrongAPI, KNoFeature, KMissingField, KException, KWrongType, KExitAfterReply:
		return true
	}
	return false
}

// Kinds returns the normalized kinds of the three steps.
func (s Script) Kinds() (hs, gen, bye string) {
	return Normalize(StepHandshake, s.Handshake.Kind), Normalize(StepGenerate, s.Generate.Kind), Normalize(StepGoodbye, s.Goodbye.Kind)
}

// Conforms reports whether the handshake reply the script sends carries the
// expected name and API version in a well-formed Reply envelope.
func (p Plugin) Conforms() bool {
	hs, _, _ := p.Script.Kinds()
	switch hs {
	case KOK, KNoFeature, KExitAfterReply:
		return true
	}
	return false
}

// Advertises reports whether the handshake conforms and advertises the
// service-generator feature.
func (p Plugin) Advertises() bool {
	hs, _, _ := p.Script.Kinds()
	if !p.Conforms() || hs == KNoFeature {
		return false
	}
	if st := p.Script.Handshake; st.FeatureList {
		for _, f := range st.Features {
			if f == FeatureServiceGenerator {
				return true
			}
		}
		return false
	}
	return true
}

// FeatureClass names the shape of the advertised feature list.
func (p Plugin) FeatureClass() string {
	hs, _, _ := p.Script.Kinds()
	st := p.Script.Handshake
	if hs == KNoFeature || (st.FeatureList && len(st.Features) == 0) {
		return "features:empty"
	}
	if !st.FeatureList {
		return "features:[SERVICE_GENERATOR]"
	}
	n, other := 0, 0
	for _, f := range st.Features {
		if f == FeatureServiceGenerator {
			n++
		} else {
			other++
		}
	}
	switch {
	case n == 0:
		return "features:only-unknown"
	case other > 0:
		return "features:unknown+SERVICE_GENERATOR"
	case n > 1:
		return "features:SERVICE_GENERATOR-repeated"
	}
	return "features:[SERVICE_GENERATOR]"
}

// IsFailure reports whether executing kind at step makes the plugin a failed
// plugin in the sense of the property: every deviation except a missing
// feature (and segmented writes, which are not kinds), and leaving right after
// the goodbye reply - which is what plugin.Main itself does.
func IsFailure(step, kind string) bool {
	switch Normalize(step, kind) {
	case KOK, KNoFeature:
		return false
	case KExitAfterReply:
		return step != StepGoodbye
	case KReplyFlood:
		// junk where the next reply is expected; after the goodbye reply
		// nothing is expected any more (see Ambiguous)
		return step != StepGoodbye
	}
	return true
}

// Ambiguous reports whether the statement leaves open if executing kind at
// step makes the plugin a failed plugin: junk on stdout after a conforming
// goodbye reply (the protocol is over; a real plugin would die of SIGPIPE,
// the fake one exits with its scripted status). Neither a failing nor a
// succeeding host is wrong then - but it must still terminate and reap.
func Ambiguous(step, kind string) bool {
	return step == StepGoodbye && kind == KReplyFlood
}

// staysAfter reports whether the plugin keeps reading after executing kind.
func staysAfter(kind string) bool {
	switch kind {
	case KOK, KNoFeature, KWrongName, KWrongAPI, KMissingField, KException, KWrongType, KGarbageFrame:
		return true
	}
	return false
}

// Prediction is what a correct host does with a set of plugins.
type Prediction struct {
	AllHandshakesOK bool
	// FailPhase[i] is the host-side protocol phase in which plugin i's failure
	// surfaces ("" = it does not fail): handshake, generate, goodbye or
	// exit-status.
	FailPhase []string
	// Generate[i]: the host sends generate to plugin i.
	Generate []bool
}

// AnyFailure reports whether some plugin is predicted to fail.
func (p Prediction) AnyFailure() bool {
	for _, f := range p.FailPhase {
		if f != "" {
			return true
		}
	}
	return false
}

// Predict models a correct host (valid Thrift input, core generation
// succeeds) run against the plugins.
func Predict(ps []Plugin) Prediction {
	pr := Prediction{AllHandshakesOK: true, FailPhase: make([]string, len(ps)), Generate: make([]bool, len(ps))}
	for _, p := range ps {
		if !p.Conforms() {
			pr.AllHandshakesOK = false
		}
	}
	for i, p := range ps {
		hs, gen, bye := p.Script.Kinds()
		if !p.Conforms() {
			pr.FailPhase[i] = StepHandshake
			continue
		}
		// the plugin leaves after its handshake reply when told so, or when
		// the next step it waits for says exit-before-read
		gone := hs == KExitAfterReply || gen == KExitBeforeRead || p.Script.Handshake.FloodsAfter(StepHandshake)
		phase := ""
		if pr.AllHandshakesOK && p.Advertises() {
			pr.Generate[i] = true
			switch {
			case gone:
				phase = StepGenerate
			case IsFailure(StepGenerate, gen) && gen != KExitAfterReply:
				phase = StepGenerate
				gone = !staysAfter(gen)
			default:
				gone = !staysAfter(gen) || bye == KExitBeforeRead
			}
			if p.Script.Generate.FloodsAfter(StepGenerate) && (phase == "" || !gone) {
				gone = true
			}
		}
		if phase == "" && (gone || IsFailure(StepGoodbye, bye)) {
			phase = StepGoodbye
		}
		if phase == "" && p.Script.ExitStatus != 0 {
			phase = "exit-status"
		}
		pr.FailPhase[i] = phase
	}
	return pr
}
