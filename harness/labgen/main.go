// labgen builds a lab: it draws programs from the idlmodel generator (rapid,
// seeded), generates Go for them with the working tree's compile + gen, builds
// the generated packages, and emits the registry for the reflection driver.
//
//	labgen -out DIR -kind KIND -seed N -programs K
package main

import (
	"encoding/json"
	"flag"
	"fmt"
	"os"
	"path/filepath"

	"pgregory.net/rapid"
	"verif/internal/genlab"
	im "verif/internal/idlmodel"
)

func main() {
	out := flag.String("out", "", "lab directory")
	kind := flag.String("kind", "value", "lab kind: value | build | redact | evolve | service")
	seed := flag.Int("seed", 1, "seed")
	n := flag.Int("programs", 8, "number of programs")
	vet := flag.Bool("vet", false, "also run go vet on the generated packages")
	replay := flag.String("replay", "", "build a one-program lab from the program embedded in this replay file")
	flag.Parse()
	if *out == "" {
		fmt.Fprintln(os.Stderr, "labgen: -out required")
		os.Exit(2)
	}
	if err := os.MkdirAll(*out, 0o755); err != nil {
		fmt.Fprintln(os.Stderr, "labgen:", err)
		os.Exit(2)
	}
	var specs []*genlab.ProgSpec
	if *replay != "" {
		s, err := fromReplay(*replay)
		if err != nil {
			fmt.Fprintln(os.Stderr, "labgen:", err)
			os.Exit(2)
		}
		specs = []*genlab.ProgSpec{s}
	} else {
		specs = draw(*kind, *seed, *n)
	}
	results := make([]genlab.ProgResult, len(specs))
	for i, s := range specs {
		results[i] = genlab.Generate(*out, s)
	}
	if err := genlab.WriteModule(*out); err != nil {
		fmt.Fprintln(os.Stderr, "labgen:", err)
		os.Exit(2)
	}
	if err := genlab.BuildGenerated(*out, results, *vet); err != nil {
		fmt.Fprintln(os.Stderr, "labgen:", err)
		os.Exit(2)
	}
	if err := genlab.WriteRegistry(*out, specs, results, testsFor(*kind)); err != nil {
		fmt.Fprintln(os.Stderr, "labgen:", err)
		os.Exit(2)
	}
	if err := genlab.SaveManifest(*out, specs, results); err != nil {
		fmt.Fprintln(os.Stderr, "labgen:", err)
		os.Exit(2)
	}
	ok := 0
	for _, r := range results {
		if r.GenErr == "" && r.BuildErr == "" {
			ok++
		}
	}
	b, _ := json.Marshal(map[string]int{"programs": len(results), "usable": ok})
	fmt.Println(string(b))
	_ = filepath.Join
}

func optsFor(t *rapid.T, kind string) genlab.ProgOpts {
	o := genlab.ProgOpts{
		NoZap:                 rapid.IntRange(0, 3).Draw(t, "nozap") == 0,
		EnumTextMarshalStrict: rapid.IntRange(0, 3).Draw(t, "strictenum") == 0,
		NoRecurse:             rapid.IntRange(0, 4).Draw(t, "norecurse") == 0,
		NoEmbedIDL:            rapid.IntRange(0, 4).Draw(t, "noembed") == 0,
	}
	if rapid.IntRange(0, 5).Draw(t, "outputfile") == 0 {
		o.OutputFile = "all.go"
	}
	if kind == "redact" {
		o.NoZap = rapid.IntRange(0, 5).Draw(t, "nozap2") == 0
	}
	return o
}

func draw(kind string, seed, n int) []*genlab.ProgSpec {
	var specs []*genlab.ProgSpec
	for i := 0; i < n; i++ {
		i := i
		g := rapid.Custom(func(t *rapid.T) *genlab.ProgSpec {
			o := &im.GenOpts{Services: true, Defaults: true, Consts: true, Annotations: true, Recursive: true, MaxFiles: 3, Small: i%3 == 0}
			o.Avoid = avoidSet()
			// every fourth program is compiled in non-strict mode: fields without requiredness, negative field ids
			o.NonStrict = i%4 == 1
			if kind == "redact" {
				o.RedactRate = 2
				// the type of a field may carry annotations of its own
				o.TypeAnnots = true
			}
			if kind == "service" {
				o.MoreServices = true
				o.TypedefArgs = true
				// the Go name of one definition in three comes from a go.name annotation
				o.DefGoNames = true
			}
			p := im.GenProgram(t, o)
			return &genlab.ProgSpec{ID: fmt.Sprintf("p%d", i), Program: p, Opts: optsFor(t, kind)}
		})
		specs = append(specs, g.Example(seed*100003+i))
	}
	return specs
}

func avoidSet() map[string]bool {
	m := map[string]bool{}
	for _, a := range filepath.SplitList(os.Getenv("VERIF_AVOID")) {
		if a != "" {
			m[a] = true
		}
	}
	return m
}

func testsFor(kind string) string {
	return `package drvlab

import (
	"testing"

	drv "verif/harness/drv"
)

func TestMain(m *testing.M) { drv.Main(m) }

func TestC01(t *testing.T)          { drv.C01(t) }
func TestC01Invalid(t *testing.T)   { drv.C01Invalid(t) }
func TestC01Static(t *testing.T)    { drv.C01Static(t) }
func TestC01Accessors(t *testing.T) { drv.C01Accessors(t) }
func TestC04(t *testing.T)          { drv.C04(t) }
func TestC04Encode(t *testing.T)    { drv.C04Encode(t) }
func TestC05(t *testing.T)          { drv.C05(t) }
func TestC05Big(t *testing.T)       { drv.C05Big(t) }
func TestC14(t *testing.T)          { drv.C14(t) }
func TestC15(t *testing.T)          { drv.C15(t) }
func TestC19Helpers(t *testing.T)   { drv.C19Helpers(t) }
func TestC13Gen(t *testing.T)       { drv.C13Gen(t) }
func TestC13Child(t *testing.T)     { drv.C13Child(t) }
func TestReplay(t *testing.T)  { drv.Replay(t) }
func TestRegress(t *testing.T) { drv.Regress(t) }
`
}

// fromReplay extracts the program, options and id embedded in a replay file.
func fromReplay(path string) (*genlab.ProgSpec, error) {
	b, err := os.ReadFile(path)
	if err != nil {
		return nil, err
	}
	var f struct {
		Case struct {
			ProgID  string          `json:"prog_id"`
			Program *im.Program     `json:"program"`
			Opts    genlab.ProgOpts `json:"opts"`
		} `json:"case"`
	}
	if err := json.Unmarshal(b, &f); err != nil {
		return nil, err
	}
	if f.Case.Program == nil {
		return nil, fmt.Errorf("%s embeds no program", path)
	}
	id := f.Case.ProgID
	if id == "" {
		id = "p0"
	}
	f.Case.Program.Index()
	return &genlab.ProgSpec{ID: id, Program: f.Case.Program, Opts: f.Case.Opts}, nil
}
