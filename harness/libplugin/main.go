// libplugin is a minimal real plugin: it only calls the public plugin.Main of
// go.uber.org/thriftrw/plugin, with or without a ServiceGenerator, as told by
// the JSON file named in $LIBPLUGIN_CONFIG. Check C16 drives it over its
// stdin/stdout with a host built on verif/internal/refcodec.
package main

import (
	"encoding/json"
	"errors"
	"os"

	"go.uber.org/thriftrw/plugin"
	"go.uber.org/thriftrw/plugin/api"
)

// Config selects the plugin's behaviour.
type Config struct {
	Name      string            `json:"name"`
	Generator bool              `json:"generator"`
	Fail      bool              `json:"fail"` // the generator returns an error
	Files     map[string][]byte `json:"files"`
	// Channel: which of plugin.Plugin's Reader / Writer fields are set explicitly (to the standard
	// streams, so that the conversation is the same): "" neither, "reader", "writer", "both"
	Channel string `json:"channel"`
}

type generator struct{ c Config }

func (g generator) Generate(*api.GenerateServiceRequest) (*api.GenerateServiceResponse, error) {
	if g.c.Fail {
		return nil, errors.New("scripted generator failure")
	}
	return &api.GenerateServiceResponse{Files: g.c.Files}, nil
}

func main() {
	var c Config
	b, err := os.ReadFile(os.Getenv("LIBPLUGIN_CONFIG"))
	if err == nil {
		err = json.Unmarshal(b, &c)
	}
	if err != nil {
		os.Stderr.WriteString("libplugin: " + err.Error() + "\n")
		os.Exit(98)
	}
	p := &plugin.Plugin{Name: c.Name}
	if c.Generator {
		p.ServiceGenerator = generator{c}
	}
	switch c.Channel {
	case "reader":
		p.Reader = os.Stdin
	case "writer":
		p.Writer = os.Stdout
	case "both":
		p.Reader, p.Writer = os.Stdin, os.Stdout
	}
	plugin.Main(p)
}
