// Package allocprobe measures what one decoding call allocates and burns, in a
// child process (so that a runaway allocation or a fatal error is an
// observation, not the end of the check), and applies the C13 bound.
//
// The check binary re-executes itself: the parent side calls Measure, the
// child side is a test function that calls ChildLoop when VERIF_CHILD_ALLOC is set.
package allocprobe

import (
	"bufio"
	"bytes"
	"encoding/json"
	"fmt"
	"os"
	"os/exec"
	"runtime"
	"strconv"
	"strings"
	"sync"
	"syscall"
	"time"

	"verif/internal/ev"
)

// Case is one message fed to one decoding API.
type Case struct {
	API string `json:"api"`
	Msg []byte `json:"msg"`
	Pos string `json:"pos"`         // which length/count position carries the hostile value
	L   int64  `json:"l,omitempty"` // the hostile value
	// Extra carries lab-specific addressing (program id, type key, path).
	Extra map[string]string `json:"extra,omitempty"`
	// Src is the concrete type of the io.Reader / io.ReaderAt the API is given
	// (chunkio.Src*); "" = as ever (chunkio's plain non-seekable reader for the
	// streaming APIs, *bytes.Reader for the random-access ones).
	Src string `json:"src,omitempty"`
	// PadN > 0: the message is Msg with PadN bytes PadFill inserted at offset
	// PadAt (a payload that really is long, kept symbolic so that the case stays small).
	PadAt   int  `json:"pad_at,omitempty"`
	PadN    int  `json:"pad_n,omitempty"`
	PadFill byte `json:"pad_fill,omitempty"`
}

// Bytes is the message the API decodes.
func (c Case) Bytes() []byte {
	if c.PadN <= 0 || c.PadAt < 0 || c.PadAt > len(c.Msg) {
		return c.Msg
	}
	out := make([]byte, 0, len(c.Msg)+c.PadN)
	out = append(out, c.Msg[:c.PadAt]...)
	out = append(out, bytes.Repeat([]byte{c.PadFill}, c.PadN)...)
	return append(out, c.Msg[c.PadAt:]...)
}

// Size is len(c.Bytes()).
func (c Case) Size() int64 {
	if c.PadN <= 0 || c.PadAt < 0 || c.PadAt > len(c.Msg) {
		return int64(len(c.Msg))
	}
	return int64(len(c.Msg) + c.PadN)
}

// Result is the measurement of one case.
type Result struct {
	Alloc  uint64
	CPU    time.Duration
	Status string // ok | err | panic | killed:<reason> | skipped (not measured: the batch had failed MaxCPUStops times already)
}

// The bound: a fixed constant plus a small multiple of the input size. The
// constant covers the two documented up-front buffers (1 MiB binary threshold,
// 10 MiB frame fast path) with slack for runtime noise.
const (
	AllocConst   = 24 << 20
	AllocPerByte = 64
	CPULimit     = 2 * time.Second
	// CPUStop: a child whose current case has burnt this much CPU time stops itself
	// (status "killed:cpu"): a decoder spinning over a declared count of 2^31 would
	// otherwise hold the batch for minutes -- and be measured twice more.
	CPUStop = 3 * CPULimit
	// MaxCPUStops: after this many stopped children one batch has failed beyond
	// doubt; its remaining cases are not measured (status "skipped"), so that a
	// decoder that spins on a whole class of inputs costs a minute, not an hour.
	MaxCPUStops = 4
)

func cpuNow() time.Duration {
	var ru syscall.Rusage
	syscall.Getrusage(syscall.RUSAGE_SELF, &ru)
	return time.Duration(ru.Utime.Nano() + ru.Stime.Nano())
}

// InChild reports whether this process is a measuring child.
func InChild() bool { return os.Getenv("VERIF_CHILD_ALLOC") != "" }

// ChildLoop is the child side: it measures every case of the batch file
// through call and prints one line per case.
func ChildLoop(call func(c Case) error) error {
	path := os.Getenv("VERIF_CHILD_ALLOC")
	// Cap the address space so that a runaway allocation kills this child, not the machine.
	lim := syscall.Rlimit{Cur: 6 << 30, Max: 6 << 30}
	syscall.Setrlimit(syscall.RLIMIT_AS, &lim)
	b, err := os.ReadFile(path)
	if err != nil {
		return err
	}
	var cases []Case
	if err := json.Unmarshal(b, &cases); err != nil {
		return err
	}
	start, _ := strconv.Atoi(os.Getenv("VERIF_CHILD_START"))
	out := bufio.NewWriter(os.Stdout)
	// watchdog: CPU time (of the whole process, which is the call plus the collector
	// working for it) since the current case began
	var mu sync.Mutex
	cur, curStart := -1, time.Duration(0)
	go func() {
		for range time.Tick(200 * time.Millisecond) {
			mu.Lock()
			if cur >= 0 && cpuNow()-curStart > CPUStop {
				fmt.Fprintf(out, "CPUSTOP %d\n", cur)
				out.Flush()
				os.Exit(3)
			}
			mu.Unlock()
		}
	}()
	for i := start; i < len(cases); i++ {
		mu.Lock()
		fmt.Fprintf(out, "BEGIN %d\n", i)
		out.Flush()
		mu.Unlock()
		c := cases[i]
		if c.PadN > 0 {
			c.Msg, c.PadN = c.Bytes(), 0 // expanding a padded message is not part of the call
		}
		var m0, m1 runtime.MemStats
		runtime.ReadMemStats(&m0)
		c0 := cpuNow()
		mu.Lock()
		cur, curStart = i, c0
		mu.Unlock()
		err := ev.Guard(func() error { return call(c) })
		c1 := cpuNow()
		mu.Lock()
		cur = -1
		mu.Unlock()
		runtime.ReadMemStats(&m1)
		st := "ok"
		if err != nil {
			st = "err"
			if _, isPanic := err.(*ev.PanicError); isPanic {
				st = "panic"
			}
		}
		mu.Lock()
		fmt.Fprintf(out, "RES %d %d %d %s\n", i, m1.TotalAlloc-m0.TotalAlloc, int64(c1-c0), st)
		out.Flush()
		mu.Unlock()
		if m1.HeapSys > 1<<30 {
			runtime.GC()
		}
	}
	fmt.Fprintln(out, "DONE")
	out.Flush()
	return nil
}

// Measure runs the batch in child processes (this binary re-executed with
// childTest as -test.run) and returns one result per case; a case during
// which the child died gets Status "killed:<reason>".
func Measure(cases []Case, scratch, childTest string) ([]Result, error) {
	f, err := os.CreateTemp(scratch, "alloc-batch-*.json")
	if err != nil {
		return nil, err
	}
	defer os.Remove(f.Name())
	json.NewEncoder(f).Encode(cases)
	f.Close()
	res := make([]Result, len(cases))
	start, cpuStops := 0, 0
	for start < len(cases) {
		cmd := exec.Command(os.Args[0], "-test.run", childTest, "-test.timeout", "30m")
		cmd.Env = append(os.Environ(), "VERIF_CHILD_ALLOC="+f.Name(), "VERIF_CHILD_START="+strconv.Itoa(start), "VERIF_STATS=", "VERIF_REPLAY=", "GOGC=100")
		var out bytes.Buffer
		cmd.Stdout, cmd.Stderr = &out, &out
		if err := cmd.Start(); err != nil {
			return nil, err
		}
		done := make(chan error, 1)
		go func() { done <- cmd.Wait() }()
		timedOut := false
		select {
		case <-done:
		case <-time.After(20 * time.Minute):
			cmd.Process.Kill()
			<-done
			timedOut = true
		}
		cur, last := -1, -1
		finished := false
		for _, line := range strings.Split(out.String(), "\n") {
			fs := strings.Fields(line)
			switch {
			case len(fs) == 2 && fs[0] == "BEGIN":
				cur, _ = strconv.Atoi(fs[1])
			case len(fs) == 5 && fs[0] == "RES":
				i, _ := strconv.Atoi(fs[1])
				a, _ := strconv.ParseUint(fs[2], 10, 64)
				c, _ := strconv.ParseInt(fs[3], 10, 64)
				if i >= 0 && i < len(res) {
					res[i] = Result{Alloc: a, CPU: time.Duration(c), Status: fs[4]}
				}
				last = i
				if i == cur {
					cur = -1
				}
			case line == "DONE":
				finished = true
			}
		}
		if finished {
			break
		}
		if cur < 0 {
			if last < start {
				return nil, fmt.Errorf("child ended without finishing and without a case in flight: %s", tail(out.String(), 800))
			}
			// the child died between two cases (in the collector, after the call returned):
			// what the last case left behind killed it
			cur = last
		}
		reason := "crash"
		s := out.String()
		switch {
		case timedOut:
			reason = "timeout"
		case strings.Contains(s, fmt.Sprintf("CPUSTOP %d\n", cur)):
			reason = "cpu"
		case strings.Contains(s, "out of memory") || strings.Contains(s, "cannot allocate memory") || strings.Contains(s, "makeslice: len out of range") || strings.Contains(s, "makemap"):
			reason = "oom"
		case strings.Contains(s, "stack overflow"):
			reason = "stack-overflow"
		}
		res[cur] = Result{Status: "killed:" + reason}
		// A process that dies without a word (the kernel killed it) may have been brought down by
		// what an EARLIER case of the batch left behind: memory that was reserved then and touched
		// only now. The case in flight is therefore tried again alone; if it is innocent, the case
		// before it is tried alone as well and takes the blame only if it dies there too.
		if len(cases) > 1 && (reason == "crash" || reason == "oom") {
			if solo, err := Measure(cases[cur:cur+1], scratch, childTest); err == nil && !strings.HasPrefix(solo[0].Status, "killed:") {
				res[cur] = solo[0]
				if cur > start || cur > 0 {
					if prev := cur - 1; prev >= 0 && !strings.HasPrefix(res[prev].Status, "killed:") {
						if ps, err := Measure(cases[prev:prev+1], scratch, childTest); err == nil && strings.HasPrefix(ps[0].Status, "killed:") {
							res[prev] = ps[0]
						}
					}
				}
			}
		}
		start = cur + 1
		if reason == "cpu" {
			if cpuStops++; cpuStops >= MaxCPUStops {
				for i := start; i < len(res); i++ {
					res[i] = Result{Status: "skipped"}
				}
				break
			}
		}
	}
	return res, nil
}

func tail(s string, n int) string {
	if len(s) > n {
		return s[len(s)-n:]
	}
	return s
}

// Verdict applies the bound to one measured case.
func Verdict(c Case, r Result) error {
	n := c.Size()
	bound := uint64(AllocConst + AllocPerByte*n)
	key := fmt.Sprintf("%s/%s", c.API, c.Pos)
	src := ""
	if c.Src != "" {
		src = " over a *" + c.Src
	}
	switch {
	case r.Status == "killed:cpu":
		return ev.Errf("cpu/"+key, "decoding a %d-byte message through %s%s was stopped after more than %v of CPU time (limit %v); length position %s set to %d", n, c.API, src, CPUStop, CPULimit, c.Pos, c.L)
	case strings.HasPrefix(r.Status, "killed:"):
		return ev.Errf("killed/"+key, "decoding a %d-byte message through %s%s killed the process (%s); length position %s set to %d", n, c.API, src, strings.TrimPrefix(r.Status, "killed:"), c.Pos, c.L)
	case r.Status == "panic":
		return ev.Errf("panic/"+key, "decoding a %d-byte message through %s%s panicked; length position %s set to %d", n, c.API, src, c.Pos, c.L)
	case r.Alloc > bound:
		return ev.Errf("alloc/"+key, "decoding a %d-byte message through %s%s allocated %d bytes (bound %d); length position %s set to %d", n, c.API, src, r.Alloc, bound, c.Pos, c.L)
	case r.CPU > CPULimit:
		return ev.Errf("cpu/"+key, "decoding a %d-byte message through %s%s used %v CPU (limit %v); length position %s set to %d", n, c.API, src, r.CPU, CPULimit, c.Pos, c.L)
	}
	return nil
}
