// Package bins locates helper binaries built from /repo's working tree. The
// orchestrator pre-builds them and exports VERIF_BIN_<NAME>; when a check is
// run by hand (go test) the binary is built on demand into a temp dir.
package bins

import (
	"fmt"
	"os"
	"os/exec"
	"path/filepath"
	"strings"
	"sync"
)

var (
	mu    sync.Mutex
	built = map[string]string{}
)

// Path returns the path of the binary called name, building pkg (an import
// path resolvable from the /verif module, e.g. "go.uber.org/thriftrw" or
// "verif/harness/fakeplugin") if the orchestrator did not provide it.
func Path(name, pkg string) (string, error) {
	if p := os.Getenv("VERIF_BIN_" + strings.ToUpper(name)); p != "" {
		return p, nil
	}
	mu.Lock()
	defer mu.Unlock()
	if p, ok := built[name]; ok {
		return p, nil
	}
	dir, err := os.MkdirTemp("", "verif-bin-")
	if err != nil {
		return "", err
	}
	out := filepath.Join(dir, name)
	cmd := exec.Command("go", "build", "-tags", "verif", "-o", out, pkg)
	root := os.Getenv("VERIF_ROOT")
	if root == "" {
		root = "/verif"
	}
	cmd.Dir = root
	cmd.Env = append(os.Environ(), "GOFLAGS=-mod=mod", "GOPROXY=off", "GOSUMDB=off", "GOTOOLCHAIN=local")
	if b, err := cmd.CombinedOutput(); err != nil {
		return "", fmt.Errorf("building %s: %v\n%s", pkg, err, b)
	}
	built[name] = out
	return out, nil
}
