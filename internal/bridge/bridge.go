// Package bridge converts between wiremodel.W and thriftrw's wire.Value, and
// drives thriftrw's stream.Writer / stream.Reader from / into W trees. It is
// the only glue between the reference model and the code under test.
package bridge

import (
	"fmt"
	"math"

	"go.uber.org/thriftrw/protocol/stream"
	"go.uber.org/thriftrw/wire"
	wm "verif/internal/wiremodel"
)

// ToWire builds the thriftrw wire.Value for w.
func ToWire(w wm.W) wire.Value {
	switch w.K {
	case wm.KBool:
		return wire.NewValueBool(w.B)
	case wm.KI8:
		return wire.NewValueI8(int8(w.I))
	case wm.KI16:
		return wire.NewValueI16(int16(w.I))
	case wm.KI32:
		return wire.NewValueI32(int32(w.I))
	case wm.KI64:
		return wire.NewValueI64(w.I)
	case wm.KDouble:
		return wire.NewValueDouble(math.Float64frombits(w.F))
	case wm.KBinary:
		b := w.Bin
		if b == nil {
			b = []byte{}
		}
		return wire.NewValueBinary(b)
	case wm.KStruct:
		fs := make([]wire.Field, len(w.Fields))
		for i, f := range w.Fields {
			fs[i] = wire.Field{ID: f.ID, Value: ToWire(f.V)}
		}
		return wire.NewValueStruct(wire.Struct{Fields: fs})
	case wm.KList, wm.KSet:
		vs := make([]wire.Value, len(w.Elems))
		for i, e := range w.Elems {
			vs[i] = ToWire(e)
		}
		l := wire.ValueListFromSlice(wire.Type(w.EK), vs)
		if w.K == wm.KList {
			return wire.NewValueList(l)
		}
		return wire.NewValueSet(l)
	case wm.KMap:
		ps := make([]wire.MapItem, len(w.Pairs))
		for i, p := range w.Pairs {
			ps[i] = wire.MapItem{Key: ToWire(p.K), Value: ToWire(p.V)}
		}
		return wire.NewValueMap(wire.MapItemListFromSlice(wire.Type(w.KK), wire.Type(w.VK), ps))
	}
	panic(fmt.Sprintf("bridge: bad kind %d", w.K))
}

// FromWire walks v (forcing every lazy container exactly once, closing each
// after use) into a W. Errors raised by lazy iteration are returned.
func FromWire(v wire.Value) (wm.W, error) {
	switch v.Type() {
	case wire.TBool:
		return wm.Bool(v.GetBool()), nil
	case wire.TI8:
		return wm.I8(v.GetI8()), nil
	case wire.TI16:
		return wm.I16(v.GetI16()), nil
	case wire.TI32:
		return wm.I32(v.GetI32()), nil
	case wire.TI64:
		return wm.I64(v.GetI64()), nil
	case wire.TDouble:
		return wm.DoubleBits(math.Float64bits(v.GetDouble())), nil
	case wire.TBinary:
		return wm.Binary(append([]byte{}, v.GetBinary()...)), nil
	case wire.TStruct:
		w := wm.W{K: wm.KStruct}
		for _, f := range v.GetStruct().Fields {
			c, err := FromWire(f.Value)
			if err != nil {
				return wm.W{}, err
			}
			w.Fields = append(w.Fields, wm.Field{ID: f.ID, V: c})
		}
		return w, nil
	case wire.TList, wire.TSet:
		var l wire.ValueList
		k := wm.KList
		if v.Type() == wire.TSet {
			l = v.GetSet()
			k = wm.KSet
		} else {
			l = v.GetList()
		}
		w := wm.W{K: k, EK: wm.Kind(l.ValueType())}
		n := l.Size()
		err := l.ForEach(func(e wire.Value) error {
			c, err := FromWire(e)
			if err != nil {
				return err
			}
			w.Elems = append(w.Elems, c)
			return nil
		})
		l.Close()
		if err != nil {
			return wm.W{}, err
		}
		if n != len(w.Elems) {
			return wm.W{}, fmt.Errorf("bridge: list Size()=%d but ForEach yielded %d", n, len(w.Elems))
		}
		return w, nil
	case wire.TMap:
		m := v.GetMap()
		w := wm.W{K: wm.KMap, KK: wm.Kind(m.KeyType()), VK: wm.Kind(m.ValueType())}
		n := m.Size()
		err := m.ForEach(func(it wire.MapItem) error {
			kk, err := FromWire(it.Key)
			if err != nil {
				return err
			}
			vv, err := FromWire(it.Value)
			if err != nil {
				return err
			}
			w.Pairs = append(w.Pairs, wm.Pair{K: kk, V: vv})
			return nil
		})
		m.Close()
		if err != nil {
			return wm.W{}, err
		}
		if n != len(w.Pairs) {
			return wm.W{}, fmt.Errorf("bridge: map Size()=%d but ForEach yielded %d", n, len(w.Pairs))
		}
		return w, nil
	}
	return wm.W{}, fmt.Errorf("bridge: unknown wire type %d", v.Type())
}

// StreamWrite emits w through the streaming writer with the call sequence the
// stream.Writer interface documents.
func StreamWrite(sw stream.Writer, w wm.W) error {
	switch w.K {
	case wm.KBool:
		return sw.WriteBool(w.B)
	case wm.KI8:
		return sw.WriteInt8(int8(w.I))
	case wm.KI16:
		return sw.WriteInt16(int16(w.I))
	case wm.KI32:
		return sw.WriteInt32(int32(w.I))
	case wm.KI64:
		return sw.WriteInt64(w.I)
	case wm.KDouble:
		return sw.WriteDouble(math.Float64frombits(w.F))
	case wm.KBinary:
		return sw.WriteBinary(w.Bin)
	case wm.KStruct:
		if err := sw.WriteStructBegin(); err != nil {
			return err
		}
		for _, f := range w.Fields {
			if err := sw.WriteFieldBegin(stream.FieldHeader{ID: f.ID, Type: wire.Type(f.V.K)}); err != nil {
				return err
			}
			if err := StreamWrite(sw, f.V); err != nil {
				return err
			}
			if err := sw.WriteFieldEnd(); err != nil {
				return err
			}
		}
		return sw.WriteStructEnd()
	case wm.KList:
		if err := sw.WriteListBegin(stream.ListHeader{Type: wire.Type(w.EK), Length: len(w.Elems)}); err != nil {
			return err
		}
		for _, e := range w.Elems {
			if err := StreamWrite(sw, e); err != nil {
				return err
			}
		}
		return sw.WriteListEnd()
	case wm.KSet:
		if err := sw.WriteSetBegin(stream.SetHeader{Type: wire.Type(w.EK), Length: len(w.Elems)}); err != nil {
			return err
		}
		for _, e := range w.Elems {
			if err := StreamWrite(sw, e); err != nil {
				return err
			}
		}
		return sw.WriteSetEnd()
	case wm.KMap:
		if err := sw.WriteMapBegin(stream.MapHeader{KeyType: wire.Type(w.KK), ValueType: wire.Type(w.VK), Length: len(w.Pairs)}); err != nil {
			return err
		}
		for _, p := range w.Pairs {
			if err := StreamWrite(sw, p.K); err != nil {
				return err
			}
			if err := StreamWrite(sw, p.V); err != nil {
				return err
			}
		}
		return sw.WriteMapEnd()
	}
	return fmt.Errorf("bridge: bad kind %d", w.K)
}

// MaxStreamDepth bounds the schema-less stream walker.
const MaxStreamDepth = 10000

// StreamRead reads one value of kind k through the streaming reader into W.
// Unknown type codes found in headers are reported as errors (the reader itself
// gives them back unvalidated).
func StreamRead(sr stream.Reader, k wm.Kind) (wm.W, error) { return streamRead(sr, k, 0) }

func streamRead(sr stream.Reader, k wm.Kind, depth int) (wm.W, error) {
	if depth > MaxStreamDepth {
		return wm.W{}, fmt.Errorf("bridge: nesting deeper than %d", MaxStreamDepth)
	}
	switch k {
	case wm.KBool:
		v, err := sr.ReadBool()
		return wm.Bool(v), err
	case wm.KI8:
		v, err := sr.ReadInt8()
		return wm.I8(v), err
	case wm.KI16:
		v, err := sr.ReadInt16()
		return wm.I16(v), err
	case wm.KI32:
		v, err := sr.ReadInt32()
		return wm.I32(v), err
	case wm.KI64:
		v, err := sr.ReadInt64()
		return wm.I64(v), err
	case wm.KDouble:
		v, err := sr.ReadDouble()
		return wm.DoubleBits(math.Float64bits(v)), err
	case wm.KBinary:
		v, err := sr.ReadBinary()
		return wm.Binary(v), err
	case wm.KStruct:
		if err := sr.ReadStructBegin(); err != nil {
			return wm.W{}, err
		}
		w := wm.W{K: wm.KStruct}
		for {
			fh, ok, err := sr.ReadFieldBegin()
			if err != nil {
				return wm.W{}, err
			}
			if !ok {
				break
			}
			if !wm.Kind(fh.Type).Valid() {
				return wm.W{}, fmt.Errorf("bridge: unknown field type %d", fh.Type)
			}
			v, err := streamRead(sr, wm.Kind(fh.Type), depth+1)
			if err != nil {
				return wm.W{}, err
			}
			if err := sr.ReadFieldEnd(); err != nil {
				return wm.W{}, err
			}
			w.Fields = append(w.Fields, wm.Field{ID: fh.ID, V: v})
		}
		return w, sr.ReadStructEnd()
	case wm.KList, wm.KSet:
		var n int
		var et wire.Type
		if k == wm.KList {
			h, err := sr.ReadListBegin()
			if err != nil {
				return wm.W{}, err
			}
			n, et = h.Length, h.Type
		} else {
			h, err := sr.ReadSetBegin()
			if err != nil {
				return wm.W{}, err
			}
			n, et = h.Length, h.Type
		}
		if n > 0 && !wm.Kind(et).Valid() {
			return wm.W{}, fmt.Errorf("bridge: unknown element type %d", et)
		}
		w := wm.W{K: k, EK: wm.Kind(et)}
		for i := 0; i < n; i++ {
			e, err := streamRead(sr, wm.Kind(et), depth+1)
			if err != nil {
				return wm.W{}, err
			}
			w.Elems = append(w.Elems, e)
		}
		if k == wm.KList {
			return w, sr.ReadListEnd()
		}
		return w, sr.ReadSetEnd()
	case wm.KMap:
		h, err := sr.ReadMapBegin()
		if err != nil {
			return wm.W{}, err
		}
		if h.Length > 0 && (!wm.Kind(h.KeyType).Valid() || !wm.Kind(h.ValueType).Valid()) {
			return wm.W{}, fmt.Errorf("bridge: unknown map types %d,%d", h.KeyType, h.ValueType)
		}
		w := wm.W{K: wm.KMap, KK: wm.Kind(h.KeyType), VK: wm.Kind(h.ValueType)}
		for i := 0; i < h.Length; i++ {
			kk, err := streamRead(sr, wm.Kind(h.KeyType), depth+1)
			if err != nil {
				return wm.W{}, err
			}
			vv, err := streamRead(sr, wm.Kind(h.ValueType), depth+1)
			if err != nil {
				return wm.W{}, err
			}
			w.Pairs = append(w.Pairs, wm.Pair{K: kk, V: vv})
		}
		return w, sr.ReadMapEnd()
	}
	return wm.W{}, fmt.Errorf("bridge: bad kind %d", k)
}
