// Package cdump produces a canonical dump of a compiled thriftrw Module graph
// and the corresponding dump computed from the idlmodel reference semantics,
// so that the two can be compared, and dumps of the same program compiled in
// different orders can be compared with each other.
package cdump

import (
	"fmt"
	"math"
	"path"
	"sort"
	"strings"

	"go.uber.org/thriftrw/ast"
	"go.uber.org/thriftrw/compile"
	im "verif/internal/idlmodel"
	wm "verif/internal/wiremodel"
)

// MemFS is an in-memory compile.FS rooted at Root.
type MemFS map[string][]byte

// Root is the directory under which programs are placed in a MemFS.
const Root = "/r/"

func (m MemFS) Read(p string) ([]byte, error) {
	if b, ok := m[p]; ok {
		return b, nil
	}
	return nil, fmt.Errorf("open %s: no such file", p)
}

// Abs cleans the path; a relative path is relative to Root (the working directory of the
// imagined caller).
func (m MemFS) Abs(p string) (string, error) {
	if !path.IsAbs(p) {
		p = path.Join(Root, p)
	}
	return path.Clean(p), nil
}

// OneModulePerFile walks the compiled module graph and reports a file that is represented by
// two different Module objects (its definitions would then exist twice, and references from
// different files would bind to different copies).
func OneModulePerFile(root *compile.Module) error {
	seen := map[string]*compile.Module{}
	visited := map[*compile.Module]bool{}
	queue := []*compile.Module{root}
	for len(queue) > 0 {
		m := queue[0]
		queue = queue[1:]
		if visited[m] {
			continue
		}
		visited[m] = true
		key := path.Clean(m.ThriftPath)
		if !path.IsAbs(key) {
			key = path.Join(Root, key)
		}
		if prev, ok := seen[key]; ok && prev != m {
			return fmt.Errorf("%s is represented by two Module objects (recorded as %q and %q)", key, prev.ThriftPath, m.ThriftPath)
		}
		seen[key] = m
		var names []string
		for n := range m.Includes {
			names = append(names, n)
		}
		sort.Strings(names)
		for _, n := range names {
			queue = append(queue, m.Includes[n].Module)
		}
	}
	return nil
}

// FSOf renders a program into a MemFS.
func FSOf(p *im.Program) MemFS {
	fs := MemFS{}
	for pth, text := range p.Render() {
		fs[Root+pth] = []byte(text)
	}
	return fs
}

// Entry is the compiler entry path of a program.
func Entry(p *im.Program) string { return Root + p.Files[0].Path }

func rel(file string) string { return strings.TrimPrefix(file, Root) }

// ---------------------------------------------------------------- from the compiled module

// TypeString canonicalises a linked TypeSpec.
func TypeString(t compile.TypeSpec) string {
	switch s := t.(type) {
	case *compile.BoolSpec:
		return "bool"
	case *compile.I8Spec:
		return "i8"
	case *compile.I16Spec:
		return "i16"
	case *compile.I32Spec:
		return "i32"
	case *compile.I64Spec:
		return "i64"
	case *compile.DoubleSpec:
		return "double"
	case *compile.StringSpec:
		return "string"
	case *compile.BinarySpec:
		return "binary"
	case *compile.ListSpec:
		return "list<" + TypeString(s.ValueSpec) + ">"
	case *compile.SetSpec:
		return "set<" + TypeString(s.ValueSpec) + ">"
	case *compile.MapSpec:
		return "map<" + TypeString(s.KeySpec) + "," + TypeString(s.ValueSpec) + ">"
	case *compile.TypedefSpec:
		return "typedef:" + rel(s.File) + "#" + s.Name
	case *compile.EnumSpec:
		return "enum:" + rel(s.File) + "#" + s.Name
	case *compile.StructSpec:
		return "struct:" + rel(s.File) + "#" + s.Name
	case nil:
		return "<nil>"
	}
	return fmt.Sprintf("<unlinked %T %s>", t, t.ThriftName())
}

// ConstW converts a linked constant value of type t to a wire tree.
func ConstW(v compile.ConstantValue, t compile.TypeSpec) (wm.W, error) {
	rt := compile.RootTypeSpec(t)
	if rt == nil {
		return wm.W{}, fmt.Errorf("type %s has no root", TypeString(t))
	}
	switch c := v.(type) {
	case compile.ConstantBool:
		return wm.Bool(bool(c)), nil
	case compile.ConstantInt:
		switch rt.(type) {
		case *compile.I8Spec:
			return wm.W{K: wm.KI8, I: int64(c)}, nil
		case *compile.I16Spec:
			return wm.W{K: wm.KI16, I: int64(c)}, nil
		case *compile.I32Spec:
			return wm.W{K: wm.KI32, I: int64(c)}, nil
		case *compile.I64Spec:
			return wm.W{K: wm.KI64, I: int64(c)}, nil
		}
		return wm.W{}, fmt.Errorf("integer constant linked against %s", TypeString(rt))
	case compile.ConstantDouble:
		return wm.Double(float64(c)), nil
	case compile.ConstantString:
		return wm.Binary([]byte(string(c))), nil
	case compile.ConstantList:
		l, ok := rt.(*compile.ListSpec)
		if !ok {
			return wm.W{}, fmt.Errorf("list constant linked against %s", TypeString(rt))
		}
		w := wm.W{K: wm.KList, EK: wm.Kind(compile.RootTypeSpec(l.ValueSpec).TypeCode())}
		for _, it := range c {
			e, err := ConstW(it, l.ValueSpec)
			if err != nil {
				return wm.W{}, err
			}
			w.Elems = append(w.Elems, e)
		}
		return w, nil
	case compile.ConstantSet:
		s, ok := rt.(*compile.SetSpec)
		if !ok {
			return wm.W{}, fmt.Errorf("set constant linked against %s", TypeString(rt))
		}
		w := wm.W{K: wm.KSet, EK: wm.Kind(compile.RootTypeSpec(s.ValueSpec).TypeCode())}
		for _, it := range c {
			e, err := ConstW(it, s.ValueSpec)
			if err != nil {
				return wm.W{}, err
			}
			w.Elems = append(w.Elems, e)
		}
		return w, nil
	case compile.ConstantMap:
		m, ok := rt.(*compile.MapSpec)
		if !ok {
			return wm.W{}, fmt.Errorf("map constant linked against %s", TypeString(rt))
		}
		w := wm.W{K: wm.KMap, KK: wm.Kind(compile.RootTypeSpec(m.KeySpec).TypeCode()), VK: wm.Kind(compile.RootTypeSpec(m.ValueSpec).TypeCode())}
		for _, pr := range c {
			k, err := ConstW(pr.Key, m.KeySpec)
			if err != nil {
				return wm.W{}, err
			}
			vv, err := ConstW(pr.Value, m.ValueSpec)
			if err != nil {
				return wm.W{}, err
			}
			w.Pairs = append(w.Pairs, wm.Pair{K: k, V: vv})
		}
		return w, nil
	case *compile.ConstantStruct:
		s, ok := rt.(*compile.StructSpec)
		if !ok {
			return wm.W{}, fmt.Errorf("struct constant linked against %s", TypeString(rt))
		}
		w := wm.Struct()
		for _, f := range s.Fields {
			fv, ok := c.Fields[f.Name]
			if !ok {
				continue
			}
			x, err := ConstW(fv, f.Type)
			if err != nil {
				return wm.W{}, err
			}
			w.Fields = append(w.Fields, wm.Field{ID: f.ID, V: x})
		}
		return w, nil
	case compile.EnumItemReference:
		if e, ok := rt.(*compile.EnumSpec); !ok || e != c.Enum {
			return wm.W{}, fmt.Errorf("enum item of %s linked against %s", c.Enum.Name, TypeString(rt))
		}
		return wm.I32(c.Item.Value), nil
	case compile.ConstReference:
		if c.Target == nil || c.Target.Value == nil {
			return wm.W{}, fmt.Errorf("unresolved constant reference")
		}
		return ConstW(c.Target.Value, c.Target.Type)
	case nil:
		return wm.W{}, fmt.Errorf("nil constant value")
	}
	return wm.W{}, fmt.Errorf("unlinked constant value %T", v)
}

func structKind(s *compile.StructSpec) string {
	switch s.Type {
	case ast.UnionType:
		return "union"
	case ast.ExceptionType:
		return "exception"
	}
	return "struct"
}

func fieldLines(sb *strings.Builder, indent string, fs compile.FieldGroup) {
	for _, f := range fs {
		fmt.Fprintf(sb, "%s%d %s %s required=%v", indent, f.ID, f.Name, TypeString(f.Type), f.Required)
		if f.Default != nil {
			w, err := ConstW(f.Default, f.Type)
			if err != nil {
				fmt.Fprintf(sb, " default=<%v>", err)
			} else {
				fmt.Fprintf(sb, " default=%s", wm.Render(w))
			}
		}
		sb.WriteString("\n")
	}
}

// Module dumps the compiled module graph reachable from m.
func Module(m *compile.Module) string {
	var mods []*compile.Module
	seenPtr := map[string]*compile.Module{}
	shared := true
	var visit func(m *compile.Module)
	visit = func(m *compile.Module) {
		if prev, ok := seenPtr[m.ThriftPath]; ok {
			if prev != m {
				shared = false
			}
			return
		}
		seenPtr[m.ThriftPath] = m
		mods = append(mods, m)
		var names []string
		for n := range m.Includes {
			names = append(names, n)
		}
		sort.Strings(names)
		for _, n := range names {
			visit(m.Includes[n].Module)
		}
	}
	visit(m)
	sort.Slice(mods, func(i, j int) bool { return mods[i].ThriftPath < mods[j].ThriftPath })
	var sb strings.Builder
	fmt.Fprintf(&sb, "includes-shared=%v\n", shared)
	for _, m := range mods {
		fmt.Fprintf(&sb, "FILE %s\n", rel(m.ThriftPath))
		var incs []string
		for n, im := range m.Includes {
			incs = append(incs, n+"="+rel(im.Module.ThriftPath))
		}
		sort.Strings(incs)
		fmt.Fprintf(&sb, " includes %s\n", strings.Join(incs, " "))
		var tn []string
		for n := range m.Types {
			tn = append(tn, n)
		}
		sort.Strings(tn)
		for _, n := range tn {
			switch s := m.Types[n].(type) {
			case *compile.TypedefSpec:
				fmt.Fprintf(&sb, " typedef %s target=%s root=%s\n", n, TypeString(s.Target), TypeString(compile.RootTypeSpec(s)))
			case *compile.EnumSpec:
				fmt.Fprintf(&sb, " enum %s", n)
				for _, it := range s.Items {
					fmt.Fprintf(&sb, " %s=%d", it.Name, it.Value)
				}
				sb.WriteString("\n")
			case *compile.StructSpec:
				fmt.Fprintf(&sb, " %s %s\n", structKind(s), n)
				fieldLines(&sb, "  ", s.Fields)
			default:
				fmt.Fprintf(&sb, " ?type %s %T\n", n, s)
			}
		}
		var cn []string
		for n := range m.Constants {
			cn = append(cn, n)
		}
		sort.Strings(cn)
		for _, n := range cn {
			c := m.Constants[n]
			w, err := ConstW(c.Value, c.Type)
			if err != nil {
				fmt.Fprintf(&sb, " const %s %s = <%v>\n", n, TypeString(c.Type), err)
			} else {
				fmt.Fprintf(&sb, " const %s %s = %s\n", n, TypeString(c.Type), wm.Render(w))
			}
		}
		var sn []string
		for n := range m.Services {
			sn = append(sn, n)
		}
		sort.Strings(sn)
		for _, n := range sn {
			s := m.Services[n]
			par := "-"
			if s.Parent != nil {
				par = rel(s.Parent.File) + "#" + s.Parent.Name
			}
			fmt.Fprintf(&sb, " service %s parent=%s\n", n, par)
			var fn []string
			for k := range s.Functions {
				fn = append(fn, k)
			}
			sort.Strings(fn)
			for _, k := range fn {
				f := s.Functions[k]
				fmt.Fprintf(&sb, "  func %s oneway=%v", k, f.OneWay)
				if f.ResultSpec != nil {
					fmt.Fprintf(&sb, " ret=%s", TypeString(f.ResultSpec.ReturnType))
				}
				sb.WriteString("\n")
				fieldLines(&sb, "   arg ", compile.FieldGroup(f.ArgsSpec))
				if f.ResultSpec != nil {
					fieldLines(&sb, "   exc ", f.ResultSpec.Exceptions)
				}
			}
		}
	}
	return sb.String()
}

// ---------------------------------------------------------------- from the model

func modelType(p *im.Program, t *im.Type) string {
	switch t.K {
	case im.TList:
		return "list<" + modelType(p, t.Elem) + ">"
	case im.TSet:
		return "set<" + modelType(p, t.Elem) + ">"
	case im.TMap:
		return "map<" + modelType(p, t.Key) + "," + modelType(p, t.Val) + ">"
	case im.TRef:
		d := p.Lookup(*t.Ref)
		if d == nil {
			return "<dangling " + t.Ref.Key() + ">"
		}
		switch d.Kind {
		case im.DTypedef:
			return "typedef:" + t.Ref.Key()
		case im.DEnum:
			return "enum:" + t.Ref.Key()
		default:
			return "struct:" + t.Ref.Key()
		}
	}
	return t.K
}

func modelFields(p *im.Program, sb *strings.Builder, indent string, fs []*im.Field, defaultReq bool) {
	for _, f := range fs {
		fmt.Fprintf(sb, "%s%d %s %s required=%v", indent, f.ID, f.Name, modelType(p, f.Type), f.Required())
		if f.Default != nil {
			w, err := p.Eval(f.Default, f.Type)
			if err != nil {
				fmt.Fprintf(sb, " default=<%v>", err)
			} else {
				fmt.Fprintf(sb, " default=%s", wm.Render(w))
			}
		}
		sb.WriteString("\n")
	}
}

// Model dumps what the reference semantics say the compiled graph must be
// (only files reachable from the entry file, like the compiler).
func Model(p *im.Program) string {
	p.Index()
	reach := map[string]bool{}
	var visit func(path string)
	visit = func(pth string) {
		if reach[pth] {
			return
		}
		reach[pth] = true
		for _, i := range p.FileOf(pth).Includes {
			visit(i)
		}
	}
	visit(p.Files[0].Path)
	var files []*im.File
	for _, f := range p.Files {
		if reach[f.Path] {
			files = append(files, f)
		}
	}
	sort.Slice(files, func(i, j int) bool { return files[i].Path < files[j].Path })
	var sb strings.Builder
	sb.WriteString("includes-shared=true\n")
	for _, f := range files {
		fmt.Fprintf(&sb, "FILE %s\n", f.Path)
		var incs []string
		for _, i := range f.Includes {
			incs = append(incs, im.IncludeName(i)+"="+i)
		}
		sort.Strings(incs)
		fmt.Fprintf(&sb, " includes %s\n", strings.Join(incs, " "))
		defs := append([]*im.Def{}, f.Defs...)
		sort.Slice(defs, func(i, j int) bool { return defs[i].Name < defs[j].Name })
		for _, d := range defs {
			switch d.Kind {
			case im.DTypedef:
				fmt.Fprintf(&sb, " typedef %s target=%s root=%s\n", d.Name, modelType(p, d.Target), modelType(p, p.Root(d.Target)))
			case im.DEnum:
				fmt.Fprintf(&sb, " enum %s", d.Name)
				for _, it := range d.Items {
					fmt.Fprintf(&sb, " %s=%d", it.Name, int32(it.Value))
				}
				sb.WriteString("\n")
			case im.DStruct, im.DUnion, im.DException:
				fmt.Fprintf(&sb, " %s %s\n", d.Kind, d.Name)
				modelFields(p, &sb, "  ", d.Fields, false)
			}
		}
		for _, d := range defs {
			if d.Kind != im.DConst {
				continue
			}
			w, err := p.Eval(d.Value, d.Type)
			if err != nil {
				fmt.Fprintf(&sb, " const %s %s = <%v>\n", d.Name, modelType(p, d.Type), err)
			} else {
				fmt.Fprintf(&sb, " const %s %s = %s\n", d.Name, modelType(p, d.Type), wm.Render(w))
			}
		}
		for _, d := range defs {
			if d.Kind != im.DService {
				continue
			}
			par := "-"
			if d.Parent != nil {
				par = d.Parent.Key()
			}
			fmt.Fprintf(&sb, " service %s parent=%s\n", d.Name, par)
			fns := append([]*im.Func{}, d.Funcs...)
			sort.Slice(fns, func(i, j int) bool { return fns[i].Name < fns[j].Name })
			for _, fn := range fns {
				fmt.Fprintf(&sb, "  func %s oneway=%v", fn.Name, fn.OneWay)
				if !fn.OneWay {
					if fn.Ret == nil {
						sb.WriteString(" ret=<nil>")
					} else {
						fmt.Fprintf(&sb, " ret=%s", modelType(p, fn.Ret))
					}
				}
				sb.WriteString("\n")
				modelFields(p, &sb, "   arg ", fn.Args, false)
				if !fn.OneWay {
					modelFields(p, &sb, "   exc ", fn.Throws, false)
				}
			}
		}
	}
	return sb.String()
}

// FirstDiff returns the first differing line pair of two dumps.
func FirstDiff(a, b string) string {
	al, bl := strings.Split(a, "\n"), strings.Split(b, "\n")
	for i := 0; i < len(al) || i < len(bl); i++ {
		var x, y string
		if i < len(al) {
			x = al[i]
		}
		if i < len(bl) {
			y = bl[i]
		}
		if x != y {
			return fmt.Sprintf("line %d:\n  A: %s\n  B: %s", i+1, x, y)
		}
	}
	return ""
}

var _ = math.MaxInt32
