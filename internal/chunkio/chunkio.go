// Package chunkio provides io.Readers that deliver a byte string in a
// prescribed segmentation, with and without Seek, and count consumption.
package chunkio

import (
	"bufio"
	"bytes"
	"errors"
	"io"
	"strings"
)

// Concrete source types (Plan.Src, AtPlan.Src). Library code may special-case
// the dynamic type of the reader it is handed (a *bytes.Buffer can drop bytes
// in place, a *bytes.Reader can seek, a *bufio.Reader can peek): a property
// quantified over "any io.Reader" has to be exercised over the usual ones.
const (
	SrcChunk         = ""                 // this package's own Reader / SeekReader (segmentation per plan)
	SrcBytesBuffer   = "bytes.Buffer"     // *bytes.Buffer: io.Reader, io.ByteReader, io.WriterTo; no Seek
	SrcBytesReader   = "bytes.Reader"     // *bytes.Reader: also io.Seeker and io.ReaderAt
	SrcStringsReader = "strings.Reader"   // *strings.Reader: like *bytes.Reader
	SrcBufio         = "bufio.Reader"     // *bufio.Reader (16-byte buffer) over this package's non-seekable Reader
	SrcSection       = "io.SectionReader" // *io.SectionReader over a *bytes.Reader: Reader, Seeker, ReaderAt
	SrcPlainAt       = "plain"            // AtPlan only: a type that is an io.ReaderAt and nothing else
)

// StreamSrcs are the concrete types New can produce besides SrcChunk.
var StreamSrcs = []string{SrcBytesBuffer, SrcBytesReader, SrcStringsReader, SrcBufio, SrcSection}

// Plan describes how a byte string is delivered.
type Plan struct {
	// Sizes are the successive maximum read sizes; 0 means "return (0, nil)"
	// once (only used when ZeroOK). After the list is exhausted Rest applies.
	Sizes []int `json:"sizes,omitempty"`
	// Rest is the chunk size used after Sizes is exhausted (0 = unlimited).
	Rest int `json:"rest,omitempty"`
	// Seekable exposes io.Seeker.
	Seekable bool `json:"seekable,omitempty"`
	// EOFWithData makes the final read return (n, io.EOF) instead of (n, nil)
	// followed by (0, io.EOF); both are allowed by io.Reader.
	EOFWithData bool `json:"eof_with_data,omitempty"`
	// Src selects a concrete source type instead of this package's reader ("" =
	// as ever, so that recorded plans replay unchanged). The standard types decide
	// segmentation, seekability and EOF behaviour themselves; Sizes / Rest / EOFWithData
	// then only apply beneath SrcBufio.
	Src string `json:"src,omitempty"`
}

// Reader delivers data per plan and counts bytes handed out.
type Reader struct {
	data []byte
	pos  int
	plan Plan
	step int
	// Consumed is the highest offset handed out / seeked to.
	Reads int
}

// New returns a reader for data. If plan.Seekable the result also implements
// io.Seeker (use NewSeekable to get that static type).
func New(data []byte, plan Plan) io.Reader {
	r, _ := Open(data, plan)
	return r
}

// Open is New plus a function that tells how many bytes of data the consumer
// has taken so far (for a *bufio.Reader: handed out by it, not read ahead by it).
func Open(data []byte, plan Plan) (io.Reader, func() int) {
	seekPos := func(s io.Seeker) func() int {
		return func() int { p, _ := s.Seek(0, io.SeekCurrent); return int(p) }
	}
	switch plan.Src {
	case SrcBytesBuffer:
		b := bytes.NewBuffer(append([]byte(nil), data...))
		return b, func() int { return len(data) - b.Len() }
	case SrcBytesReader:
		r := bytes.NewReader(data)
		return r, seekPos(r)
	case SrcStringsReader:
		r := strings.NewReader(string(data))
		return r, seekPos(r)
	case SrcSection:
		r := io.NewSectionReader(bytes.NewReader(data), 0, int64(len(data)))
		return r, seekPos(r)
	case SrcBufio:
		p := plan
		p.Seekable, p.Src = false, ""
		in := &Reader{data: data, plan: p}
		br := bufio.NewReaderSize(in, 16)
		return br, func() int { return in.pos - br.Buffered() }
	}
	r := newChunk(data, plan)
	return r, func() int { return PosOf(r) }
}

func newChunk(data []byte, plan Plan) io.Reader {
	r := &Reader{data: data, plan: plan}
	if plan.Seekable {
		return &SeekReader{r}
	}
	return r
}

// Pos returns the current offset.
func (r *Reader) Pos() int { return r.pos }

func (r *Reader) Read(p []byte) (int, error) {
	r.Reads++
	if len(p) == 0 {
		return 0, nil
	}
	max := r.plan.Rest
	if r.step < len(r.plan.Sizes) {
		max = r.plan.Sizes[r.step]
		r.step++
		if max == 0 {
			return 0, nil // zero-length read, permitted (discouraged) by io.Reader
		}
	}
	if r.pos >= len(r.data) {
		return 0, io.EOF
	}
	n := len(p)
	if max > 0 && n > max {
		n = max
	}
	if n > len(r.data)-r.pos {
		n = len(r.data) - r.pos
	}
	copy(p, r.data[r.pos:r.pos+n])
	r.pos += n
	if r.plan.EOFWithData && r.pos == len(r.data) {
		return n, io.EOF
	}
	return n, nil
}

// SeekReader is a Reader that can also Seek.
type SeekReader struct{ *Reader }

// Seek implements io.Seeker with the semantics of bytes.Reader (seeking past
// the end is allowed; before the start is an error).
func (s *SeekReader) Seek(offset int64, whence int) (int64, error) {
	var abs int64
	switch whence {
	case io.SeekStart:
		abs = offset
	case io.SeekCurrent:
		abs = int64(s.pos) + offset
	case io.SeekEnd:
		abs = int64(len(s.data)) + offset
	default:
		return 0, errors.New("chunkio: bad whence")
	}
	if abs < 0 {
		return 0, errors.New("chunkio: negative position")
	}
	if abs > int64(len(s.data)) {
		// keep pos as an int within range semantics of bytes.Reader: reads return EOF
		s.pos = int(abs)
		return abs, nil
	}
	s.pos = int(abs)
	return abs, nil
}

// PosOf returns the current offset of a reader made by New.
func PosOf(r io.Reader) int {
	switch x := r.(type) {
	case *Reader:
		return x.pos
	case *SeekReader:
		return x.pos
	case *bytes.Reader, *strings.Reader, *io.SectionReader:
		p, _ := x.(io.Seeker).Seek(0, io.SeekCurrent)
		return int(p)
	}
	return -1
}

// IsSeeker reports whether the reader New makes for the plan is an io.Seeker.
func (p Plan) IsSeeker() bool {
	switch p.Src {
	case SrcChunk:
		return p.Seekable
	case SrcBytesReader, SrcStringsReader, SrcSection:
		return true
	}
	return false
}

// ---------------------------------------------------------------- io.ReaderAt sources

// AtPlan describes an io.ReaderAt over a byte string. Short reads are not part
// of it: ReadAt must fill p unless the data ends (io.ReaderAt contract).
type AtPlan struct {
	// Src: "" = *bytes.Reader, SrcStringsReader, SrcSection, or SrcPlainAt.
	Src string `json:"src,omitempty"`
	// EagerEOF (SrcPlainAt only): a read whose last byte is the last byte of the
	// data returns io.EOF together with the bytes; otherwise (as bytes.Reader,
	// strings.Reader, os.File do) nil, and io.EOF only on a read beyond the end.
	// The io.ReaderAt contract allows both.
	EagerEOF bool `json:"eager_eof,omitempty"`
}

// Class names the plan for histograms.
func (p AtPlan) Class() string {
	s := p.Src
	if s == "" {
		s = SrcBytesReader
	}
	if p.EagerEOF && p.Src == SrcPlainAt {
		s += "+eager-eof"
	}
	return "readerat:" + s
}

// PlainAt is an io.ReaderAt and nothing else.
type PlainAt struct {
	data  []byte
	eager bool
	// Reads counts the calls.
	Reads int
}

// ReadAt implements io.ReaderAt.
func (r *PlainAt) ReadAt(p []byte, off int64) (int, error) {
	r.Reads++
	if off < 0 {
		return 0, errors.New("chunkio: negative offset")
	}
	if off >= int64(len(r.data)) {
		return 0, io.EOF
	}
	n := copy(p, r.data[off:])
	if n < len(p) {
		return n, io.EOF
	}
	if r.eager && n > 0 && off+int64(n) == int64(len(r.data)) {
		return n, io.EOF
	}
	return n, nil
}

// NewAt returns the io.ReaderAt the plan describes.
func NewAt(data []byte, p AtPlan) io.ReaderAt {
	switch p.Src {
	case SrcStringsReader:
		return strings.NewReader(string(data))
	case SrcSection:
		return io.NewSectionReader(bytes.NewReader(data), 0, int64(len(data)))
	case SrcPlainAt:
		return &PlainAt{data: data, eager: p.EagerEOF}
	}
	return bytes.NewReader(data)
}
