// Package chunkio provides io.Readers that deliver a byte string in a
// prescribed segmentation, with and without Seek, and count consumption.
package chunkio

import (
	"errors"
	"io"
)

// Plan describes how a byte string is delivered.
type Plan struct {
	// Sizes are the successive maximum read sizes; 0 means "return (0, nil)"
	// once (only used when ZeroOK). After the list is exhausted Rest applies.
	Sizes []int `json:"sizes,omitempty"`
	// Rest is the chunk size used after Sizes is exhausted (0 = unlimited).
	Rest int `json:"rest,omitempty"`
	// Seekable exposes io.Seeker.
	Seekable bool `json:"seekable,omitempty"`
	// EOFWithData makes the final read return (n, io.EOF) instead of (n, nil)
	// followed by (0, io.EOF); both are allowed by io.Reader.
	EOFWithData bool `json:"eof_with_data,omitempty"`
}

// Reader delivers data per plan and counts bytes handed out.
type Reader struct {
	data []byte
	pos  int
	plan Plan
	step int
	// Consumed is the highest offset handed out / seeked to.
	Reads int
}

// New returns a reader for data. If plan.Seekable the result also implements
// io.Seeker (use NewSeekable to get that static type).
func New(data []byte, plan Plan) io.Reader {
	r := &Reader{data: data, plan: plan}
	if plan.Seekable {
		return &SeekReader{r}
	}
	return r
}

// Pos returns the current offset.
func (r *Reader) Pos() int { return r.pos }

func (r *Reader) Read(p []byte) (int, error) {
	r.Reads++
	if len(p) == 0 {
		return 0, nil
	}
	max := r.plan.Rest
	if r.step < len(r.plan.Sizes) {
		max = r.plan.Sizes[r.step]
		r.step++
		if max == 0 {
			return 0, nil // zero-length read, permitted (discouraged) by io.Reader
		}
	}
	if r.pos >= len(r.data) {
		return 0, io.EOF
	}
	n := len(p)
	if max > 0 && n > max {
		n = max
	}
	if n > len(r.data)-r.pos {
		n = len(r.data) - r.pos
	}
	copy(p, r.data[r.pos:r.pos+n])
	r.pos += n
	if r.plan.EOFWithData && r.pos == len(r.data) {
		return n, io.EOF
	}
	return n, nil
}

// SeekReader is a Reader that can also Seek.
type SeekReader struct{ *Reader }

// Seek implements io.Seeker with the semantics of bytes.Reader (seeking past
// the end is allowed; before the start is an error).
func (s *SeekReader) Seek(offset int64, whence int) (int64, error) {
	var abs int64
	switch whence {
	case io.SeekStart:
		abs = offset
	case io.SeekCurrent:
		abs = int64(s.pos) + offset
	case io.SeekEnd:
		abs = int64(len(s.data)) + offset
	default:
		return 0, errors.New("chunkio: bad whence")
	}
	if abs < 0 {
		return 0, errors.New("chunkio: negative position")
	}
	if abs > int64(len(s.data)) {
		// keep pos as an int within range semantics of bytes.Reader: reads return EOF
		s.pos = int(abs)
		return abs, nil
	}
	s.pos = int(abs)
	return abs, nil
}

// PosOf returns the current offset of a reader made by New.
func PosOf(r io.Reader) int {
	switch x := r.(type) {
	case *Reader:
		return x.pos
	case *SeekReader:
		return x.pos
	}
	return -1
}
