package chunkio

import "pgregory.net/rapid"

// GenPlan draws a segmentation plan: whole, one byte at a time, random splits,
// optionally with zero-length reads, seekable or not.
func GenPlan(t *rapid.T, label string) Plan {
	p := Plan{Seekable: rapid.Bool().Draw(t, label+"_seek"), EOFWithData: rapid.Bool().Draw(t, label+"_eofdata")}
	switch rapid.IntRange(0, 3).Draw(t, label+"_mode") {
	case 0: // whole
	case 1:
		p.Rest = 1
	case 2:
		p.Rest = rapid.IntRange(1, 9).Draw(t, label+"_rest")
		p.Sizes = rapid.SliceOfN(rapid.IntRange(1, 7), 0, 12).Draw(t, label+"_sizes")
	case 3:
		p.Rest = rapid.IntRange(1, 5).Draw(t, label+"_rest")
		p.Sizes = rapid.SliceOfN(rapid.IntRange(0, 4), 0, 12).Draw(t, label+"_zsizes")
	}
	return p
}

// Class names the plan for histograms.
func (p Plan) Class() string {
	s := "chunk:whole"
	zero := false
	for _, x := range p.Sizes {
		if x == 0 {
			zero = true
		}
	}
	switch {
	case zero:
		s = "chunk:zero-reads"
	case p.Rest == 1 && len(p.Sizes) == 0:
		s = "chunk:1-byte"
	case p.Rest > 0 || len(p.Sizes) > 0:
		s = "chunk:random"
	}
	if p.Seekable {
		s += "+seek"
	}
	return s
}
