package chunkio

import "pgregory.net/rapid"

// GenPlan draws a segmentation plan: whole, one byte at a time, random splits,
// optionally with zero-length reads, seekable or not.
func GenPlan(t *rapid.T, label string) Plan {
	p := Plan{Seekable: rapid.Bool().Draw(t, label+"_seek"), EOFWithData: rapid.Bool().Draw(t, label+"_eofdata")}
	switch rapid.IntRange(0, 3).Draw(t, label+"_mode") {
	case 0: // whole
	case 1:
		p.Rest = 1
	case 2:
		p.Rest = rapid.IntRange(1, 9).Draw(t, label+"_rest")
		p.Sizes = rapid.SliceOfN(rapid.IntRange(1, 7), 0, 12).Draw(t, label+"_sizes")
	case 3:
		p.Rest = rapid.IntRange(1, 5).Draw(t, label+"_rest")
		p.Sizes = rapid.SliceOfN(rapid.IntRange(0, 4), 0, 12).Draw(t, label+"_zsizes")
	}
	return p
}

// GenSrcPlan is GenPlan where, in two cases of five, the source is one of the
// usual concrete reader types instead of this package's own (Plan.Src).
func GenSrcPlan(t *rapid.T, label string) Plan {
	p := GenPlan(t, label)
	if rapid.IntRange(0, 4).Draw(t, label+"_concrete") < 2 {
		p.Src = rapid.SampledFrom(StreamSrcs).Draw(t, label+"_src")
	}
	return p
}

// GenAtPlan draws an io.ReaderAt: half the time the plain one (eager EOF or
// not), else one of the standard types.
func GenAtPlan(t *rapid.T, label string) AtPlan {
	switch rapid.IntRange(0, 5).Draw(t, label+"_at") {
	case 0, 1:
		return AtPlan{Src: SrcPlainAt, EagerEOF: true}
	case 2:
		return AtPlan{Src: SrcPlainAt}
	case 3:
		return AtPlan{Src: SrcStringsReader}
	case 4:
		return AtPlan{Src: SrcSection}
	}
	return AtPlan{}
}

// Class names the plan for histograms.
func (p Plan) Class() string {
	if p.Src != "" {
		return "chunk:src=" + p.Src
	}
	s := "chunk:whole"
	zero := false
	for _, x := range p.Sizes {
		if x == 0 {
			zero = true
		}
	}
	switch {
	case zero:
		s = "chunk:zero-reads"
	case p.Rest == 1 && len(p.Sizes) == 0:
		s = "chunk:1-byte"
	case p.Rest > 0 || len(p.Sizes) > 0:
		s = "chunk:random"
	}
	if p.Seekable {
		s += "+seek"
	}
	return s
}
