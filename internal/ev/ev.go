// Package ev is the bookkeeping shared by every check binary: it counts cases,
// distinct non-trivial cases, class histograms and samples, records failures
// as self-contained replay files, classifies failures against the committed
// known-findings file, and dumps everything for the orchestrator (cmd/vcheck)
// to merge into /verif/evidence/<id>.json.
package ev

import (
	"bufio"
	"crypto/sha256"
	"encoding/binary"
	"encoding/hex"
	"encoding/json"
	"fmt"
	"os"
	"path/filepath"
	"runtime/debug"
	"sort"
	"strings"
	"sync"
	"testing"
)

// Failure is one recorded violation; it is also the replay-file format.
type Failure struct {
	Property string          `json:"property"`
	Unit     string          `json:"unit"` // which oracle function replays it
	Key      string          `json:"key"`  // classifier key (where/how it fails)
	Msg      string          `json:"msg"`
	Case     json.RawMessage `json:"case"`
}

// Known is one line of known_findings.txt.
type Known struct {
	Status   string `json:"status"` // open | fixed
	Property string `json:"property"`
	Key      string `json:"key"` // exact key or prefix ending in '*'
	What     string `json:"what"`
	Repro    string `json:"repro,omitempty"`
	Commit   string `json:"commit,omitempty"`
}

// Stats is what a shard dumps.
type Stats struct {
	Property    string            `json:"property"`
	Evaluations int64             `json:"evaluations"`
	Nontrivial  []uint64          `json:"nontrivial"` // digests of distinct non-trivial cases
	Classes     map[string]int64  `json:"classes"`
	Samples     []Sample          `json:"samples"`
	KnownHits   map[string]int64  `json:"known_hits"`
	Failures    []string          `json:"failures"` // replay file paths
	Notes       map[string]string `json:"notes,omitempty"`
	Exhaustive  map[string]bool   `json:"exhaustive,omitempty"`
}

// Sample is one rendered case kept for the evidence file.
type Sample struct {
	Digest uint64      `json:"-"`
	Unit   string      `json:"unit"`
	Case   interface{} `json:"case"`
}

var (
	mu         sync.Mutex
	property   string
	evals      int64
	nontrivial = map[uint64]struct{}{}
	classes    = map[string]int64{}
	samples    = map[string][]Sample{} // per unit, the maxSamples smallest digests
	knownHits  = map[string]int64{}
	failures   = map[string]*Failure{} // by unit: last failure wins (rapid re-runs the shrunk case last)
	notes      = map[string]string{}
	exhaustive = map[string]bool{}
	known      []Known
	knownOnce  sync.Once
)

const maxSamplesPerUnit = 3

// Tier returns "quick" or "thorough".
func Tier() string {
	if os.Getenv("VERIF_TIER") == "thorough" {
		return "thorough"
	}
	return "quick"
}

// Thorough reports whether the thorough tier is running.
func Thorough() bool { return Tier() == "thorough" }

// Root returns the /verif directory.
func Root() string {
	if r := os.Getenv("VERIF_ROOT"); r != "" {
		return r
	}
	return "/verif"
}

// Repo returns the repository under test.
func Repo() string {
	if r := os.Getenv("VERIF_REPO"); r != "" {
		return r
	}
	return "/repo"
}

// Digest hashes the canonical bytes of a case.
func Digest(parts ...[]byte) uint64 {
	h := sha256.New()
	var l [8]byte
	for _, p := range parts {
		binary.BigEndian.PutUint64(l[:], uint64(len(p)))
		h.Write(l[:])
		h.Write(p)
	}
	return binary.BigEndian.Uint64(h.Sum(nil)[:8])
}

// DigestJSON hashes the JSON form of v.
func DigestJSON(v interface{}) uint64 {
	b, _ := json.Marshal(v)
	return Digest(b)
}

// Case records one executed case. digest identifies it; nontriv says whether it
// satisfies the property's stated non-triviality rule; classes feed the
// histogram.
func Case(digest uint64, nontriv bool, cls ...string) {
	mu.Lock()
	evals++
	if nontriv {
		nontrivial[digest] = struct{}{}
	}
	for _, c := range cls {
		if c != "" {
			classes[c]++
		}
	}
	mu.Unlock()
}

// Class bumps histogram counters without counting a case.
func Class(cls ...string) {
	mu.Lock()
	for _, c := range cls {
		if c != "" {
			classes[c]++
		}
	}
	mu.Unlock()
}

// ClassN adds n to a histogram counter.
func ClassN(c string, n int64) {
	mu.Lock()
	classes[c] += n
	mu.Unlock()
}

// Note records a free-text fact for the evidence file.
func Note(k, v string) {
	mu.Lock()
	notes[k] = v
	mu.Unlock()
}

// Exhaustive marks a named finite sub-space as completely enumerated.
func Exhaustive(name string, done bool) {
	mu.Lock()
	exhaustive[name] = done
	mu.Unlock()
}

// KeepSample offers a case as an evidence sample; the few with the smallest
// digests per unit are kept (deterministic, independent of order). render is
// only called if the sample is kept.
func KeepSample(unit string, digest uint64, render func() interface{}) {
	mu.Lock()
	defer mu.Unlock()
	ss := samples[unit]
	if len(ss) >= maxSamplesPerUnit && digest >= ss[len(ss)-1].Digest {
		return
	}
	for _, s := range ss {
		if s.Digest == digest {
			return
		}
	}
	ss = append(ss, Sample{Digest: digest, Unit: unit, Case: render()})
	sort.Slice(ss, func(i, j int) bool { return ss[i].Digest < ss[j].Digest })
	if len(ss) > maxSamplesPerUnit {
		ss = ss[:maxSamplesPerUnit]
	}
	samples[unit] = ss
}

func loadKnown() {
	knownOnce.Do(func() {
		f, err := os.Open(filepath.Join(Root(), "known_findings.txt"))
		if err != nil {
			return
		}
		defer f.Close()
		sc := bufio.NewScanner(f)
		sc.Buffer(make([]byte, 1<<20), 1<<20)
		for sc.Scan() {
			line := strings.TrimSpace(sc.Text())
			if line == "" || strings.HasPrefix(line, "#") {
				continue
			}
			var k Known
			if json.Unmarshal([]byte(line), &k) == nil {
				known = append(known, k)
			}
		}
	})
}

// IsKnown reports whether key is an open known finding of the property, and
// returns its description.
func IsKnown(prop, key string) (string, bool) {
	loadKnown()
	for _, k := range known {
		if k.Status != "open" || k.Property != prop {
			continue
		}
		if k.Key == key || globMatch(k.Key, key) {
			return k.Key + " :: " + k.What, true
		}
	}
	return "", false
}

// globMatch matches key against a pattern in which '*' stands for any run of
// characters other than '/'.
func globMatch(pattern, key string) bool {
	if !strings.Contains(pattern, "*") {
		return false
	}
	pp, kk := strings.Split(pattern, "/"), strings.Split(key, "/")
	if len(pp) != len(kk) {
		return false
	}
	for i := range pp {
		if pp[i] == "*" {
			continue
		}
		if strings.Contains(pp[i], "*") {
			parts := strings.SplitN(pp[i], "*", 2)
			if !strings.HasPrefix(kk[i], parts[0]) || !strings.HasSuffix(kk[i], parts[1]) || len(kk[i]) < len(parts[0])+len(parts[1]) {
				return false
			}
			continue
		}
		if pp[i] != kk[i] {
			return false
		}
	}
	return true
}

// TB is the subset of testing.TB / rapid.T the package needs.
type TB interface {
	Fatalf(format string, args ...interface{})
	Errorf(format string, args ...interface{})
}

var softMode = map[string]bool{}

// violation reports that the oracle of unit rejected c. If key is an open known
// finding it is counted and false is returned (the caller carries on);
// otherwise the failure is recorded for the replay file and t.Fatalf is called.
func violation(t TB, soft bool, unit, key string, c interface{}, format string, args ...interface{}) bool {
	msg := fmt.Sprintf(format, args...)
	if what, ok := IsKnown(property, key); ok {
		mu.Lock()
		knownHits[what]++
		mu.Unlock()
		return false
	}
	raw, err := json.Marshal(c)
	if err != nil {
		raw, _ = json.Marshal(fmt.Sprintf("unmarshalable case: %v", err))
	}
	mu.Lock()
	if _, seen := failures[unit+"\x00"+key]; !seen || !soft {
		failures[unit+"\x00"+key] = &Failure{Property: property, Unit: unit, Key: key, Msg: msg, Case: raw}
	}
	mu.Unlock()
	if soft {
		t.Errorf("[%s] %s: %s", unit, key, msg)
		return true
	}
	t.Fatalf("[%s] %s: %s", unit, key, msg)
	return true
}

// Violation is violation that stops the test.
func Violation(t TB, unit, key string, c interface{}, format string, args ...interface{}) bool {
	return violation(t, false, unit, key, c, format, args...)
}

// Guard runs f and converts a panic into an error that carries the stack.
func Guard(f func() error) (err error) {
	defer func() {
		if r := recover(); r != nil {
			err = &PanicError{Value: fmt.Sprint(r), Stack: string(debug.Stack())}
		}
	}()
	return f()
}

// PanicError is a recovered panic.
type PanicError struct {
	Value string
	Stack string
}

func (p *PanicError) Error() string { return "panic: " + p.Value + "\n" + p.Stack }

// CheckErr is an oracle verdict with a classifier key.
type CheckErr struct {
	Key string
	Msg string
}

func (e *CheckErr) Error() string { return e.Key + ": " + e.Msg }

// Errf builds a CheckErr.
func Errf(key, format string, args ...interface{}) error {
	return &CheckErr{Key: key, Msg: fmt.Sprintf(format, args...)}
}

// Report turns the verdict of an oracle function into bookkeeping: nil is
// fine; a *CheckErr or a panic becomes a Violation (the test stops).
func Report(t TB, unit string, c interface{}, err error) { report(t, false, unit, c, err) }

// ReportSoft is Report for enumerated grids: the failure is recorded (one replay
// file per distinct key, the first case seen) and the test carries on so that
// every distinct failure of the grid is seen in one run.
func ReportSoft(t TB, unit string, c interface{}, err error) { report(t, true, unit, c, err) }

func report(t TB, soft bool, unit string, c interface{}, err error) {
	if err == nil {
		return
	}
	switch e := err.(type) {
	case *CheckErr:
		violation(t, soft, unit, e.Key, c, "%s", e.Msg)
	case *PanicError:
		violation(t, soft, unit, unit+"/panic", c, "%s", e.Error())
	default:
		violation(t, soft, unit, unit+"/error", c, "%v", err)
	}
}

// ReplayCase loads the replay file named by VERIF_REPLAY.
func ReplayCase() (*Failure, error) {
	p := os.Getenv("VERIF_REPLAY")
	b, err := os.ReadFile(p)
	if err != nil {
		return nil, err
	}
	var f Failure
	if err := json.Unmarshal(b, &f); err != nil {
		return nil, err
	}
	return &f, nil
}

// Main is called from TestMain of every check package.
func Main(m *testing.M, prop string) {
	property = prop
	// rapid replays testdata/rapid/*.fail first; never wanted here.
	os.RemoveAll("testdata/rapid")
	code := m.Run()
	os.RemoveAll("testdata/rapid")
	if err := dump(); err != nil {
		fmt.Fprintln(os.Stderr, "ev: dump:", err)
		if code == 0 {
			code = 2
		}
	}
	os.Exit(code)
}

func dump() error {
	mu.Lock()
	defer mu.Unlock()
	out := os.Getenv("VERIF_STATS")
	st := Stats{Property: property, Evaluations: evals, Classes: classes, KnownHits: knownHits, Notes: notes, Exhaustive: exhaustive}
	for d := range nontrivial {
		st.Nontrivial = append(st.Nontrivial, d)
	}
	sort.Slice(st.Nontrivial, func(i, j int) bool { return st.Nontrivial[i] < st.Nontrivial[j] })
	var units []string
	for u := range samples {
		units = append(units, u)
	}
	sort.Strings(units)
	for _, u := range units {
		st.Samples = append(st.Samples, samples[u]...)
	}
	if os.Getenv("VERIF_REPLAY") == "" {
		dir := os.Getenv("VERIF_REPLAY_DIR")
		if dir == "" {
			dir = filepath.Join(Root(), "replays", property)
		}
		var keys []string
		for k := range failures {
			keys = append(keys, k)
		}
		sort.Strings(keys)
		for _, k := range keys {
			f := failures[k]
			b, _ := json.MarshalIndent(f, "", " ")
			sum := sha256.Sum256(b)
			if err := os.MkdirAll(dir, 0o755); err != nil {
				return err
			}
			p := filepath.Join(dir, fmt.Sprintf("%s-%s.json", sanitize(f.Unit), hex.EncodeToString(sum[:6])))
			if err := os.WriteFile(p, b, 0o644); err != nil {
				return err
			}
			st.Failures = append(st.Failures, p)
			fmt.Printf("VERIF-FAIL %s key=%s\n", p, f.Key)
		}
	}
	if out == "" {
		return nil
	}
	b, err := json.Marshal(st)
	if err != nil {
		return err
	}
	return os.WriteFile(out, b, 0o644)
}

func sanitize(s string) string {
	var sb strings.Builder
	for _, r := range s {
		if (r >= 'a' && r <= 'z') || (r >= 'A' && r <= 'Z') || (r >= '0' && r <= '9') || r == '-' || r == '_' {
			sb.WriteRune(r)
		} else {
			sb.WriteByte('_')
		}
	}
	return sb.String()
}

// ReplayFunc re-runs the oracle on a saved case; it returns false if the unit
// is not one of this package's.
type ReplayFunc func(t *testing.T, f *Failure) bool

// RunReplay implements TestReplay.
func RunReplay(t *testing.T, replay ReplayFunc) {
	f, err := ReplayCase()
	if err != nil {
		t.Skip("no replay file (VERIF_REPLAY)")
	}
	if !replay(t, f) {
		t.Fatalf("unit %q is not replayable by this package", f.Unit)
	}
}

// RunRegress implements TestRegress: every saved case under regress/<property>/
// (cases of defects that were fixed, and hand-kept reproductions) is re-run
// through the same oracle without the generator library.
func RunRegress(t *testing.T, replay ReplayFunc) {
	files, _ := filepath.Glob(filepath.Join(Root(), "regress", property, "*.json"))
	sort.Strings(files)
	n := 0
	for _, p := range files {
		b, err := os.ReadFile(p)
		if err != nil {
			continue
		}
		var f Failure
		if json.Unmarshal(b, &f) != nil {
			continue
		}
		if skip := os.Getenv("VERIF_REGRESS_SKIP_UNITS"); skip != "" && f.Unit != "" {
			isLab := false
			for _, u := range strings.Split(skip, ",") {
				if u == f.Unit {
					isLab = true
				}
			}
			if isLab {
				continue // replayed in a lab by the orchestrator
			}
		}
		ok := t.Run(filepath.Base(p), func(t *testing.T) {
			if !replay(t, &f) {
				t.Skip("other package")
			}
			n++
			Case(Digest(b), true, "regress:"+filepath.Base(p))
		})
		_ = ok
	}
	Note("regress-files", fmt.Sprintf("%d saved cases re-run", n))
}
